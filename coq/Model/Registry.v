(* Model/Registry.v — executable model of utype/utils/base.py TypeRegistry.register / resolve
   (lines 29-107) over an abstract finite class hierarchy.  Hand-written; tied to the source
   by the `registry` correspondence suite (harness/c16.py), which drives a real TypeRegistry
   and this model with the same histories. *)
From UV Require Import PyVal.
From Coq Require Import Lia.
Open Scope Z_scope.

(* classes, converters, attributes, detectors are numbered *)
Definition cls := nat.
Definition conv := nat.

(* what the model needs to know about the classes involved *)
Record hier := {
  h_sub : cls -> cls -> bool;                 (* issubclass(c, d) *)
  h_meta : cls -> nat -> bool;                (* isinstance(c, metaclass m) *)
  h_attr : cls -> nat -> bool;                (* hasattr(c, attr a) *)
  h_det : nat -> cls -> option bool;          (* custom detector d on c; None = raises TypeError/ValueError *)
  h_shortcut : cls -> option conv             (* the class's own valid shortcut attribute, if any *)
}.

(* the criteria captured by `detector` (base.py 60-73), or a user detector *)
Inductive crit :=
| CStd (classes : list cls) (allow_subclasses : bool) (metaclass : option nat) (attr : option nat)
| CCustom (d : nat).

Definition detect (H : hier) (cr : crit) (c : cls) : option bool :=
  match cr with
  | CCustom d => h_det H d c
  | CStd classes allow_sub meta attr =>
      Some (
        (match classes with
         | [] => true
         | _ => if allow_sub then existsb (h_sub H c) classes
                else existsb (Nat.eqb c) classes
         end)
        && (match meta with Some m => h_meta H c m | None => true end)
        && (match attr with Some a => h_attr H c a | None => true end))
  end.

Record entry := { e_crit : crit; e_conv : conv; e_prio : Z }.

Record registry := {
  r_entries : list entry;            (* self._registry *)
  r_cache : list (cls * conv);       (* self._cache *)
  r_use_cache : bool;                (* self.cache *)
  r_default : option conv            (* self.default *)
}.

Definition empty_registry (use_cache : bool) (default : option conv) : registry :=
  {| r_entries := []; r_cache := []; r_use_cache := use_cache; r_default := default |}.

(* list.sort(key=lambda v: -v[2]) is a stable sort by descending priority *)
(* e came *before* everything in l: it moves behind entries of strictly greater priority
   and stays in front of entries of equal or lower priority *)
Fixpoint insert_front (e : entry) (l : list entry) : list entry :=
  match l with
  | [] => [e]
  | x :: r => if e_prio e <? e_prio x then x :: insert_front e r else e :: l
  end.
Fixpoint stable_sort_desc (l : list entry) : list entry :=
  match l with
  | [] => []
  | x :: r => insert_front x (stable_sort_desc r)
  end.

(* decorator(f) of register(...): insert at the front, sort, forget cached answers *)
Definition register (R : registry) (cr : crit) (f : conv) (prio : Z) : registry :=
  {| r_entries := stable_sort_desc ({| e_crit := cr; e_conv := f; e_prio := prio |} :: r_entries R);
     r_cache := [];
     r_use_cache := r_use_cache R;
     r_default := r_default R |}.

Fixpoint cache_get (c : cls) (l : list (cls * conv)) : option conv :=
  match l with
  | [] => None
  | (c', f) :: r => if Nat.eqb c c' then Some f else cache_get c r
  end.

(* the detector scan of resolve (base.py 96-103): first entry whose detector says True;
   a detector that raises TypeError/ValueError is skipped *)
Fixpoint scan (H : hier) (l : list entry) (c : cls) : option conv :=
  match l with
  | [] => None
  | e :: r => match detect H (e_crit e) c with
              | Some true => Some (e_conv e)
              | _ => scan H r c
              end
  end.

(* resolve on a chain of registries (a registry and its `base`s), returning the updated chain *)
Fixpoint resolve (H : hier) (chain : list registry) (c : cls) : list registry * option conv :=
  match chain with
  | [] => ([], None)
  | R :: base =>
      let hit := if r_use_cache R then cache_get c (r_cache R) else None in
      match hit with
      | Some f => (chain, Some f)
      | None =>
          match scan H (r_entries R) c with
          | Some f =>
              let R' := if r_use_cache R
                        then {| r_entries := r_entries R; r_cache := (c, f) :: r_cache R;
                                r_use_cache := true; r_default := r_default R |}
                        else R in
              (R' :: base, Some f)
          | None =>
              match base with
              | [] => (chain, r_default R)
              | _ => let '(base', res) := resolve H base c in (R :: base', res)
              end
          end
      end
  end.

(* the shortcut attribute comes first (base.py 91-93); only the head registry's shortcut is
   consulted because base registries are created with the same shortcut name in utype *)
Definition resolve_top (H : hier) (use_shortcut : bool) (chain : list registry) (c : cls)
  : list registry * option conv :=
  match (if use_shortcut then h_shortcut H c else None) with
  | Some f => (chain, Some f)
  | None => resolve H chain c
  end.

(* ---- histories ---- *)
Inductive rop :=
| OpRegister (which : nat) (cr : crit) (f : conv) (prio : Z)   (* on the which-th registry of the chain *)
| OpResolve (c : cls).

Fixpoint update_nth {A} (n : nat) (f : A -> A) (l : list A) : list A :=
  match l, n with
  | [], _ => []
  | x :: r, O => f x :: r
  | x :: r, S n' => x :: update_nth n' f r
  end.

Definition rstep (H : hier) (sc : bool) (chain : list registry) (o : rop)
  : list registry * option (option conv) :=
  match o with
  | OpRegister w cr f p => (update_nth w (fun R => register R cr f p) chain, None)
  | OpResolve c => let '(ch, r) := resolve_top H sc chain c in (ch, Some r)
  end.

Fixpoint rrun (H : hier) (sc : bool) (chain : list registry) (ops : list rop)
  : list (option conv) :=
  match ops with
  | [] => []
  | o :: r =>
      let '(ch, res) := rstep H sc chain o in
      match res with
      | Some x => x :: rrun H sc ch r
      | None => rrun H sc ch r
      end
  end.

(* ---- finite tables for the correspondence check ---- *)
Definition pair_in (a b : nat) (l : list (nat * nat)) : bool :=
  existsb (fun '(x, y) => Nat.eqb a x && Nat.eqb b y) l.
Fixpoint det_lookup (d c : nat) (l : list (nat * nat * option bool)) : option bool :=
  match l with
  | [] => Some false
  | (d', c', r) :: rest => if Nat.eqb d d' && Nat.eqb c c' then r else det_lookup d c rest
  end.
Definition mk_hier (sub meta attr : list (nat * nat)) (det : list (nat * nat * option bool))
  (shortcut : list (nat * nat)) : hier :=
  {| h_sub := fun c d => pair_in c d sub;
     h_meta := fun c m => pair_in c m meta;
     h_attr := fun c a => pair_in c a attr;
     h_det := fun d c => det_lookup d c det;
     h_shortcut := fun c => cache_get c shortcut |}.

Definition optnat_eqb (a b : option nat) : bool :=
  match a, b with
  | Some x, Some y => Nat.eqb x y
  | None, None => true
  | _, _ => false
  end.
Fixpoint optnats_eqb (a b : list (option nat)) : bool :=
  match a, b with
  | [], [] => true
  | x :: r, y :: s => optnat_eqb x y && optnats_eqb r s
  | _, _ => false
  end.

Record rcase := {
  rc_hier : hier; rc_shortcut : bool; rc_confs : list (bool * option conv);
  rc_ops : list rop; rc_expected : list (option conv)
}.
Definition rcase_ok (k : rcase) : bool :=
  optnats_eqb (rrun (rc_hier k) (rc_shortcut k)
                    (map (fun '(uc, d) => empty_registry uc d) (rc_confs k)) (rc_ops k))
              (rc_expected k).
Fixpoint bad_cases_from {A} (ok : A -> bool) (i : nat) (l : list A) : list nat :=
  match l with
  | [] => []
  | k :: r => if ok k then bad_cases_from ok (S i) r else i :: bad_cases_from ok (S i) r
  end.
Definition bad_cases {A} (ok : A -> bool) (l : list A) : list nat := bad_cases_from ok 0 l.
