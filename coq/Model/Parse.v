(* Model/Parse.v — the parse calculus: TypeTransformer.__call__ on every kind of declared type
   (transform.py 696-719), Rule.parse with its args parsers and _parse_contains (rule.py
   1681-1749, 1803-1843, 1891-2034), LogicalType.logical_parse (rule.py 359-471), data-class
   construction (cls.py 551-613, base.py 342-619, field.py 1012-1089).
   Recursion through user data and declarations is on explicit fuel.
   Hand-written; tied to /repo by the `parse` family of correspondence suites. *)
From UV Require Export Conv FieldPred Constraints Validators.
Open Scope string_scope.
Open Scope list_scope.
Open Scope Z_scope.

(* the class a (possibly rule-wrapped) type finally converts to: issubclass tests of
   resolve_args_parser (rule.py 1877-1889) and the type(value) != origin rebuild *)
Fixpoint base_prim (fuel : nat) (t : ty) : option prim :=
  match t with
  | TPrim p => Some p
  | TRule (Some o) _ _ _ _ _ _ => match fuel with O => None | S f => base_prim f o end
  | _ => None
  end.

Inductive argsparser := APSeq | APTuple | APMap | APNone.
Definition args_parser_of (origin : option ty) (args : list ty) (ellipsis : bool) : argsparser :=
  match origin, args with
  | None, _ | _, [] => APNone
  | Some o, _ =>
      match base_prim 8 o with
      | Some TDict => APMap
      | Some TTuple => if ellipsis then APSeq else APTuple
      | Some TList | Some TSet | Some TFrozen => APSeq
      | _ => APNone
      end
  end.

(* value = cls.__origin__(value) after the args parser when type(value) != origin *)
Definition rebuild_origin (p : option prim) (v : pyval) : out pyval :=
  match p, v with
  | Some TList, PList _ | Some TTuple, PTuple _ | Some TDict, PDict _ => Ok v
  | Some TList, PTuple xs => Ok (PList xs)
  | Some TTuple, PList xs => Ok (PTuple xs)
  | Some TSet, PList xs | Some TSet, PTuple xs => mk_set false xs
  | Some TFrozen, PList xs | Some TFrozen, PTuple xs => mk_set true xs
  | Some TSet, PSet _ | Some TFrozen, PFrozen _ => Ok v
  | _, _ => Unmodelled
  end.

Definition str_of_key (k : pyval) : out string :=
  match k with PStr s => Ok s | _ => py_str k end.

Section Parse.
Variable re : string -> string -> bool.
Variable D : decls.

(* the recursive knot: tr o depth t v = `context.transformer(v, t)` for a context with options o
   and depth `depth`, sharing the caller's error lists *)
Variable tr : options -> Z -> ty -> pyval -> M pyval.

(* `with context.enter(route) as c: try: c.transformer(v, t)`:
   the new context is created outside the try (its DepthExceedError escapes the handler);
   the conversion runs with fresh error lists that die with the context. *)
Inductive entered (A : Type) := EnterFailed (e : exn) | Entered (r : out A).
Arguments EnterFailed {A} e.
Arguments Entered {A} r.
Definition enter_tr (o : options) (depth : Z) (route_truthy : bool) (t : ty) (v : pyval) : entered pyval :=
  let d := new_depth depth route_truthy in
  match depth_check o d with
  | Raise e => EnterFailed e
  | _ => Entered (in_fresh (tr o d t v))
  end.

(* ---------- args parsers ---------- *)
(* _parse_seq_args (1947-1974).  `whole` is the container being iterated (value[i] in the handler). *)
Fixpoint seq_items (o : options) (depth : Z) (arg : ty) (whole : pyval) (i : nat)
         (items : list pyval) (acc : list pyval) : M (list pyval) :=
  match items with
  | [] => ret acc
  | item :: rest =>
      match enter_tr o depth (route_idx i) arg item with
      | EnterFailed e => lift (Raise e)
      | Entered (Ok r) => seq_items o depth arg whole (S i) rest (acc ++ [r])
      | Entered (Raise e) =>
          match o_invalid_items o with
          | Exclude => seq_items o depth arg whole (S i) rest acc
          | Preserve => seq_items o depth arg whole (S i) rest (acc ++ [item])
          | Throw =>
              do _ <- handle_error o (parse_err_at KType (PInt (Z.of_nat i))) false;
              seq_items o depth arg whole (S i) rest acc
          end
      | Entered Diverge => lift Diverge
      | Entered OutOfFuel => lift OutOfFuel
      | Entered Unmodelled => lift Unmodelled
      end
  end.

(* _parse_tuple_args (1891-1945), fixed-length part *)
Fixpoint tuple_items (o : options) (depth : Z) (vals : list pyval) (i : nat)
         (args : list ty) (acc : list pyval) : M (list pyval) :=
  match args with
  | [] => ret acc
  | arg :: rest =>
      if (List.length vals <=? i)%nat then
        (* the prefix item is absent: record it and go on with the next position *)
        do _ <- handle_error o (parse_err_at KAbsence (PInt (Z.of_nat i))) false;
        tuple_items o depth vals (S i) rest acc
      else
      match depth_check o (new_depth depth (route_idx i)) with
      | Raise e => lift (Raise e)
      | _ =>
        match nth_error vals i with
        | None => lift (Raise (other_err XIndexError))      (* unreachable: i < len(value) *)
        | Some item =>
            match enter_tr o depth (route_idx i) arg item with
            | EnterFailed e => lift (Raise e)
            | Entered (Ok r) => tuple_items o depth vals (S i) rest (acc ++ [r])
            | Entered (Raise e) =>
                match o_invalid_items o with
                | Preserve => tuple_items o depth vals (S i) rest (acc ++ [item])
                | _ => do _ <- handle_error o (parse_err_at KType (PInt (Z.of_nat i))) false;
                       tuple_items o depth vals (S i) rest acc
                end
            | Entered Diverge => lift Diverge
            | Entered OutOfFuel => lift OutOfFuel
            | Entered Unmodelled => lift Unmodelled
            end
        end
      end
  end.

Fixpoint tuple_exceed (o : options) (i : nat) (extra : list pyval) : M unit :=
  match extra with
  | [] => ret tt
  | _ :: r => do _ <- handle_error o (parse_err_at KTupleExceed (PInt (Z.of_nat i))) false;
              tuple_exceed o (S i) r
  end.

Definition parse_tuple_args (o : options) (depth : Z) (args : list ty) (v : pyval) : M pyval :=
  match v with
  | PTuple vals =>
      let n := List.length args in
      do _ <- (if (n <? List.length vals)%nat &&
                  ((match o_addition o with Some false => true | _ => false end) || o_no_data_loss o)
               then tuple_exceed o n (skipn n vals) else ret tt);
      do res <- tuple_items o depth vals 0 args [];
      ret (PTuple (res ++ match o_addition o with Some true => skipn n vals | _ => [] end))
  | _ => lift Unmodelled
  end.

Definition parse_seq_args (o : options) (depth : Z) (arg : ty) (v : pyval) : M pyval :=
  match items_of v with
  | Some items => do res <- seq_items o depth arg v 0 items []; ret (PList res)
  | None => lift Unmodelled
  end.

(* result[key] = val on an insertion-ordered dict *)
Fixpoint dict_set (kvs : list (pyval * pyval)) (k v : pyval) : list (pyval * pyval) :=
  match kvs with
  | [] => [(k, v)]
  | (k', v') :: r => if py_eq k' k then (k', v) :: r else (k', v') :: dict_set r k v
  end.

(* _parse_map_args (1976-2034) *)
Fixpoint map_items (o : options) (depth : Z) (kt : ty) (vt : option ty)
         (items : list (pyval * pyval)) (acc : list (pyval * pyval)) : M (list (pyval * pyval)) :=
  match items with
  | [] => ret acc
  | (k0, v0) :: rest =>
      let continue_ := map_items o depth kt vt rest in
      (* f"{_key}<key>" is never empty: same depth *)
      match enter_tr o depth true kt k0 with
      | EnterFailed e => lift (Raise e)
      | Entered Diverge => lift Diverge
      | Entered OutOfFuel => lift OutOfFuel
      | Entered Unmodelled => lift Unmodelled
      | Entered kr =>
          let key_step : M (option pyval) :=
            match kr with
            | Ok k => ret (Some k)
            | _ => match o_invalid_keys o with
                   | Exclude => ret None
                   | Preserve => ret (Some k0)
                   | Throw => do _ <- handle_error o (parse_err_at KType k0) false; ret None
                   end
            end in
          do ko <- key_step;
          match ko with
          | None => continue_ acc
          | Some k =>
              match vt with
              | None => if hashable_deep k then continue_ (dict_set acc k v0) else lift raise_type
              | Some vty =>
                  match enter_tr o depth (route_val k) vty v0 with
                  | EnterFailed e => lift (Raise e)
                  | Entered Diverge => lift Diverge
                  | Entered OutOfFuel => lift OutOfFuel
                  | Entered Unmodelled => lift Unmodelled
                  | Entered (Ok v) => if hashable_deep k then continue_ (dict_set acc k v) else lift raise_type
                  | Entered (Raise _) =>
                      match o_invalid_values o with
                      | Exclude => continue_ acc
                      | Preserve => if hashable_deep k then continue_ (dict_set acc k v0) else lift raise_type
                      | Throw => do _ <- handle_error o (parse_err_at KType k) false; continue_ acc
                      end
                  end
              end
          end
      end
  end.

Definition dict_items (v : pyval) : option (list (pyval * pyval)) :=
  match v with
  | PDict kvs => Some kvs
  | PInst _ kvs => Some (map (fun kv => (PStr (fst kv), snd kv)) kvs)
  | _ => None
  end.

Definition parse_map_args (o : options) (depth : Z) (args : list ty) (v : pyval) : M pyval :=
  match args, dict_items v with
  | kt :: rest, Some items =>
      do res <- map_items o depth kt (match rest with vt :: _ => Some vt | [] => None end) items [];
      ret (PDict res)
  | _, _ => lift Unmodelled
  end.

(* _parse_contains (1803-1843) *)
Fixpoint count_contains (o : options) (depth : Z) (ct : ty) (i : nat) (items : list pyval) (n : Z) : out Z :=
  match items with
  | [] => Ok n
  | item :: rest =>
      match enter_tr o depth (route_idx i) ct item with
      | EnterFailed e => Raise e
      | Entered (Ok _) => count_contains o depth ct (S i) rest (n + 1)
      | Entered (Raise e) => count_contains o depth ct (S i) rest n      (* except Exception: pass *)
      | Entered Diverge => Diverge
      | Entered OutOfFuel => OutOfFuel
      | Entered Unmodelled => Unmodelled
      end
  end.

Definition opt_pos (x : option Z) : option Z :=   (* `cls.min_contains and ...`: 0 and None are falsy *)
  match x with Some z => if z =? 0 then None else Some z | None => None end.

Definition parse_contains (o : options) (depth : Z) (ct : ty) (minc maxc : option Z) (v : pyval) : M pyval :=
  do items <- lift (py_iter v);
  do n <- lift (count_contains o depth ct 0 items 0);
  do _ <- (if n =? 0 then handle_error o (parse_err (KConstraint "contains")) false
           else match opt_pos minc with
                | Some m => if n <? m then handle_error o (parse_err (KConstraint "min_contains")) false
                            else match opt_pos maxc with
                                 | Some x => if x <? n then handle_error o (parse_err (KConstraint "max_contains")) false else ret tt
                                 | None => ret tt end
                | None => match opt_pos maxc with
                          | Some x => if x <? n then handle_error o (parse_err (KConstraint "max_contains")) false else ret tt
                          | None => ret tt end
                end);
  ret v.

(* the validator loop of Rule.parse (1727-1741) *)
Fixpoint run_validators (o : options) (vals : list vspec) (v : pyval) : M pyval :=
  match vals with
  | [] => ret v
  | (name, bound, lax) :: rest =>
      match validator re name lax with
      | None => lift Unmodelled
      | Some f =>
          match f v bound with
          | Ok v' => run_validators o rest v'
          | Raise _ => do _ <- handle_error o (parse_err (KConstraint name)) false;
                       run_validators o rest v
          | Diverge => lift Diverge
          | OutOfFuel => lift OutOfFuel
          | Unmodelled => lift Unmodelled
          end
      end
  end.

(* Rule.parse (1681-1749) with the context passed in *)
Definition rule_parse (o : options) (depth : Z) (origin : option ty) (args : list ty) (ellipsis : bool)
           (vals : list vspec) (contains : option ty) (minc maxc : option Z) (v : pyval) : M pyval :=
  do v1 <- match origin with
           | Some ot => mcatch (tr o depth ot v)
                               (fun e => do _ <- handle_error o (parse_err KType) true; ret v)
           | None => ret v
           end;
  match origin, v1 with
  | Some _, PNone => ret PNone
  | _, _ =>
      do v2 <- match args_parser_of origin args ellipsis with
               | APNone => ret v1
               | APSeq => match args with
                          | arg :: _ => do r <- parse_seq_args o depth arg v1;
                                        lift (rebuild_origin (match origin with Some ot => base_prim 8 ot | None => None end) r)
                          | [] => ret v1 end
               | APTuple => parse_tuple_args o depth args v1
               | APMap => parse_map_args o depth args v1
               end;
      do v3 <- (if o_ignore_constraints o then ret v2
                else do w <- run_validators o vals v2;
                     match contains with
                     | Some ct => parse_contains o depth ct minc maxc w
                     | None => ret w
                     end);
      do _ <- raise_error;
      ret v3
  end.

(* type(value) == con, for the exact-type shortcut of unions *)
Definition exact_type (t : ty) (v : pyval) : bool :=
  match t, v with
  | TPrim p, _ => prim_exact p v
  | TData c, PInst c' _ => Nat.eqb c c'
  | _, _ => false
  end.

(* one stage of the union (rule.py 387-396 / 403-412 / 415-424) *)
Fixpoint or_stage (o : options) (depth : Z) (args : list ty) (v : pyval) : M (option pyval) :=
  match args with
  | [] => ret None
  | con :: rest =>
      match enter_tr o depth true con v with
      | EnterFailed e => lift (Raise e)
      | Entered (Ok r) => do _ <- clear_tmp_error; ret (Some r)
      | Entered (Raise e) => do _ <- collect_tmp_error e; or_stage o depth rest v
      | Entered Diverge => lift Diverge
      | Entered OutOfFuel => lift OutOfFuel
      | Entered Unmodelled => lift Unmodelled
      end
  end.

(* the ^ loop: every condition is tried on the given input v; `res` is the output of the first
   accepting condition; handle_error runs inside the try *)
Fixpoint xor_loop (o : options) (depth : Z) (args : list ty) (v : pyval) (res : pyval) (xor : bool)
  : M (pyval * bool) :=
  match args with
  | [] => ret (res, xor)
  | con :: rest =>
      match enter_tr o depth true con v with
      | EnterFailed e => lift (Raise e)
      | Entered (Ok r) =>
          if negb xor then xor_loop o depth rest v r true
          else
            (* second acceptance: handle_error(OneOfViolatedError) inside the try *)
            fun s =>
              let '(s1, hr) := handle_error o (parse_err KOneOf) false s in
              match hr with
              | Ok _ => (s1, Ok (res, false))                      (* collected: xor = None; break *)
              | Raise e => let '(s2, _) := collect_tmp_error e s1 in (* raised: caught by the except *)
                           xor_loop o depth rest v res true s2
              | Diverge => (s1, Diverge) | OutOfFuel => (s1, OutOfFuel) | Unmodelled => (s1, Unmodelled)
              end
      | Entered (Raise e) => do _ <- collect_tmp_error e; xor_loop o depth rest v res xor
      | Entered Diverge => lift Diverge
      | Entered OutOfFuel => lift OutOfFuel
      | Entered Unmodelled => lift Unmodelled
      end
  end.

(* the & loop (365-375): a failing condition is recorded (wrapped in ParseError unless it is one)
   and the loop stops; the common raise_error at the end of logical_parse decides *)
Definition as_parse_error (e : exn) : exn := if is_parse_err e then e else parse_err KWrapped.
Fixpoint and_loop (o : options) (depth : Z) (args : list ty) (v : pyval) : M pyval :=
  match args with
  | [] => ret v
  | con :: rest =>
      fun s =>
        let '(s1, r) := tr o depth con v s in
        match r with
        | Ok v' => and_loop o depth rest v' s1
        | Raise e =>
            let '(s2, hr) := handle_error o (as_parse_error e) false s1 in
            match hr with
            | Ok _ => (s2, Ok v)
            | Raise e' => (s2, Raise e')
            | Diverge => (s2, Diverge) | OutOfFuel => (s2, OutOfFuel) | Unmodelled => (s2, Unmodelled)
            end
        | Diverge => (s1, Diverge) | OutOfFuel => (s1, OutOfFuel) | Unmodelled => (s1, Unmodelled)
        end
  end.

(* LogicalType.logical_parse (359-471) *)
Definition logical_parse (o : options) (depth : Z) (op : comb) (args : list ty) (v : pyval) : M pyval :=
  match op with
  | CAnd => do w <- and_loop o depth args v; do _ <- raise_error; ret w
  | COr =>
      if existsb (fun con => exact_type con v) args then ret v
      else
        let ndl := o_no_data_loss o in
        let nec := o_no_explicit_cast o in
        do r1 <- (if negb ndl || negb nec
                  then or_stage (with_flags o (Some true) (Some true)) depth args v else ret None);
        match r1 with
        | Some r => ret r
        | None =>
            do r2 <- (if negb ndl && negb nec
                      then or_stage (with_flags o (Some true) None) depth args v else ret None);
            match r2 with
            | Some r => ret r
            | None =>
                do r3 <- or_stage o depth args v;
                match r3 with
                | Some r => ret r
                | None => do _ <- raise_error; ret v
                end
            end
        end
  | CXor =>
      if existsb (fun con => exact_type con v) args then ret v
      else
        do res <- xor_loop o depth args v v false;
        let '(v', xor) := res in
        do _ <- (if xor then clear_tmp_error else ret tt);
        do _ <- raise_error;
        ret (if xor then v' else v)
  | CNot =>
      match args with
      | con :: _ =>
          match enter_tr o depth true con v with
          | EnterFailed e => lift (Raise e)
          | Entered (Ok _) =>
              (* handle_error(NegateViolatedError) inside the try: if it raises, `except: break` *)
              fun s => let '(s1, _) := handle_error o (parse_err KNegate) false s in
                       (do _ <- raise_error; ret v) s1
          | Entered (Raise _) => do _ <- raise_error; ret v
          | Entered Diverge => lift Diverge
          | Entered OutOfFuel => lift OutOfFuel
          | Entered Unmodelled => lift Unmodelled
          end
      | [] => do _ <- raise_error; ret v
      end
  end.

(* ---------- data classes ---------- *)
Fixpoint assoc {A} (k : string) (l : list (string * A)) : option A :=
  match l with [] => None | (k', a) :: r => if String.eqb k k' then Some a else assoc k r end.
Definition has_key {A} (k : string) (l : list (string * A)) : bool :=
  match assoc k l with Some _ => true | None => false end.
Fixpoint sdict_set (kvs : list (string * pyval)) (k : string) (v : pyval) : list (string * pyval) :=
  match kvs with
  | [] => [(k, v)]
  | (k', v') :: r => if String.eqb k' k then (k', v) :: r else (k', v') :: sdict_set r k v
  end.
Definition is_upper_ascii (c : ascii) : bool :=
  let n := nat_of_ascii c in (65 <=? n)%nat && (n <=? 90)%nat.
Definition is_lower_ascii (c : ascii) : bool :=
  let n := nat_of_ascii c in (97 <=? n)%nat && (n <=? 122)%nat.
(* str.islower(): no upper-case letter and at least one lower-case letter (ASCII keys) *)
Definition py_islower (s : string) : bool :=
  str_forall (fun c => negb (is_upper_ascii c)) s && negb (str_forall (fun c => negb (is_lower_ascii c)) s).

(* BaseParser._get_field_from (138-146): key -> fields key *)
Definition get_field_key (C : cdecl) (key : string) : option string :=
  let direct (k : string) : option string :=
    if has_key k (c_fields C) then Some k
    else match assoc k (c_alias_map C) with
         | Some target => if has_key target (c_fields C) then Some target else None
         | None => None
         end in
  match direct key with
  | Some k => Some k
  | None => if negb (py_islower key) && str_in (str_lower key) (c_ci_names C)
            then direct (str_lower key) else None
  end.
Definition get_field (C : cdecl) (key : string) : option field :=
  match get_field_key C key with Some k => assoc k (c_fields C) | None => None end.

(* ParserField.parse_value (1012-1089) without discriminator; None = unprovided *)
Definition parse_value (o : options) (depth : Z) (f : field) (v : pyval) : M (option pyval) :=
  match f_type f with
  | None => ret (Some v)
  | Some t =>
      match enter_tr o depth (route_str (f_name f)) t v with
      | EnterFailed e => lift (Raise e)
      | Entered (Ok r) => ret (Some r)
      | Entered (Raise e) =>
          match get_on_error f o with
          | Exclude =>
              do _ <- (if is_required f o
                       then handle_error o (parse_err_at KType (PStr (f_name f))) false else ret tt);
              ret (get_default f o)
          | Preserve => ret (Some v)
          | Throw => do _ <- handle_error o (parse_err_at KType (PStr (f_name f))) false; ret None
          end
      | Entered Diverge => lift Diverge
      | Entered OutOfFuel => lift OutOfFuel
      | Entered Unmodelled => lift Unmodelled
      end
  end.

(* parse_addition (390-421) without an addition type; None = unprovided *)
Definition parse_addition (C : cdecl) (o : options) (key : string) (v : pyval) : M (option pyval) :=
  if str_in key (c_exclude_vars C) then ret None
  else match o_addition o with
       | Some false => do _ <- handle_error o (parse_err_at KExceed (PStr key)) false; ret None
       | None => ret None
       | Some true => ret (Some v)
       end.

Definition sdata := list (string * pyval).

(* a loop with a body that may record or raise errors *)
Fixpoint mfold {S E} (step : S -> E -> M S) (l : list E) (s : S) : M S :=
  match l with
  | [] => ret s
  | e :: r => do s' <- step s e; mfold step r s'
  end.

(* required / default pass of data_first_parse: state = (result, unprovided_fields) *)
Definition dfs_missing_step (o : options) (st : sdata * list string) (kf : string * field)
  : M (sdata * list string) :=
  let '(result, unprov) := st in
  let f := snd kf in
  let name := f_name f in
  if has_key name result then ret st
  else
    let unprov' := name :: unprov in
    if is_required f o then
      do _ <- handle_error o (parse_err_at KAbsence (PStr name)) false;
      ret (result, unprov')
    else match get_default f o with
         | Some d => ret (sdict_set result name d, unprov')
         | None => ret (result, unprov')
         end.
Definition dfs_missing (o : options) (fields : list (string * field)) (result : sdata) (unprov : list string)
  : M (sdata * list string) := mfold (dfs_missing_step o) fields (result, unprov).

Definition deps_check (o : options) (deps : list string) (result : sdata) (unprov : list string) : M unit :=
  let lack := filter (fun d => negb (has_key d result) || str_in d unprov) deps in
  match lack with
  | [] => ret tt
  | _ => handle_error o (parse_err KDependencies) false
  end.

(* data_first_parse main loop; state = (result, raw, addition, dependencies) where raw holds the
   values given so far, by field name *)
Definition dfs_state : Type := sdata * sdata * sdata * list string.
Definition dfs_step (C : cdecl) (o : options) (depth : Z) (st : dfs_state) (kv : string * pyval) : M dfs_state :=
  let '(result, raw, addition, deps) := st in
  let '(key, value) := kv in
  match get_field C key with
  | None =>
      do a <- parse_addition C o key value;
      ret (result, raw, (match a with Some x => sdict_set addition key x | None => addition end), deps)
  | Some f =>
      let name := f_name f in
      if is_no_input f o then
        ret ((match get_default f o with Some d => sdict_set result name d | None => result end),
             raw, addition, deps)
      else
        let seen := if o_ignore_alias_conflicts o then None
                    else match assoc name raw with
                         | Some prev => Some prev
                         | None => assoc name result
                         end in
        match seen with
        | Some prev =>
            do _ <- (if negb (py_eq prev value)
                     then handle_error o (parse_err_at KAliasConflict (PStr name)) false else ret tt);
            ret st
        | None =>
            let raw' := sdict_set raw name value in
            do p <- parse_value o depth f value;
            match p with
            | None => ret (result, raw', addition, deps)
            | Some r => ret (sdict_set result name r, raw', addition, deps ++ f_dependencies f)
            end
        end
  end.
Definition dfs_loop (C : cdecl) (o : options) (depth : Z) (data : sdata) (st : dfs_state) : M dfs_state :=
  mfold (dfs_step C o depth) data st.

Definition sdict_update (a b : sdata) : sdata := fold_left (fun acc kv => sdict_set acc (fst kv) (snd kv)) b a.

Definition data_first_parse (C : cdecl) (o : options) (depth : Z) (data : sdata) : M sdata :=
  do r <- dfs_loop C o depth data ([], [], [], []);
  let '(result, _, addition, deps) := r in
  do r2 <- dfs_missing o (c_fields C) result [];
  let '(result2, unprov) := r2 in
  do _ <- (match deps with [] => ret tt | _ => deps_check o deps result2 unprov end);
  ret (sdict_update result2 addition).

(* field_first_parse: keys of case-insensitive names are folded to lower case first; the same name
   given twice keeps its first value, and different values are an alias conflict *)
Definition ffs_fold_step (C : cdecl) (o : options) (acc : sdata) (kv : string * pyval) : M sdata :=
  let '(k, v) := kv in
  let lk := str_lower k in
  if str_in lk (c_ci_names C) then
    match assoc lk acc with
    | Some prev =>
        if o_ignore_alias_conflicts o then ret (sdict_set acc lk v)
        else
          do _ <- (if negb (py_eq prev v) then
                     match get_field C lk with
                     | Some f => if is_no_input f o then ret tt
                                 else handle_error o (parse_err_at KAliasConflict (PStr (f_name f))) false
                     | None => ret tt
                     end
                   else ret tt);
          ret acc
    | None => ret (sdict_set acc lk v)
    end
  else ret (sdict_set acc k v).
Definition ffs_prepare (C : cdecl) (o : options) (data : sdata) : M sdata :=
  match c_ci_names C with
  | [] => ret data
  | _ => mfold (ffs_fold_step C o) data []
  end.

(* value lookup over field.all_aliases: result value (None = unprovided), conflict flag *)
Fixpoint ffs_lookup (ignore_conflicts : bool) (aliases : list string) (data : sdata)
         (value : option pyval) : option pyval * bool :=
  match aliases with
  | [] => (value, false)
  | a :: rest =>
      match assoc a data with
      | None => ffs_lookup ignore_conflicts rest data value
      | Some x =>
          if ignore_conflicts then (Some x, false)
          else match value with
               | None => ffs_lookup ignore_conflicts rest data (Some x)
               | Some cur => if negb (py_eq x cur) then (value, true)
                             else ffs_lookup ignore_conflicts rest data value
               end
      end
  end.

(* state = (result, used_alias, unprovided_fields, dependencies) *)
Definition ffs_state : Type := sdata * list string * list string * list string.
Definition ffs_step (o : options) (depth : Z) (data : sdata) (st : ffs_state) (kf : string * field) : M ffs_state :=
  let '(result, used, unprov, deps) := st in
  let f := snd kf in
  let name := f_name f in
  let '(value, conflict) := ffs_lookup (o_ignore_alias_conflicts o) (f_all_aliases f) data None in
  match value with
  | None =>
      let unprov' := name :: unprov in
      if is_required f o then
        do _ <- handle_error o (parse_err_at KAbsence (PStr name)) false;
        ret (result, used, unprov', deps)
      else
        ret ((match get_default f o with Some d => sdict_set result name d | None => result end),
             used, unprov', deps)
  | Some v =>
      let used' := used ++ f_all_aliases f in
      if is_no_input f o then
        ret ((match get_default f o with Some d => sdict_set result name d | None => result end),
             used', unprov, deps)
      else
        do _ <- (if conflict then handle_error o (parse_err_at KAliasConflict (PStr name)) false else ret tt);
        do p <- parse_value o depth f v;
        match p with
        | None => ret (result, used', unprov, deps)
        | Some r => ret (sdict_set result name r, used', unprov, deps ++ f_dependencies f)
        end
  end.
Definition ffs_loop (o : options) (depth : Z) (data : sdata) (fields : list (string * field)) (st : ffs_state)
  : M ffs_state := mfold (ffs_step o depth data) fields st.

Definition ffs_add_step (C : cdecl) (o : options) (used : list string) (addition : sdata) (kv : string * pyval)
  : M sdata :=
  let '(k, v) := kv in
  if str_in k used then ret addition
  else do a <- parse_addition C o k v;
       ret (match a with Some x => sdict_set addition k x | None => addition end).
Definition ffs_addition (C : cdecl) (o : options) (data : sdata) (used : list string) (addition : sdata) : M sdata :=
  mfold (ffs_add_step C o used) data addition.

Definition field_first_parse (C : cdecl) (o : options) (depth : Z) (data0 : sdata) : M sdata :=
  do data <- ffs_prepare C o data0;
  do r <- ffs_loop o depth data (c_fields C) ([], [], [], []);
  let '(result, used, unprov, deps) := r in
  do _ <- (match deps with [] => ret tt | _ => deps_check o deps result unprov end);
  match o_addition o with
  | None => ret result
  | Some _ => do add <- ffs_addition C o data used []; ret (sdict_update result add)
  end.

(* BaseParser.parse_data (353-388) + __call__'s raise_error *)
Definition parse_data (C : cdecl) (o : options) (depth : Z) (data : sdata) : M sdata :=
  let n := llen data in
  do _ <- (match opt_pos (o_max_params o) with
           | Some m => if m <? n then handle_error o (parse_err KParamsExceed) false else ret tt
           | None => ret tt end);
  do _ <- (match opt_pos (o_min_params o) with
           | Some m => if n <? m then handle_error o (parse_err KParamsLack) false else ret tt
           | None => ret tt end);
  let dfs := match o_data_first_search o with Some b => b | None => c_dfs C end in
  do result <- (if dfs then data_first_parse C o depth data else field_first_parse C o depth data);
  do _ <- raise_error;
  ret result.

(* what ends up in the instance (set_attributes 419-452, Schema.__post_init__) *)
Definition instance_data (C : cdecl) (o : options) (values : sdata) : sdata :=
  if c_dict_based C then
    filter (fun kv => match get_field C (fst kv) with
                      | Some f => negb (is_no_output f o)
                      | None => true end) values
  else
    map (fun kv => match get_field C (fst kv) with
                   | Some f => (f_attname f, snd kv)
                   | None => kv end) values.

Fixpoint str_keys (kvs : list (pyval * pyval)) : option sdata :=
  match kvs with
  | [] => Some []
  | (PStr k, v) :: r => match str_keys r with Some l => Some ((k, v) :: l) | None => None end
  | _ => None
  end.

(* Options.make_context (219-258): which options the nested class is parsed with *)
Definition nested_options (C : cdecl) (caller : options) : options :=
  if negb (o_override (c_options C)) && o_override caller then caller else c_options C.

(* init_dataclass (551-591): new context (depth + 1), mapping coercion, then cls.__init__( **data) *)
Definition init_dataclass (c : nat) (C : cdecl) (caller : options) (parent_depth : Z) (v : pyval) : out pyval :=
  let o := nested_options C caller in
  let depth := parent_depth + 1 in
  let* _ := depth_check o depth in
  let* d := (match v with
             | PDict _ | PInst _ _ => Ok v
             | _ => if o_no_explicit_cast o then Raise (parse_err KType)
                    else match to_dict (o_no_explicit_cast o) v with
                         | Ok r => Ok r
                         | Raise _ => Raise (parse_err KType)
                         | Diverge => Diverge | OutOfFuel => OutOfFuel | Unmodelled => Unmodelled
                         end
             end) in
  let* data := (match d with
                | PDict kvs => match str_keys kvs with
                               | Some l => Ok l
                               | None => raise_type   (* cls.__init__( **data): keywords must be strings *)
                               end
                | PInst _ kvs => Ok kvs
                | _ => Unmodelled
                end) in
  let* values := in_fresh (parse_data C o depth data) in
  Ok (PInst c (instance_data C o values)).

(* transform_dataclass (594-613) *)
Definition transform_dataclass (c : nat) (o : options) (depth : Z) (v : pyval) : out pyval :=
  match D c with
  | None => Unmodelled
  | Some C =>
      let unwrap : out pyval :=
        match v with
        | PList (x :: r) | PTuple (x :: r) =>
            if o_no_explicit_cast o then Ok v
            else if o_no_data_loss o && (match r with [] => false | _ => true end) then raise_type
            else Ok x
        | _ => Ok v
        end in
      let* d := unwrap in
      match d with
      | PInst c' _ => if Nat.eqb c c' then Ok d else init_dataclass c C o depth d
      | _ => init_dataclass c C o depth d
      end
  end.

(* TypeTransformer.__call__ (708-719) on any declared type, one unfolding of the knot *)
Definition transform_step (o : options) (depth : Z) (t : ty) (v : pyval) : M pyval :=
  match t with
  | TAny => do _ <- raise_error; ret v      (* Rule.parse of the bare Rule class *)
  | TPrim p => lift (conv_prim (o_no_explicit_cast o) (o_no_data_loss o) (o_unresolved o) p v)
  | TRule origin args ell vals cont minc maxc => rule_parse o depth origin args ell vals cont minc maxc v
  | TLogic op args => logical_parse o depth op args v
  | TData c => match v with
               | PInst c' _ => if Nat.eqb c c' then ret v else lift (transform_dataclass c o depth v)
               | _ => lift (transform_dataclass c o depth v)
               end
  end.
End Parse.
Arguments EnterFailed {A} e.
Arguments Entered {A} r.

(* tie the knot on fuel *)
Fixpoint transform (re : string -> string -> bool) (D : decls) (fuel : nat)
         (o : options) (depth : Z) (t : ty) (v : pyval) : M pyval :=
  match fuel with
  | O => lift OutOfFuel
  | S f => transform_step re D (transform re D f) o depth t v
  end.

(* ---- entry points ---- *)
(* T(value) for a constrained or logical type: a new RuntimeContext(options=T.__options__), depth 1 *)
Definition call_type (re : string -> string -> bool) (D : decls) (fuel : nat) (o : options) (t : ty) (v : pyval)
  : out pyval :=
  match t with
  | TRule _ _ _ _ _ _ _ | TLogic _ _ | TAny =>
      let* _ := depth_check o 1 in in_fresh (transform re D fuel o 1 t v)
  | _ => Unmodelled
  end.

(* Cls.__from__(data, options) / Cls( **data) *)
Definition call_dataclass (re : string -> string -> bool) (D : decls) (fuel : nat) (c : nat)
           (ropts : option options) (v : pyval) : out pyval :=
  match D c with
  | None => Unmodelled
  | Some C =>
      let C' := match ropts with
                | Some o => {| c_fields := c_fields C; c_alias_map := c_alias_map C; c_ci_names := c_ci_names C;
                               c_options := o; c_dfs := c_dfs C; c_exclude_vars := c_exclude_vars C;
                               c_dict_based := c_dict_based C |}
                | None => C end in
      init_dataclass (transform re D fuel) c C' default_options 0 v
  end.

(* type_transform(value, t, options) *)
Definition type_transform (re : string -> string -> bool) (D : decls) (fuel : nat) (o : options) (t : ty) (v : pyval)
  : out pyval :=
  let* _ := depth_check o 1 in in_fresh (transform re D fuel o 1 t v).

(* LogicalType.__instancecheck__ (rule.py 97-114) for a constrained type with a class origin:
   isinstance(obj, origin) and cls(obj) does not raise ParseError (other exceptions escape) *)
Definition origin_isinstance (t : ty) (v : pyval) : option bool :=
  match t with
  | TPrim p => Some (prim_isinstance p v)
  | TData c => Some (match v with PInst c' _ => Nat.eqb c c' | _ => false end)
  | _ => None
  end.
Definition instancecheck (re : string -> string -> bool) (D : decls) (fuel : nat) (o : options) (t : ty) (v : pyval)
  : out bool :=
  match t with
  | TRule (Some ot) _ _ _ _ _ _ =>
      match origin_isinstance ot v with
      | Some false => Ok false
      | Some true =>
          match call_type re D fuel o t v with
          | Ok _ => Ok true
          | Raise e => if is_parse_err e then Ok false else Raise e
          | Diverge => Diverge | OutOfFuel => OutOfFuel | Unmodelled => Unmodelled
          end
      | None => Unmodelled
      end
  | _ => Unmodelled
  end.
