(* Model/Concur.v — C20: several threads making the first parse of one parser.
   The protocol of BaseParser.resolve_forward_refs / _resolve_forward_refs (parser/base.py) as a transition system:
   one step = one of the source lines that reads or writes the shared parser state (the table of pending
   references, the evaluated flag of the ForwardRef cells, the field types, the lock and the `resolving` flag).
   `locked = true` is the code as it is; `locked = false` is the same code without the lock and the flag (the
   code before the repair), kept to show the failing interleaving.
   Hand-written; tied to /repo by the `protocol-trace` suite: the real code runs under a deterministic line-level
   scheduler, the sequence of (thread, event) it produces must be the run of this model under the same schedule. *)
From Coq Require Import List Arith Bool Lia.
Import ListNotations.

Inductive fld := FRef (c : nat) | FRes.                  (* a field type: still a ForwardRef cell / resolved *)
Inductive err := KeyErr | NotEvaluated.

Record shared := {
  lock : option nat;               (* holder *)
  resolving : bool;
  pending : list nat;              (* the cells of the table, in order *)
  cells : nat -> bool;             (* __forward_evaluated__ *)
  fields : list fld
}.

Inductive pc :=
| PFast                                       (* `if not self.forward_refs and not self._forward_resolving` *)
| PWait                                       (* `with self._forward_lock` *)
| PCheck                                      (* `if not self.forward_refs` under the lock *)
| PResOn                                      (* `self._forward_resolving = True` *)
| PSnap                                       (* `for name in list(self.forward_refs)` *)
| PLook (snap mine : list nat)                (* `ref, constraints = self.forward_refs[name]` *)
| PPop (c : nat) (rest mine : list nat)       (* evaluate ...; `self.forward_refs.pop(name)` *)
| PSubst (i : nat) (mine : list nat)          (* `field.resolve_forward_refs()` for field i *)
| PClear (todo : list nat)                    (* `ref.__forward_evaluated__ = False` *)
| PResOff                                     (* `self._forward_resolving = False`, leaving the `with` *)
| PFetch                                      (* the parse reads the field types ... *)
| PUse (loc : list fld)                       (* ... and converts with them *)
| PDone (ok : bool)
| PErr (e : err).

Inductive event :=
| EFast (skip : bool) | EAcq | ECheck (empty : bool) | EResOn | ESnap | ELook (c : nat) | EPop (c : nat)
| ESubst | EClear (c : nat) | EResOff | EFetch | EUse (ok : bool) | EFail (e : err).

Definition upd (f : nat -> bool) (c : nat) (b : bool) : nat -> bool := fun x => if x =? c then b else f x.
Fixpoint remove1 (c : nat) (l : list nat) : list nat :=
  match l with [] => [] | x :: r => if x =? c then r else x :: remove1 c r end.
Definition mem (c : nat) (l : list nat) : bool := existsb (Nat.eqb c) l.
Definition subst_fld (cl : nat -> bool) (f : fld) : fld := match f with FRef c => if cl c then FRes else f | FRes => FRes end.
Fixpoint subst_nth (cl : nat -> bool) (i : nat) (l : list fld) : list fld :=
  match l, i with
  | [], _ => []
  | f :: r, O => subst_fld cl f :: r
  | f :: r, S j => f :: subst_nth cl j r
  end.
Definition usable (cl : nat -> bool) (f : fld) : bool := match f with FRes => true | FRef c => cl c end.

Section Protocol.
  Variable locked : bool.
  Variable local : bool.       (* a function-local declaration: the references are reset after resolution *)

  Definition after_subst (mine : list nat) : pc :=
    if local then match mine with [] => PResOff | _ => PClear mine end else PResOff.
  (* `if resolved:` the fields are updated one by one *)
  Definition after_loop (s : shared) (mine : list nat) : pc :=
    match mine, fields s with
    | [], _ => after_subst mine
    | _, [] => after_subst mine
    | _, _ => PSubst 0 mine
    end.
  Definition set_lock (s : shared) (l : option nat) : shared :=
    {| lock := l; resolving := resolving s; pending := pending s; cells := cells s; fields := fields s |}.
  Definition set_resolving (s : shared) (b : bool) : shared :=
    {| lock := lock s; resolving := b; pending := pending s; cells := cells s; fields := fields s |}.

  (* one step of thread t at program counter p; None: blocked (or finished) *)
  Definition step (s : shared) (t : nat) (p : pc) : option (shared * pc * event) :=
    match p with
    | PFast =>
        if locked then
          match pending s with
          | [] => if resolving s then Some (s, PWait, EFast false) else Some (s, PFetch, EFast true)
          | _ => Some (s, PWait, EFast false)
          end
        else match pending s with [] => Some (s, PFetch, EFast true) | _ => Some (s, PSnap, EFast false) end
    | PWait => match lock s with None => Some (set_lock s (Some t), PCheck, EAcq) | Some _ => None end
    | PCheck => match pending s with
                | [] => Some (set_lock s None, PFetch, ECheck true)
                | _ => Some (s, PResOn, ECheck false)
                end
    | PResOn => Some (set_resolving s true, PSnap, EResOn)
    | PSnap => match pending s with
               | [] => Some (s, after_loop s [], ESnap)
               | _ => Some (s, PLook (pending s) [], ESnap)
               end
    | PLook [] mine => Some (s, after_loop s mine, ESnap)          (* not reached: the loop's end is folded into PPop *)
    | PLook (c :: rest) mine =>
        if mem c (pending s) then Some (s, PPop c rest mine, ELook c) else Some (s, PErr KeyErr, EFail KeyErr)
    | PPop c rest mine =>
        if mem c (pending s) then
          let s' := {| lock := lock s; resolving := resolving s; pending := remove1 c (pending s);
                       cells := upd (cells s) c true; fields := fields s |} in
          Some (s', match rest with [] => after_loop s' (mine ++ [c]) | _ => PLook rest (mine ++ [c]) end, EPop c)
        else Some (s, PErr KeyErr, EFail KeyErr)
    | PSubst i mine =>
        let s' := {| lock := lock s; resolving := resolving s; pending := pending s; cells := cells s;
                     fields := subst_nth (cells s) i (fields s) |} in
        Some (s', if S i <? length (fields s) then PSubst (S i) mine else after_subst mine, ESubst)
    | PClear [] => Some (s, PResOff, EResOff)                       (* not reached *)
    | PClear (c :: todo) =>
        let s' := {| lock := lock s; resolving := resolving s; pending := pending s;
                     cells := upd (cells s) c false; fields := fields s |} in
        Some (s', match todo with [] => PResOff | _ => PClear todo end, EClear c)
    | PResOff =>
        Some ({| lock := if locked then None else lock s; resolving := false; pending := pending s; cells := cells s;
                 fields := fields s |}, PFetch, EResOff)
    | PFetch => Some (s, PUse (fields s), EFetch)
    | PUse loc => if forallb (usable (cells s)) loc then Some (s, PDone true, EUse true)
                  else Some (s, PErr NotEvaluated, EFail NotEvaluated)
    | PDone _ => None
    | PErr _ => None
    end.
End Protocol.

(* the unlocked code has no lock and no flag: its PSnap follows PFast directly, and PResOff only marks the end *)

Fixpoint set_nth {A} (l : list A) (i : nat) (x : A) : list A :=
  match l, i with
  | [], _ => []
  | _ :: r, O => x :: r
  | y :: r, S j => y :: set_nth r j x
  end.

Record state := { sh : shared; ths : list pc }.

Definition tstep (locked local : bool) (st : state) (t : nat) : option (state * event) :=
  match nth_error (ths st) t with
  | Some p => match step locked local (sh st) t p with
              | Some (s', p', ev) => Some ({| sh := s'; ths := set_nth (ths st) t p' |}, ev)
              | None => None
              end
  | None => None
  end.

(* a schedule: the thread chosen at each step; a blocked or finished thread just loses its turn *)
Fixpoint run (locked local : bool) (st : state) (sched : list nat) : state :=
  match sched with
  | [] => st
  | t :: r => match tstep locked local st t with Some (st', _) => run locked local st' r | None => run locked local st r end
  end.

Definition init (n : nat) (pend : list nat) (flds : list fld) : state :=
  {| sh := {| lock := None; resolving := false; pending := pend; cells := fun _ => false; fields := flds |};
     ths := repeat PFast n |}.

(* replay of an observed trace: every event must be the step the model takes for that thread *)
Definition event_eqb (a b : event) : bool :=
  match a, b with
  | EFast x, EFast y => Bool.eqb x y | EAcq, EAcq => true | ECheck x, ECheck y => Bool.eqb x y
  | EResOn, EResOn => true | ESnap, ESnap => true | ELook x, ELook y => x =? y | EPop x, EPop y => x =? y
  | ESubst, ESubst => true | EClear x, EClear y => x =? y | EResOff, EResOff => true | EFetch, EFetch => true
  | EUse x, EUse y => Bool.eqb x y
  | EFail KeyErr, EFail KeyErr => true | EFail NotEvaluated, EFail NotEvaluated => true
  | _, _ => false
  end.
Fixpoint accepts (locked local : bool) (st : state) (tr : list (nat * event)) : bool :=
  match tr with
  | [] => true
  | (t, ev) :: r => match tstep locked local st t with
                    | Some (st', ev') => event_eqb ev ev' && accepts locked local st' r
                    | None => false
                    end
  end.
