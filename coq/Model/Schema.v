(* Model/Schema.v — data-class instances under mutation: utype/schema.py Schema (a dict subclass:
   __setitem__/__field_setter__/__delitem__/__field_deleter__/pop/popitem/update/setdefault/|=/
   clear/__field_getter__/__contains__) and the property setters / deleters ClassParser.make_setter
   / make_deleter give a DataClass (cls.py 259-300).
   An instance is its mapping contents (output names, insertion ordered) and its __dict__ entries
   that belong to fields and additions (attribute names).  Hand-written; tied to /repo by the
   `mutations` correspondence suite (random operation sequences, state compared after every step).
   Property fields (@property with dependants) are not modelled. *)
From UV Require Export Parse.
Open Scope string_scope.
Open Scope list_scope.
Open Scope Z_scope.

Record inst := { i_dict : sdata; i_attrs : sdata }.
(* Options.immutable / ignore_delete_nonexistent of the instance's options *)
Record sflags := { sf_immutable : bool; sf_ign_del : bool }.

Fixpoint sdict_del (kvs : sdata) (k : string) : sdata :=
  match kvs with
  | [] => []
  | (k', v) :: r => if String.eqb k' k then r else (k', v) :: sdict_del r k
  end.

(* make_context(force_error=True): every handled error is raised at once *)
Definition fail_fast (o : options) : options :=
  {| o_collect_errors := false; o_max_errors := o_max_errors o; o_max_depth := o_max_depth o;
     o_max_params := o_max_params o; o_min_params := o_min_params o; o_addition := o_addition o;
     o_invalid_items := o_invalid_items o; o_invalid_keys := o_invalid_keys o;
     o_invalid_values := o_invalid_values o; o_unresolved := o_unresolved o;
     o_no_explicit_cast := o_no_explicit_cast o; o_no_data_loss := o_no_data_loss o;
     o_ignore_constraints := o_ignore_constraints o; o_ignore_alias_conflicts := o_ignore_alias_conflicts o;
     o_ignore_required := o_ignore_required o; o_force_default := o_force_default o;
     o_no_default := o_no_default o; o_defer_default := o_defer_default o;
     o_data_first_search := o_data_first_search o; o_mode := o_mode o;
     o_allow_subclasses := o_allow_subclasses o; o_case_insensitive := o_case_insensitive o;
     o_override := o_override o; o_vacuum := o_vacuum o |}.

(* get_default(options, defer=True): the deferred default an attribute read falls back to *)
Definition get_deferred_default (f : field) (o : options) : option pyval :=
  if o_no_default o then None
  else if negb (f_defer_default f || o_defer_default o) then None
  else match o_force_default o with
       | Some d => Some (copy_value d)
       | None => match f_default f with Some d => Some (copy_value d) | None => None end
       end.

Definition upd_err : exn := other_err XOtherExc.     (* exc.UpdateError / exc.DeleteError *)
(* the conversion of the assigned value is outside the modelled part (OutOfFuel / Unmodelled / Diverge):
   the correspondence check skips such sequences, the theorems exclude them *)
Definition junk_err : exn := other_err XAssert.
Definition key_err : exn := other_err XKeyError.

Section Schema.
Variable tr : options -> Z -> ty -> pyval -> M pyval.
Variable C : cdecl.
Variable o : options.       (* the options of the class = of the instance (no runtime options) *)
Variable fl : sflags.

Definition field_by_attname (a : string) : option field :=
  match find (fun kf => String.eqb (f_attname (snd kf)) a) (c_fields C) with
  | Some kf => Some (snd kf)
  | None => None
  end.

(* construction: set_attributes (cls.py 419-452) + Schema.__post_init__ *)
Definition init_inst (values : sdata) : inst :=
  {| i_dict := if c_dict_based C then
                 filter (fun kv => match get_field C (fst kv) with
                                   | Some f => negb (is_no_output f o)
                                   | None => true end) values
               else [];
     i_attrs := map (fun kv => match get_field C (fst kv) with
                               | Some f => (f_attname f, snd kv)
                               | None => kv end) values |}.

(* field.parse_value in a fresh force_error context of depth 1 *)
Definition set_parse (f : field) (v : pyval) : out (option pyval) :=
  in_fresh (parse_value tr (fail_fast o) 1 f v).

(* ---- Schema ---- *)
(* __contains__ *)
Definition s_contains (i : inst) (k : string) : bool :=
  match get_field C k with
  | Some f => has_key (f_name f) (i_dict i)
  | None => has_key k (i_dict i)
  end.

(* __field_getter__ (no @property fields): attribute read; None = AttributeError *)
Definition s_getattr (i : inst) (f : field) : option pyval :=
  match assoc (f_name f) (i_dict i) with
  | Some v => Some v
  | None => match assoc (f_attname f) (i_attrs i) with
            | Some v => Some v
            | None => get_deferred_default f o
            end
  end.

(* __field_setter__ *)
Definition s_field_set (i : inst) (f : field) (v : pyval) : out inst :=
  if sf_immutable fl || f_immutable f then Raise upd_err
  else
    let* p := set_parse f v in
    match p with
    | None =>      (* dropped by the on_error policy: the field becomes absent *)
        Ok {| i_dict := sdict_del (i_dict i) (f_name f); i_attrs := sdict_del (i_attrs i) (f_attname f) |}
    | Some r =>
        if is_no_output f o then
          Ok {| i_dict := sdict_del (i_dict i) (f_name f); i_attrs := sdict_set (i_attrs i) (f_attname f) r |}
        else
          Ok {| i_dict := sdict_set (i_dict i) (f_name f) r; i_attrs := i_attrs i |}
    end.

(* __setitem__ *)
Definition s_setitem (i : inst) (k : string) (v : pyval) : out inst :=
  if sf_immutable fl then Raise upd_err
  else match get_field C k with
       | Some f => s_field_set i f v
       | None =>
           if str_in k (c_exclude_vars C) then Raise upd_err
           else match o_addition o with
                | Some false => Raise (parse_err_at KExceed (PStr k))
                | None => Ok i                                  (* ignored *)
                | Some true => Ok {| i_dict := sdict_set (i_dict i) k v; i_attrs := i_attrs i |}
                end
       end.

(* __field_deleter__ *)
Definition s_field_del (i : inst) (f : field) : out inst :=
  if sf_immutable fl || f_immutable f then Raise upd_err
  else if is_required f o then Raise upd_err
  else if negb (has_key (f_name f) (i_dict i)) then
    (if sf_ign_del fl then Ok i else Raise upd_err)
  else Ok {| i_dict := sdict_del (i_dict i) (f_name f); i_attrs := sdict_del (i_attrs i) (f_attname f) |}.

(* __delitem__ *)
Definition s_delitem (i : inst) (k : string) : out inst :=
  if sf_immutable fl then Raise upd_err
  else match get_field C k with
       | Some f => s_field_del i f
       | None => if has_key k (i_dict i)
                 then Ok {| i_dict := sdict_del (i_dict i) k; i_attrs := i_attrs i |}
                 else Raise key_err
       end.

(* pop(key[, default]); the popped value is not part of the state *)
Definition s_pop (i : inst) (k : string) (has_default : bool) : out inst :=
  if sf_immutable fl then Raise upd_err
  else match get_field C k with
       | None => if has_key k (i_dict i)
                 then Ok {| i_dict := sdict_del (i_dict i) k; i_attrs := i_attrs i |}
                 else if has_default then Ok i else Raise key_err
       | Some f =>
           if f_immutable f then Raise upd_err
           else if is_required f o then Raise upd_err
           else if has_key (f_name f) (i_dict i)
                then Ok {| i_dict := sdict_del (i_dict i) (f_name f); i_attrs := sdict_del (i_attrs i) (f_attname f) |}
                else if has_default
                     then Ok {| i_dict := i_dict i; i_attrs := sdict_del (i_attrs i) (f_attname f) |}
                     else Raise key_err
       end.

(* popitem: the last key, through __delitem__ *)
Definition s_popitem (i : inst) : out inst :=
  if sf_immutable fl then Raise upd_err
  else match rev (i_dict i) with
       | [] => Raise key_err
       | (k, _) :: _ => s_delitem i k
       end.

(* update / |= : __setitem__ key by key; stops at the first failure, keeping what was set before *)
Fixpoint s_update_loop (i : inst) (m : sdata) : inst * option exn :=
  match m with
  | [] => (i, None)
  | (k, v) :: r =>
      match s_setitem i k v with
      | Ok i' => s_update_loop i' r
      | Raise e => (i, Some e)
      | _ => (i, Some junk_err)
      end
  end.
Definition s_update (i : inst) (m : sdata) : inst * option exn :=
  if sf_immutable fl then (i, Some upd_err) else s_update_loop i m.

(* setdefault *)
Definition s_setdefault (i : inst) (k : string) (d : pyval) : out inst :=
  if s_contains i k then Ok i else s_setitem i k d.

(* clear *)
Definition s_clear (i : inst) : out inst :=
  if sf_immutable fl then Raise upd_err
  else if existsb (fun kf => f_immutable (snd kf) || is_required (snd kf) o) (c_fields C) then Raise upd_err
  else Ok {| i_dict := [];
             i_attrs := fold_left (fun acc kf => sdict_del acc (f_attname (snd kf))) (c_fields C) (i_attrs i) |}.

(* ---- DataClass: property setter / deleter / getter ---- *)
Definition d_setattr (i : inst) (f : field) (v : pyval) : out inst :=
  if sf_immutable fl || f_immutable f then Raise upd_err
  else
    let* p := set_parse f v in
    match p with
    | None => Ok {| i_dict := i_dict i; i_attrs := sdict_del (i_attrs i) (f_attname f) |}
    | Some r => Ok {| i_dict := i_dict i; i_attrs := sdict_set (i_attrs i) (f_attname f) r |}
    end.
Definition d_delattr (i : inst) (f : field) : out inst :=
  if sf_immutable fl || f_immutable f then Raise upd_err
  else if is_required f o then Raise upd_err
  else if negb (has_key (f_attname f) (i_attrs i)) then Raise upd_err
  else Ok {| i_dict := i_dict i; i_attrs := sdict_del (i_attrs i) (f_attname f) |}.
Definition d_getattr (i : inst) (f : field) : option pyval := assoc (f_attname f) (i_attrs i).

(* ---- operations ---- *)
Inductive sop :=
| OSetItem (k : string) (v : pyval)
| OSetAttr (a : string) (v : pyval)
| ODelItem (k : string)
| ODelAttr (a : string)
| OPop (k : string) (has_default : bool)
| OPopItem
| OUpdate (m : sdata)
| OSetDefault (k : string) (d : pyval)
| OClear.

(* one operation: the new state and whether it raised (and what) *)
Definition fin (i : inst) (r : out inst) : inst * option exn :=
  match r with
  | Ok i' => (i', None)
  | Raise e => (i, Some e)
  | _ => (i, Some junk_err)
  end.
Definition unknown_attr : exn := other_err XAttributeError.

Definition step (i : inst) (op : sop) : inst * option exn :=
  if c_dict_based C then
    match op with
    | OSetItem k v => fin i (s_setitem i k v)
    | OSetAttr a v => match field_by_attname a with
                      | Some f => fin i (s_field_set i f v)
                      | None => (i, Some unknown_attr) end
    | ODelItem k => fin i (s_delitem i k)
    | ODelAttr a => match field_by_attname a with
                    | Some f => fin i (s_field_del i f)
                    | None => (i, Some unknown_attr) end
    | OPop k d => fin i (s_pop i k d)
    | OPopItem => fin i (s_popitem i)
    | OUpdate m => s_update i m
    | OSetDefault k d => fin i (s_setdefault i k d)
    | OClear => fin i (s_clear i)
    end
  else
    match op with
    | OSetAttr a v => match field_by_attname a with
                      | Some f => fin i (d_setattr i f v)
                      | None => (i, Some unknown_attr) end
    | ODelAttr a => match field_by_attname a with
                    | Some f => fin i (d_delattr i f)
                    | None => (i, Some unknown_attr) end
    | _ => (i, Some unknown_attr)       (* a DataClass has no mapping interface *)
    end.

Definition run (i : inst) (ops : list sop) : inst := fold_left (fun s op => fst (step s op)) ops i.

(* what the harness observes after every step: the mapping, and the attribute read of every field *)
Definition attr_view (i : inst) : list (string * option pyval) :=
  map (fun kf => (f_attname (snd kf),
                  if c_dict_based C then s_getattr i (snd kf) else d_getattr i (snd kf))) (c_fields C).

End Schema.
