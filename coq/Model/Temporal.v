(* Model/Temporal.v — the arithmetic of the JSON encoders of utype/utils/encode.py and of the
   decoders of utype/utils/transform.py for durations, UTC offsets, times and JS-safe Decimals, at
   the level of integer fields (the text layout "PnDTnHnMn.nS", "+HH:MM", "HH:MM:SS.mmm" is compared
   with the implementation's strings by the `temporal` correspondence suite).
   Hand-written.  timedelta is Python's normalised triple (days, 0 <= seconds < 86400,
   0 <= microseconds < 10^6). *)
From Coq Require Import ZArith Bool Lia List.
Import ListNotations.
Open Scope Z_scope.

Record td := { td_days : Z; td_secs : Z; td_us : Z }.
Definition td_wf (t : td) : Prop := 0 <= td_secs t < 86400 /\ 0 <= td_us t < 1000000.
Definition td_wfb (t : td) : bool :=
  (0 <=? td_secs t) && (td_secs t <? 86400) && (0 <=? td_us t) && (td_us t <? 1000000).

Definition total_us (t : td) : Z := (td_days t * 86400 + td_secs t) * 1000000 + td_us t.
(* timedelta(microseconds=n): Python's normalisation (floor division) *)
Definition of_total (n : Z) : td :=
  let s := n / 1000000 in
  {| td_days := s / 86400; td_secs := s mod 86400; td_us := n mod 1000000 |}.

(* encode.duration_iso_string: sign, then the fields of the absolute value *)
Record dur_fields := { df_neg : bool; df_days : Z; df_hours : Z; df_minutes : Z; df_seconds : Z; df_us : Z }.
Definition encode_td (t : td) : dur_fields :=
  let neg := total_us t <? 0 in
  let a := if neg then of_total (- total_us t) else t in          (* duration *= -1 *)
  let minutes0 := td_secs a / 60 in
  {| df_neg := neg; df_days := td_days a; df_hours := minutes0 / 60; df_minutes := minutes0 mod 60;
     df_seconds := td_secs a mod 60; df_us := td_us a |}.
(* transform.to_timedelta on the ISO 8601 form: sign * timedelta(days=, hours=, minutes=, seconds=S.ffffff) *)
Definition decode_td (f : dur_fields) : td :=
  let n := ((df_days f * 86400 + df_hours f * 3600 + df_minutes f * 60 + df_seconds f) * 1000000 + df_us f) in
  of_total (if df_neg f then - n else n).

(* UTC offsets in whole minutes: "+HH:MM" / "-HH:MM" *)
Definition encode_offset (m : Z) : bool * Z * Z := (m <? 0, Z.abs m / 60, Z.abs m mod 60).
Definition decode_offset (f : bool * Z * Z) : Z :=
  let '(neg, h, mm) := f in if neg then - (h * 60 + mm) else h * 60 + mm.

(* encode.from_time keeps milliseconds: isoformat()[:12] *)
Definition encode_time_us (us : Z) : Z := us / 1000.         (* the three digits written *)
Definition decode_time_us (ms : Z) : Z := ms * 1000.

(* encode.from_decimal: an integral finite Decimal inside the JS-safe range is written as an int *)
Definition js_unsafe (n : Z) : bool := (9007199254740991 <? n) || (n <? -9007199254740991).
