(* Model/Combine.v — construction of logical types: LogicalType.combine / combine_by / __invert__
   (rule.py 231-318) over the abstract type trees.  `arg in __args` is identity of type objects;
   the harness builds arguments from structurally distinct leaves, so structural equality of trees
   coincides with it.  Hand-written; tied by the `combine` correspondence suite. *)
From UV Require Import Types.
Open Scope string_scope.
Open Scope list_scope.
Open Scope Z_scope.

Definition prim_eqb (a b : prim) : bool :=
  match a, b with
  | TNone, TNone | TBool, TBool | TInt, TInt | TFloat, TFloat | TDecimal, TDecimal | TStr, TStr
  | TBytes, TBytes | TList, TList | TTuple, TTuple | TSet, TSet | TFrozen, TFrozen | TDict, TDict => true
  | TOpaque x, TOpaque y => Nat.eqb x y
  | _, _ => false
  end.
Definition comb_eqb (a b : comb) : bool :=
  match a, b with CAnd, CAnd | COr, COr | CXor, CXor | CNot, CNot => true | _, _ => false end.
Definition optz_eqb (a b : option Z) : bool :=
  match a, b with Some x, Some y => x =? y | None, None => true | _, _ => false end.

Fixpoint ty_eqb (a b : ty) {struct a} : bool :=
  let fix lst (xs ys : list ty) {struct xs} : bool :=
    match xs, ys with
    | [], [] => true
    | x :: xr, y :: yr => ty_eqb x y && lst xr yr
    | _, _ => false
    end in
  match a, b with
  | TAny, TAny => true
  | TPrim p, TPrim q => prim_eqb p q
  | TData c, TData d => Nat.eqb c d
  | TLogic op xs, TLogic op' ys => comb_eqb op op' && lst xs ys
  | TRule o xs e vs c mn mx, TRule o' ys e' vs' c' mn' mx' =>
      (match o, o' with Some x, Some y => ty_eqb x y | None, None => true | _, _ => false end) &&
      lst xs ys && Bool.eqb e e' &&
      (fix vl (l l' : list vspec) : bool :=
         match l, l' with
         | [], [] => true
         | (n, b, x) :: r, (n', b', x') :: r' => String.eqb n n' && val_eqb b b' && Bool.eqb x x' && vl r r'
         | _, _ => false
         end) vs vs' &&
      (match c, c' with Some x, Some y => ty_eqb x y | None, None => true | _, _ => false end) &&
      optz_eqb mn mn' && optz_eqb mx mx'
  | _, _ => false
  end.

Definition ty_in (t : ty) (l : list ty) : bool := existsb (ty_eqb t) l.
Definition is_any (t : ty) : bool := match t with TAny => true | _ => false end.

(* the bare Rule class: what combine returns when nothing is left / Any absorbs a union *)
Definition rule_any : ty := TRule None [] false [] None None None.

(* the loop of combine: None = `return Rule` from inside the loop *)
Fixpoint combine_loop (op : comb) (args acc : list ty) : option (list ty) :=
  match args with
  | [] => Some acc
  | a :: rest =>
      if is_any a then
        match op with
        | COr | CXor => None
        | CAnd => combine_loop op rest acc
        | CNot => if ty_in a acc then combine_loop op rest acc else combine_loop op rest (acc ++ [a])
        end
      else if ty_in a acc then combine_loop op rest acc
      else combine_loop op rest (acc ++ [a])
  end.

Definition combine (op : comb) (args : list ty) : ty :=
  match combine_loop op args [] with
  | None => rule_any
  | Some [] => rule_any
  | Some [x] => match op with CNot => TLogic CNot [x] | _ => x end
  | Some l => TLogic op l
  end.

Definition parts (c : comb) (t : ty) : list ty :=
  match t with TLogic op args => if comb_eqb op c then args else [t] | _ => [t] end.

Definition combine_by (c : comb) (a b : ty) (reverse : bool) : ty :=
  combine c (if reverse then parts c b ++ parts c a else parts c a ++ parts c b).

Definition invert (t : ty) : ty :=
  match t with TLogic CNot (a :: _) => a | _ => combine CNot [t] end.
