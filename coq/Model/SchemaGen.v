(* Model/SchemaGen.v — the object level of JsonSchemaGenerator.generate_for_dataclass
   (specs/json_schema/generator.py 263-340): which properties are listed, which are required, what
   additionalProperties says and the dependentRequired map, for the input and the output view.
   The options are the class's (parser.options, which carry the mode).  Hand-written; tied to /repo
   by the `schema-structure` correspondence suite.  The sub-schemas of the properties (types,
   constraints, formats) are not modelled: they are validated with the jsonschema reference
   implementation by the oracle suites. *)
From UV Require Export Parse.
Open Scope string_scope.
Open Scope list_scope.

Section Gen.
Variable C : cdecl.
Let o := c_options C.

Definition visible (output : bool) (f : field) : bool :=
  if output then negb (always_no_output f o) else negb (always_no_input f o).
Definition has_applied_default (f : field) : bool :=
  match get_default f o with Some _ => true | None => false end.

Definition gen_props (output : bool) : list string :=
  map (fun kf => f_name (snd kf)) (filter (fun kf => visible output (snd kf)) (c_fields C)).
Definition gen_required (output : bool) : list string :=
  map (fun kf => f_name (snd kf))
      (filter (fun kf => visible output (snd kf) &&
                         (is_required (snd kf) o || (output && has_applied_default (snd kf)))) (c_fields C)).
Definition gen_additional : option bool := o_addition o.
Definition gen_dependent (output : bool) : list (string * list string) :=
  if output then []
  else map (fun kf => (f_name (snd kf), f_dependencies (snd kf)))
           (filter (fun kf => visible output (snd kf) && negb (match f_dependencies (snd kf) with [] => true | _ => false end))
                   (c_fields C)).
End Gen.
