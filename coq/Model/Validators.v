(* Model/Validators.v — dispatch over the generated validators (Gen/Constraints.v) by
   constraint name and mode, as Constraints.generate_validators (rule.py 834-867) does with
   getattr(self.__class__, name); plus the runner used by the correspondence check. *)
From UV Require Import PyVal PyPrim PyOps Constraints.
Open Scope string_scope.
Open Scope list_scope.
Open Scope Z_scope.

Section V.
Variable re : string -> string -> bool.

(* validator for constraint `name`; lax = wrapped in Lax(...): the method lax_<name> *)
Definition validator (name : string) (lax : bool) : option (pyval -> pyval -> out pyval) :=
  if lax then
    if String.eqb name "ge" then Some c_lax_ge
    else if String.eqb name "le" then Some c_lax_le
    else if String.eqb name "const" then Some c_lax_const
    else if String.eqb name "enum" then Some c_lax_enum
    else if String.eqb name "decimal_places" then Some c_lax_decimal_places
    else if String.eqb name "multiple_of" then Some c_lax_multiple_of
    else if String.eqb name "max_digits" then Some c_lax_max_digits
    else if String.eqb name "length" then Some c_lax_length
    else if String.eqb name "max_length" then Some c_lax_max_length
    else if String.eqb name "unique_items" then Some c_lax_unique_items
    else None
  else
    if String.eqb name "gt" then Some c_gt
    else if String.eqb name "ge" then Some c_ge
    else if String.eqb name "lt" then Some c_lt
    else if String.eqb name "le" then Some c_le
    else if String.eqb name "const" then Some c_const
    else if String.eqb name "enum" then Some c_enum
    else if String.eqb name "regex" then Some (c_regex re)
    else if String.eqb name "decimal_places" then Some c_decimal_places
    else if String.eqb name "multiple_of" then Some c_multiple_of
    else if String.eqb name "max_digits" then Some c_max_digits
    else if String.eqb name "length" then Some c_length
    else if String.eqb name "max_length" then Some c_max_length
    else if String.eqb name "min_length" then Some c_min_length
    else if String.eqb name "unique_items" then Some c_unique_items
    else None.
End V.

(* regex oracle given as a finite table (computed by CPython's re for the strings of a case) *)
Fixpoint re_table (tbl : list (string * string * bool)) (p s : string) : bool :=
  match tbl with
  | [] => false
  | (p', s', b) :: r => if String.eqb p p' && String.eqb s s' then b else re_table r p s
  end.

(* the digit regex used by the generated declarations is decided natively, other patterns by table *)
Definition all_digits (s : string) : bool := negb (String.eqb s "") && str_forall is_digit s.
Definition re_std (tbl : list (string * string * bool)) (p s : string) : bool :=
  if String.eqb p "[0-9]+" then all_digits s else re_table tbl p s.

Record vcase := {
  vc_name : string; vc_lax : bool; vc_value : pyval; vc_bound : pyval;
  vc_re : list (string * string * bool); vc_expected : obs
}.
Definition vcase_obs (k : vcase) : obs :=
  match vc_name k with
  | "_parse_decimal" => observe (c__parse_decimal (vc_value k))
  | _ => match validator (re_table (vc_re k)) (vc_name k) (vc_lax k) with
         | Some f => observe (f (vc_value k) (vc_bound k))
         | None => OSkip
         end
  end.
Definition vcase_ok (k : vcase) : bool := obs_eqb (vcase_obs k) (vc_expected k).
Definition vcase_skip (k : vcase) : bool := obs_is_skip (vcase_obs k).

Fixpoint bad_from {A} (ok : A -> bool) (i : nat) (l : list A) : list nat :=
  match l with
  | [] => []
  | k :: r => if ok k then bad_from ok (S i) r else i :: bad_from ok (S i) r
  end.
Definition bad_idx {A} (ok : A -> bool) (l : list A) : list nat := bad_from ok 0 l.
Definition count_if {A} (p : A -> bool) (l : list A) : nat := List.length (filter p l).
