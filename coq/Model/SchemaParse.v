(* Model/SchemaParse.v — the two pure helpers of JsonSchemaParser (specs/json_schema/parser.py) that decide
   whether a type can be built at all: the normalisation of numeric bounds in get_constraints and the
   attribute names given to properties (get_attname and the renaming loop of parse_object).
   Hand-written; tied to /repo by the `schema-helpers` correspondence suite.  The rest of the parser
   (type selection, array / object construction) produces declarations of the parse calculus and is
   exercised end to end by the oracle suites. *)
From Coq Require Import ZArith Bool List String Ascii Lia.
Import ListNotations.
Open Scope Z_scope.

(* ---- numeric bounds: JSON Schema allows minimum with exclusiveMinimum (and the upper pair); a Rule takes one of each ---- *)
Record bounds := { b_gt : option Z; b_ge : option Z; b_lt : option Z; b_le : option Z }.
Definition norm_bounds (b : bounds) : bounds :=
  let '(gt, ge) := match b_gt b, b_ge b with
                   | Some x, Some y => if y <=? x then (Some x, None) else (None, Some y)
                   | g, e => (g, e) end in
  let '(lt, le) := match b_lt b, b_le b with
                   | Some x, Some y => if x <=? y then (Some x, None) else (None, Some y)
                   | l, e => (l, e) end in
  {| b_gt := gt; b_ge := ge; b_lt := lt; b_le := le |}.
Definition sat (b : bounds) (v : Z) : Prop :=
  (forall x, b_gt b = Some x -> x < v) /\ (forall x, b_ge b = Some x -> x <= v) /\
  (forall x, b_lt b = Some x -> v < x) /\ (forall x, b_le b = Some x -> v <= x).

(* ---- attribute names ---- *)
Open Scope string_scope.
Definition is_alnum (c : ascii) : bool :=
  let n := nat_of_ascii c in
  ((48 <=? n) && (n <=? 57) || (65 <=? n) && (n <=? 90) || (97 <=? n) && (n <=? 122))%nat.
(* re.sub('[^A-Za-z0-9]+', '_', name): every run of other characters becomes one underscore *)
Fixpoint sub_runs (s : string) (in_run : bool) : string :=
  match s with
  | EmptyString => EmptyString
  | String c r => if is_alnum c then String c (sub_runs r false)
                  else if in_run then sub_runs r true else String "_"%char (sub_runs r true)
  end.
Fixpoint lstrip_us (s : string) : string :=
  match s with String "_"%char r => lstrip_us r | _ => s end.
Fixpoint rev_str (s acc : string) : string :=
  match s with EmptyString => acc | String c r => rev_str r (String c acc) end.
Definition strip_us (s : string) : string := rev_str (lstrip_us (rev_str (lstrip_us s) "")) "".
Definition sanitize (name : string) : string := strip_us (sub_runs name false).

Definition str_mem (s : string) (l : list string) : bool := existsb (String.eqb s) l.
(* the de-duplication loop: name, name_1, name_2, ... until not excluded (fuel = how many candidates are tried);
   `suffix i` is "_" ++ str(i) *)
Section Dedup.
Variable suffix : nat -> string.
Fixpoint dedup (origin : string) (excludes : list string) (i fuel : nat) : option string :=
  match fuel with
  | O => None
  | S f => let cand := origin ++ suffix i in
           if str_mem cand excludes then dedup origin excludes (S i) f else Some cand
  end.
Definition get_attname (keywords : list string) (name : string) (excludes : list string) (fuel : nat) : option string :=
  let n0 := sanitize name in
  let n1 := if str_mem n0 keywords then n0 ++ "_value" else n0 in
  if str_mem n1 excludes then dedup n1 excludes 1 fuel else Some n1.

(* parse_object's loop over the property names: the attribute name of each property *)
Definition needs_rename (valid : string -> bool) (reserved : list string) (attrs : list string) (k : string) : bool :=
  negb (valid k) || str_mem k attrs || str_mem k reserved || String.prefix "_" k.
(* all = every property name of the object: a renamed attribute also stays clear of the other property names *)
Fixpoint attnames (valid : string -> bool) (keywords reserved all : list string) (keys : list string) (attrs : list string) (fuel : nat)
  : option (list string) :=
  match keys with
  | [] => Some attrs
  | k :: r =>
      let others := filter (fun x => negb (String.eqb x k)) all in
      let a := if needs_rename valid reserved attrs k then get_attname keywords k (attrs ++ others ++ reserved) fuel else Some k in
      match a with
      | Some x => attnames valid keywords reserved all r (attrs ++ [x]) fuel
      | None => None
      end
  end.
End Dedup.
