(* Model/Types.v — the declarations the parse calculus ranges over: types, options, data-class
   declarations.  Mirrors the attributes the code reads (rule.py Rule.__origin__/__args__/
   __validators__/contains, options.py Options, field.py ParserField). *)
From UV Require Export PyVal PyPrim PyOps.
Open Scope string_scope.
Open Scope list_scope.
Open Scope Z_scope.

Inductive prim :=
| TNone | TBool | TInt | TFloat | TDecimal | TStr | TBytes
| TList | TTuple | TSet | TFrozen | TDict
| TOpaque (c : nat).     (* a plain class without registered transformer *)

Inductive comb := CAnd | COr | CXor | CNot.

(* one validator: (constraint name, bound, wrapped in Lax) *)
Definition vspec := (string * pyval * bool)%type.

Inductive ty :=
| TAny                                      (* Any / bare Rule *)
| TPrim (p : prim)
| TRule (origin : option ty) (args : list ty) (ellipsis : bool) (vals : list vspec)
        (contains : option ty) (min_contains max_contains : option Z)
| TLogic (op : comb) (args : list ty)
| TData (c : nat).

Inductive policy := Throw | Exclude | Preserve.
Inductive unres := UThrow | UInit | UIgnore.

Record options := {
  o_collect_errors : bool;
  o_max_errors : option Z;
  o_max_depth : option Z;
  o_max_params : option Z;
  o_min_params : option Z;
  o_addition : option bool;          (* None / True / False (a type-valued addition is not modelled) *)
  o_invalid_items : policy;
  o_invalid_keys : policy;
  o_invalid_values : policy;
  o_unresolved : unres;
  o_no_explicit_cast : bool;
  o_no_data_loss : bool;
  o_ignore_constraints : bool;
  o_ignore_alias_conflicts : bool;
  o_ignore_required : bool;
  o_force_default : option pyval;
  o_no_default : bool;
  o_defer_default : bool;
  o_data_first_search : option bool;
  o_mode : option string;
  o_allow_subclasses : bool;
  o_case_insensitive : bool;
  o_override : bool;
  o_vacuum : bool                    (* no option was given explicitly (Options._options empty) *)
}.

Definition default_options : options := {|
  o_collect_errors := false; o_max_errors := None; o_max_depth := None; o_max_params := None;
  o_min_params := None; o_addition := None; o_invalid_items := Throw; o_invalid_keys := Throw;
  o_invalid_values := Throw; o_unresolved := UThrow; o_no_explicit_cast := false;
  o_no_data_loss := false; o_ignore_constraints := false; o_ignore_alias_conflicts := false;
  o_ignore_required := false; o_force_default := None; o_no_default := false;
  o_defer_default := false; o_data_first_search := Some false; o_mode := None;
  o_allow_subclasses := true; o_case_insensitive := false; o_override := false; o_vacuum := true |}.

(* Options(no_data_loss=True, no_explicit_cast=True) & onto existing options (Options.__and__):
   the explicitly given flags overwrite, everything else is kept.  `override` options are returned
   unchanged by __and__ (options.py 307-308). *)
Definition with_flags (o : options) (ndl nec : option bool) : options :=
  if o_override o then o else
  {| o_collect_errors := o_collect_errors o; o_max_errors := o_max_errors o; o_max_depth := o_max_depth o;
     o_max_params := o_max_params o; o_min_params := o_min_params o; o_addition := o_addition o;
     o_invalid_items := o_invalid_items o; o_invalid_keys := o_invalid_keys o;
     o_invalid_values := o_invalid_values o; o_unresolved := o_unresolved o;
     o_no_explicit_cast := match nec with Some b => b | None => o_no_explicit_cast o end;
     o_no_data_loss := match ndl with Some b => b | None => o_no_data_loss o end;
     o_ignore_constraints := o_ignore_constraints o; o_ignore_alias_conflicts := o_ignore_alias_conflicts o;
     o_ignore_required := o_ignore_required o; o_force_default := o_force_default o;
     o_no_default := o_no_default o; o_defer_default := o_defer_default o;
     o_data_first_search := o_data_first_search o; o_mode := o_mode o;
     o_allow_subclasses := o_allow_subclasses o; o_case_insensitive := o_case_insensitive o;
     o_override := o_override o; o_vacuum := false |}.

(* ---- data-class declarations (field.py ParserField / base.py BaseParser: the attributes the
   parsers read at run time; the harness reads them off the real parser objects) ---- *)
Inductive flagspec :=         (* required / no_input / no_output: a bool, or a string of modes *)
| FBool (b : bool) | FModes (m : string).

Record field := {
  f_name : string;                (* output name: alias or attribute name *)
  f_attname : string;
  f_all_aliases : list string;    (* name first, then the other accepted input names, in order
                                     (lower-cased when the field is case-insensitive) *)
  f_type : option ty;
  f_required : flagspec;
  f_default : option pyval;       (* default value, or what default_factory() returns *)
  f_defer_default : bool;
  f_no_input : flagspec;
  f_no_output : flagspec;
  f_mode : option string;
  f_dependencies : list string;
  f_on_error : option policy;
  f_immutable : bool
}.

Record cdecl := {
  c_fields : list (string * field);          (* parser.fields: key -> field, in order *)
  c_alias_map : list (string * string);      (* parser.field_alias_map: alias -> key *)
  c_ci_names : list string;                  (* parser.case_insensitive_names *)
  c_options : options;                       (* parser.options *)
  c_dfs : bool;                              (* parser.data_first_search *)
  c_exclude_vars : list string;
  c_dict_based : bool                        (* Schema (dict subclass) vs. DataClass *)
}.

Definition decls := nat -> option cdecl.

(* the errors a RuntimeContext has collected so far *)
Record errs := { e_errors : list exn; e_tmp : list exn }.
Definition no_errs : errs := {| e_errors := []; e_tmp := [] |}.
