(* Model/FieldPred.v — the field predicates of utype/parser/field.py 768-895 (get_default,
   get_on_error, is_required, is_no_input, always_no_input, always_no_output, is_no_output)
   and functional.copy_value.  Hand-written; tied by the `fields` correspondence suites. *)
From UV Require Export Conv.
Open Scope string_scope.
Open Scope list_scope.
Open Scope Z_scope.

(* `mode in spec` for strings is a substring test *)
Fixpoint str_prefix (p s : string) : bool :=
  match p, s with
  | EmptyString, _ => true
  | String a p', String b s' => Ascii.eqb a b && str_prefix p' s'
  | _, _ => false
  end.
Fixpoint str_contains (s sub : string) : bool :=
  str_prefix sub s || match s with EmptyString => false | String _ r => str_contains r sub end.

Definition flag_true (f : flagspec) : bool := match f with FBool true => true | _ => false end.
Definition flag_truthy (f : flagspec) : bool :=
  match f with FBool b => b | FModes m => negb (String.eqb m "") end.

(* always_no_input (825-840); final fields are not modelled *)
Definition always_no_input (f : field) (o : options) : bool :=
  if flag_true (f_no_input f) then true
  else match o_mode o with
       | None => false
       | Some m =>
           if String.eqb m "" then false else
           match f_no_input f with
           | FModes s => if str_contains s m then true
                         else match f_mode f with
                              | Some fm => if String.eqb fm "" then false else negb (str_contains fm m)
                              | None => false end
           | _ => match f_mode f with
                  | Some fm => if String.eqb fm "" then false else negb (str_contains fm m)
                  | None => false end
           end
       end.

(* is_required (803-812) *)
Definition is_required (f : field) (o : options) : bool :=
  if o_ignore_required o || negb (flag_truthy (f_required f)) then false
  else if always_no_input f o then false
  else match f_required f with
       | FBool true => true
       | FBool false => false
       | FModes s => match o_mode o with
                     | None => false
                     | Some m => if String.eqb m "" then false else str_contains s m
                     end
       end.

(* is_no_input / is_no_output for non-callable flags (814-823 / 858-871) *)
Definition flag_applies (flag : flagspec) (fmode : option string) (o : options) : bool :=
  match o_mode o with
  | None => match flag with FBool b => b | _ => false end
  | Some m =>
      if String.eqb m "" then match flag with FBool b => b | _ => false end
      else
        let by_mode := match fmode with
                       | Some fm => if String.eqb fm "" then false else negb (str_contains fm m)
                       | None => false
                       end in
        match flag with
        | FModes s => if str_contains s m then true else by_mode
        | FBool true => true
        | FBool false => by_mode
        end
  end.
Definition is_no_input (f : field) (o : options) : bool := flag_applies (f_no_input f) (f_mode f) o.
Definition is_no_output (f : field) (o : options) : bool := flag_applies (f_no_output f) (f_mode f) o.

(* always_no_output (842-856) *)
Definition always_no_output (f : field) (o : options) : bool :=
  if flag_true (f_no_output f) then true
  else match o_mode o with
       | None => false
       | Some m =>
           if String.eqb m "" then false else
           match f_no_output f with
           | FModes s => if str_contains s m then true
                         else match f_mode f with
                              | Some fm => if String.eqb fm "" then false else negb (str_contains fm m)
                              | None => false end
           | _ => match f_mode f with
                  | Some fm => if String.eqb fm "" then false else negb (str_contains fm m)
                  | None => false end
           end
       end.

(* functional.copy_value: a structurally equal value in fresh containers.  Values of the model
   are immutable terms, so the copy is the identity on them; aliasing is the subject of the heap
   model of C19. *)
Definition copy_value (v : pyval) : pyval := v.

(* get_default(options, defer=False) (768-796) *)
Definition get_default (f : field) (o : options) : option pyval :=
  if o_no_default o then None
  else if f_defer_default f || o_defer_default o then None
  else match o_force_default o with
       | Some d => Some (copy_value d)
       | None => match f_default f with Some d => Some (copy_value d) | None => None end
       end.

Definition get_on_error (f : field) (o : options) : policy :=
  match f_on_error f with Some p => p | None => o_invalid_values o end.
