(* Model/Timestamp.v — the timestamp normalisation loops of to_datetime (transform.py 516-519,
   555-557): `while abs(x) > MS_WATERSHED: x /= 1000`, on exact rationals x = n / 1000^k
   (binary64 rounding of the quotient is not modelled: it never increases the magnitude by more
   than one ulp, so the loop it describes exits no later than one step after this one). *)
From Coq Require Import ZArith Lia.
Open Scope Z_scope.

Definition MS_WATERSHED : Z := 20000000000.

(* Some (n, k): the loop exits after k divisions with value n / 1000^k; None: out of fuel *)
Fixpoint ms_norm (fuel : nat) (n k : Z) : option (Z * Z) :=
  if Z.abs n <=? MS_WATERSHED * 1000 ^ k then Some (n, k)
  else match fuel with O => None | S f => ms_norm f n (k + 1) end.

Lemma ms_norm_exits n : forall f k, 0 <= k ->
  Z.abs n <= MS_WATERSHED * 1000 ^ (k + Z.of_nat f) -> exists r, ms_norm f n k = Some r.
Proof.
  induction f as [|f IH]; intros k Hk H; cbn [ms_norm].
  - replace (k + Z.of_nat 0) with k in H by lia.
    destruct (Z.abs n <=? MS_WATERSHED * 1000 ^ k) eqn:E; [eauto|]. apply Z.leb_gt in E. lia.
  - destruct (Z.abs n <=? MS_WATERSHED * 1000 ^ k); [eauto|].
    apply IH; [lia|]. replace (k + 1 + Z.of_nat f) with (k + Z.of_nat (S f)) by lia. exact H.
Qed.

(* every finite timestamp leaves the loop, after at most log2 |n| + 1 divisions *)
Theorem ms_norm_terminates n : exists r, ms_norm (Z.to_nat (Z.log2_up (Z.abs n + 1))) n 0 = Some r.
Proof.
  apply ms_norm_exits; [lia|].
  set (F := Z.log2_up (Z.abs n + 1)).
  assert (HF : 0 <= F) by apply Z.log2_up_nonneg.
  rewrite Z2Nat.id by exact HF. cbn [Z.add].
  assert (H2 : Z.abs n + 1 <= 2 ^ F).
  { destruct (Z.eq_dec (Z.abs n) 0) as [E|E].
    - rewrite E. assert (0 < 2 ^ F) by (apply Z.pow_pos_nonneg; lia). lia.
    - apply Z.log2_up_spec. lia. }
  assert (H3 : 2 ^ F <= 1000 ^ F) by (apply Z.pow_le_mono_l; lia).
  unfold MS_WATERSHED. nia.
Qed.
