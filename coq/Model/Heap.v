(* Model/Heap.v — object identity for C19: a heap of cells, and utils/functional.copy_value on it.
   Atoms (numbers, strings, None ...) are immutable and may be shared; sequences (list / set / frozenset /
   tuple / dict views: whatever `multi` accepts) and dicts are containers; any other object is opaque and is
   returned as it is.  copy_value rebuilds every container it can reach through elements and dict values
   (dict keys are kept: they are hashable).  Recursion through the data is on explicit fuel.
   Hand-written; tied to /repo by the `copy-value` correspondence suite (object graphs with sharing). *)
From Coq Require Import List Arith Bool Lia.
Import ListNotations.

Inductive obj :=
| OAtom (a : nat)
| OSeq (kind : nat) (elems : list nat)          (* kind: list / set / frozenset / tuple *)
| OMap (kvs : list (nat * nat))                 (* key cell, value cell *)
| OOpaque (tag : nat).
Definition heap := list obj.

(* apply a heap-threading copy to every cell of a list, left to right *)
Fixpoint map_heap (cp : heap -> nat -> heap * nat) (h : heap) (ls : list nat) : heap * list nat :=
  match ls with
  | [] => (h, [])
  | x :: r => let '(h1, x') := cp h x in
              let '(h2, r') := map_heap cp h1 r in (h2, x' :: r')
  end.

Fixpoint copy_value (fuel : nat) (h : heap) (l : nat) : heap * nat :=
  match fuel with
  | O => (h, l)
  | S f =>
      match nth_error h l with
      | Some (OSeq k es) =>
          let '(h1, es') := map_heap (copy_value f) h es in (h1 ++ [OSeq k es'], List.length h1)
      | Some (OMap kvs) =>
          let '(h1, vs') := map_heap (copy_value f) h (map snd kvs) in
          (h1 ++ [OMap (combine (map fst kvs) vs')], List.length h1)
      | _ => (h, l)
      end
  end.

(* the value a cell denotes, as a tree (None: dangling cell or not enough fuel) *)
Inductive tree := TAtom (a : nat) | TSeq (kind : nat) (ts : list tree) | TMap (kvs : list (nat * tree)) | TOpaque (tag : nat).
Fixpoint all_some {A} (l : list (option A)) : option (list A) :=
  match l with
  | [] => Some []
  | Some a :: r => match all_some r with Some x => Some (a :: x) | None => None end
  | None :: _ => None
  end.
Fixpoint denote (fuel : nat) (h : heap) (l : nat) : option tree :=
  match fuel with
  | O => None
  | S f =>
      match nth_error h l with
      | Some (OAtom a) => Some (TAtom a)
      | Some (OOpaque t) => Some (TOpaque t)
      | Some (OSeq k es) => match all_some (map (denote f h) es) with Some ts => Some (TSeq k ts) | None => None end
      | Some (OMap kvs) => match all_some (map (denote f h) (map snd kvs)) with
                           | Some ts => Some (TMap (combine (map fst kvs) ts)) | None => None end
      | None => None
      end
  end.

(* every container reachable from l (through elements and dict values) is a cell allocated at or after `base` *)
Fixpoint all_new (fuel base : nat) (h : heap) (l : nat) : bool :=
  match fuel with
  | O => false
  | S f =>
      match nth_error h l with
      | Some (OSeq _ es) => (base <=? l) && forallb (all_new f base h) es
      | Some (OMap kvs) => (base <=? l) && forallb (all_new f base h) (map snd kvs)
      | Some _ => true
      | None => false
      end
  end.

(* in-place mutation of one cell (list.append, dict[k] = v, set.add ... on the object at cell c) *)
Fixpoint set_cell (h : heap) (c : nat) (o : obj) : heap :=
  match h, c with
  | [], _ => []
  | _ :: r, O => o :: r
  | x :: r, S c' => x :: set_cell r c' o
  end.
Definition is_container (h : heap) (c : nat) : bool :=
  match nth_error h c with Some (OSeq _ _) | Some (OMap _) => true | _ => false end.
(* c is a container that can be reached (and so mutated) through the value at l *)
Fixpoint reachc (fuel : nat) (h : heap) (l c : nat) : bool :=
  match fuel with
  | O => false
  | S f =>
      match nth_error h l with
      | Some (OSeq _ es) => (l =? c) || existsb (fun x => reachc f h x c) es
      | Some (OMap kvs) => (l =? c) || existsb (fun x => reachc f h x c) (map snd kvs)
      | _ => false
      end
  end.
