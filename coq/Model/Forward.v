(* Model/Forward.v — forward references (C17): ForwardRef objects as cells of a heap, registration at declaration
   time, lazy resolution at first parse.
   Follows parser/rule.py register_forward_ref / resolve_forward_type / LogicalType.resolve_forward_refs /
   Rule.resolve_forward_refs, parser/base.py BaseParser.resolve_forward_refs, parser/field.py ParserField.generate and
   typing.ForwardRef._evaluate (called with localns=None: it always evaluates again under the given globals).
   Hand-written; tied to /repo by the `forward-state` correspondence suite (live parser objects after declaration and
   after resolution, ForwardRef objects identified through id()). *)
From Coq Require Import List Arith Bool Lia.
Import ListNotations.

(* what the text of a reference means: a type expression over class *names* *)
Inductive sty := SPrim (p : nat) | SName (n : nat) | SApp (k : nat) (args : list sty).
(* a declared type: resolved leaves, classes, ForwardRef objects (cells), generic / logical applications.
   k codes the origin: list, dict, tuple, AnyOf ... *)
Inductive aty := APrim (p : nat) | AClass (c : nat) | ARef (cell : nat) | AApp (k : nat) (args : list aty).

Record cell := { c_arg : nat;                 (* the text (__forward_arg__), as an identifier of equal strings *)
                 c_src : sty;                 (* its meaning *)
                 c_val : option aty }.        (* __forward_evaluated__ / __forward_value__ *)
Definition heap := list cell.
Definition env := nat -> option nat.          (* the globals of a parser: class name -> class (own name injected) *)

Fixpoint all_some {A} (l : list (option A)) : option (list A) :=
  match l with
  | [] => Some []
  | Some a :: r => match all_some r with Some x => Some (a :: x) | None => None end
  | None :: _ => None
  end.

(* evaluating the text under globals: NameError (None) when a name is not bound *)
Fixpoint eval_s (e : env) (s : sty) : option aty :=
  match s with
  | SPrim p => Some (APrim p)
  | SName n => match e n with Some c => Some (AClass c) | None => None end
  | SApp k args => match all_some (map (eval_s e) args) with Some l => Some (AApp k l) | None => None end
  end.

Fixpoint set_val (h : heap) (c : nat) (v : option aty) : heap :=
  match h, c with
  | [], _ => []
  | x :: r, O => {| c_arg := c_arg x; c_src := c_src x; c_val := v |} :: r
  | x :: r, S c' => x :: set_val r c' v
  end.

Definition cell_val (h : heap) (c : nat) : option aty :=
  match nth_error h c with Some cl => c_val cl | None => None end.

(* the type a conversion sees at parse time: an evaluated ForwardRef stands for its value, an unevaluated one is
   the error "ForwardRef not evaluated" *)
Fixpoint den (h : heap) (t : aty) : option aty :=
  match t with
  | ARef c => cell_val h c
  | AApp k args => match all_some (map (den h) args) with Some l => Some (AApp k l) | None => None end
  | _ => Some t
  end.

(* the type of the same declaration written with direct references, under the globals e *)
Fixpoint expected (e : env) (h : heap) (t : aty) : option aty :=
  match t with
  | ARef c => match nth_error h c with Some cl => eval_s e (c_src cl) | None => None end
  | AApp k args => match all_some (map (expected e h) args) with Some l => Some (AApp k l) | None => None end
  | _ => Some t
  end.

Fixpoint refs (t : aty) : list nat :=
  match t with
  | ARef c => [c]
  | AApp _ args => flat_map refs args
  | _ => []
  end.

(* ---- the table of pending references of one parser ---- *)
Inductive key := KAttr (a : nat) | KName (arg n : nat).      (* "$attname" / "text" (n = 0) / "text#n" *)
Definition key_eqb (a b : key) : bool :=
  match a, b with
  | KAttr x, KAttr y => x =? y
  | KName x i, KName y j => (x =? y) && (i =? j)
  | _, _ => false
  end.
Definition pending := list (key * nat).
Definition has_key (p : pending) (k : key) : bool := existsb (fun e => key_eqb k (fst e)) p.
(* the key is held by a different ForwardRef object *)
Definition taken (p : pending) (k : key) (c : nat) : bool :=
  existsb (fun e => key_eqb k (fst e) && negb (snd e =? c)) p.
Fixpoint free_from (fuel arg n c : nat) (p : pending) : key :=
  match fuel with
  | O => KName arg n
  | S f => if taken p (KName arg n) c then free_from f arg (S n) c p else KName arg n
  end.
Definition choose_key (k0 : key) (arg c : nat) (p : pending) : key :=
  if taken p k0 c then free_from (length p) arg 1 c p else k0.
Definition add_pending (k0 : key) (arg c : nat) (p : pending) : pending :=
  let k := choose_key k0 arg c p in
  if has_key p k then p else p ++ [(k, c)].

(* ---- declaration time: Rule.parse_annotation / register_forward_ref on one annotation ---- *)
Section Register.
  Variable e : env.            (* the names bound when the declaration is made (own name included) *)
  Variable local : bool.       (* declared inside a function: evaluated refs are reset at once (force_clear) *)

  Definition reg_ref (k0 : option nat) (c : nat) (h : heap) (p : pending) : aty * heap * pending :=
    match nth_error h c with
    | Some cl =>
        match c_val cl with
        | Some v => (v, h, p)
        | None =>
            match eval_s e (c_src cl) with
            | Some v => (v, if local then h else set_val h c (Some v), p)
            | None => (ARef c, h, add_pending (match k0 with Some a => KAttr a | None => KName (c_arg cl) 0 end) (c_arg cl) c p)
            end
        end
    | None => (ARef c, h, p)
    end.

  Fixpoint reg_ty (k0 : option nat) (t : aty) (h : heap) (p : pending) : aty * heap * pending :=
    match t with
    | ARef c => reg_ref k0 c h p
    | AApp k args =>
        let '(args', h', p') :=
          (fix go (l : list aty) (h : heap) (p : pending) : list aty * heap * pending :=
             match l with
             | [] => ([], h, p)
             | x :: r => let '(x', h1, p1) := reg_ty None x h p in
                         let '(r', h2, p2) := go r h1 p1 in (x' :: r', h2, p2)
             end) args h p in
        (AApp k args', h', p')
    | _ => (t, h, p)
    end.

  (* the fields of one declaration, in order: (attname, annotation) *)
  Fixpoint reg_fields (fs : list (nat * aty)) (h : heap) (p : pending) : list aty * heap * pending :=
    match fs with
    | [] => ([], h, p)
    | (a, t) :: r => let '(t', h1, p1) := reg_ty (Some a) t h p in
                     let '(r', h2, p2) := reg_fields r h1 p1 in (t' :: r', h2, p2)
    end.
End Register.

(* ---- first parse: BaseParser.resolve_forward_refs(ignore_errors=False) ---- *)
Record pstate := { p_fields : list aty; p_pending : pending; p_local : bool }.

(* resolve_forward_type / LogicalType.resolve_forward_refs / Rule.resolve_forward_refs on a type *)
Fixpoint subst (h : heap) (t : aty) : aty :=
  match t with
  | ARef c => match cell_val h c with Some v => v | None => t end
  | AApp k args => AApp k (map (subst h) args)
  | _ => t
  end.

(* the loop over the table: each reference is evaluated again under the globals; the first NameError ends the
   call (the entries resolved so far are already popped).  Result: heap, entries left, cells resolved, raised *)
Fixpoint resolve_loop (e : env) (h : heap) (p : pending) (done : list nat) : heap * pending * list nat * bool :=
  match p with
  | [] => (h, [], done, false)
  | (k, c) :: r =>
      match nth_error h c with
      | Some cl =>
          match eval_s e (c_src cl) with
          | Some v => resolve_loop e (set_val h c (Some v)) r (done ++ [c])
          | None => (h, p, done, true)
          end
      | None => (h, p, done, true)
      end
  end.

Definition clear_all (h : heap) (cs : list nat) : heap := fold_left (fun h c => set_val h c None) cs h.

Inductive outcome := Done (s : pstate) (h : heap) | Raised (s : pstate) (h : heap).

Definition resolve (e : env) (s : pstate) (h : heap) : outcome :=
  match p_pending s with
  | [] => Done s h
  | _ =>
      let '(h1, rest, done, raised) := resolve_loop e h (p_pending s) [] in
      if raised then Raised {| p_fields := p_fields s; p_pending := rest; p_local := p_local s |} h1
      else
        let fs := match done with [] => p_fields s | _ => map (subst h1) (p_fields s) end in
        let h2 := if p_local s then clear_all h1 done else h1 in
        Done {| p_fields := fs; p_pending := rest; p_local := p_local s |} h2
  end.
