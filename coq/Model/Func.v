(* Model/Func.v — decorated functions: FunctionParser.parse_params (func.py 612-669) and Python's own
   argument binding (what `func( *args, **kwargs)` does with the parsed arguments; the algorithm of
   inspect.Signature.bind).  The body of the function is not modelled: the observable is the binding
   it receives.  Hand-written; tied to /repo by the `calls` correspondence suite (the decorated
   function returns its locals) and, for py_bind alone, against inspect.Signature.bind.
   Modelled: synchronous calls of plain functions with the five parameter kinds, annotations,
   defaults, excluded (underscore-prefixed) parameters, typed *args / **kwargs.  Not modelled:
   Param aliases and case-insensitive names, the reserved first parameter of methods, result and
   generator conversion (judged by the oracle suites on the implementation), and calls that give
   one parameter both by position and by keyword (Python rejects them). *)
From UV Require Export Parse.
Open Scope string_scope.
Open Scope list_scope.
Open Scope Z_scope.

Inductive pkind := KPo | KPk | KVp | KKo | KVk.
Record fparam := {
  fp_name : string;
  fp_kind : pkind;
  fp_default : option pyval;       (* the default in the signature (what Python applies itself) *)
  fp_field : option field          (* None: excluded (underscore-prefixed) or *args / **kwargs *)
}.
Record fsig := {
  fs_params : list fparam;
  fs_pos_type : option ty;         (* annotation of *args *)
  fs_C : cdecl                     (* the parser's fields (keyed and named by attribute name), alias map, options *)
}.

Definition is_positional (p : fparam) : bool := match fp_kind p with KPo | KPk => true | _ => false end.
Definition positional (s : fsig) : list fparam := filter is_positional (fs_params s).
Definition has_kind (k : pkind) (s : fsig) : bool :=
  existsb (fun p => match fp_kind p, k with KVp, KVp | KVk, KVk => true | _, _ => false end) (fs_params s).
Definition name_of_kind (k : pkind) (s : fsig) : option string :=
  match find (fun p => match fp_kind p, k with KVp, KVp | KVk, KVk => true | _, _ => false end) (fs_params s) with
  | Some p => Some (fp_name p) | None => None end.

(* ---------- Python's binding of (args, kwargs) to the signature ---------- *)
(* the positional parameters take the leading arguments; the rest goes to *args *)
Fixpoint bind_pos (ps : list fparam) (args : list pyval) (acc : sdata) : sdata * list fparam * list pyval :=
  match ps, args with
  | p :: pr, a :: ar => bind_pos pr ar (acc ++ [(fp_name p, a)])
  | _, _ => (acc, ps, args)
  end.
(* parameters still unbound: by keyword (unless positional-only), else the default, else the call is not bound *)
Fixpoint bind_rest (ps : list fparam) (kwargs : sdata) (acc : sdata) (used : list string) : option (sdata * list string) :=
  match ps with
  | [] => Some (acc, used)
  | p :: pr =>
      let by_kw := match fp_kind p with KPo => None | _ => assoc (fp_name p) kwargs end in
      match by_kw with
      | Some v => bind_rest pr kwargs (acc ++ [(fp_name p, v)]) (fp_name p :: used)
      | None => match fp_default p with
                | Some d => bind_rest pr kwargs (acc ++ [(fp_name p, d)]) used
                | None => None
                end
      end
  end.
Definition named (s : fsig) : list fparam :=
  filter (fun p => match fp_kind p with KVp | KVk => false | _ => true end) (fs_params s).
Definition kwonly (s : fsig) : list fparam := filter (fun p => match fp_kind p with KKo => true | _ => false end) (fs_params s).

(* None: Python raises TypeError (the call is not bound) *)
Definition py_bind (s : fsig) (args : list pyval) (kwargs : sdata) : option sdata :=
  let '(b1, rest_ps, rest_args) := bind_pos (positional s) args [] in
  (* a positional-or-keyword parameter filled by position must not come again by keyword *)
  if existsb (fun kv => match find (fun p => String.eqb (fp_name p) (fst kv)) (positional s) with
                        | Some p => match fp_kind p with KPk => has_key (fst kv) b1 | _ => false end
                        | None => false end) kwargs then None
  else if negb (has_kind KVp s) && negb (match rest_args with [] => true | _ => false end) then None
  else
    match bind_rest (rest_ps ++ kwonly s) kwargs b1 [] with
    | None => None
    | Some (b2, used) =>
        let extra := filter (fun kv => negb (str_in (fst kv) used)) kwargs in
        let b3 := match name_of_kind KVp s with Some n => b2 ++ [(n, PTuple rest_args)] | None => b2 end in
        match name_of_kind KVk s with
        | Some n => Some (b3 ++ [(n, PDict (map (fun kv => (PStr (fst kv), snd kv)) extra))])
        | None => match extra with [] => Some b3 | _ => None end
        end
    end.

(* ---------- FunctionParser.parse_params ---------- *)
Section Func.
Variable tr : options -> Z -> ty -> pyval -> M pyval.
Variable s : fsig.
Let C := fs_C s.
Let o := c_options C.

(* parse_pos_type: the elements of *args *)
Definition parse_pos_type (i : nat) (v : pyval) : M (option pyval) :=
  match fs_pos_type s with
  | None => ret (Some v)
  | Some t =>
      match enter_tr tr o 1 (route_idx i) t v with
      | EnterFailed e => lift (Raise e)
      | Entered (Ok r) => ret (Some r)
      | Entered (Raise e) =>
          match o_invalid_items o with
          | Preserve => ret (Some v)
          | Exclude => ret None
          | Throw => do _ <- handle_error o (parse_err_at KType (PInt (Z.of_nat i))) false; ret (Some v)
          end
      | Entered Diverge => lift Diverge
      | Entered OutOfFuel => lift OutOfFuel
      | Entered Unmodelled => lift Unmodelled
      end
  end.

(* step 1: the given positional arguments; state = (parsed args, parsed keys) *)
Fixpoint pos_loop (ps : list fparam) (has_vp : bool) (i : nat) (args : list pyval)
         (pargs : list pyval) (pkeys : list string) : M (list pyval * list string) :=
  match args with
  | [] => ret (pargs, pkeys)
  | a :: ar =>
      match ps with
      | p :: pr =>
          match fp_field p with
          | None => pos_loop pr has_vp (S i) ar (pargs ++ [a]) pkeys            (* excluded: passed on as it is *)
          | Some f =>
              if is_no_input f o then
                match get_default f o with
                | Some d => pos_loop pr has_vp (S i) ar (pargs ++ [d]) pkeys
                | None => pos_loop pr has_vp (S i) ar pargs pkeys
                end
              else
                do r <- parse_value tr o 1 f a;
                match r with
                | Some v => pos_loop pr has_vp (S i) ar (pargs ++ [v]) (pkeys ++ [f_attname f])
                | None => pos_loop pr has_vp (S i) ar pargs (pkeys ++ [f_attname f])
                end
          end
      | [] =>
          if has_vp then
            do r <- parse_pos_type i a;
            pos_loop [] has_vp (S i) ar (match r with Some v => pargs ++ [v] | None => pargs end) pkeys
          else pos_loop [] has_vp (S i) ar pargs pkeys                          (* excess argument: ignored *)
      end
  end.

(* step 2: positional-only fields that were not given *)
Fixpoint po_defaults (ps : list fparam) (idx : nat) (pargs : list pyval) (pkeys : list string)
  : M (list pyval * list string) :=
  match ps with
  | [] => ret (pargs, pkeys)
  | p :: pr =>
      match fp_kind p, fp_field p with
      | KPo, Some f =>
          if str_in (f_attname f) pkeys then po_defaults pr (S idx) pargs pkeys
          else if is_required f o then
            do _ <- handle_error o (parse_err_at KAbsence (PStr (f_attname f))) false;
            po_defaults pr (S idx) pargs pkeys
          else
            let pargs' := match get_default f o with
                          | Some d => if Nat.eqb (List.length pargs) idx then pargs ++ [d] else pargs
                          | None => pargs end in
            po_defaults pr (S idx) pargs' (pkeys ++ [f_attname f])
      | KPo, None => po_defaults pr (S idx) pargs pkeys
      | _, _ => ret (pargs, pkeys)                  (* positional-only parameters come first *)
      end
  end.

(* the keyword part: parse_data(kwargs, excluded_keys=parsed keys, as_attname=True); for calls that do not give
   a parameter twice this is parse_data over the remaining fields *)
Definition rest_decl (pkeys : list string) : cdecl :=
  {| c_fields := filter (fun kf => negb (str_in (f_attname (snd kf)) pkeys)) (c_fields C);
     c_alias_map := c_alias_map C; c_ci_names := c_ci_names C; c_options := c_options C; c_dfs := c_dfs C;
     c_exclude_vars := c_exclude_vars C; c_dict_based := c_dict_based C |}.

Definition parse_params (args : list pyval) (kwargs : sdata) : M (list pyval * sdata) :=
  do r1 <- pos_loop (positional s) (has_kind KVp s) 0 args [] [];
  let '(pargs, pkeys) := r1 in
  do r2 <- po_defaults (positional s) 0 pargs pkeys;
  let '(pargs2, pkeys2) := r2 in
  do kw <- parse_data tr (rest_decl pkeys2) o 1 kwargs;        (* ends with raise_error *)
  ret (pargs2, kw).

(* the decorated function called with (args, kwargs): the binding its body receives *)
Definition call_binding (args : list pyval) (kwargs : sdata) : out sdata :=
  let* r := in_fresh (parse_params args kwargs) in
  let '(pargs, kw) := r in
  match py_bind s pargs kw with
  | Some b => Ok b
  | None => raise_type            (* Python's TypeError from the call itself *)
  end.

End Func.
