(* Model/Ctx.v — RuntimeContext (options.py 329-486): depth accounting at creation / enter,
   and the error collection protocol handle_error / raise_error / collect_tmp_error /
   clear_tmp_error.  Hand-written; tied by the parse correspondence suites. *)
From UV Require Export Types.
Open Scope string_scope.
Open Scope list_scope.
Open Scope Z_scope.

(* computations that read and extend the error lists of the current context.
   The final state is returned even when an exception propagates: the Python object was mutated. *)
Definition M (A : Type) := errs -> errs * out A.
Definition ret {A} (a : A) : M A := fun s => (s, Ok a).
Definition lift {A} (x : out A) : M A := fun s => (s, x).
Definition mbind {A B} (m : M A) (f : A -> M B) : M B :=
  fun s => let '(s', r) := m s in
           match r with
           | Ok a => f a s'
           | Raise e => (s', Raise e)
           | Diverge => (s', Diverge)
           | OutOfFuel => (s', OutOfFuel)
           | Unmodelled => (s', Unmodelled)
           end.
Notation "'do' x '<-' e ';' k" := (mbind e (fun x => k))
  (at level 200, x pattern, e at level 100, k at level 200, right associativity).
(* try: m  except Exception as e: h e *)
Definition mcatch {A} (m : M A) (h : exn -> M A) : M A :=
  fun s => let '(s', r) := m s in match r with Raise e => h e s' | _ => (s', r) end.

(* run a computation in a fresh context (context.enter / a new RuntimeContext); its error lists
   are discarded with it *)
Definition in_fresh {A} (m : M A) : out A := snd (m no_errs).

Definition collected (es : list exn) : exn :=
  mkExn XParse KCollected None (map (fun e => (ex_kind e, ex_item e)) es).

(* RuntimeContext.handle_error (options.py 463-480) *)
Definition handle_error (o : options) (e : exn) (force_raise : bool) : M unit :=
  fun s =>
    let s' := {| e_errors := e_errors s ++ [e]; e_tmp := e_tmp s |} in
    if force_raise || negb (o_collect_errors o) then (s', Raise e)
    else match o_max_errors o with
         | Some m => if m <=? llen (e_errors s')
                     then (s', Raise (collected (e_errors s' ++ e_tmp s')))
                     else (s', Ok tt)
         | None => (s', Ok tt)
         end.

(* RuntimeContext.raise_error (444-452) *)
Definition raise_error : M unit :=
  fun s => match e_errors s, e_tmp s with
           | [], [] => (s, Ok tt)
           | _, _ => (s, Raise (collected (e_errors s ++ e_tmp s)))
           end.

Definition collect_tmp_error (e : exn) : M unit :=
  fun s => ({| e_errors := e_errors s; e_tmp := e_tmp s ++ [e] |}, Ok tt).
Definition clear_tmp_error : M unit :=
  fun s => ({| e_errors := e_errors s; e_tmp := [] |}, Ok tt).

(* RuntimeContext.__init__ (335-375): depth of the new context.  A context created with a route
   (`route is not None`: field name, index, key, combinator) stays on its parent's level; one
   created without a route (top level, nested data class) is one level deeper. *)
Definition new_depth (parent_depth : Z) (has_route : bool) : Z :=
  if has_route then parent_depth else parent_depth + 1.
Definition depth_check (o : options) (depth : Z) : out unit :=
  match o_max_depth o with
  | Some d => if (negb (d =? 0)) && (d <? depth) then Raise (parse_err KDepth) else Ok tt
  | None => Ok tt
  end.

(* every route passed by the parsers is a real object (an index, a key, a name): never None *)
Definition route_idx (i : nat) : bool := true.
Definition route_val (k : pyval) : bool := true.
Definition route_str (s : string) : bool := true.
