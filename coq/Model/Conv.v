(* Model/Conv.v — TypeTransformer's converters for the builtin targets (utils/transform.py
   143-490, 686-694).  nec = no_explicit_cast, ndl = no_data_loss as seen by the transformer.
   Hand-written; tied by the `convert` and `parse` correspondence suites.  Inputs the model does
   not describe (json/literal text, separators, float repr, set iteration order) are Unmodelled. *)
From UV Require Export Ctx.
Open Scope string_scope.
Open Scope list_scope.
Open Scope Z_scope.

Definition NULL_VALUES := ["null"; "none"; "nil"].
Definition FALSE_VALUES := ["0"; "false"; "no"; "off"; "f"].
Definition TRUE_VALUES := ["1"; "true"; "yes"; "on"; "t"; "y"].
Definition str_in (s : string) (l : list string) : bool := existsb (String.eqb s) l.

Definition hashable (v : pyval) : bool :=
  match v with PList _ | PSet _ | PDict _ | PInst _ _ => false | _ => true end.
(* tuples are hashable iff their elements are: only flat tuples are decided here *)
Definition hashable_deep (v : pyval) : bool :=
  match v with
  | PTuple xs => forallb hashable xs
  | _ => hashable v
  end.

(* set(xs): first occurrence of ==-equal elements is kept *)
Fixpoint dedupe (xs : list pyval) (acc : list pyval) : list pyval :=
  match xs with
  | [] => acc
  | x :: r => if py_in x acc then dedupe r acc else dedupe r (acc ++ [x])
  end.
Definition mk_set (frozen : bool) (xs : list pyval) : out pyval :=
  if forallb hashable_deep xs then Ok ((if frozen then PFrozen else PSet) (dedupe xs []))
  else raise_type.

Section Conv.
Variables nec ndl : bool.

(* _attempt_from (143-159) *)
Definition attempt_from (v : pyval) : out pyval :=
  if nec then Ok v
  else match v with
       | PList (x :: r) | PTuple (x :: r) =>
           if ndl && (match r with [] => false | _ => true end) then raise_type else Ok x
       | PSet (x :: r) | PFrozen (x :: r) =>
           match r with
           | [] => Ok x
           | _ => if ndl then raise_type else Unmodelled   (* list(set)[0]: hash order *)
           end
       | PEnumV _ _ => Unmodelled
       | _ => Ok v
       end.

(* _from_byte_like (161-166): only ASCII byte strings are in the universe, so both error modes agree *)
Definition from_byte_like (v : pyval) : pyval :=
  match v with PBytes s => PStr s | _ => v end.

(* _attempt_from_number (168-181) *)
Definition attempt_from_number (v : pyval) : out pyval :=
  let* a := attempt_from v in
  let d := from_byte_like a in
  if negb (truthy d) then Ok (PInt 0) else Ok d.

(* to_null (195-204) *)
Definition to_null (v : pyval) : out pyval :=
  match v with
  | PNone => Ok PNone
  | _ => if nec then raise_type
         else match v with
              | PStr s => if str_in (str_lower s) NULL_VALUES then Ok PNone else raise_type
              | _ => raise_type
              end
  end.

(* str(x) for the final step of to_str *)
Definition to_str (v : pyval) : out pyval :=
  match v with
  | PStr _ => Ok v
  | _ => let* a := attempt_from v in
         let d := from_byte_like a in
         if nec && negb (is_str d) then raise_type
         else py_str_v d
  end.

(* to_bytes (238-253) *)
Definition to_bytes (v : pyval) : out pyval :=
  let* d := attempt_from v in
  match d with
  | PBytes _ => Ok d
  | PStr s => if str_forall is_ascii7 s then Ok (PBytes s) else Unmodelled
  | _ => if nec then raise_type
         else let* s := py_str d in Ok (PBytes s)
  end.

(* int(Decimal) *)
Definition int_of_dec (d : dec) : out pyval :=
  match d with
  | DNan => raise_value
  | DInf _ => Raise (other_err XOverflow)
  | DFin s c e => if 5000 <? e then Unmodelled   (* int(Decimal('1e99999999')): does not return in practice *)
                  else Ok (PInt (trunc_fin (dec_sign_z s c) 0 e))
  end.

(* Decimal(data) inside to_integer: InvalidOperation is turned into TypeError *)
Definition decimal_for_int (v : pyval) : out dec :=
  match v with
  | PDec d => Ok d
  | PInt z => Ok (dec_of_int z)
  | PBool b => Ok (dec_of_int (if b then 1 else 0))
  | PFlt f => Ok (dec_of_flt f)
  | PStr s => let* r := dec_of_string s in
              match r with Some d => Ok d | None => raise_type end
  | PTuple _ | PList _ => Unmodelled
  | _ => raise_type
  end.

(* to_integer (401-435) *)
Definition to_integer (v : pyval) : out pyval :=
  match v with
  | PInt _ => Ok v
  | PBool b => Ok (PInt (if b then 1 else 0))
  | _ =>
      let* d :=
        (if nec then
           (if is_float v || is_decimal v then Ok v else raise_type)
         else attempt_from_number v) in
      let early :=
        if nec then None
        else match d with
             | PStr s =>
                 let l := str_lower s in
                 if str_in l FALSE_VALUES then Some (PInt 0)
                 else if str_in l TRUE_VALUES then Some (PInt 1) else None
             | PInt _ => Some d
             | PBool b => Some (PInt (if b then 1 else 0))    (* isinstance(data, int): t(data) *)
             | _ => None
             end in
      match early with
      | Some r => Ok r
      | None =>
          let* q := decimal_for_int d in
          if ndl && negb (match q with DFin _ _ e => e =? 0 | _ => false end) then raise_type
          else int_of_dec q
      end
  end.

(* float(x) *)
Definition float_of (v : pyval) : out pyval :=
  match v with
  | PFlt _ => Ok v
  | PInt z => let* f := flt_of_int z in Ok (PFlt f)
  | PBool b => Ok (PFlt (FFin (if b then 1 else 0) 0))
  | PDec d => let* f := flt_of_dec d in Ok (PFlt f)
  | PStr s => let* r := dec_of_string s in
              match r with
              | Some d => let* f := flt_of_dec d in Ok (PFlt f)
              | None => raise_value
              end
  | PBytes _ => Unmodelled
  | _ => raise_type
  end.

(* to_float (388-399) *)
Definition to_float (v : pyval) : out pyval :=
  match v with
  | PFlt _ => Ok v
  | _ =>
      let* d := (if nec then (if is_int v || is_decimal v then Ok v else raise_type)
                 else attempt_from_number v) in
      float_of d
  end.

(* to_decimal (437-449): Decimal(str(data).strip()) *)
Definition to_decimal (v : pyval) : out pyval :=
  match v with
  | PDec _ => Ok v
  | _ =>
      let* d := (if nec then
                   let b := from_byte_like v in
                   if is_int b || is_float b || is_str b || is_decimal b then Ok b else raise_type
                 else attempt_from_number v) in
      let* s := py_str d in
      let* r := dec_of_string s in
      match r with Some q => Ok (PDec q) | None => Raise (other_err XArith) end
  end.

(* to_bool (468-489) *)
Definition to_bool (v : pyval) : out pyval :=
  match v with
  | PBool _ => Ok v
  | _ =>
      if py_eq v (PInt 1) then Ok (PBool true)
      else if py_eq v (PInt 0) then Ok (PBool false)
      else if nec then raise_type
      else
        let rep := match v with
                   | PStr s | PBytes s => Some (str_lower s)
                   | PNone => Some "none"
                   | _ => None     (* str() of numbers other than 0/1 and of containers is never in the tables *)
                   end in
        match rep with
        | Some r => if str_in r FALSE_VALUES then Ok (PBool false)
                    else if str_in r TRUE_VALUES then Ok (PBool true)
                    else if ndl then raise_type else Ok (PBool (truthy v))
        | None => if ndl then raise_type else Ok (PBool (truthy v))
        end
  end.

Inductive arr := AList | ATuple | ASet | AFrozen.
Definition arr_is (a : arr) (v : pyval) : bool :=
  match a, v with
  | AList, PList _ | ATuple, PTuple _ | ASet, PSet _ | AFrozen, PFrozen _ => true
  | _, _ => false
  end.
Definition arr_make (a : arr) (xs : list pyval) : out pyval :=
  match a with
  | AList => Ok (PList xs)
  | ATuple => Ok (PTuple xs)
  | ASet => mk_set false xs
  | AFrozen => mk_set true xs
  end.

Definition has_structure_char (s : string) : bool :=
  (* text that to_array_types would try to decode (brackets, separators): Unmodelled *)
  negb (str_forall (fun c => negb (existsb (Ascii.eqb c) ["{"; "}"; "["; "]"; "("; ")"; ","; ";"]%char)) s).

(* to_array_types (255-309) *)
Definition to_array (a : arr) (v : pyval) : out pyval :=
  if arr_is a v then Ok v
  else match v with
       | PList xs | PTuple xs => arr_make a xs
       | PSet xs | PFrozen xs =>
           match a, xs with
           | ASet, _ | AFrozen, _ => arr_make a xs
           | _, [] | _, [_] => arr_make a xs
           | _, _ => Unmodelled        (* list(set): hash order *)
           end
       | _ =>
           if nec then raise_type
           else
             let d := from_byte_like v in
             match d with
             | PStr s =>
                 (* data = data.strip() before the bracket / separator tests *)
                 let s' := strip s in
                 if negb (str_forall is_ascii7 s) then Unmodelled
                 else if has_structure_char s' then Unmodelled
                 else arr_make a [PStr s']
             | PDict kvs =>
                 match a with
                 | ASet => if ndl then raise_type else arr_make a (map fst kvs)      (* issubclass(t, set): not frozenset *)
                 | _ => match kvs with [] => arr_make a [] | _ => arr_make a [d] end
                 end
             | PInst _ kvs =>
                 match a with
                 | ASet => if ndl then raise_type else arr_make a (map (fun kv => PStr (fst kv)) kvs)
                 | _ => match kvs with [] => arr_make a [] | _ => arr_make a [d] end
                 end
             | _ => arr_make a [d]
             end
       end.

(* to_dict (311-385) *)
Definition to_dict (v : pyval) : out pyval :=
  match v with
  | PDict _ | PInst _ _ => Ok v
  | _ =>
      if nec then raise_type
      else match v with
           | PList _ | PTuple _ | PSet _ | PFrozen _ => Unmodelled   (* iterables of pairs, first-element unwrapping *)
           | PStr _ | PBytes _ => Unmodelled                          (* json / querystring / cookie syntax *)
           | PEnumV _ _ => Unmodelled
           | _ => raise_type                                          (* dict(5), dict(None), dict(object()) *)
           end
  end.

End Conv.

(* handle_unresolved (686-694) for a class without transformer; tag c: instances are PObj c *)
Definition handle_unresolved (u : unres) (c : nat) (v : pyval) : out pyval :=
  match v with
  | PObj c' => if Nat.eqb c c' then Ok v
               else match u with UThrow => Raise (parse_err KType) | UInit => Unmodelled | UIgnore => Ok v end
  | _ => match u with UThrow => Raise (parse_err KType) | UInit => Unmodelled | UIgnore => Ok v end
  end.

(* type(data) == t for the builtin classes (the exact-type shortcut of __call__ / apply) *)
Definition prim_exact (p : prim) (v : pyval) : bool :=
  match p, v with
  | TNone, PNone | TBool, PBool _ | TInt, PInt _ | TFloat, PFlt _ | TDecimal, PDec _
  | TStr, PStr _ | TBytes, PBytes _ | TList, PList _ | TTuple, PTuple _ | TSet, PSet _
  | TFrozen, PFrozen _ | TDict, PDict _ => true
  | TOpaque c, PObj c' => Nat.eqb c c'
  | _, _ => false
  end.

(* isinstance(v, t) *)
Definition prim_isinstance (p : prim) (v : pyval) : bool :=
  match p, v with
  | TInt, PBool _ => true
  | TDict, PInst _ _ => true
  | _, _ => prim_exact p v
  end.

(* TypeTransformer.__call__ for a builtin target (708-719) *)
Definition conv_prim (nec ndl : bool) (u : unres) (p : prim) (v : pyval) : out pyval :=
  if prim_exact p v then Ok v
  else match p with
       | TNone => to_null nec v
       | TBool => to_bool nec ndl v
       | TInt => to_integer nec ndl v
       | TFloat => to_float nec ndl v
       | TDecimal => to_decimal nec ndl v
       | TStr => to_str nec ndl v
       | TBytes => to_bytes nec ndl v
       | TList => to_array nec ndl AList v
       | TTuple => to_array nec ndl ATuple v
       | TSet => to_array nec ndl ASet v
       | TFrozen => to_array nec ndl AFrozen v
       | TDict => to_dict nec v
       | TOpaque c => handle_unresolved u c v
       end.
