(* Model/RegCache.v — C20: lookups in the shared converter registry (utils/base.py TypeRegistry.resolve) by several
   threads.  The registrations do not change while the lookups run; the cache is filled on the way.
   One step = one source line touching the cache: the membership test, the read of a hit, the scan of the
   registrations (a function of the type alone), the fill.
   Hand-written; tied to /repo by the `registry-trace` suite (line-level traces of resolve under the scheduler). *)
From Coq Require Import List Arith Bool.
From UV Require Import Concur.
Import ListNotations.

Section RegCache.
  Variable scan : nat -> nat.          (* type -> converter chosen by the detector scan (0: none / default) *)

  Inductive rpc :=
  | RTest (t : nat)                    (* `if self.cache and t in self._cache` *)
  | RHit (t : nat)                     (* `return self._cache[t]` *)
  | RScan (t : nat)                    (* `for detector, trans, priority in self._registry` ... `if detector(t)` *)
  | RFill (t c : nat)                  (* `self._cache[t] = trans` *)
  | RDone (t c : nat)
  | RKeyErr (t : nat).
  Inductive revent := ETest (hit : bool) | EHit (c : nat) | EScan (c : nat) | EFill | EKey.

  Definition cache := list (nat * nat).
  Fixpoint lookup (ca : cache) (t : nat) : option nat :=
    match ca with [] => None | (t', c) :: r => if t' =? t then Some c else lookup r t end.

  Definition rstep (ca : cache) (p : rpc) : option (cache * rpc * revent) :=
    match p with
    | RTest t => match lookup ca t with Some _ => Some (ca, RHit t, ETest true) | None => Some (ca, RScan t, ETest false) end
    | RHit t => match lookup ca t with Some c => Some (ca, RDone t c, EHit c) | None => Some (ca, RKeyErr t, EKey) end
    | RScan t => Some (ca, RFill t (scan t), EScan (scan t))
    | RFill t c => Some ((t, c) :: ca, RDone t c, EFill)
    | RDone _ _ => None
    | RKeyErr _ => None
    end.

  Record rstate := { r_cache : cache; r_ths : list rpc }.
  Definition rtstep (st : rstate) (u : nat) : option (rstate * revent) :=
    match nth_error (r_ths st) u with
    | Some p => match rstep (r_cache st) p with
                | Some (ca, p', ev) => Some ({| r_cache := ca; r_ths := set_nth (r_ths st) u p' |}, ev)
                | None => None
                end
    | None => None
    end.
  Fixpoint rrun (st : rstate) (sched : list nat) : rstate :=
    match sched with
    | [] => st
    | u :: r => match rtstep st u with Some (st', _) => rrun st' r | None => rrun st r end
    end.
  Definition revent_eqb (a b : revent) : bool :=
    match a, b with
    | ETest x, ETest y => Bool.eqb x y | EHit x, EHit y => x =? y | EScan x, EScan y => x =? y
    | EFill, EFill => true | EKey, EKey => true | _, _ => false
    end.
  Fixpoint raccepts (st : rstate) (tr : list (nat * revent)) : bool :=
    match tr with
    | [] => true
    | (u, ev) :: r => match rtstep st u with
                      | Some (st', ev') => revent_eqb ev ev' && raccepts st' r
                      | None => false
                      end
    end.
End RegCache.
