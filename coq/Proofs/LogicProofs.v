(* Proofs/LogicProofs.v — C09: what the logical combinators accept and return, and the algebra of
   their construction. *)
From UV Require Import Parse Monad Combine.
From Coq Require Import Lia Permutation.
Open Scope string_scope.
Open Scope list_scope.
Open Scope Z_scope.

(* ================= construction algebra (Model/Combine.v) ================= *)
Lemma combine_loop_any_or args acc : existsb is_any args = true -> combine_loop COr args acc = None.
Proof.
  revert acc. induction args as [|a rest IH]; intros acc H; cbn in H; [discriminate|].
  cbn [combine_loop]. destruct (is_any a) eqn:E; [reflexivity|]. cbn in H.
  destruct (ty_in a acc); apply IH; exact H.
Qed.
Lemma combine_loop_any_xor args acc : existsb is_any args = true -> combine_loop CXor args acc = None.
Proof.
  revert acc. induction args as [|a rest IH]; intros acc H; cbn in H; [discriminate|].
  cbn [combine_loop]. destruct (is_any a) eqn:E; [reflexivity|]. cbn in H.
  destruct (ty_in a acc); apply IH; exact H.
Qed.
(* Any absorbs a union / an exclusive-or *)
Lemma combine_any_absorbs args : existsb is_any args = true ->
  combine COr args = rule_any /\ combine CXor args = rule_any.
Proof. intros H. unfold combine. rewrite combine_loop_any_or, combine_loop_any_xor by exact H. auto. Qed.

(* Any is ignored by a conjunction *)
Lemma combine_loop_and_ignores_any args : forall acc,
  combine_loop CAnd args acc = combine_loop CAnd (filter (fun t => negb (is_any t)) args) acc.
Proof.
  induction args as [|a rest IH]; intros acc; [reflexivity|]. cbn [combine_loop filter].
  destruct (is_any a) eqn:E; cbn [negb]; [apply IH|]. cbn [combine_loop]. rewrite E.
  destruct (ty_in a acc); apply IH.
Qed.
Lemma combine_and_ignores_any args : combine CAnd args = combine CAnd (filter (fun t => negb (is_any t)) args).
Proof. unfold combine. rewrite combine_loop_and_ignores_any. reflexivity. Qed.

(* a single argument is returned as it is (except under ~) *)
Lemma combine_singleton op t : is_any t = false -> op <> CNot -> combine op [t] = t.
Proof. intros Ht Hop. unfold combine. cbn [combine_loop]. rewrite Ht. cbn. destruct op; try reflexivity. contradiction. Qed.

Lemma existsb_rev_eq {A} (f : A -> bool) l : existsb f (rev l) = existsb f l.
Proof.
  induction l as [|x r IH]; [reflexivity|]. cbn [rev existsb]. rewrite existsb_app. cbn [existsb].
  rewrite IH. destruct (f x), (existsb f r); reflexivity.
Qed.

(* no duplicates: every kept argument differs from all earlier ones *)
Fixpoint distinct_b (l : list ty) : bool :=
  match l with [] => true | x :: r => negb (ty_in x r) && distinct_b r end.
Definition distinct_rev (l : list ty) : bool := distinct_b (rev l).
Lemma combine_loop_distinct op : forall args acc l,
  distinct_rev acc = true -> combine_loop op args acc = Some l -> distinct_rev l = true.
Proof.
  induction args as [|a rest IH]; intros acc l Hacc H; cbn [combine_loop] in H; [injection H as <-; exact Hacc|].
  assert (Hstep : ty_in a acc = false -> distinct_rev (acc ++ [a]) = true).
  { intros Hn. unfold distinct_rev. rewrite rev_app_distr. cbn [rev app distinct_b].
    unfold ty_in in *. rewrite existsb_rev_eq. rewrite Hn. exact Hacc. }
  destruct (is_any a).
  - destruct op; try discriminate H; try (eapply IH; eassumption).
    destruct (ty_in a acc) eqn:E; [eapply IH; eassumption|eapply IH; [apply Hstep; reflexivity|exact H]].
  - destruct (ty_in a acc) eqn:E; [eapply IH; eassumption|eapply IH; [apply Hstep; reflexivity|exact H]].
Qed.

Lemma combine_distinct op args l : combine op args = TLogic op l -> (exists l', combine_loop op args [] = Some l' /\ distinct_rev l' = true).
Proof.
  unfold combine. destruct (combine_loop op args []) as [l'|] eqn:E; [|discriminate].
  intros _. exists l'. split; [reflexivity|]. eapply combine_loop_distinct; [|exact E]. reflexivity.
Qed.

(* same-kind nesting flattens: combining two combinations of kind c combines their arguments *)
Lemma combine_by_flattens c xs ys :
  combine_by c (TLogic c xs) (TLogic c ys) false = combine c (xs ++ ys).
Proof. unfold combine_by, parts. destruct c; reflexivity. Qed.
Lemma combine_by_flattens_left c xs t :
  (match t with TLogic op _ => comb_eqb op c = false | _ => True end) ->
  combine_by c (TLogic c xs) t false = combine c (xs ++ [t]).
Proof.
  intros H. unfold combine_by, parts. destruct c; cbn [comb_eqb]; destruct t; try reflexivity; cbn in H; rewrite H; reflexivity.
Qed.

(* double negation cancels *)
Lemma invert_involutive t :
  (match t with TLogic CNot l => exists a, l = [a] /\ match a with TLogic CNot _ => False | _ => True end | _ => True end) ->
  invert (invert t) = t.
Proof.
  intros H. destruct t as [ |p|o a e v c mn mx|op l|c]; try reflexivity.
  destruct op; try reflexivity.
  destruct H as (a & -> & Ha). cbn [invert]. destruct a as [ |p|o a' e v c mn mx|op l|c]; try reflexivity.
  destruct op; try reflexivity. contradiction.
Qed.

(* ================= semantics (Model/Parse.v logical_parse) ================= *)
Section Sem.
Variable tr : options -> Z -> ty -> pyval -> M pyval.
Variable o : options.
Variable depth : Z.
Variable v : pyval.

(* what one argument says about the input, in its own context *)
Definition says (a : ty) : entered pyval := enter_tr tr o depth true a v.
Definition accepts_b (a : ty) : bool := match says a with Entered (Ok _) => true | _ => false end.
(* every argument gives a verdict (no DepthExceedError at entry, nothing outside the model) *)
Definition decided (args : list ty) : Prop :=
  forall a, In a args -> (exists w, says a = Entered (Ok w)) \/ (exists e, says a = Entered (Raise e)).

(* ---- union ---- *)
Lemma or_exact args s : existsb (fun con => exact_type con v) args = true ->
  logical_parse tr o depth COr args v s = (s, Ok v).
Proof. intros H. cbn [logical_parse]. rewrite H. reflexivity. Qed.

(* a stage returns the first accepting argument's output *)
Lemma or_stage_some o' args s s' w :
  or_stage tr o' depth args v s = (s', Ok (Some w)) ->
  exists con, In con args /\ enter_tr tr o' depth true con v = Entered (Ok w).
Proof.
  revert s. induction args as [|con rest IH]; intros s H; cbn [or_stage] in H; [discriminate|].
  destruct (enter_tr tr o' depth true con v) as [e|[r|e| | |]] eqn:E; try discriminate H.
  - apply mbind_ok in H. destruct H as (s1 & [] & _ & H). injection H as _ <-. exists con. split; [left; reflexivity|exact E].
  - apply mbind_ok in H. destruct H as (s1 & [] & _ & H). destruct (IH _ H) as (c & Hin & Hc). exists c. split; [right; exact Hin|exact Hc].
Qed.

Lemma or_stage_complete args : decided args -> forall s,
  existsb accepts_b args = true -> exists s' w, or_stage tr o depth args v s = (s', Ok (Some w)).
Proof.
  intros Hd. induction args as [|con rest IH]; intros s H; cbn in H; [discriminate|]. cbn [or_stage].
  destruct (Hd con (or_introl eq_refl)) as [[w Hw]|[e He]]; unfold says in *.
  - rewrite Hw. unfold mbind, clear_tmp_error, ret. eauto.
  - rewrite He. unfold accepts_b, says in H. rewrite He in H. cbn [orb] in H.
    unfold mbind, collect_tmp_error. apply IH; [intros a Ha; apply Hd; right; exact Ha|exact H].
Qed.

Lemma or_stage_total o' args : (forall a, In a args -> (exists w, enter_tr tr o' depth true a v = Entered (Ok w)) \/
                                                        (exists e, enter_tr tr o' depth true a v = Entered (Raise e))) ->
  forall s, exists s' r, or_stage tr o' depth args v s = (s', Ok r).
Proof.
  induction args as [|con rest IH]; intros Hd s; cbn [or_stage]; [unfold ret; eauto|].
  destruct (Hd con (or_introl eq_refl)) as [[w Hw]|[e He]].
  - rewrite Hw. unfold mbind, clear_tmp_error, ret. eauto.
  - rewrite He. unfold mbind, collect_tmp_error. apply IH. intros a Ha. apply Hd. right; exact Ha.
Qed.

(* ---- negation ---- *)
Lemma not_spec a s : e_errors s = [] -> e_tmp s = [] ->
  (forall e, says a = Entered (Raise e) -> logical_parse tr o depth CNot [a] v s = (s, Ok v)) /\
  (forall w, says a = Entered (Ok w) -> exists s' e, logical_parse tr o depth CNot [a] v s = (s', Raise e)).
Proof.
  intros He Ht. unfold says. split; intros x Hx; cbn [logical_parse]; rewrite Hx.
  - unfold mbind, raise_error. rewrite He, Ht. reflexivity.
  - destruct (handle_error o (parse_err KNegate) false s) as [s1 r1] eqn:Hh.
    pose proof (handle_error_grows _ _ _ _ _ _ Hh) as G.
    assert (Hn : e_errors s1 <> []).
    { unfold handle_error in Hh.
      assert (e_errors s1 = e_errors s ++ [parse_err KNegate]).
      { destruct (false || negb (o_collect_errors o)); [injection Hh as <- _; reflexivity|].
        destruct (o_max_errors o) as [m|]; [destruct (m <=? _)|]; injection Hh as <- _; reflexivity. }
      rewrite H. destruct (e_errors s); discriminate. }
    unfold mbind, raise_error. destruct (e_errors s1) eqn:E1; [contradiction|]. eauto.
Qed.

(* ---- conjunction: the arguments are applied in order to the running value ---- *)
Inductive chain : list ty -> pyval -> errs -> pyval -> errs -> Prop :=
| chain_nil x s : chain [] x s x s
| chain_cons a rest x s x1 s1 y s2 :
    tr o depth a x s = (s1, Ok x1) -> chain rest x1 s1 y s2 -> chain (a :: rest) x s y s2.

Lemma and_loop_chain : forall args x s s' w,
  and_loop tr o depth args x s = (s', Ok w) -> e_errors s' = [] -> chain args x s w s'.
Proof.
  induction args as [|a rest IH]; intros x s s' w H He; cbn [and_loop] in H.
  - injection H as <- <-. constructor.
  - destruct (tr o depth a x s) as [s1 [x1|e| | |]] eqn:Et; try discriminate H.
    + econstructor; [exact Et|]. apply IH; assumption.
    + exfalso. destruct (handle_error o (as_parse_error e) false s1) as [s2 [[]|e'| | |]] eqn:Hh; try discriminate H.
      injection H as <- _. apply handle_error_ok_adds in Hh. rewrite Hh in He. destruct (e_errors s1); discriminate.
Qed.

(* ---- exclusive or: exactly one argument accepts the GIVEN input ---- *)
Definition n_accept (args : list ty) : nat := List.length (filter accepts_b args).

Lemma handle_oneof s : exists s1 r, handle_error o (parse_err KOneOf) false s = (s1, r) /\
  e_errors s1 = e_errors s ++ [parse_err KOneOf] /\ e_tmp s1 = e_tmp s /\ (r = Ok tt \/ exists e, r = Raise e).
Proof.
  unfold handle_error. destruct (false || negb (o_collect_errors o)); [eauto 8|].
  destruct (o_max_errors o) as [m|]; [destruct (m <=? _)|]; eauto 8.
Qed.

(* the loop, from the point where `xor` tells whether an acceptance has been seen *)
Definition xor_post (xor : bool) (args : list ty) (res : pyval) (s s' : errs) (res' : pyval) (b : bool) : Prop :=
  exists extra textra, e_errors s' = e_errors s ++ extra /\ e_tmp s' = e_tmp s ++ textra /\
    match ((if xor then 1 else 0) + n_accept args)%nat with
    | O => b = false /\ extra = [] /\ (args <> [] -> textra <> [])
    | S O => b = true /\ extra = [] /\
             (if xor then res' = res else exists a, In a args /\ says a = Entered (Ok res'))
    | _ => extra <> []
    end.

Lemma xor_loop_run : forall args res xor s, decided args ->
  exists s' res' b, xor_loop tr o depth args v res xor s = (s', Ok (res', b)) /\ xor_post xor args res s s' res' b.
Proof.
  induction args as [|a rest IH]; intros res xor s Hd.
  - cbn [xor_loop]. exists s, res, xor. split; [reflexivity|]. exists [], []. rewrite !app_nil_r.
    split; [reflexivity|]. split; [reflexivity|]. unfold n_accept. cbn.
    destruct xor; cbn; repeat split; auto.
  - assert (Hd' : decided rest) by (intros x Hx; apply Hd; right; exact Hx).
    cbn [xor_loop].
    destruct (Hd a (or_introl eq_refl)) as [[w Hw]|[e He]]; unfold says in *.
    + (* this argument accepts *)
      assert (Hn : n_accept (a :: rest) = S (n_accept rest)).
      { unfold n_accept. cbn [filter]. unfold accepts_b at 1, says. rewrite Hw. reflexivity. }
      rewrite Hw. destruct xor; cbn [negb].
      * (* second acceptance *)
        destruct (handle_oneof s) as (s1 & r & Hh & He1 & Ht1 & Hr). rewrite Hh.
        destruct Hr as [->|[e ->]].
        -- exists s1, res, false. split; [reflexivity|]. exists [parse_err KOneOf], [].
           rewrite app_nil_r. split; [exact He1|]. split; [exact Ht1|]. rewrite Hn. cbn. discriminate.
        -- unfold collect_tmp_error.
           destruct (IH res true {| e_errors := e_errors s1; e_tmp := e_tmp s1 ++ [e] |} Hd') as (s' & res' & b & Hx & (ex & tx & Hee & Het & Hm)).
           exists s', res', b. split; [exact Hx|]. cbn [e_errors e_tmp] in Hee, Het.
           exists ([parse_err KOneOf] ++ ex), ([e] ++ tx).
           split; [rewrite Hee, He1, <- app_assoc; reflexivity|].
           split; [rewrite Het, Ht1, <- app_assoc; reflexivity|].
           rewrite Hn. cbn. discriminate.
      * (* first acceptance *)
        destruct (IH w true s Hd') as (s' & res' & b & Hx & (ex & tx & Hee & Het & Hm)).
        exists s', res', b. split; [exact Hx|]. exists ex, tx. split; [exact Hee|]. split; [exact Het|].
        rewrite Hn. cbn [Nat.add] in *. destruct (n_accept rest) as [|k]; cbn in *.
        -- destruct Hm as (Hb & Hex & Hr). repeat split; auto. exists a. split; [left; reflexivity|]. subst res'. exact Hw.
        -- exact Hm.
    + (* this argument rejects *)
      assert (Hn : n_accept (a :: rest) = n_accept rest).
      { unfold n_accept. cbn [filter]. unfold accepts_b at 1, says. rewrite He. reflexivity. }
      rewrite He. unfold mbind, collect_tmp_error.
      destruct (IH res xor {| e_errors := e_errors s; e_tmp := e_tmp s ++ [e] |} Hd') as (s' & res' & b & Hx & (ex & tx & Hee & Het & Hm)).
      rewrite Hx. exists s', res', b. split; [reflexivity|]. cbn [e_errors e_tmp] in Hee, Het.
      exists ex, ([e] ++ tx). split; [exact Hee|]. split; [rewrite Het, <- app_assoc; reflexivity|].
      rewrite Hn. destruct ((if xor then 1 else 0) + n_accept rest)%nat as [|[|k]].
      * destruct Hm as (Hb & Hex & _). repeat split; auto. intros _. discriminate.
      * destruct Hm as (Hb & Hex & Hr). repeat split; auto.
        destruct xor; [exact Hr|]. destruct Hr as (x & Hin & Hs). exists x. split; [right; exact Hin|exact Hs].
      * exact Hm.
Qed.

(* THE SPECIFICATION of ^ in a fresh context, for an input that is not already of one argument's exact class *)
Lemma xor_spec args s : decided args -> args <> [] -> e_errors s = [] -> e_tmp s = [] ->
  existsb (fun con => exact_type con v) args = false ->
  (n_accept args = 1%nat ->
     exists s' w a, logical_parse tr o depth CXor args v s = (s', Ok w) /\ In a args /\ says a = Entered (Ok w)) /\
  (n_accept args <> 1%nat -> exists s' e, logical_parse tr o depth CXor args v s = (s', Raise e)).
Proof.
  intros Hd Hne He Ht Hex.
  destruct (xor_loop_run args v false s Hd) as (s1 & res' & b & Hx & (ex & tx & Hee & Het & Hm)).
  assert (Hlp : logical_parse tr o depth CXor args v s =
                (do _ <- (if b then clear_tmp_error else ret tt); do _ <- raise_error; ret (if b then res' else v)) s1).
  { cbn [logical_parse]. rewrite Hex. unfold mbind at 1. rewrite Hx. reflexivity. }
  rewrite Hlp. clear Hlp. cbn [Nat.add] in Hm.
  destruct s1 as [errs1 tmp1]. cbn [e_errors e_tmp] in Hee, Het. rewrite He in Hee. rewrite Ht in Het. cbn [app] in Hee, Het. subst errs1 tmp1.
  split.
  - intros H1. rewrite H1 in Hm. destruct Hm as (-> & -> & (a & Hin & Hs)).
    exists {| e_errors := []; e_tmp := [] |}, res', a. split; [reflexivity|auto].
  - intros H1. destruct (n_accept args) as [|[|k]] eqn:En; try contradiction.
    + destruct Hm as (-> & -> & Htx). specialize (Htx Hne). destruct tx; [contradiction|].
      eexists. eexists. reflexivity.
    + destruct ex; [contradiction|]. destruct b; eexists; eexists; reflexivity.
Qed.

(* the verdict and the value do not depend on the order of the arguments *)
Lemma n_accept_perm args args' : Permutation args args' -> n_accept args = n_accept args'.
Proof. intros H. unfold n_accept. induction H; cbn [filter]; try destruct (accepts_b x); try destruct (accepts_b y); cbn; congruence. Qed.

Lemma decided_perm args args' : Permutation args args' -> decided args -> decided args'.
Proof. intros HP Hd a Ha. apply Hd. eapply Permutation_in; [apply Permutation_sym; exact HP|exact Ha]. Qed.
Lemma exact_perm args args' : Permutation args args' ->
  existsb (fun con => exact_type con v) args = existsb (fun con => exact_type con v) args'.
Proof.
  intros HP. induction HP; cbn [existsb]; try congruence.
  destruct (exact_type x v), (exact_type y v); reflexivity.
Qed.
Lemma single_filter (f : ty -> bool) l a : In a l -> f a = true -> List.length (filter f l) = 1%nat -> filter f l = [a].
Proof.
  induction l as [|x r IH]; intros Hin Hf Hl; [destruct Hin|]. cbn [filter] in *.
  destruct Hin as [->|Hin].
  - rewrite Hf in *. cbn [List.length] in Hl. destruct (filter f r); [reflexivity|discriminate].
  - destruct (f x) eqn:Ex.
    + cbn [List.length] in Hl. assert (In a (filter f r)) by (apply filter_In; auto).
      destruct (filter f r); [destruct H|discriminate].
    + apply IH; assumption.
Qed.

Lemma xor_order_independent args args' s :
  Permutation args args' -> decided args -> args <> [] -> e_errors s = [] -> e_tmp s = [] ->
  existsb (fun con => exact_type con v) args = false ->
  match snd (logical_parse tr o depth CXor args v s), snd (logical_parse tr o depth CXor args' v s) with
  | Ok w, Ok w' => w = w'
  | Raise _, Raise _ => True
  | _, _ => False
  end.
Proof.
  intros HP Hd Hne He Ht Hex.
  assert (Hd' : decided args') by (eapply decided_perm; eassumption).
  assert (Hne' : args' <> []) by (intros ->; apply Permutation_sym, Permutation_nil in HP; contradiction).
  assert (Hex' : existsb (fun con => exact_type con v) args' = false) by (rewrite <- (exact_perm _ _ HP); exact Hex).
  destruct (xor_spec args s Hd Hne He Ht Hex) as [H1 H2].
  destruct (xor_spec args' s Hd' Hne' He Ht Hex') as [H1' H2'].
  rewrite <- (n_accept_perm _ _ HP) in H1', H2'.
  destruct (Nat.eq_dec (n_accept args) 1) as [E|E].
  - destruct (H1 E) as (s1 & w & a & -> & Hin & Hs). destruct (H1' E) as (s2 & w' & a' & -> & Hin' & Hs'). cbn [snd].
    assert (Fa : filter accepts_b args = [a]).
    { apply single_filter; [exact Hin|unfold accepts_b; rewrite Hs; reflexivity|]. exact E. }
    assert (Fa' : filter accepts_b args' = [a']).
    { apply single_filter; [exact Hin'|unfold accepts_b; rewrite Hs'; reflexivity|]. fold (n_accept args'). rewrite <- (n_accept_perm _ _ HP). exact E. }
    assert (HPf : Permutation (filter accepts_b args) (filter accepts_b args')).
    { clear -HP. induction HP; cbn [filter]; try destruct (accepts_b x); try destruct (accepts_b y); auto.
      - apply perm_swap.
      - eapply perm_trans; eassumption. }
    rewrite Fa, Fa' in HPf. apply Permutation_length_1 in HPf. subst a'. congruence.
  - destruct (H2 E) as (s1 & e & ->). destruct (H2' E) as (s2 & e' & ->). exact I.
Qed.

End Sem.
