(* Proofs/TemporalProofs.v — C14 (partial): the field arithmetic of the temporal encoders and decoders
   round-trips, for every duration (negative ones included), every UTC offset of less than a day, and
   every time of day with whole milliseconds. *)
From UV Require Import Temporal.
From Coq Require Import ZArith Bool Lia ZifyBool.
Ltac Zify.zify_post_hook ::= Z.to_euclidean_division_equations.
Open Scope Z_scope.

Lemma of_total_total t : td_wf t -> of_total (total_us t) = t.
Proof.
  destruct t as [d s u]. unfold td_wf, of_total, total_us. cbn [td_days td_secs td_us]. intros [Hs Hu].
  assert (E1 : ((d * 86400 + s) * 1000000 + u) / 1000000 = d * 86400 + s) by lia.
  assert (E2 : ((d * 86400 + s) * 1000000 + u) mod 1000000 = u) by lia.
  rewrite E1, E2.
  assert (E3 : (d * 86400 + s) / 86400 = d) by lia.
  assert (E4 : (d * 86400 + s) mod 86400 = s) by lia.
  rewrite E3, E4. reflexivity.
Qed.

Lemma of_total_wf n : td_wf (of_total n).
Proof. unfold td_wf, of_total. cbn [td_secs td_us]. lia. Qed.
Lemma total_of_total n : total_us (of_total n) = n.
Proof. unfold total_us, of_total. cbn [td_days td_secs td_us]. lia. Qed.

(* the fields written for a duration denote its absolute value, and the sign is its sign *)
Lemma encode_td_value t : td_wf t ->
  let f := encode_td t in
  (if df_neg f then -1 else 1) *
  ((df_days f * 86400 + df_hours f * 3600 + df_minutes f * 60 + df_seconds f) * 1000000 + df_us f) = total_us t.
Proof.
  intros Hw. unfold encode_td. cbn zeta.
  destruct (total_us t <? 0) eqn:En; cbn [df_neg df_days df_hours df_minutes df_seconds df_us].
  - pose proof (of_total_wf (- total_us t)) as [Hs Hu]. pose proof (total_of_total (- total_us t)) as Ht.
    unfold total_us at 1 in Ht.
    set (a := of_total (- total_us t)) in *. lia.
  - destruct Hw as [Hs Hu]. unfold total_us. lia.
Qed.

(* the written fields are in their ranges (so that the text form is the canonical one) *)
Lemma encode_td_ranges t : td_wf t ->
  let f := encode_td t in
  0 <= df_hours f < 24 /\ 0 <= df_minutes f < 60 /\ 0 <= df_seconds f < 60 /\ 0 <= df_us f < 1000000 /\
  (df_neg f = true -> 0 <= df_days f).
Proof.
  intros Hw. unfold encode_td. cbn zeta.
  destruct (total_us t <? 0) eqn:En; cbn [df_neg df_days df_hours df_minutes df_seconds df_us].
  - pose proof (of_total_wf (- total_us t)) as [Hs Hu]. pose proof (total_of_total (- total_us t)) as Ht.
    unfold total_us at 1 in Ht. set (a := of_total (- total_us t)) in *. lia.
  - destruct Hw as [Hs Hu]. lia.
Qed.

Theorem td_roundtrip t : td_wf t -> decode_td (encode_td t) = t.
Proof.
  intros Hw. unfold decode_td. pose proof (encode_td_value t Hw) as Hv. cbn zeta in Hv.
  destruct (df_neg (encode_td t)).
  - replace (- _) with (total_us t) by lia. apply of_total_total. exact Hw.
  - replace ((df_days (encode_td t) * 86400 + df_hours (encode_td t) * 3600 + df_minutes (encode_td t) * 60 +
              df_seconds (encode_td t)) * 1000000 + df_us (encode_td t)) with (total_us t) by lia.
    apply of_total_total. exact Hw.
Qed.

Theorem offset_roundtrip m : -1440 < m < 1440 -> decode_offset (encode_offset m) = m /\
  let '(_, h, mm) := encode_offset m in 0 <= h < 24 /\ 0 <= mm < 60.
Proof. intros H. unfold decode_offset, encode_offset. destruct (m <? 0) eqn:E; lia. Qed.

Theorem time_ms_roundtrip us : 0 <= us < 1000000 -> us mod 1000 = 0 -> decode_time_us (encode_time_us us) = us.
Proof. unfold decode_time_us, encode_time_us. lia. Qed.
(* ... and a time with a finer fraction does not *)
Theorem time_sub_ms_lost us : 0 <= us < 1000000 -> us mod 1000 <> 0 -> decode_time_us (encode_time_us us) <> us.
Proof. unfold decode_time_us, encode_time_us. lia. Qed.
