(* Proofs/SchemaProofs.v — C07: every public mutating operation of Model/Schema.v keeps the instance
   invariant, and a single-key operation that raises leaves the instance as it was.  By case
   analysis per operation over two kinds of local change (the entries of one field / one unknown
   key), then induction over the operation sequence. *)
From UV Require Import Parse Schema Verdict Assoc FieldSpec FieldFacts DfsSpec.
From Coq Require Import Lia.
Open Scope string_scope.
Open Scope list_scope.

(* ---- deleting a key ---- *)
Lemma assoc_del_other l k x : x <> k -> assoc x (sdict_del l k) = assoc x l.
Proof.
  intros Hx. induction l as [|[k' v] r IH]; cbn; [reflexivity|].
  destruct (String.eqb k' k) eqn:E.
  - apply seqb_eq in E. subst k'. apply seqb_neq in Hx. rewrite Hx. reflexivity.
  - cbn. destruct (String.eqb x k'); [reflexivity|exact IH].
Qed.
Lemma keys_del_subset l k x : In x (keys (sdict_del l k)) -> In x (keys l).
Proof.
  induction l as [|[k' v] r IH]; cbn; [tauto|]. destruct (String.eqb k' k); cbn; [tauto|].
  intros [H|H]; [left; exact H|right; apply IH; exact H].
Qed.
Lemma nodup_keys_del l k : NoDup (keys l) -> NoDup (keys (sdict_del l k)).
Proof.
  induction l as [|[k' v] r IH]; cbn; intros Hn; [constructor|].
  inversion Hn as [|? ? Hni Hn']; subst. destruct (String.eqb k' k); cbn; [exact Hn'|].
  constructor; [|apply IH; exact Hn']. intros Hin. apply Hni. eapply keys_del_subset. exact Hin.
Qed.
Lemma assoc_del_same l k : NoDup (keys l) -> assoc k (sdict_del l k) = None.
Proof.
  induction l as [|[k' v] r IH]; cbn; intros Hn; [reflexivity|].
  inversion Hn as [|? ? Hni Hn']; subst. destruct (String.eqb k' k) eqn:E.
  - apply seqb_eq in E. subst k'. apply assoc_None. exact Hni.
  - cbn. rewrite String.eqb_sym, E. apply IH. exact Hn'.
Qed.
Lemma assoc_del_sub l k x v : assoc x (sdict_del l k) = Some v -> NoDup (keys l) -> assoc x l = Some v.
Proof.
  intros H Hn. destruct (string_dec x k) as [->|Hne].
  - rewrite assoc_del_same in H by exact Hn. discriminate.
  - rewrite assoc_del_other in H by exact Hne. exact H.
Qed.
Lemma has_key_del_same l k : NoDup (keys l) -> has_key k (sdict_del l k) = false.
Proof. intros Hn. unfold has_key. rewrite assoc_del_same by exact Hn. reflexivity. Qed.

Section Inv.
Variable tr : options -> Z -> ty -> pyval -> M pyval.
Variable C : cdecl.
Variable o : options.
Variable fl : sflags.
Hypothesis HW : WF C.
Hypothesis Hatt : forall kf kf', In kf (c_fields C) -> In kf' (c_fields C) ->
                  f_attname (snd kf) = f_attname (snd kf') -> kf = kf'.
Let fs := c_fields C.

Definition aname (kf : string * field) : string := f_attname (snd kf).

(* a value some assignment to the field would store: an output of the field's own parse *)
Definition parsed (f : field) (r : pyval) : Prop := exists v, set_parse tr o f v = Ok (Some r).

(* the invariant, relative to the instance as it was constructed *)
Record good (i0 i : inst) : Prop := {
  g_nd : NoDup (keys (i_dict i));
  g_na : NoDup (keys (i_attrs i));
  (* no unparsed data: a field's value is the one it was constructed with, or an output of its parser *)
  g_vd : forall kf v, In kf fs -> assoc (fname kf) (i_dict i) = Some v ->
         assoc (fname kf) (i_dict i0) = Some v \/ parsed (snd kf) v;
  g_va : forall kf v, In kf fs -> assoc (aname kf) (i_attrs i) = Some v ->
         assoc (aname kf) (i_attrs i0) = Some v \/ parsed (snd kf) v;
  (* required fields stay *)
  g_rd : forall kf, In kf fs -> is_required (snd kf) o = true ->
         has_key (fname kf) (i_dict i0) = true -> has_key (fname kf) (i_dict i) = true;
  g_ra : forall kf, In kf fs -> is_required (snd kf) o = true -> c_dict_based C = false ->
         has_key (aname kf) (i_attrs i0) = true -> has_key (aname kf) (i_attrs i) = true;
  (* immutable fields hold their initial value *)
  g_md : forall kf, In kf fs -> f_immutable (snd kf) = true -> assoc (fname kf) (i_dict i) = assoc (fname kf) (i_dict i0);
  g_ma : forall kf, In kf fs -> f_immutable (snd kf) = true -> c_dict_based C = false ->
         assoc (aname kf) (i_attrs i) = assoc (aname kf) (i_attrs i0);
  (* no_output fields are not in the mapping; the attribute view does not outlive the key *)
  g_no : forall kf, In kf fs -> is_no_output (snd kf) o = true -> has_key (fname kf) (i_dict i) = false;
  g_ag : forall kf, In kf fs -> c_dict_based C = true -> is_no_output (snd kf) o = false ->
         has_key (fname kf) (i_dict i) = false -> has_key (aname kf) (i_attrs i) = false
}.

Lemma get_field_In k f : get_field C k = Some f -> exists key, In (key, f) fs.
Proof.
  rewrite get_field_target. destruct (get_field_key C k) as [key|]; [|discriminate].
  intros H. exists key. apply assoc_In. exact H.
Qed.
Lemma by_attname_In a f : field_by_attname C a = Some f -> exists key, In (key, f) fs /\ f_attname f = a.
Proof.
  unfold field_by_attname. destruct (find _ (c_fields C)) as [[key f']|] eqn:E; [|discriminate].
  intros H. injection H as <-. apply find_some in E. destruct E as [Hi He]. apply seqb_eq in He.
  exists key. auto.
Qed.
Lemma other_name kf kf' : In kf fs -> In kf' fs -> kf <> kf' -> fname kf <> fname kf'.
Proof.
  intros Hi Hi' Hne Hn. apply Hne. pose proof (wf_names C HW kf kf' Hi Hi' Hn) as Hk.
  destruct kf as [k f], kf' as [k' f']. cbn [fst] in Hk. subst k'.
  apply (In_field_assoc C HW) in Hi. apply (In_field_assoc C HW) in Hi'. congruence.
Qed.
Lemma other_aname kf kf' : In kf fs -> In kf' fs -> kf <> kf' -> aname kf <> aname kf'.
Proof. intros Hi Hi' Hne Hn. apply Hne. apply Hatt; assumption. Qed.

(* a value dropped by the on_error policy belongs to an optional field *)
Lemma set_parse_none f v : set_parse tr o f v = Ok None -> is_required f o = false.
Proof.
  unfold set_parse, in_fresh, parse_value. destruct (f_type f) as [t|]; [|cbn; discriminate].
  destruct (enter_tr tr (fail_fast o) 1 _ t v) as [e|[r|e| | |]]; cbn; try discriminate.
  destruct (get_on_error f (fail_fast o)); cbn; try discriminate.
  change (is_required f (fail_fast o)) with (is_required f o).
  destruct (is_required f o); [|reflexivity]. unfold mbind, handle_error. cbn. discriminate.
Qed.

(* ---- the two kinds of local change ---- *)
Lemma good_field_change i0 i i' kf :
  good i0 i -> In kf fs -> f_immutable (snd kf) = false ->
  NoDup (keys (i_dict i')) -> NoDup (keys (i_attrs i')) ->
  (forall x, x <> fname kf -> assoc x (i_dict i') = assoc x (i_dict i)) ->
  (forall a, a <> aname kf -> assoc a (i_attrs i') = assoc a (i_attrs i)) ->
  (forall v, assoc (fname kf) (i_dict i') = Some v -> assoc (fname kf) (i_dict i) = Some v \/ parsed (snd kf) v) ->
  (forall v, assoc (aname kf) (i_attrs i') = Some v -> assoc (aname kf) (i_attrs i) = Some v \/ parsed (snd kf) v) ->
  (is_required (snd kf) o = true -> (has_key (fname kf) (i_dict i) = true -> has_key (fname kf) (i_dict i') = true) /\
                                    (c_dict_based C = false -> has_key (aname kf) (i_attrs i) = true -> has_key (aname kf) (i_attrs i') = true)) ->
  (is_no_output (snd kf) o = true -> has_key (fname kf) (i_dict i') = false) ->
  (c_dict_based C = true -> is_no_output (snd kf) o = false -> has_key (fname kf) (i_dict i') = false -> has_key (aname kf) (i_attrs i') = false) ->
  good i0 i'.
Proof.
  intros G Hi Him Hnd Hna Hdo Hao Hvd Hva Hr Hno Hag.
  assert (Hso : forall kf', In kf' fs -> kf' = kf \/ (fname kf' <> fname kf /\ aname kf' <> aname kf)).
  { intros kf' Hi'. destruct (string_dec (fname kf') (fname kf)) as [E|N].
    - left. pose proof (wf_names C HW kf' kf Hi' Hi E) as Hk. destruct kf as [k f], kf' as [k' f']. cbn [fst] in Hk. subst k'.
      apply (In_field_assoc C HW) in Hi. apply (In_field_assoc C HW) in Hi'. congruence.
    - right. split; [exact N|]. intros Ea. apply N. rewrite (Hatt _ _ Hi' Hi Ea). reflexivity. }
  constructor; try assumption.
  - intros kf' v Hi' Hv. destruct (Hso kf' Hi') as [->|[Hn Ha]].
    + destruct (Hvd v Hv) as [H|H]; [apply (g_vd _ _ G); assumption|right; exact H].
    + rewrite Hdo in Hv by exact Hn. apply (g_vd _ _ G); assumption.
  - intros kf' v Hi' Hv. destruct (Hso kf' Hi') as [->|[Hn Ha]].
    + destruct (Hva v Hv) as [H|H]; [apply (g_va _ _ G); assumption|right; exact H].
    + rewrite Hao in Hv by exact Ha. apply (g_va _ _ G); assumption.
  - intros kf' Hi' Hreq H0. pose proof (g_rd _ _ G kf' Hi' Hreq H0) as Hk. destruct (Hso kf' Hi') as [->|[Hn Ha]].
    + apply (proj1 (Hr Hreq)). exact Hk.
    + unfold has_key in *. rewrite Hdo by exact Hn. exact Hk.
  - intros kf' Hi' Hreq Hdb H0. pose proof (g_ra _ _ G kf' Hi' Hreq Hdb H0) as Hk. destruct (Hso kf' Hi') as [->|[Hn Ha]].
    + apply (proj2 (Hr Hreq)); assumption.
    + unfold has_key in *. rewrite Hao by exact Ha. exact Hk.
  - intros kf' Hi' Himm. destruct (Hso kf' Hi') as [->|[Hn Ha]]; [congruence|].
    rewrite Hdo by exact Hn. apply (g_md _ _ G); assumption.
  - intros kf' Hi' Himm Hdb. destruct (Hso kf' Hi') as [->|[Hn Ha]]; [congruence|].
    rewrite Hao by exact Ha. apply (g_ma _ _ G); assumption.
  - intros kf' Hi' Hn0. destruct (Hso kf' Hi') as [->|[Hn Ha]]; [apply Hno; exact Hn0|].
    unfold has_key. rewrite Hdo by exact Hn. apply (g_no _ _ G); assumption.
  - intros kf' Hi' Hdb Hn0 Hk. destruct (Hso kf' Hi') as [->|[Hn Ha]]; [apply Hag; assumption|].
    unfold has_key in *. rewrite Hao by exact Ha. rewrite Hdo in Hk by exact Hn. apply (g_ag _ _ G); assumption.
Qed.

(* a change under a key that feeds no field *)
Lemma good_key_change i0 i i' k :
  good i0 i -> get_field_key C k = None ->
  NoDup (keys (i_dict i')) -> i_attrs i' = i_attrs i ->
  (forall x, x <> k -> assoc x (i_dict i') = assoc x (i_dict i)) ->
  good i0 i'.
Proof.
  intros G Hk Hnd Ha Hdo.
  assert (Hd : forall kf, In kf fs -> assoc (fname kf) (i_dict i') = assoc (fname kf) (i_dict i)).
  { intros kf Hi. apply Hdo. apply (unknown_not_name C HW k kf Hk Hi). }
  constructor; try assumption; rewrite ?Ha; try apply G.
  - intros kf v Hi Hv. rewrite Hd in Hv by exact Hi. apply (g_vd _ _ G); assumption.
  - intros kf Hi Hreq H0. unfold has_key. rewrite Hd by exact Hi. apply (g_rd _ _ G); assumption.
  - intros kf Hi Himm. rewrite Hd by exact Hi. apply (g_md _ _ G); assumption.
  - intros kf Hi Hn0. unfold has_key. rewrite Hd by exact Hi. apply (g_no _ _ G); assumption.
  - intros kf Hi Hdb Hn0 Hk2. unfold has_key in Hk2. rewrite Hd in Hk2 by exact Hi. apply (g_ag _ _ G); assumption.
Qed.

(* ---- the operations ---- *)
Ltac inv_ok H := injection H as <-.

Lemma drop_field_good i0 i kf :
  good i0 i -> In kf fs -> f_immutable (snd kf) = false -> is_required (snd kf) o = false ->
  good i0 {| i_dict := sdict_del (i_dict i) (fname kf); i_attrs := sdict_del (i_attrs i) (aname kf) |}.
Proof.
  intros G Hi Him Hreq. apply (good_field_change i0 i _ kf G Hi Him); cbn [i_dict i_attrs].
  - apply nodup_keys_del. apply G.
  - apply nodup_keys_del. apply G.
  - intros x Hx. apply assoc_del_other. exact Hx.
  - intros a Ha. apply assoc_del_other. exact Ha.
  - intros v Hv. rewrite assoc_del_same in Hv by apply G. discriminate.
  - intros v Hv. rewrite assoc_del_same in Hv by apply G. discriminate.
  - congruence.
  - intros _. apply has_key_del_same. apply G.
  - intros _ _ _. apply has_key_del_same. apply G.
Qed.

Lemma s_field_set_good i0 i kf v i' :
  good i0 i -> In kf fs -> s_field_set tr o fl i (snd kf) v = Ok i' -> good i0 i'.
Proof.
  intros G Hi. unfold s_field_set.
  destruct (sf_immutable fl || f_immutable (snd kf)) eqn:Eim; [discriminate|].
  apply Bool.orb_false_iff in Eim. destruct Eim as [_ Him].
  destruct (set_parse tr o (snd kf) v) as [[r|]| | | |] eqn:Ep; cbn [bind]; try discriminate.
  - destruct (is_no_output (snd kf) o) eqn:Eno; intros H; inv_ok H.
    + apply (good_field_change i0 i _ kf G Hi Him); cbn [i_dict i_attrs].
      * apply nodup_keys_del. apply G.
      * apply nodup_keys_set. apply G.
      * intros x Hx. apply assoc_del_other. exact Hx.
      * intros a Ha. apply assoc_set_other. exact Ha.
      * intros w Hw. rewrite assoc_del_same in Hw by apply G. discriminate.
      * intros w Hw. change (f_attname (snd kf)) with (aname kf) in Hw. rewrite assoc_set_same in Hw. injection Hw as <-.
        right. exists v. exact Ep.
      * intros _. split.
        -- intros Hk. rewrite (g_no _ _ G kf Hi Eno) in Hk. discriminate.
        -- intros _ _. change (f_attname (snd kf)) with (aname kf). rewrite has_key_set, seqb_refl. reflexivity.
      * intros _. apply has_key_del_same. apply G.
      * congruence.
    + apply (good_field_change i0 i _ kf G Hi Him); cbn [i_dict i_attrs].
      * apply nodup_keys_set. apply G.
      * apply G.
      * intros x Hx. apply assoc_set_other. exact Hx.
      * reflexivity.
      * intros w Hw. change (f_name (snd kf)) with (fname kf) in Hw. rewrite assoc_set_same in Hw. injection Hw as <-.
        right. exists v. exact Ep.
      * intros w Hw. left. exact Hw.
      * intros _. split; [intros _; change (f_name (snd kf)) with (fname kf); rewrite has_key_set, seqb_refl; reflexivity|auto].
      * congruence.
      * intros _ _ Hk. change (f_name (snd kf)) with (fname kf) in Hk. rewrite has_key_set, seqb_refl in Hk. discriminate.
  - intros H. inv_ok H. apply drop_field_good; try assumption. eapply set_parse_none. exact Ep.
Qed.

Lemma s_field_del_good i0 i kf i' :
  good i0 i -> In kf fs -> s_field_del o fl i (snd kf) = Ok i' -> good i0 i'.
Proof.
  intros G Hi. unfold s_field_del.
  destruct (sf_immutable fl || f_immutable (snd kf)) eqn:Eim; [discriminate|].
  apply Bool.orb_false_iff in Eim. destruct Eim as [_ Him].
  destruct (is_required (snd kf) o) eqn:Ereq; [discriminate|].
  destruct (negb (has_key (f_name (snd kf)) (i_dict i))).
  - destruct (sf_ign_del fl); [|discriminate]. intros H. inv_ok H. exact G.
  - intros H. inv_ok H. apply drop_field_good; assumption.
Qed.

Lemma set_unknown_good i0 i k v :
  good i0 i -> get_field_key C k = None ->
  good i0 {| i_dict := sdict_set (i_dict i) k v; i_attrs := i_attrs i |}.
Proof.
  intros G Hk. apply (good_key_change i0 i _ k G Hk); cbn [i_dict i_attrs].
  - apply nodup_keys_set. apply G.
  - reflexivity.
  - intros x Hx. apply assoc_set_other. exact Hx.
Qed.
Lemma del_unknown_good i0 i k :
  good i0 i -> get_field_key C k = None ->
  good i0 {| i_dict := sdict_del (i_dict i) k; i_attrs := i_attrs i |}.
Proof.
  intros G Hk. apply (good_key_change i0 i _ k G Hk); cbn [i_dict i_attrs].
  - apply nodup_keys_del. apply G.
  - reflexivity.
  - intros x Hx. apply assoc_del_other. exact Hx.
Qed.

Lemma get_field_cases k :
  (exists kf, In kf fs /\ get_field C k = Some (snd kf)) \/ (get_field C k = None /\ get_field_key C k = None).
Proof.
  rewrite get_field_target. destruct (get_field_key C k) as [key|] eqn:Ek; [|right; auto].
  destruct (target_field C HW _ _ Ek) as [f Hf]. left. exists (key, f). split; [apply assoc_In; exact Hf|exact Hf].
Qed.

Lemma s_setitem_good i0 i k v i' : good i0 i -> s_setitem tr C o fl i k v = Ok i' -> good i0 i'.
Proof.
  intros G. unfold s_setitem. destruct (sf_immutable fl); [discriminate|].
  destruct (get_field_cases k) as [(kf & Hi & ->)|[-> Hk]].
  - apply s_field_set_good; assumption.
  - destruct (str_in k (c_exclude_vars C)); [discriminate|].
    destruct (o_addition o) as [[|]|]; try discriminate; intros H; inv_ok H; [apply set_unknown_good; assumption|exact G].
Qed.

Lemma s_delitem_good i0 i k i' : good i0 i -> s_delitem C o fl i k = Ok i' -> good i0 i'.
Proof.
  intros G. unfold s_delitem. destruct (sf_immutable fl); [discriminate|].
  destruct (get_field_cases k) as [(kf & Hi & ->)|[-> Hk]].
  - apply s_field_del_good; assumption.
  - destruct (has_key k (i_dict i)); [|discriminate]. intros H. inv_ok H. apply del_unknown_good; assumption.
Qed.

Lemma s_pop_good i0 i k d i' : good i0 i -> s_pop C o fl i k d = Ok i' -> good i0 i'.
Proof.
  intros G. unfold s_pop. destruct (sf_immutable fl); [discriminate|].
  destruct (get_field_cases k) as [(kf & Hi & ->)|[-> Hk]].
  - destruct (f_immutable (snd kf)) eqn:Him; [discriminate|].
    destruct (is_required (snd kf) o) eqn:Ereq; [discriminate|].
    destruct (has_key (f_name (snd kf)) (i_dict i)) eqn:Eh.
    + intros H. inv_ok H. apply drop_field_good; assumption.
    + destruct d; [|discriminate]. intros H. inv_ok H.
      apply (good_field_change i0 i _ kf G Hi Him); cbn [i_dict i_attrs].
      * apply G.
      * apply nodup_keys_del. apply G.
      * reflexivity.
      * intros a Ha. apply assoc_del_other. exact Ha.
      * intros w Hw. left. exact Hw.
      * intros w Hw. change (f_attname (snd kf)) with (aname kf) in Hw. rewrite assoc_del_same in Hw by apply G. discriminate.
      * congruence.
      * intros Hno. apply (g_no _ _ G); assumption.
      * intros _ _ _. apply has_key_del_same. apply G.
  - destruct (has_key k (i_dict i)).
    + intros H. inv_ok H. apply del_unknown_good; assumption.
    + destruct d; [|discriminate]. intros H. inv_ok H. exact G.
Qed.

Lemma s_popitem_good i0 i i' : good i0 i -> s_popitem C o fl i = Ok i' -> good i0 i'.
Proof.
  intros G. unfold s_popitem. destruct (sf_immutable fl); [discriminate|].
  destruct (rev (i_dict i)) as [|[k w] r]; [discriminate|]. apply s_delitem_good. exact G.
Qed.

Lemma s_setdefault_good i0 i k d i' : good i0 i -> s_setdefault tr C o fl i k d = Ok i' -> good i0 i'.
Proof.
  intros G. unfold s_setdefault. destruct (s_contains C i k); [intros H; inv_ok H; exact G|apply s_setitem_good; exact G].
Qed.

Lemma s_update_loop_good i0 m : forall i, good i0 i -> good i0 (fst (s_update_loop tr C o fl i m)).
Proof.
  induction m as [|[k v] r IH]; intros i G; cbn [s_update_loop fst]; [exact G|].
  destruct (s_setitem tr C o fl i k v) as [i1|e| | |] eqn:Es; cbn [fst]; try exact G.
  apply IH. eapply s_setitem_good; eassumption.
Qed.

Lemma fold_del_assoc (l : list (string * field)) : forall acc x v,
  NoDup (keys acc) ->
  assoc x (fold_left (fun a kf => sdict_del a (f_attname (snd kf))) l acc) = Some v -> assoc x acc = Some v.
Proof.
  induction l as [|kf r IH]; intros acc x v Hn H; cbn [fold_left] in H; [exact H|].
  apply IH in H; [|apply nodup_keys_del; exact Hn]. eapply assoc_del_sub; eassumption.
Qed.
Lemma fold_del_nodup (l : list (string * field)) : forall acc,
  NoDup (keys acc) -> NoDup (keys (fold_left (fun a kf => sdict_del a (f_attname (snd kf))) l acc)).
Proof. induction l as [|kf r IH]; intros acc Hn; cbn [fold_left]; [exact Hn|]. apply IH. apply nodup_keys_del. exact Hn. Qed.
Lemma fold_del_has (l : list (string * field)) acc x :
  NoDup (keys acc) ->
  has_key x (fold_left (fun a kf => sdict_del a (f_attname (snd kf))) l acc) = true -> has_key x acc = true.
Proof.
  intros Hn. unfold has_key.
  destruct (assoc x (fold_left (fun a kf => sdict_del a (f_attname (snd kf))) l acc)) as [v|] eqn:E; [|discriminate].
  intros _. rewrite (fold_del_assoc l acc x v Hn E). reflexivity.
Qed.
Lemma fold_del_gone (l : list (string * field)) : forall acc kf,
  NoDup (keys acc) -> In kf l ->
  has_key (f_attname (snd kf)) (fold_left (fun a kf => sdict_del a (f_attname (snd kf))) l acc) = false.
Proof.
  induction l as [|kf0 r IH]; intros acc kf Hn Hi; [destruct Hi|]. cbn [fold_left].
  destruct Hi as [->|Hi]; [|apply IH; [apply nodup_keys_del; exact Hn|exact Hi]].
  destruct (has_key (f_attname (snd kf))
              (fold_left (fun a kf => sdict_del a (f_attname (snd kf))) r (sdict_del acc (f_attname (snd kf))))) eqn:E; [|reflexivity].
  apply fold_del_has in E; [|apply nodup_keys_del; exact Hn]. rewrite has_key_del_same in E by exact Hn. discriminate.
Qed.

Lemma s_clear_good i0 i i' : good i0 i -> s_clear C o fl i = Ok i' -> good i0 i'.
Proof.
  intros G. unfold s_clear. destruct (sf_immutable fl); [discriminate|].
  destruct (existsb _ (c_fields C)) eqn:Ee; [discriminate|]. intros H. inv_ok H.
  assert (Hall : forall kf, In kf fs -> f_immutable (snd kf) = false /\ is_required (snd kf) o = false).
  { intros kf Hi. apply Bool.orb_false_iff.
    destruct (f_immutable (snd kf) || is_required (snd kf) o) eqn:E; [|reflexivity].
    assert (existsb (fun kf => f_immutable (snd kf) || is_required (snd kf) o) (c_fields C) = true); [|congruence].
    apply existsb_exists. exists kf. auto. }
  constructor; cbn [i_dict i_attrs].
  - constructor.
  - apply fold_del_nodup. apply G.
  - intros kf v _ Hv. discriminate.
  - intros kf v Hi Hv. apply fold_del_assoc in Hv; [|apply G]. apply (g_va _ _ G); assumption.
  - intros kf Hi Hreq. destruct (Hall kf Hi). congruence.
  - intros kf Hi Hreq. destruct (Hall kf Hi). congruence.
  - intros kf Hi Him. destruct (Hall kf Hi). congruence.
  - intros kf Hi Him. destruct (Hall kf Hi). congruence.
  - intros kf _ _. reflexivity.
  - intros kf Hi _ _ _. apply fold_del_gone; [apply G|exact Hi].
Qed.

(* DataClass *)
Lemma d_setattr_good i0 i kf v i' :
  good i0 i -> In kf fs -> c_dict_based C = false -> d_setattr tr o fl i (snd kf) v = Ok i' -> good i0 i'.
Proof.
  intros G Hi Hdb. unfold d_setattr.
  destruct (sf_immutable fl || f_immutable (snd kf)) eqn:Eim; [discriminate|].
  apply Bool.orb_false_iff in Eim. destruct Eim as [_ Him].
  destruct (set_parse tr o (snd kf) v) as [[r|]| | | |] eqn:Ep; cbn [bind]; try discriminate; intros H; inv_ok H.
  - apply (good_field_change i0 i _ kf G Hi Him); cbn [i_dict i_attrs].
    + apply G.
    + apply nodup_keys_set. apply G.
    + reflexivity.
    + intros a Ha. apply assoc_set_other. exact Ha.
    + intros w Hw. left. exact Hw.
    + intros w Hw. change (f_attname (snd kf)) with (aname kf) in Hw. rewrite assoc_set_same in Hw. injection Hw as <-.
      right. exists v. exact Ep.
    + intros _. split; [auto|]. intros _ _. change (f_attname (snd kf)) with (aname kf). rewrite has_key_set, seqb_refl. reflexivity.
    + intros Hno. apply (g_no _ _ G); assumption.
    + congruence.
  - apply (good_field_change i0 i _ kf G Hi Him); cbn [i_dict i_attrs].
    + apply G.
    + apply nodup_keys_del. apply G.
    + reflexivity.
    + intros a Ha. apply assoc_del_other. exact Ha.
    + intros w Hw. left. exact Hw.
    + intros w Hw. change (f_attname (snd kf)) with (aname kf) in Hw. rewrite assoc_del_same in Hw by apply G. discriminate.
    + intros Hreq. rewrite (set_parse_none _ _ Ep) in Hreq. discriminate.
    + intros Hno. apply (g_no _ _ G); assumption.
    + congruence.
Qed.
Lemma d_delattr_good i0 i kf i' :
  good i0 i -> In kf fs -> c_dict_based C = false -> d_delattr o fl i (snd kf) = Ok i' -> good i0 i'.
Proof.
  intros G Hi Hdb. unfold d_delattr.
  destruct (sf_immutable fl || f_immutable (snd kf)) eqn:Eim; [discriminate|].
  apply Bool.orb_false_iff in Eim. destruct Eim as [_ Him].
  destruct (is_required (snd kf) o) eqn:Ereq; [discriminate|].
  destruct (negb (has_key (f_attname (snd kf)) (i_attrs i))); [discriminate|]. intros H. inv_ok H.
  apply (good_field_change i0 i _ kf G Hi Him); cbn [i_dict i_attrs].
  - apply G.
  - apply nodup_keys_del. apply G.
  - reflexivity.
  - intros a Ha. apply assoc_del_other. exact Ha.
  - intros w Hw. left. exact Hw.
  - intros w Hw. change (f_attname (snd kf)) with (aname kf) in Hw. rewrite assoc_del_same in Hw by apply G. discriminate.
  - congruence.
  - intros Hno. apply (g_no _ _ G); assumption.
  - congruence.
Qed.

(* ---- one step, any sequence ---- *)
Lemma fin_good i0 i r : good i0 i -> (forall i', r = Ok i' -> good i0 i') -> good i0 (fst (fin i r)).
Proof. intros G H. destruct r as [i'|e| | |]; cbn [fin fst]; try exact G. apply H. reflexivity. Qed.

Theorem step_good i0 i op : good i0 i -> good i0 (fst (step tr C o fl i op)).
Proof.
  intros G. unfold step. destruct (c_dict_based C) eqn:Hdb.
  - destruct op as [k v|a v|k|a|k d| |m|k d|].
    + apply fin_good; [exact G|]. intros i' H. eapply s_setitem_good; eassumption.
    + destruct (field_by_attname C a) as [f|] eqn:Ef; [|exact G].
      destruct (by_attname_In _ _ Ef) as (key & Hi & _).
      apply fin_good; [exact G|]. intros i' H. apply (s_field_set_good i0 i (key, f) v i' G Hi H).
    + apply fin_good; [exact G|]. intros i' H. eapply s_delitem_good; eassumption.
    + destruct (field_by_attname C a) as [f|] eqn:Ef; [|exact G].
      destruct (by_attname_In _ _ Ef) as (key & Hi & _).
      apply fin_good; [exact G|]. intros i' H. apply (s_field_del_good i0 i (key, f) i' G Hi H).
    + apply fin_good; [exact G|]. intros i' H. eapply s_pop_good; eassumption.
    + apply fin_good; [exact G|]. intros i' H. eapply s_popitem_good; eassumption.
    + unfold s_update. destruct (sf_immutable fl); [exact G|]. apply s_update_loop_good. exact G.
    + apply fin_good; [exact G|]. intros i' H. eapply s_setdefault_good; eassumption.
    + apply fin_good; [exact G|]. intros i' H. eapply s_clear_good; eassumption.
  - destruct op as [k v|a v|k|a|k d| |m|k d|]; try exact G.
    + destruct (field_by_attname C a) as [f|] eqn:Ef; [|exact G].
      destruct (by_attname_In _ _ Ef) as (key & Hi & _).
      apply fin_good; [exact G|]. intros i' H. apply (d_setattr_good i0 i (key, f) v i' G Hi Hdb H).
    + destruct (field_by_attname C a) as [f|] eqn:Ef; [|exact G].
      destruct (by_attname_In _ _ Ef) as (key & Hi & _).
      apply fin_good; [exact G|]. intros i' H. apply (d_delattr_good i0 i (key, f) i' G Hi Hdb H).
Qed.

Theorem run_good i0 ops : forall i, good i0 i -> good i0 (run tr C o fl i ops).
Proof.
  induction ops as [|op r IH]; intros i G; cbn [run fold_left]; [exact G|]. apply IH. apply step_good. exact G.
Qed.

(* a single-key operation that raises leaves the instance as it was *)
Definition single_key (op : sop) : bool := match op with OUpdate _ => false | _ => true end.
Theorem step_raise_unchanged i op i' e :
  single_key op = true -> step tr C o fl i op = (i', Some e) -> i' = i.
Proof.
  intros Hs. unfold step.
  assert (Hfin : forall r, fin i r = (i', Some e) -> i' = i).
  { intros r. destruct r as [i1|e1| | |]; cbn [fin]; intros H; inversion H; reflexivity. }
  destruct (c_dict_based C); destruct op as [k v|a v|k|a|k d| |m|k d|]; try discriminate Hs;
    try (apply Hfin); try (destruct (field_by_attname C a); [apply Hfin|]); intros H; inversion H; reflexivity.
Qed.

(* the instance as constructed satisfies the invariant relative to itself, given its own well-formedness *)
Lemma good_refl i :
  NoDup (keys (i_dict i)) -> NoDup (keys (i_attrs i)) ->
  (forall kf, In kf fs -> is_no_output (snd kf) o = true -> has_key (fname kf) (i_dict i) = false) ->
  (forall kf, In kf fs -> c_dict_based C = true -> is_no_output (snd kf) o = false ->
              has_key (fname kf) (i_dict i) = false -> has_key (aname kf) (i_attrs i) = false) ->
  good i i.
Proof. intros H1 H2 H3 H4. constructor; auto. Qed.

End Inv.

(* ---- hypotheses as booleans the harness evaluates on every reflected class / constructed instance ---- *)
Definition wf_inst (C : cdecl) : bool :=
  wf_cdecl C && nodupb (map (fun kf => f_attname (snd kf)) (c_fields C)).
Lemma wf_inst_attnames C : wf_inst C = true ->
  WF C /\ forall kf kf', In kf (c_fields C) -> In kf' (c_fields C) -> f_attname (snd kf) = f_attname (snd kf') -> kf = kf'.
Proof.
  unfold wf_inst. intros H. apply andb_prop in H. destruct H as [Hw Hn]. split; [apply wf_cdecl_WF; exact Hw|].
  apply nodupb_NoDup in Hn. intros kf kf' Hi Hi' He.
  revert Hn Hi Hi'. generalize (c_fields C) as l. induction l as [|x r IH]; cbn; [tauto|].
  intros Hn. inversion Hn as [|? ? Hni Hn']; subst. intros [->|Hi] [->|Hi'].
  - reflexivity.
  - exfalso. apply Hni. rewrite He. apply (in_map (fun kf => f_attname (snd kf))) in Hi'. exact Hi'.
  - exfalso. apply Hni. rewrite <- He. apply (in_map (fun kf => f_attname (snd kf))) in Hi. exact Hi.
  - apply IH; assumption.
Qed.

Definition init_okb (C : cdecl) (o : options) (i : inst) : bool :=
  nodupb (map fst (i_dict i)) && nodupb (map fst (i_attrs i)) &&
  forallb (fun kf => negb (is_no_output (snd kf) o) || negb (has_key (f_name (snd kf)) (i_dict i))) (c_fields C) &&
  forallb (fun kf => negb (c_dict_based C) || is_no_output (snd kf) o || has_key (f_name (snd kf)) (i_dict i)
                     || negb (has_key (f_attname (snd kf)) (i_attrs i))) (c_fields C).
Lemma init_okb_good tr C o i : init_okb C o i = true -> good tr C o i i.
Proof.
  unfold init_okb. rewrite !Bool.andb_true_iff. intros [[[H1 H2] H3] H4].
  rewrite forallb_forall in H3, H4.
  apply good_refl.
  - apply nodupb_NoDup. exact H1.
  - apply nodupb_NoDup. exact H2.
  - intros kf Hi Hno. specialize (H3 kf Hi). rewrite Hno in H3. cbn in H3. apply Bool.negb_true_iff in H3. exact H3.
  - intros kf Hi Hdb Hno Hk. specialize (H4 kf Hi). unfold fname, aname in *. rewrite Hdb, Hno, Hk in H4. cbn in H4.
    apply Bool.negb_true_iff in H4. exact H4.
Qed.
