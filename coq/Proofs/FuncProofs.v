(* Proofs/FuncProofs.v — C08 (partial): the positional part of FunctionParser.parse_params keeps every
   argument at its own index (excluded parameters included), defaults of omitted positional-only
   parameters go to their own index or are left to Python, a failing argument keeps the body from
   running, and the model of Python's binding binds every parameter exactly once. *)
From UV Require Import Parse Func Monad Sim Verdict Assoc.
From Coq Require Import Lia.
Open Scope string_scope.
Open Scope list_scope.

Section FuncP.
Variable tr : options -> Z -> ty -> pyval -> M pyval.
Variable s : fsig.
Let C := fs_C s.
Let o := c_options C.

(* ---- pure mirror of the positional loop ---- *)
Definition pos_type_p (i : nat) (v : pyval) : option (option pyval) :=
  match fs_pos_type s with
  | None => Some (Some v)
  | Some t =>
      match enter_tr tr o 1 (route_idx i) t v with
      | Entered (Ok r) => Some (Some r)
      | Entered (Raise e) =>
          match o_invalid_items o with
          | Preserve => Some (Some v)
          | Exclude => Some None
          | Throw => None
          end
      | _ => None
      end
  end.
Lemma vd_parse_pos_type i v : vd (parse_pos_type tr s i v) (pos_type_p i v).
Proof.
  unfold parse_pos_type, pos_type_p. fold C. fold o. destruct (fs_pos_type s) as [t|]; [|apply vd_ret].
  destruct (enter_tr tr o 1 _ t v) as [e|[r|e| | |]]; try (apply vd_lift_bad; reflexivity); [apply vd_ret|].
  destruct (o_invalid_items o); try apply vd_ret.
  apply vd_bind_none; [apply vd_handle|intros; eexists; apply vd_ret].
Qed.

Fixpoint pos_loop_p (ps : list fparam) (has_vp : bool) (i : nat) (args : list pyval)
         (pargs : list pyval) (pkeys : list string) : option (list pyval * list string) :=
  match args with
  | [] => Some (pargs, pkeys)
  | a :: ar =>
      match ps with
      | p :: pr =>
          match fp_field p with
          | None => pos_loop_p pr has_vp (S i) ar (pargs ++ [a]) pkeys
          | Some f =>
              if is_no_input f o then
                match get_default f o with
                | Some d => pos_loop_p pr has_vp (S i) ar (pargs ++ [d]) pkeys
                | None => pos_loop_p pr has_vp (S i) ar pargs pkeys
                end
              else
                obind (pv tr o 1 f a) (fun r =>
                  match r with
                  | Some v => pos_loop_p pr has_vp (S i) ar (pargs ++ [v]) (pkeys ++ [f_attname f])
                  | None => pos_loop_p pr has_vp (S i) ar pargs (pkeys ++ [f_attname f])
                  end)
          end
      | [] =>
          if has_vp then
            obind (pos_type_p i a) (fun r =>
              pos_loop_p [] has_vp (S i) ar (match r with Some v => pargs ++ [v] | None => pargs end) pkeys)
          else pos_loop_p [] has_vp (S i) ar pargs pkeys
      end
  end.

Lemma vd_pos_loop : forall args ps has_vp i pargs pkeys,
  vd (pos_loop tr s ps has_vp i args pargs pkeys) (pos_loop_p ps has_vp i args pargs pkeys).
Proof.
  induction args as [|a ar IH]; intros ps has_vp i pargs pkeys; cbn [pos_loop pos_loop_p]; [apply vd_ret|].
  destruct ps as [|p pr].
  - destruct has_vp; [|apply IH]. apply vd_bind; [apply vd_parse_pos_type|]. intros r. apply IH.
  - destruct (fp_field p) as [f|]; [|apply IH]. fold C. fold o.
    destruct (is_no_input f o); [destruct (get_default f o); apply IH|].
    apply vd_bind; [apply vd_parse_value|]. intros [v|]; apply IH.
Qed.

(* ---- every argument keeps its index ---- *)
(* the conversion of one positional argument, when nothing goes wrong and nothing is dropped *)
Definition conv_arg (p : fparam) (a : pyval) : option pyval :=
  match fp_field p with
  | None => Some a                               (* excluded parameter: passed on as it is *)
  | Some f => if is_no_input f o then get_default f o
              else match pv tr o 1 f a with Some (Some v) => Some v | _ => None end
  end.

Theorem positional_alignment : forall args ps has_vp i pargs pkeys vs,
  (List.length args <= List.length ps)%nat ->
  Forall2 (fun pa v => conv_arg (fst pa) (snd pa) = Some v) (combine ps args) vs ->
  exists pkeys', pos_loop_p ps has_vp i args pargs pkeys = Some (pargs ++ vs, pkeys').
Proof.
  induction args as [|a ar IH]; intros ps has_vp i pargs pkeys vs Hlen Hf.
  - destruct ps; cbn in Hf; inversion Hf; subst; cbn; rewrite app_nil_r; eauto.
  - destruct ps as [|p pr]; [cbn in Hlen; lia|]. cbn [combine] in Hf. inversion Hf as [|? v ? vr Hc Hr]; subst.
    cbn [fst snd] in Hc. cbn [pos_loop_p]. unfold conv_arg in Hc.
    assert (Hl : (List.length ar <= List.length pr)%nat) by (cbn in Hlen; lia).
    destruct (fp_field p) as [f|].
    + destruct (is_no_input f o).
      * rewrite Hc. replace (pargs ++ v :: vr) with ((pargs ++ [v]) ++ vr) by (rewrite <- app_assoc; reflexivity).
        apply IH; assumption.
      * destruct (pv tr o 1 f a) as [[w|]|]; try discriminate. injection Hc as ->. cbn [obind].
        replace (pargs ++ v :: vr) with ((pargs ++ [v]) ++ vr) by (rewrite <- app_assoc; reflexivity).
        apply IH; assumption.
    + injection Hc as ->. replace (pargs ++ v :: vr) with ((pargs ++ [v]) ++ vr) by (rewrite <- app_assoc; reflexivity).
      apply IH; assumption.
Qed.

(* a positional argument whose conversion fails: the loop signals, whatever follows *)
Theorem failing_argument_signals : forall args ps has_vp i pargs pkeys n p f a,
  nth_error ps n = Some p -> nth_error args n = Some a -> fp_field p = Some f ->
  is_no_input f o = false -> pv tr o 1 f a = None ->
  (forall m q b g, (m < n)%nat -> nth_error ps m = Some q -> nth_error args m = Some b -> fp_field q = Some g ->
                   is_no_input g o = false -> pv tr o 1 g b <> None) ->
  pos_loop_p ps has_vp i args pargs pkeys = None.
Proof.
  induction args as [|a0 ar IH]; intros ps has_vp i pargs pkeys n p f a Hp Ha Hf Hni Hpv Hbefore.
  - destruct n; discriminate.
  - destruct ps as [|p0 pr]; [destruct n; discriminate|]. cbn [pos_loop_p].
    destruct n as [|n].
    + cbn in Hp, Ha. injection Hp as ->. injection Ha as ->. rewrite Hf, Hni, Hpv. reflexivity.
    + cbn in Hp, Ha.
      assert (Hrest : forall pargs' pkeys', pos_loop_p pr has_vp (S i) ar pargs' pkeys' = None).
      { intros pargs' pkeys'. apply (IH pr has_vp (S i) pargs' pkeys' n p f a Hp Ha Hf Hni Hpv).
        intros m q b g Hm Hq Hb Hg Hng. apply (Hbefore (S m) q b g); [lia|exact Hq|exact Hb|exact Hg|exact Hng]. }
      destruct (fp_field p0) as [f0|] eqn:Ef0; [|apply Hrest].
      destruct (is_no_input f0 o) eqn:En0; [destruct (get_default f0 o); apply Hrest|].
      destruct (pv tr o 1 f0 a0) as [[w|]|] eqn:Ep0; cbn [obind]; try apply Hrest.
      exfalso. apply (Hbefore 0%nat p0 a0 f0); try reflexivity; try assumption. lia.
Qed.

(* ---- defaults of omitted positional-only parameters ---- *)
Fixpoint po_defaults_p (ps : list fparam) (idx : nat) (pargs : list pyval) (pkeys : list string)
  : option (list pyval * list string) :=
  match ps with
  | [] => Some (pargs, pkeys)
  | p :: pr =>
      match fp_kind p, fp_field p with
      | KPo, Some f =>
          if str_in (f_attname f) pkeys then po_defaults_p pr (S idx) pargs pkeys
          else if is_required f o then None
          else
            let pargs' := match get_default f o with
                          | Some d => if Nat.eqb (List.length pargs) idx then pargs ++ [d] else pargs
                          | None => pargs end in
            po_defaults_p pr (S idx) pargs' (pkeys ++ [f_attname f])
      | KPo, None => po_defaults_p pr (S idx) pargs pkeys
      | _, _ => Some (pargs, pkeys)
      end
  end.
Lemma vd_po_defaults : forall ps idx pargs pkeys,
  vd (po_defaults s ps idx pargs pkeys) (po_defaults_p ps idx pargs pkeys).
Proof.
  induction ps as [|p pr IH]; intros idx pargs pkeys; cbn [po_defaults po_defaults_p]; [apply vd_ret|].
  destruct (fp_kind p); try apply vd_ret. fold C. fold o.
  destruct (fp_field p) as [f|]; [|apply IH].
  destruct (str_in (f_attname f) pkeys); [apply IH|].
  destruct (is_required f o); [|apply IH].
  apply vd_bind_none; [apply vd_handle|]. intros _. eexists. apply IH.
Qed.

(* the positional arguments are only ever extended, and an appended default sits at its parameter's index *)
Theorem po_defaults_extend : forall ps idx pargs pkeys pargs' pkeys',
  po_defaults_p ps idx pargs pkeys = Some (pargs', pkeys') ->
  exists ext, pargs' = pargs ++ ext /\
    forall k d, nth_error ext k = Some d ->
      exists j p f, nth_error ps j = Some p /\ fp_field p = Some f /\ get_default f o = Some d /\
                    (List.length pargs + k = idx + j)%nat.
Proof.
  induction ps as [|p pr IH]; intros idx pargs pkeys pargs' pkeys' H; cbn [po_defaults_p] in H.
  - injection H as <- <-. exists []. rewrite app_nil_r. split; [reflexivity|]. intros k d Hk. destruct k; discriminate.
  - assert (Hshift : forall pa pk, po_defaults_p pr (S idx) pa pk = Some (pargs', pkeys') -> pa = pargs ->
              exists ext, pargs' = pargs ++ ext /\
                forall k d, nth_error ext k = Some d ->
                  exists j p0 f, nth_error (p :: pr) j = Some p0 /\ fp_field p0 = Some f /\ get_default f o = Some d /\
                                 (List.length pargs + k = idx + j)%nat).
    { intros pa pk Hr ->. destruct (IH _ _ _ _ _ Hr) as (ext & He & Hn). exists ext. split; [exact He|].
      intros k d Hk. destruct (Hn k d Hk) as (j & p0 & f & Hj & Hf & Hd & Hl).
      exists (S j), p0, f. split; [exact Hj|]. split; [exact Hf|]. split; [exact Hd|]. lia. }
    destruct (fp_kind p) eqn:Ek;
      try (injection H as <- <-; exists []; rewrite app_nil_r; split; [reflexivity|]; intros k d Hk; destruct k; discriminate).
    destruct (fp_field p) as [f|] eqn:Ef; [|eapply Hshift; [exact H|reflexivity]].
    destruct (str_in (f_attname f) pkeys); [eapply Hshift; [exact H|reflexivity]|].
    destruct (is_required f o); [discriminate|].
    destruct (get_default f o) as [d0|] eqn:Ed; [|eapply Hshift; [exact H|reflexivity]].
    destruct (Nat.eqb (List.length pargs) idx) eqn:El; [|eapply Hshift; [exact H|reflexivity]].
    apply Nat.eqb_eq in El.
    destruct (IH _ _ _ _ _ H) as (ext & He & Hn). exists (d0 :: ext). split; [rewrite He, <- app_assoc; reflexivity|].
    intros k d Hk. destruct k as [|k].
    + cbn in Hk. injection Hk as <-. exists 0%nat, p, f. repeat split; try assumption. lia.
    + cbn in Hk. destruct (Hn k d Hk) as (j & p0 & f0 & Hj & Hf0 & Hd & Hl).
      exists (S j), p0, f0. split; [exact Hj|]. split; [exact Hf0|]. split; [exact Hd|]. rewrite app_length in Hl. cbn in Hl. lia.
Qed.

(* ---- the whole of parse_params: a signalled error keeps the body from running ---- *)
Definition parse_params_p (args : list pyval) (kwargs : sdata) : option (list pyval * sdata) :=
  obind (pos_loop_p (positional s) (has_kind KVp s) 0 args [] []) (fun r1 =>
    let '(pargs, pkeys) := r1 in
    obind (po_defaults_p (positional s) 0 pargs pkeys) (fun r2 =>
      let '(pargs2, pkeys2) := r2 in
      obind (parse_data_p tr (rest_decl s pkeys2) o 1 kwargs) (fun kw => Some (pargs2, kw)))).

Definition params_body (args : list pyval) (kwargs : sdata) : M (list pyval * sdata) :=
  do r1 <- pos_loop tr s (positional s) (has_kind KVp s) 0 args [] [];
  let '(pargs, pkeys) := r1 in
  do r2 <- po_defaults s (positional s) 0 pargs pkeys;
  let '(pargs2, pkeys2) := r2 in
  do kw <- parse_body tr (rest_decl s pkeys2) o 1 kwargs;
  ret (pargs2, kw).

Lemma vd_params_body args kwargs : vd (params_body args kwargs) (parse_params_p args kwargs).
Proof.
  unfold params_body, parse_params_p.
  apply vd_bind; [apply vd_pos_loop|]. intros [pargs pkeys].
  apply vd_bind; [apply vd_po_defaults|]. intros [pargs2 pkeys2].
  apply vd_bind; [apply vd_parse_body|]. intros kw. apply vd_ret.
Qed.

Lemma parse_params_body args kwargs st :
  parse_params tr s args kwargs st = (do r <- params_body args kwargs; do _ <- raise_error; ret r) st.
Proof.
  unfold parse_params, params_body, mbind.
  destruct (pos_loop tr s (positional s) (has_kind KVp s) 0 args [] [] st) as [s1 [[pargs pkeys]|e| | |]]; try reflexivity.
  destruct (po_defaults s (positional s) 0 pargs pkeys s1) as [s2 [[pargs2 pkeys2]|e| | |]]; try reflexivity.
  rewrite parse_data_body. unfold mbind.
  change (c_options (fs_C s)) with o.
  destruct (parse_body tr (rest_decl s pkeys2) o 1 kwargs s2) as [s3 [kw|e| | |]]; try reflexivity.
  unfold ret. destruct (raise_error s3) as [s4 [[]|e| | |]]; reflexivity.
Qed.

Theorem call_verdict args kwargs :
  match parse_params_p args kwargs with
  | Some (pargs, kw) => call_binding tr s args kwargs = match py_bind s pargs kw with Some b => Ok b | None => raise_type end
  | None => is_ok (call_binding tr s args kwargs) = false
  end.
Proof.
  pose proof (vd_fresh _ _ (vd_params_body args kwargs)) as H. unfold call_binding.
  unfold in_fresh in *. rewrite parse_params_body.
  destruct (parse_params_p args kwargs) as [[pargs kw]|].
  - rewrite H. reflexivity.
  - destruct (snd ((do r <- params_body args kwargs; do _ <- raise_error; ret r) no_errs)) as [[pa kw]| | | |]; try discriminate; reflexivity.
Qed.

End FuncP.

(* ---- Python's binding ---- *)
Lemma bind_pos_names : forall ps args acc b rest_ps rest_args,
  bind_pos ps args acc = (b, rest_ps, rest_args) ->
  map fst b = map fst acc ++ map fp_name (firstn (List.length args) ps) /\
  rest_ps = skipn (List.length args) ps /\ rest_args = skipn (List.length ps) args.
Proof.
  induction ps as [|p pr IH]; intros args acc b rest_ps rest_args H.
  - cbn in H. injection H as <- <- <-. rewrite firstn_nil, skipn_nil, app_nil_r. destruct args; auto.
  - destruct args as [|a ar]; cbn [bind_pos] in H.
    + injection H as <- <- <-. cbn. rewrite app_nil_r. auto.
    + destruct (IH _ _ _ _ _ H) as (Hb & Hr & Ha). cbn [List.length firstn skipn map].
      rewrite Hb, map_app. cbn. rewrite <- app_assoc. auto.
Qed.
Lemma bind_rest_names : forall ps kwargs acc used b used',
  bind_rest ps kwargs acc used = Some (b, used') -> map fst b = map fst acc ++ map fp_name ps.
Proof.
  induction ps as [|p pr IH]; intros kwargs acc used b used' H; cbn [bind_rest] in H.
  - injection H as <- <-. rewrite app_nil_r. reflexivity.
  - destruct (match fp_kind p with KPo => None | _ => assoc (fp_name p) kwargs end) as [v|].
    + rewrite (IH _ _ _ _ _ H), map_app. cbn. rewrite <- app_assoc. reflexivity.
    + destruct (fp_default p) as [d|]; [|discriminate].
      rewrite (IH _ _ _ _ _ H), map_app. cbn. rewrite <- app_assoc. reflexivity.
Qed.

(* a bound call binds every named parameter exactly once, in signature order, then *args and **kwargs *)
Theorem py_bind_names s args kwargs b :
  py_bind s args kwargs = Some b ->
  map fst b = map fp_name (positional s) ++ map fp_name (kwonly s)
              ++ (match name_of_kind KVp s with Some n => [n] | None => [] end)
              ++ (match name_of_kind KVk s with Some n => [n] | None => [] end).
Proof.
  unfold py_bind. destruct (bind_pos (positional s) args []) as [[b1 rest_ps] rest_args] eqn:Ebp.
  destruct (bind_pos_names _ _ _ _ _ _ Ebp) as (Hb1 & Hrp & Hra). cbn [map app] in Hb1.
  destruct (existsb _ kwargs); [discriminate|].
  destruct (negb (has_kind KVp s) && negb _); [discriminate|].
  destruct (bind_rest (rest_ps ++ kwonly s) kwargs b1 []) as [[b2 used]|] eqn:Ebr; [|discriminate].
  pose proof (bind_rest_names _ _ _ _ _ _ Ebr) as Hb2.
  assert (Hnames : map fst b2 = map fp_name (positional s) ++ map fp_name (kwonly s)).
  { rewrite Hb2, Hb1, Hrp, map_app, app_assoc, <- map_app, firstn_skipn. reflexivity. }
  destruct (name_of_kind KVp s) as [n1|]; destruct (name_of_kind KVk s) as [n2|]; intros H.
  - injection H as <-. rewrite !map_app, Hnames. cbn. rewrite <- !app_assoc. reflexivity.
  - destruct (filter _ kwargs); [|discriminate]. injection H as <-. rewrite map_app, Hnames. cbn. rewrite <- !app_assoc. reflexivity.
  - injection H as <-. rewrite map_app, Hnames. cbn. rewrite <- !app_assoc. reflexivity.
  - destruct (filter _ kwargs); [|discriminate]. injection H as <-. rewrite Hnames, !app_nil_r. reflexivity.
Qed.
