(* Proofs/DfsSpec.v — data_first_parse refines the field contract (Spec/FieldSpec.v).
   The loop over the input mapping is a fold over a product state: every entry touches only the
   component of the field it feeds (or the additions, for an unknown key).  Assoc.decomp_* splits
   it into per-field folds, which have closed forms. *)
From UV Require Import Parse Verdict Assoc FieldSpec FieldFacts ContractCommon.
From Coq Require Import Lia.
Open Scope string_scope.
Open Scope list_scope.

Lemma oseqb_spec a b : oseqb a b = true <-> a = b.
Proof.
  destruct a as [x|], b as [y|]; cbn; try (split; [discriminate|discriminate]); try tauto.
  rewrite seqb_eq. split; congruence.
Qed.

Lemma ofold_inv {S E} (step : S -> E -> option S) (P : S -> Prop) :
  (forall s e s', P s -> step s e = Some s' -> P s') ->
  forall l s s', P s -> ofold step l s = Some s' -> P s'.
Proof.
  intros Hp. induction l as [|e r IH]; intros s s' Hs H; cbn [ofold] in H.
  - injection H as <-. exact Hs.
  - destruct (step s e) as [s1|] eqn:E1; cbn [obind] in H; [|discriminate].
    apply (IH s1 s'); [eapply Hp; eassumption|exact H].
Qed.

Lemma assoc_filter_nodup {A} (P : string * A -> bool) (l : list (string * A)) x :
  NoDup (keys l) ->
  assoc x (filter P l) = match assoc x l with Some v => if P (x, v) then Some v else None | None => None end.
Proof.
  induction l as [|[k v] r IH]; cbn; intros Hn; [reflexivity|].
  inversion Hn as [|? ? Hni Hn']; subst.
  destruct (String.eqb x k) eqn:E.
  - apply seqb_eq in E. subst k. destruct (P (x, v)) eqn:Ep; cbn.
    + rewrite seqb_refl. reflexivity.
    + rewrite IH by exact Hn'. apply assoc_None in Hni. rewrite Hni. reflexivity.
  - destruct (P (k, v)); cbn; [rewrite E|]; apply IH; exact Hn'.
Qed.

Section Dfs.
Variable tr : options -> Z -> ty -> pyval -> M pyval.
Variable C : cdecl.
Variable o : options.
Variable depth : Z.
Hypothesis HW : WF C.
Hypothesis Hign : o_ignore_alias_conflicts o = false.
Let fs := c_fields C.

(* --- the component of one field, and of the additions --- *)
Inductive lv := LF (rw rs : option pyval) | LA (add : sdata).

Definition fstep (f : field) (rw rs : option pyval) (v : pyval) : option lv :=
  if is_no_input f o then
    Some (LF rw (match get_default f o with Some d => Some d | None => rs end))
  else
    match (match rw with Some p => Some p | None => rs end) with
    | Some prev => if negb (py_eq prev v) then None else Some (LF rw rs)
    | None => obind (pv tr o depth f v) (fun p =>
                match p with
                | None => Some (LF (Some v) rs)
                | Some r => Some (LF (Some v) (Some r))
                end)
    end.

Definition dtgt (kv : string * pyval) : option string := get_field_key C (fst kv).
Definition dview (t : option string) (st : dfs_state) : lv :=
  let '(result, raw, addition, _) := st in
  match t with
  | Some k => match assoc k fs with
              | Some f => LF (assoc (f_name f) raw) (assoc (f_name f) result)
              | None => LF None None
              end
  | None => LA addition
  end.
Definition dlstep (t : option string) (l : lv) (kv : string * pyval) : option lv :=
  match t, l with
  | Some k, LF rw rs => match assoc k fs with Some f => fstep f rw rs (snd kv) | None => None end
  | None, LA add =>
      obind (padd C o (fst kv) (snd kv)) (fun a =>
        Some (LA (match a with Some x => sdict_set add (fst kv) x | None => add end)))
  | _, _ => None
  end.

Lemma dfs_Hstep st e :
  match dlstep (dtgt e) (dview (dtgt e) st) e with
  | None => dfs_pstep tr C o depth st e = None
  | Some l' => exists st', dfs_pstep tr C o depth st e = Some st' /\ dview (dtgt e) st' = l' /\
                           forall t, t <> dtgt e -> dview t st' = dview t st
  end.
Proof.
  destruct st as [[[result raw] addition] deps]. destruct e as [key value].
  unfold dtgt, dfs_pstep. cbn [fst snd]. rewrite get_field_target.
  destruct (get_field_key C key) as [k|] eqn:Et.
  - destruct (target_field C HW _ _ Et) as [f Hf]. fold fs in Hf. fold fs. rewrite Hf.
    cbn [dview dlstep snd]. fold fs. rewrite Hf. unfold fstep. rewrite Hign.
    assert (Hother : forall result' raw' deps' t, t <> Some k ->
              (forall x, x <> f_name f -> assoc x result' = assoc x result) ->
              (forall x, x <> f_name f -> assoc x raw' = assoc x raw) ->
              dview t (result', raw', addition, deps') = dview t (result, raw, addition, deps)).
    { intros result' raw' deps' t Ht Hr1 Hr2. destruct t as [k'|]; cbn [dview]; [|reflexivity].
      fold fs. destruct (assoc k' fs) as [f'|] eqn:Hf'; [|reflexivity].
      assert (f_name f' <> f_name f).
      { apply (names_differ C HW k' k); try (apply assoc_In; assumption). congruence. }
      rewrite Hr1, Hr2 by assumption. reflexivity. }
    destruct (is_no_input f o).
    + eexists. split; [reflexivity|]. split.
      * cbn [dview]. fold fs. rewrite Hf. destruct (get_default f o) as [d|]; [rewrite assoc_set_same|]; reflexivity.
      * intros t Ht. apply Hother; [exact Ht| |reflexivity].
        intros x Hx. destruct (get_default f o); [apply assoc_set_other; exact Hx|reflexivity].
    + destruct (assoc (f_name f) raw) as [prev|] eqn:Eraw.
      * destruct (negb (py_eq prev value)); [reflexivity|].
        eexists. split; [reflexivity|]. split; [|reflexivity].
        cbn [dview]. fold fs. rewrite Hf, Eraw. reflexivity.
      * destruct (assoc (f_name f) result) as [prev|] eqn:Eres.
        -- destruct (negb (py_eq prev value)); [reflexivity|].
           eexists. split; [reflexivity|]. split; [|reflexivity].
           cbn [dview]. fold fs. rewrite Hf, Eraw, Eres. reflexivity.
        -- destruct (pv tr o depth f value) as [[r|]|]; cbn [obind]; [| |reflexivity].
           ++ eexists. split; [reflexivity|]. split.
              ** cbn [dview]. fold fs. rewrite Hf, !assoc_set_same. reflexivity.
              ** intros t Ht. apply Hother; [exact Ht| |]; intros x Hx; apply assoc_set_other; exact Hx.
           ++ eexists. split; [reflexivity|]. split.
              ** cbn [dview]. fold fs. rewrite Hf, assoc_set_same, Eres. reflexivity.
              ** intros t Ht. apply Hother; [exact Ht|reflexivity|]. intros x Hx; apply assoc_set_other; exact Hx.
  - cbn [dview dlstep fst snd]. destruct (padd C o key value) as [a|]; cbn [obind]; [|reflexivity].
    eexists. split; [reflexivity|]. split; [reflexivity|].
    intros t Ht. destruct t as [k'|]; [reflexivity|congruence].
Qed.

Definition dsub (t : option string) (data : sdata) : sdata := sub _ _ oseqb dtgt t data.

Lemma dfs_some data st st' :
  ofold (dfs_pstep tr C o depth) data st = Some st' ->
  forall t, ofold (dlstep t) (dsub t data) (dview t st) = Some (dview t st').
Proof. apply (decomp_some _ _ _ _ oseqb oseqb_spec dtgt dview _ dlstep dfs_Hstep). Qed.
Lemma dfs_none data st :
  ofold (dfs_pstep tr C o depth) data st = None ->
  exists t, ofold (dlstep t) (dsub t data) (dview t st) = None.
Proof. apply (decomp_none _ _ _ _ oseqb oseqb_spec dtgt dview _ dlstep dfs_Hstep). Qed.

(* --- closed forms of the component folds --- *)
Lemma hits_dsub k data : hits C k data = map snd (dsub (Some k) data).
Proof. reflexivity. Qed.

Definition loop_out (f : field) (hs : list pyval) : option lv :=
  match hs with
  | [] => Some (LF None None)
  | v1 :: more =>
      if is_no_input f o then Some (LF None (get_default f o))
      else match pv tr o depth f v1 with
           | None => None
           | Some p => if forallb (py_eq v1) more then Some (LF (Some v1) p) else None
           end
  end.

Lemma field_fold k f (es : sdata) :
  assoc k fs = Some f -> ofold (dlstep (Some k)) es (LF None None) = loop_out f (map snd es).
Proof.
  intros Hf. destruct es as [|[k1 v1] r]; [reflexivity|].
  cbn [ofold map snd loop_out]. unfold dlstep at 1. rewrite Hf. cbn [snd]. unfold fstep.
  destruct (is_no_input f o) eqn:Eni.
  - cbn [obind].
    remember (get_default f o) as gd eqn:Egd.
    assert (Hrest : forall r0, ofold (dlstep (Some k)) r0 (LF None gd) = Some (LF None gd)).
    { induction r0 as [|e r0 IH]; [reflexivity|]. cbn [ofold]. unfold dlstep at 1. rewrite Hf. unfold fstep. rewrite Eni.
      rewrite <- Egd. cbn [obind]. destruct gd; exact IH. }
    destruct gd; apply Hrest.
  - destruct (pv tr o depth f v1) as [p|]; cbn [obind]; [|reflexivity].
    assert (Hrest : forall r0, ofold (dlstep (Some k)) r0 (LF (Some v1) p) =
                               if forallb (py_eq v1) (map snd r0) then Some (LF (Some v1) p) else None).
    { induction r0 as [|e r0 IH]; [reflexivity|]. cbn [ofold map forallb]. unfold dlstep at 1. rewrite Hf. unfold fstep. rewrite Eni.
      destruct (py_eq v1 (snd e)); cbn [negb obind andb]; [exact IH|reflexivity]. }
    destruct p as [r1|]; cbn [obind]; apply Hrest.
Qed.

Definition add_entry (a : sdata) (e : string * pyval) : sdata :=
  match padd C o (fst e) (snd e) with Some (Some x) => sdict_set a (fst e) x | _ => a end.
Lemma add_fold es : forall acc,
  ofold (dlstep None) es (LA acc) =
  if forallb (fun e => match padd C o (fst e) (snd e) with Some _ => true | None => false end) es
  then Some (LA (fold_left add_entry es acc)) else None.
Proof.
  induction es as [|e r IH]; intros acc; [reflexivity|].
  cbn [ofold forallb fold_left]. unfold dlstep at 1, add_entry at 2.
  destruct (padd C o (fst e) (snd e)) as [[x|]|]; cbn [obind andb]; [apply IH|apply IH|reflexivity].
Qed.
Lemma add_lookup es : forall acc x, NoDup (keys es) ->
  assoc x (fold_left add_entry es acc) =
  match assoc x es with
  | Some v => match padd C o x v with Some (Some w) => Some w | _ => assoc x acc end
  | None => assoc x acc
  end.
Proof.
  induction es as [|[k v] r IH]; intros acc x Hn; [reflexivity|].
  inversion Hn as [|? ? Hni Hn']; subst. cbn [fold_left assoc]. rewrite IH by exact Hn'.
  unfold add_entry. cbn [fst snd].
  destruct (String.eqb x k) eqn:E.
  - apply seqb_eq in E. subst k. apply assoc_None in Hni. rewrite Hni.
    destruct (padd C o x v) as [[w|]|]; [apply assoc_set_same|reflexivity|reflexivity].
  - apply seqb_neq in E.
    destruct (padd C o k v) as [[w|]|]; try reflexivity.
    rewrite (assoc_set_other acc k w x E). reflexivity.
Qed.

(* --- what the loop keeps true of its whole state --- *)
Definition fname (kf : string * field) : string := f_name (snd kf).
Definition dinv (st : dfs_state) : Prop :=
  let '(result, raw, addition, deps) := st in
  (forall x, In x (keys result) -> exists kf, In kf fs /\ fname kf = x) /\
  (forall x, In x (keys raw) -> exists kf, In kf fs /\ fname kf = x /\ is_no_input (snd kf) o = false) /\
  (forall d, In d deps <-> exists kf, In kf fs /\ In d (f_dependencies (snd kf)) /\
                                      has_key (fname kf) raw = true /\ has_key (fname kf) result = true).

Lemma same_name_same_field kf k f : In kf fs -> In (k, f) fs -> fname kf = f_name f -> kf = (k, f).
Proof.
  intros Hi Hi' Hn. pose proof (wf_names C HW kf (k, f) Hi Hi' Hn) as Hk. destruct kf as [k0 f0]. cbn [fst] in Hk. subst k0.
  apply (In_field_assoc C HW) in Hi. apply (In_field_assoc C HW) in Hi'. congruence.
Qed.

Lemma dinv_step st e st' : dinv st -> dfs_pstep tr C o depth st e = Some st' -> dinv st'.
Proof.
  destruct st as [[[result raw] addition] deps]. destruct e as [key value].
  intros (Hres & Hraw & Hdeps). unfold dfs_pstep. rewrite get_field_target.
  destruct (get_field_key C key) as [k|] eqn:Et.
  2:{ destruct (padd C o key value) as [a|]; cbn [obind]; [|discriminate]. intros H. injection H as <-.
      repeat split; auto; apply Hdeps. }
  destruct (target_field C HW _ _ Et) as [f Hf]. fold fs in Hf. fold fs. rewrite Hf.
  assert (Hi : In (k, f) fs) by (apply assoc_In; exact Hf).
  rewrite Hign.
  destruct (is_no_input f o) eqn:Eni.
  - intros H. injection H as <-. cbn [dinv]. split; [|split]; [|exact Hraw|].
    + intros x Hx. destruct (get_default f o); [|apply Hres; exact Hx].
      apply In_keys_set in Hx. destruct Hx as [->|Hx]; [exists (k, f); auto|apply Hres; exact Hx].
    + intros d. rewrite Hdeps. split; intros (kf & Hk & Hd & Hr1 & Hr2); exists kf; repeat split; auto.
      * destruct (get_default f o); [rewrite has_key_set, Hr2; apply Bool.orb_true_r|exact Hr2].
      * destruct (get_default f o) as [dv|]; [|exact Hr2]. rewrite has_key_set in Hr2.
        destruct (String.eqb (fname kf) (f_name f)) eqn:En; [|exact Hr2].
        exfalso. apply seqb_eq in En. apply has_key_In in Hr1. destruct (Hraw _ Hr1) as (kf2 & Hk2 & Hn2 & Hni2).
        assert (kf2 = (k, f)) by (apply same_name_same_field; congruence). subst kf2. cbn [snd] in Hni2. congruence.
  - destruct (match assoc (f_name f) raw with Some prev => Some prev | None => assoc (f_name f) result end) as [prev|] eqn:Eseen.
    + destruct (negb (py_eq prev value)); [discriminate|]. intros H. injection H as <-. repeat split; auto; apply Hdeps.
    + assert (Eraw : assoc (f_name f) raw = None) by (destruct (assoc (f_name f) raw); [discriminate|reflexivity]).
      rewrite Eraw in Eseen.
      assert (Hraw' : forall x, In x (keys (sdict_set raw (f_name f) value)) ->
                      exists kf, In kf fs /\ fname kf = x /\ is_no_input (snd kf) o = false).
      { intros x Hx. apply In_keys_set in Hx. destruct Hx as [->|Hx]; [exists (k, f); auto|apply Hraw; exact Hx]. }
      destruct (pv tr o depth f value) as [[r|]|]; cbn [obind]; [| |discriminate]; intros H; injection H as <-; cbn [dinv].
      * split; [|split]; [|exact Hraw'|].
        -- intros x Hx. apply In_keys_set in Hx. destruct Hx as [->|Hx]; [exists (k, f); auto|apply Hres; exact Hx].
        -- intros d. rewrite in_app_iff, Hdeps. split.
           ++ intros [(kf & Hk & Hd & Hr1 & Hr2)|Hd].
              ** exists kf. repeat split; auto; rewrite has_key_set; [rewrite Hr1|rewrite Hr2]; apply Bool.orb_true_r.
              ** exists (k, f). repeat split; auto; unfold fname; cbn [snd]; rewrite has_key_set, seqb_refl; reflexivity.
           ++ intros (kf & Hk & Hd & Hr1 & Hr2). rewrite has_key_set in Hr1, Hr2.
              destruct (String.eqb (fname kf) (f_name f)) eqn:En.
              ** right. apply seqb_eq in En. assert (kf = (k, f)) by (apply same_name_same_field; auto). subst kf. exact Hd.
              ** left. exists kf. auto.
      * split; [exact Hres|split; [exact Hraw'|]].
        intros d. rewrite Hdeps. split; intros (kf & Hk & Hd & Hr1 & Hr2); exists kf; repeat split; auto.
        -- rewrite has_key_set, Hr1. apply Bool.orb_true_r.
        -- rewrite has_key_set in Hr1. destruct (String.eqb (fname kf) (f_name f)) eqn:En; [|exact Hr1].
           exfalso. apply seqb_eq in En. unfold has_key in Hr2. rewrite En, Eseen in Hr2. discriminate.
Qed.

Lemma dinv_init : dinv ([], [], [], []).
Proof.
  cbn. repeat split; try (intros x []).
  - intros [].
  - intros (kf & _ & _ & H & _). discriminate.
Qed.

(* --- the required / default pass --- *)
Definition missing_post (l : list (string * field)) (result : sdata) (unprov : list string)
           (res : option (sdata * list string)) : Prop :=
  match res with
  | None => exists kf, In kf l /\ has_key (fname kf) result = false /\ is_required (snd kf) o = true
  | Some (result', unprov') =>
      (forall kf, In kf l -> has_key (fname kf) result = false -> is_required (snd kf) o = false) /\
      (forall x, assoc x result' =
                 match assoc x result with
                 | Some v => Some v
                 | None => match find (fun kf => String.eqb (fname kf) x) l with
                           | Some kf => get_default (snd kf) o
                           | None => None
                           end
                 end) /\
      (forall x, In x unprov' <-> In x unprov \/ exists kf, In kf l /\ fname kf = x /\ has_key x result = false)
  end.

Lemma missing_char l : NoDup (map fname l) -> forall result unprov,
  missing_post l result unprov (ofold (dfs_missing_pstep o) l (result, unprov)).
Proof.
  induction l as [|[k f] r IH]; intros Hn result unprov.
  - cbn. split; [intros ? []|]. split.
    + intros x. destruct (assoc x result); reflexivity.
    + intros x. split; [auto|]. intros [H|(kf & [] & _)]. exact H.
  - inversion Hn as [|? ? Hni Hn']; subst. cbn [ofold]. unfold dfs_missing_pstep at 1. cbn [snd].
    destruct (has_key (f_name f) result) eqn:Eh.
    + cbn [obind]. specialize (IH Hn' result unprov). unfold missing_post in *.
      destruct (ofold (dfs_missing_pstep o) r (result, unprov)) as [[result' unprov']|].
      * destruct IH as (Hreq & Hval & Hunp). split; [|split].
        -- intros kf [<-|Hk] Hh; [unfold fname in Hh; cbn [snd] in Hh; congruence|apply Hreq; assumption].
        -- intros x. rewrite Hval. destruct (assoc x result) eqn:Ea; [reflexivity|].
           cbn [find]. change (fname (k, f)) with (f_name f).
           destruct (String.eqb (f_name f) x) eqn:En; [|reflexivity].
           apply seqb_eq in En. subst x. unfold has_key in Eh. rewrite Ea in Eh. discriminate.
        -- intros x. rewrite Hunp. split; intros [H|(kf & Hk & Hn2 & Hh)]; auto.
           ++ right. exists kf. split; [right; exact Hk|auto].
           ++ destruct Hk as [<-|Hk]; [unfold fname in Hn2; cbn [snd] in Hn2; subst x; congruence|].
              right. exists kf. auto.
      * destruct IH as (kf & Hk & Hh & Hr). exists kf. split; [right; exact Hk|auto].
    + destruct (is_required f o) eqn:Er.
      * cbn [obind]. exists (k, f). split; [left; reflexivity|auto].
      * assert (Hcont : forall result1,
                  (forall x, x <> f_name f -> assoc x result1 = assoc x result) ->
                  assoc (f_name f) result1 = get_default f o ->
                  missing_post ((k, f) :: r) result unprov
                               (ofold (dfs_missing_pstep o) r (result1, f_name f :: unprov))).
        { intros result1 Hoth Hsame.
          assert (Hk1 : forall kf, In kf r -> has_key (fname kf) result1 = has_key (fname kf) result).
          { intros kf Hk. unfold has_key. rewrite Hoth; [reflexivity|]. intros En. apply Hni. change (fname (k, f)) with (f_name f). rewrite <- En.
            apply (in_map fname) in Hk. exact Hk. }
          specialize (IH Hn' result1 (f_name f :: unprov)). unfold missing_post in *.
          match type of IH with match ?t with _ => _ end =>
            match goal with |- match ?g with _ => _ end => change g with t end;
            destruct t as [[result' unprov']|] end.
          - destruct IH as (Hreq & Hval & Hunp). split; [|split].
            + intros kf [<-|Hk] Hh; [exact Er|]. apply Hreq; [exact Hk|]. rewrite Hk1; assumption.
            + intros x. rewrite Hval. cbn [find]. change (fname (k, f)) with (f_name f).
              destruct (String.eqb (f_name f) x) eqn:En.
              * apply seqb_eq in En. subst x. rewrite Hsame. cbn [snd]. unfold has_key in Eh.
                destruct (assoc (f_name f) result); [discriminate|].
                destruct (get_default f o); [reflexivity|].
                destruct (find _ r) as [kf|] eqn:Ef; [|reflexivity].
                exfalso. apply find_some in Ef. destruct Ef as [Hk En]. apply seqb_eq in En.
                apply Hni. change (fname (k, f)) with (f_name f). rewrite <- En. apply (in_map fname) in Hk. exact Hk.
              * apply seqb_neq in En. rewrite Hoth by congruence. reflexivity.
            + intros x. rewrite Hunp. cbn [In]. split.
              * intros [[<-|H]|(kf & Hk & Hn2 & Hh)]; auto.
                -- right. exists (k, f). split; [left; reflexivity|auto].
                -- right. exists kf. split; [right; exact Hk|]. split; [exact Hn2|]. subst x. rewrite <- Hk1; assumption.
              * intros [H|(kf & [<-|Hk] & Hn2 & Hh)]; auto.
                right. exists kf. split; [exact Hk|]. split; [exact Hn2|]. subst x. rewrite Hk1; assumption.
          - destruct IH as (kf & Hk & Hh & Hr). exists kf. split; [right; exact Hk|]. split; [|exact Hr]. rewrite <- Hk1; assumption. }
        destruct (get_default f o) as [d|] eqn:Ed; cbn [obind]; apply Hcont.
        -- intros x Hx. apply assoc_set_other. exact Hx.
        -- apply assoc_set_same.
        -- reflexivity.
        -- unfold has_key in Eh. destruct (assoc (f_name f) result); [discriminate|reflexivity].
Qed.

(* --- assembling: the loop --- *)
Notation init := (@nil (string * pyval), @nil (string * pyval), @nil (string * pyval), @nil string).
Notation fo := (fo tr o depth).
Notation field_out := (field_out tr C o depth).

Lemma loop_out_none f hs : loop_out f hs = None -> fo f hs = FErr.
Proof.
  destruct hs as [|v1 more]; cbn [loop_out FieldSpec.fo]; [discriminate|].
  destruct (is_no_input f o); [discriminate|].
  destruct (pv tr o depth f v1) as [p|]; [|destruct (forallb _ more); reflexivity].
  destruct (forallb _ more); [discriminate|reflexivity].
Qed.

Lemma loop_field data result raw addition deps kf :
  ofold (dfs_pstep tr C o depth) data init = Some (result, raw, addition, deps) -> In kf fs ->
  loop_out (snd kf) (hits C (fst kf) data) = Some (LF (assoc (fname kf) raw) (assoc (fname kf) result)).
Proof.
  intros H Hi. destruct kf as [k f]. pose proof (dfs_some _ _ _ H (Some k)) as Hd.
  pose proof (In_field_assoc C HW _ _ Hi) as Hf. fold fs in Hf. cbn [dview] in Hd. fold fs in Hd. rewrite Hf in Hd.
  cbn [assoc] in Hd. rewrite (field_fold k f _ Hf) in Hd. cbn [fst snd]. rewrite hits_dsub. exact Hd.
Qed.

Definition padd_ok (e : string * pyval) : bool :=
  match padd C o (fst e) (snd e) with Some _ => true | None => false end.
Lemma loop_add data result raw addition deps :
  ofold (dfs_pstep tr C o depth) data init = Some (result, raw, addition, deps) ->
  forallb padd_ok (dsub None data) = true /\ addition = fold_left add_entry (dsub None data) [].
Proof.
  intros H. pose proof (dfs_some _ _ _ H None) as Hd. cbn [dview] in Hd. rewrite add_fold in Hd.
  fold padd_ok in Hd. destruct (forallb padd_ok (dsub None data)); [|discriminate]. injection Hd as Hd. auto.
Qed.

Lemma dsub_In t data e : In e (dsub t data) <-> In e data /\ get_field_key C (fst e) = t.
Proof. unfold dsub, sub. rewrite filter_In. unfold dtgt. rewrite oseqb_spec. tauto. Qed.

Lemma loop_fail data :
  ofold (dfs_pstep tr C o depth) data init = None ->
  fields_ok tr C o depth data && adds_ok C o data = false.
Proof.
  intros H. apply dfs_none in H. destruct H as [t H]. apply Bool.andb_false_iff. destruct t as [k|].
  - left. cbn [dview] in H. fold fs in H. destruct (assoc k fs) as [f|] eqn:Hf.
    + cbn [assoc] in H. rewrite (field_fold k f _ Hf) in H. apply loop_out_none in H.
      apply forallb_false_iff. exists (k, f). split; [apply assoc_In; exact Hf|].
      unfold FieldSpec.field_out. cbn [fst snd]. rewrite hits_dsub, H. reflexivity.
    + exfalso. destruct (dsub (Some k) data) as [|e r] eqn:Es; [discriminate|].
      assert (He : In e (dsub (Some k) data)) by (rewrite Es; left; reflexivity).
      apply dsub_In in He. destruct He as [_ He]. destruct (target_field C HW _ _ He) as [f Hf2].
      fold fs in Hf2. congruence.
  - right. cbn [dview] in H. rewrite add_fold in H. fold padd_ok in H.
    destruct (forallb padd_ok (dsub None data)) eqn:Ef; [discriminate|].
    apply forallb_false_iff in Ef. destruct Ef as (e & He & Hp). apply dsub_In in He. destruct He as [Hin Ht].
    apply forallb_false_iff. exists e. split; [exact Hin|]. unfold target, addition_of. rewrite Ht. exact Hp.
Qed.

Lemma fold_add_nodup es : forall acc, NoDup (keys acc) -> NoDup (keys (fold_left add_entry es acc)).
Proof.
  induction es as [|e r IH]; intros acc Hn; [exact Hn|]. cbn [fold_left]. apply IH.
  unfold add_entry. destruct (padd C o (fst e) (snd e)) as [[x|]|]; [apply nodup_keys_set; exact Hn|exact Hn|exact Hn].
Qed.

(* --- the theorem --- *)
Theorem dfs_contract data :
  NoDup (keys data) ->
  match data_first_p tr C o depth data with
  | Some r => fields_ok tr C o depth data && adds_ok C o data && deps_ok tr C o depth data = true /\
              forall x, assoc x r = contract_val tr C o depth data x
  | None => fields_ok tr C o depth data && adds_ok C o data && deps_ok tr C o depth data = false
  end.
Proof.
  intros Hnd. unfold data_first_p.
  destruct (ofold (dfs_pstep tr C o depth) data init) as [[[[result raw] addition] deps]|] eqn:Eloop; cbn [obind].
  2:{ rewrite (loop_fail _ Eloop). reflexivity. }
  pose proof (loop_add _ _ _ _ _ Eloop) as [Hpadd Haddition].
  assert (Hinv : dinv (result, raw, addition, deps)).
  { apply (ofold_inv _ dinv dinv_step data init); [apply dinv_init|exact Eloop]. }
  destruct Hinv as (Hreskeys & Hrawkeys & Hdeps).
  pose proof (missing_char fs (wf_names_nodup C HW) result []) as Hmiss. unfold missing_post in Hmiss.
  (* every field that took part in the loop *)
  assert (Hfield : forall kf, In kf fs ->
            loop_out (snd kf) (hits C (fst kf) data) = Some (LF (assoc (fname kf) raw) (assoc (fname kf) result))).
  { intros kf Hi. eapply loop_field; eassumption. }
  match type of Hmiss with match ?t with _ => _ end =>
    match goal with |- context [obind ?g _] => change g with t end;
    destruct t as [[result2 unprov]|] end; cbn [obind].
  2:{ destruct Hmiss as (kf & Hi & Hh & Hr). apply Bool.andb_false_iff. left. apply Bool.andb_false_iff. left.
      apply forallb_false_iff. exists kf. split; [exact Hi|].
      specialize (Hfield kf Hi). unfold FieldSpec.field_out, FieldSpec.fo.
      destruct (hits C (fst kf) data) as [|v1 more]; [rewrite Hr; reflexivity|]. exfalso.
      cbn [loop_out] in Hfield. destruct (is_no_input (snd kf) o) eqn:Eni.
      - rewrite (no_input_not_required _ _ Eni) in Hr. discriminate.
      - destruct (pv tr o depth (snd kf) v1) as [p|] eqn:Epv; [|discriminate].
        destruct (forallb _ more); [|discriminate]. injection Hfield as _ Hp.
        unfold has_key in Hh. rewrite <- Hp in Hh. destruct p as [r|]; [discriminate|].
        destruct (pv_none_facts tr o depth _ _ Epv) as [_ Hnr]. congruence. }
  destruct Hmiss as (Hreq & Hval & Hunp).
  (* no field fails *)
  assert (Hfok : fields_ok tr C o depth data = true).
  { apply forallb_forall. intros kf Hi. specialize (Hfield kf Hi). unfold FieldSpec.field_out, FieldSpec.fo.
    destruct (hits C (fst kf) data) as [|v1 more].
    - cbn [loop_out] in Hfield. injection Hfield as _ Hrs.
      rewrite (Hreq kf Hi); [reflexivity|]. unfold has_key. rewrite <- Hrs. reflexivity.
    - cbn [loop_out] in Hfield. destruct (is_no_input (snd kf) o); [reflexivity|].
      destruct (pv tr o depth (snd kf) v1) as [p|]; [|discriminate]. destruct (forallb _ more); [reflexivity|discriminate]. }
  assert (Haok : adds_ok C o data = true).
  { apply forallb_forall. intros e He. unfold target, addition_of. destruct (get_field_key C (fst e)) eqn:Et; [reflexivity|].
    rewrite forallb_forall in Hpadd. apply (Hpadd e). apply dsub_In. auto. }
  rewrite Hfok, Haok. cbn [andb].
  (* result of the loop, per field *)
  assert (Hloopval : forall kf, In kf fs ->
            has_key (fname kf) result = true <->
            exists w g dp, field_out kf data = FOut (Some w) g dp /\ g = true /\ assoc (fname kf) result = Some w).
  { intros kf Hi. specialize (Hfield kf Hi). unfold FieldSpec.field_out, FieldSpec.fo.
    destruct (hits C (fst kf) data) as [|v1 more]; cbn [loop_out] in Hfield.
    - injection Hfield as _ Hrs. unfold has_key. rewrite <- Hrs. split; [discriminate|].
      intros (w & g & dp & Hf & Hg & _). destruct (is_required (snd kf) o); [discriminate|]. injection Hf as _ Hg2 _. congruence.
    - destruct (is_no_input (snd kf) o).
      + injection Hfield as _ Hrs. unfold has_key. rewrite <- Hrs.
        destruct (get_default (snd kf) o) as [d|]; split; intros H; try discriminate; try reflexivity;
          [exists d, true, false; auto|destruct H as (w & g & dp & Hf & _); discriminate].
      + destruct (pv tr o depth (snd kf) v1) as [p|]; [|discriminate]. destruct (forallb _ more); [|discriminate].
        injection Hfield as _ Hrs. unfold has_key. rewrite <- Hrs.
        destruct p as [r|]; split; intros H; try discriminate; try reflexivity;
          [exists r, true, true; auto|destruct H as (w & g & dp & Hf & _); discriminate]. }
  (* the dependency check *)
  assert (Hdc : deps_check_p deps result2 unprov = Some tt <-> deps_ok tr C o depth data = true).
  { apply (deps_common tr C o depth).
    - intros d. rewrite Hdeps. split.
      + intros (kf & Hi & Hd & Hr1 & Hr2). exists kf. split; [exact Hi|]. split; [exact Hd|].
        specialize (Hfield kf Hi). unfold FieldSpec.field_out, FieldSpec.fo.
        unfold has_key in Hr1, Hr2.
        destruct (hits C (fst kf) data) as [|v1 more]; cbn [loop_out] in Hfield.
        * injection Hfield as Hrw _. rewrite <- Hrw in Hr1. discriminate.
        * destruct (is_no_input (snd kf) o); [injection Hfield as Hrw _; rewrite <- Hrw in Hr1; discriminate|].
          destruct (pv tr o depth (snd kf) v1) as [p|]; [|discriminate]. destruct (forallb _ more); [|discriminate].
          injection Hfield as _ Hrs. rewrite <- Hrs in Hr2. destruct p as [r|]; [eauto|discriminate].
      + intros (kf & Hi & Hd & v & g & Hfo). exists kf. split; [exact Hi|]. split; [exact Hd|].
        specialize (Hfield kf Hi). unfold FieldSpec.field_out, FieldSpec.fo in Hfo. unfold has_key.
        destruct (hits C (fst kf) data) as [|v1 more]; cbn [loop_out] in Hfield.
        * destruct (is_required (snd kf) o); discriminate.
        * destruct (is_no_input (snd kf) o); [discriminate|].
          destruct (pv tr o depth (snd kf) v1) as [p|]; [|discriminate]. destruct (forallb _ more); [|discriminate].
          injection Hfield as Hrw Hrs. rewrite <- Hrw, <- Hrs. destruct p; [auto|discriminate].
    - intros d. unfold provided. split.
      + intros [Hk Hu]. apply str_in_false in Hu.
        destruct (assoc d result) as [w|] eqn:Ear.
        * assert (Hkd : In d (keys result)) by (eapply assoc_Some_key; exact Ear).
          destruct (Hreskeys d Hkd) as (kf & Hi & Hn). unfold fname in Hn. subst d.
          rewrite (field_named_of C HW kf Hi).
          assert (Hh : has_key (fname kf) result = true) by (unfold has_key, fname; rewrite Ear; reflexivity).
          apply (Hloopval kf Hi) in Hh. destruct Hh as (w' & g & dp & Hf & Hg & _). fold field_out. rewrite Hf, Hg. reflexivity.
        * exfalso. unfold has_key in Hk. rewrite Hval, Ear in Hk.
          destruct (find _ fs) as [kf|] eqn:Ef; [|discriminate].
          apply find_some in Ef. destruct Ef as [Hi He]. apply seqb_eq in He.
          apply Hu. apply Hunp. right. exists kf. split; [exact Hi|]. split; [exact He|].
          unfold has_key. rewrite Ear. reflexivity.
      + intros Hp. destruct (field_named C d) as [kf|] eqn:Efn; [|discriminate].
        apply (field_named_In C) in Efn. destruct Efn as [Hi Hn]. fold field_out in Hp.
        destruct (field_out kf data) as [|[w|] [|] dp] eqn:Efo; try discriminate.
        assert (Hh : has_key (fname kf) result = true).
        { apply (Hloopval kf Hi). exists w, true, dp. split; [exact Efo|]. split; [reflexivity|].
          specialize (Hfield kf Hi). unfold FieldSpec.field_out, FieldSpec.fo in Efo.
          destruct (hits C (fst kf) data) as [|v1 more]; cbn [loop_out] in Hfield.
          - destruct (is_required (snd kf) o); discriminate.
          - destruct (is_no_input (snd kf) o).
            + injection Hfield as _ Hrs. injection Efo as Hd _. congruence.
            + destruct (pv tr o depth (snd kf) v1) as [p|]; [|discriminate]. destruct (forallb _ more); [|discriminate].
              injection Hfield as _ Hrs. injection Efo as Hp2 _. congruence. }
        unfold fname in Hh. rewrite Hn in Hh. split.
        * unfold has_key in *. rewrite Hval. destruct (assoc d result); [reflexivity|discriminate].
        * apply str_in_false. intros Hu. apply Hunp in Hu. destruct Hu as [[]|(kf2 & _ & _ & Hh2)]. congruence. }
  destruct (deps_check_p deps result2 unprov) as [[]|] eqn:Edc; cbn [obind].
  - split; [apply Hdc; reflexivity|].
    apply (final_common tr C o depth HW data result2 addition Hnd).
    + intros x. rewrite Hval. change (find (fun kf => String.eqb (fname kf) x) fs) with (field_named C x).
      destruct (field_named C x) as [kf|] eqn:Efn.
      * apply (field_named_In C) in Efn. destruct Efn as [Hi Hn].
        specialize (Hfield kf Hi). unfold fname in Hfield. rewrite Hn in Hfield.
        unfold FieldSpec.field_out, FieldSpec.fo.
        destruct (hits C (fst kf) data) as [|v1 more]; cbn [loop_out] in Hfield.
        -- injection Hfield as _ Hrs. rewrite <- Hrs.
           rewrite (Hreq kf Hi); [reflexivity|]. unfold has_key, fname. rewrite Hn, <- Hrs. reflexivity.
        -- destruct (is_no_input (snd kf) o).
           ++ injection Hfield as _ Hrs. rewrite <- Hrs. destruct (get_default (snd kf) o); reflexivity.
           ++ destruct (pv tr o depth (snd kf) v1) as [p|] eqn:Epv; [|discriminate]. destruct (forallb _ more); [|discriminate].
              injection Hfield as _ Hrs. rewrite <- Hrs. destruct p as [r|]; [reflexivity|].
              destruct (pv_none_facts tr o depth _ _ Epv) as [Hgd _]. exact Hgd.
      * destruct (assoc x result) as [w|] eqn:Ear; [|reflexivity]. exfalso.
        assert (Hkd : In x (keys result)) by (eapply assoc_Some_key; exact Ear).
        destruct (Hreskeys x Hkd) as (kf & Hi & Hn). apply (field_named_none C x kf Efn Hi Hn).
    + intros x. rewrite Haddition.
      rewrite assoc_rev_nodup by (apply fold_add_nodup; constructor).
      assert (Hnd2 : NoDup (keys (dsub None data))).
      { unfold dsub, sub, keys. clear -Hnd. induction data as [|e r IH]; cbn; [constructor|].
        inversion Hnd as [|? ? Hni Hn']; subst. destruct (oseqb (dtgt e) None); cbn; [|apply IH; exact Hn'].
        constructor; [|apply IH; exact Hn']. intros Hin. apply Hni. apply in_map_iff in Hin. destruct Hin as (e' & He' & Hin).
        apply filter_In in Hin. apply in_map_iff. exists e'. tauto. }
      rewrite (add_lookup _ [] x Hnd2). unfold dsub, sub. rewrite (assoc_filter_nodup _ data x Hnd).
      unfold target. destruct (assoc x data) as [v|]; [|reflexivity]. unfold dtgt. cbn [fst].
      destruct (get_field_key C x); cbn [oseqb]; [reflexivity|].
      destruct (padd C o x v) as [[w|]|]; reflexivity.
  - destruct (deps_ok tr C o depth data) eqn:Edo; [|reflexivity].
    exfalso. assert (@None unit = Some tt) by (apply Hdc; reflexivity). discriminate.
Qed.

End Dfs.
