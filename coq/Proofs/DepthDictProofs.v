(* Proofs/DepthDictProofs.v — with max_depth = d, `class Node: v: int; link: Dict[str, Node]` accepts a
   tree-shaped input exactly when its nesting depth is at most d, for every tree with distinct keys (C18). *)
From UV Require Import Parse DepthSpec DepthProofs.
From Coq Require Import Lia ZifyBool ZifyNat.
Open Scope string_scope.
Open Scope list_scope.
Open Scope Z_scope.

Section DepthDict.
Variable re : string -> string -> bool.
Variable ex : list string.   (* names the class excludes from additional keys: any *)
Variable d : Z.
Hypothesis d_pos : 1 <= d.

Let o := opts_with_depth (Some d).
Let C := dnode_decl_ex ex (Some d).
Let W := dnode_world_ex ex (Some d).

Lemma ddepth_check_o k : depth_check o k = if d <? k then Raise (parse_err KDepth) else Ok tt.
Proof. unfold depth_check, o. cbn [o_max_depth opts_with_depth]. destruct (d =? 0) eqn:E; [lia|]. reflexivity. Qed.

Fixpoint dtree_ind' (P : dtree -> Prop)
         (H : forall v kids, Forall (fun kc => P (snd kc)) kids -> P (DNode v kids)) (t : dtree) : P t :=
  match t with
  | DNode v kids =>
      H v kids ((fix go (l : list (string * dtree)) : Forall (fun kc => P (snd kc)) l :=
                   match l with
                   | [] => Forall_nil _
                   | (k, c) :: r => Forall_cons (k, c) (dtree_ind' P H c) (go r)
                   end) kids)
  end.

Lemma dtr_int n k v s : transform re W (S n) o k (TPrim TInt) (PInt v) s = (s, Ok (PInt v)).
Proof. reflexivity. Qed.
Lemma dtr_str n k x s : transform re W (S n) o k (TPrim TStr) (PStr x) s = (s, Ok (PStr x)).
Proof. reflexivity. Qed.
Lemma dtr_dict n k kvs s : transform re W (S n) o k (TPrim TDict) (PDict kvs) s = (s, Ok (PDict kvs)).
Proof. reflexivity. Qed.

Lemma dkey_res n k x : in_fresh (transform re W (S n) o k (TPrim TStr) (PStr x)) = Ok (PStr x).
Proof. reflexivity. Qed.

Definition dkid_res (n : nat) (k : Z) (x : pyval) : out pyval :=
  in_fresh (transform re W n o k (TData 0) x).

(* a result mapping with string keys *)
Definition skv (l : list (string * pyval)) : list (pyval * pyval) := map (fun kr => (PStr (fst kr), snd kr)) l.

Lemma dict_set_fresh l k v : ~ In k (map fst l) -> dict_set (skv l) (PStr k) v = skv (l ++ [(k, v)]).
Proof.
  induction l as [|[k' v'] r IH]; intros Hn; cbn [skv map dict_set app fst snd].
  - reflexivity.
  - change (py_eq (PStr k') (PStr k)) with (String.eqb k' k).
    destruct (String.eqb_spec k' k) as [->|Hne].
    + exfalso. apply Hn. left; reflexivity.
    + fold (skv r). rewrite IH; [reflexivity|]. intros Hin. apply Hn. right; exact Hin.
Qed.

(* _parse_map_args over entries whose individual outcomes are known, inside the limit *)
Lemma map_items_all_ok n k items rs : d <? k = false ->
  Forall2 (fun kx kr => fst kx = fst kr /\ dkid_res (S n) k (snd kx) = Ok (snd kr)) items rs ->
  forall acc s, NoDup (map fst acc ++ map fst items) ->
  map_items (transform re W (S n)) o k (TPrim TStr) (Some (TData 0)) (skv items) (skv acc) s
  = (s, Ok (skv (acc ++ rs))).
Proof.
  intros Hk HF. induction HF as [|[kx x] [kr r] items rs [Hkey Hx] HF IH]; intros acc s Hnd.
  - cbn [skv map map_items]. rewrite app_nil_r. reflexivity.
  - cbn [fst snd] in Hkey, Hx. subst kr. cbn [skv map map_items fst snd].
    unfold enter_tr, new_depth, route_val. rewrite ddepth_check_o, Hk.
    rewrite dkey_res. unfold mbind at 1, ret at 1.
    unfold dkid_res in Hx. rewrite Hx.
    cbn [Conv.hashable_deep Conv.hashable].
    fold (skv items). fold (skv acc).
    rewrite dict_set_fresh.
    2:{ cbn [map fst] in Hnd. apply NoDup_remove_2 in Hnd. intros Hin. apply Hnd. apply in_or_app. left; exact Hin. }
    rewrite IH.
    + rewrite <- app_assoc. reflexivity.
    + rewrite map_app. cbn [map fst app]. rewrite <- app_assoc. exact Hnd.
Qed.

Lemma map_items_some_fail n k items : d <? k = false ->
  Forall (fun kx => (exists r, dkid_res (S n) k (snd kx) = Ok r) \/ raises_parse (dkid_res (S n) k (snd kx))) items ->
  Exists (fun kx => raises_parse (dkid_res (S n) k (snd kx))) items ->
  forall acc s,
  exists s' e, map_items (transform re W (S n)) o k (TPrim TStr) (Some (TData 0)) (skv items) acc s = (s', Raise e)
               /\ is_parse_err e = true.
Proof.
  intros Hk HF HE. induction HF as [|[kx x] items Hx HF IH]; intros acc s.
  - inversion HE.
  - cbn [skv map map_items fst snd]. cbn [snd] in Hx.
    unfold enter_tr, new_depth, route_val. rewrite ddepth_check_o, Hk.
    rewrite dkey_res. unfold mbind at 1, ret at 1.
    fold (skv items).
    destruct Hx as [[r Hr]|(e & He & Hp)].
    + unfold dkid_res in Hr. rewrite Hr. cbn [Conv.hashable_deep Conv.hashable].
      apply IH. inversion HE as [? ? Hbad|? ? Hrest]; subst; [|exact Hrest].
      destruct Hbad as (e & He & _). cbn [snd] in He. unfold dkid_res in He. congruence.
    + unfold dkid_res in He. rewrite He.
      unfold o at 1. cbn [o_invalid_values opts_with_depth].
      unfold mbind, handle_error. cbn [o_collect_errors opts_with_depth o orb negb].
      eexists. eexists. split; [reflexivity|reflexivity].
Qed.

(* Rule.parse of Dict[str, 'Node'] on a mapping *)
Lemma dict_link_ok n k items rs s : d <? k = false -> e_errors s = [] -> e_tmp s = [] ->
  NoDup (map fst items) ->
  Forall2 (fun kx kr => fst kx = fst kr /\ dkid_res (S n) k (snd kx) = Ok (snd kr)) items rs ->
  transform re W (S (S n)) o k dict_link (PDict (skv items)) s = (s, Ok (PDict (skv rs))).
Proof.
  intros Hk He Ht Hnd HF. unfold dict_link. cbn [transform transform_step].
  unfold rule_parse, mcatch, mbind at 1.
  change (transform_step re W (transform re W n)) with (transform re W (S n)).
  rewrite dtr_dict. cbn [args_parser_of base_prim]. unfold mbind, parse_map_args. cbn [dict_items].
  unfold mbind.
  change (fun (o0 : options) (depth : Z) (t : ty) (v : pyval) => transform re W (S n) o0 depth t v)
    with (transform re W (S n)).
  change (@nil (pyval * pyval)) with (skv []).
  rewrite (map_items_all_ok n k items rs Hk HF [] s Hnd). cbn [app].
  unfold ret, lift. unfold o at 1. cbn [o_ignore_constraints opts_with_depth].
  cbn [run_validators]. unfold ret, raise_error. rewrite He, Ht. reflexivity.
Qed.

Lemma dict_link_fail n k items s : d <? k = false ->
  Forall (fun kx => (exists r, dkid_res (S n) k (snd kx) = Ok r) \/ raises_parse (dkid_res (S n) k (snd kx))) items ->
  Exists (fun kx => raises_parse (dkid_res (S n) k (snd kx))) items ->
  exists s' e, transform re W (S (S n)) o k dict_link (PDict (skv items)) s = (s', Raise e) /\ is_parse_err e = true.
Proof.
  intros Hk HF HE. unfold dict_link. cbn [transform transform_step].
  unfold rule_parse, mcatch, mbind at 1.
  change (transform_step re W (transform re W n)) with (transform re W (S n)).
  rewrite dtr_dict. cbn [args_parser_of base_prim]. unfold mbind, parse_map_args. cbn [dict_items].
  unfold mbind.
  change (fun (o0 : options) (depth : Z) (t : ty) (v : pyval) => transform re W (S n) o0 depth t v)
    with (transform re W (S n)).
  destruct (map_items_some_fail n k items Hk HF HE [] s) as (s' & e & Hs & Hp).
  rewrite Hs. eauto.
Qed.

Lemma dkid_res_dict n k kvs :
  dkid_res (S n) k (PDict kvs) = init_dataclass (transform re W n) 0 C o k (PDict kvs).
Proof. reflexivity. Qed.

Opaque transform.

Lemma init_dnode n k caller v kvs :
  o_override caller = false -> d <? k + 1 = false ->
  init_dataclass (transform re W (S n)) 0 C caller k (PDict [(PStr "v", PInt v); (PStr "link", PDict kvs)]) =
  match snd (transform re W (S n) o (k + 1) dict_link (PDict kvs) no_errs) with
  | Ok r => Ok (PInst 0 [("v", PInt v); ("link", r)])
  | Raise e => Raise (parse_err_at KType (PStr "link"))
  | Diverge => Diverge | OutOfFuel => OutOfFuel | Unmodelled => Unmodelled
  end.
Proof.
  intros Hov Hk.
  assert (Hd0 : (d =? 0) = false) by lia.
  pose proof (dtr_int n (k + 1) v no_errs) as Hint.
  set (tr := transform re W (S n)) in *.
  unfold init_dataclass, nested_options. change (c_options C) with o. rewrite Hov.
  cbv -[tr dict_link Z.ltb Z.eqb Z.add].
  rewrite Hd0, Hk. cbv -[tr dict_link Z.ltb Z.eqb Z.add].
  cbv -[tr dict_link Z.ltb Z.eqb Z.add] in Hint. rewrite Hint.
  cbv -[tr dict_link Z.ltb Z.eqb Z.add]. rewrite ?Hd0, ?Hk. cbv -[tr dict_link Z.ltb Z.eqb Z.add].
  match goal with |- context [tr ?a ?b dict_link ?c ?st] =>
    destruct (tr a b dict_link c st) as [s1 [r|exn0| | |]] end;
    cbv -[tr dict_link Z.ltb Z.eqb Z.add]; reflexivity.
Qed.

Lemma dinit_too_deep tr k caller data :
  o_override caller = false -> d <? k + 1 = true ->
  init_dataclass tr 0 C caller k data = Raise (parse_err KDepth).
Proof.
  intros Hov Hk. unfold init_dataclass, nested_options. change (c_options C) with o. rewrite Hov.
  cbn [o_override o opts_with_depth negb andb]. rewrite ddepth_check_o, Hk. reflexivity.
Qed.

Lemma dmax_height_ge kids kc : In kc kids -> (dheight (snd kc) <= dmax_height kids)%nat.
Proof.
  induction kids as [|[k0 y] r IH]; intros Hin; [destruct Hin|]. cbn [dmax_height fold_right].
  destruct Hin as [<-|Hin]; [cbn [snd]; lia|]. specialize (IH Hin). unfold dmax_height in IH. lia.
Qed.
Lemma dmax_height_attained kids : (0 < dmax_height kids)%nat ->
  exists kc, In kc kids /\ dheight (snd kc) = dmax_height kids.
Proof.
  induction kids as [|[k0 y] r IH]; cbn [dmax_height fold_right]; intros H; [lia|].
  fold (dmax_height r) in *. destruct (Nat.le_gt_cases (dmax_height r) (dheight y)).
  - exists (k0, y). split; [left; reflexivity|cbn [snd]; lia].
  - destruct IH as (x & Hx & Hh); [lia|]. exists x. split; [right; exact Hx|lia].
Qed.

Lemma wf_kids v kids : wf_dtree (DNode v kids) ->
  NoDup (map fst kids) /\ forall kc, In kc kids -> wf_dtree (snd kc).
Proof.
  cbn [wf_dtree]. intros [Hnd Hall]. split; [exact Hnd|].
  clear Hnd. induction kids as [|[k0 y] r IH]; intros kc Hin; [destruct Hin|].
  cbn [fold_right] in Hall. destruct Hall as [Hy Hr].
  destruct Hin as [<-|Hin]; [exact Hy|]. apply IH; assumption.
Qed.

Definition vitems (kids : list (string * dtree)) : list (string * pyval) :=
  map (fun kc => (fst kc, to_val_d (snd kc))) kids.
Definition iitems (kids : list (string * dtree)) : list (string * pyval) :=
  map (fun kc => (fst kc, inst_d (snd kc))) kids.
Lemma to_val_d_eq v kids :
  to_val_d (DNode v kids) = PDict [(PStr "v", PInt v); (PStr "link", PDict (skv (vitems kids)))].
Proof.
  cbn [to_val_d]. unfold skv, vitems. rewrite map_map. do 5 f_equal.
  apply map_ext. intros [k0 c]. reflexivity.
Qed.
Lemma inst_d_eq v kids :
  inst_d (DNode v kids) = PInst 0 [("v", PInt v); ("link", PDict (skv (iitems kids)))].
Proof.
  cbn [inst_d]. unfold skv, iitems. rewrite map_map. do 5 f_equal.
  apply map_ext. intros [k0 c]. reflexivity.
Qed.

(* THE RESULT for the mapping family *)
Lemma dnode_parse : forall t n k caller, wf_dtree t ->
  (2 * dheight t <= n)%nat -> o_override caller = false ->
  (k + Z.of_nat (dheight t) <= d ->
     init_dataclass (transform re W n) 0 C caller k (to_val_d t) = Ok (inst_d t)) /\
  (d < k + Z.of_nat (dheight t) ->
     raises_parse (init_dataclass (transform re W n) 0 C caller k (to_val_d t))).
Proof.
  induction t as [v kids IH] using dtree_ind'. intros n k caller Hwf Hn Hov.
  cbn [dheight] in Hn. fold (dmax_height kids) in Hn.
  destruct n as [|[|n2]]; try lia.
  rewrite to_val_d_eq, inst_d_eq. cbn [dheight]. fold (dmax_height kids).
  destruct (wf_kids v kids Hwf) as [Hnd Hwfk].
  destruct (d <? k + 1) eqn:Hk.
  - split; [lia|]. intros _. rewrite dinit_too_deep by assumption. eexists; split; reflexivity.
  - rewrite init_dnode by assumption.
    assert (Hkids : forall kc, In kc kids ->
              (k + 1 + Z.of_nat (dheight (snd kc)) <= d ->
                 dkid_res (S n2) (k + 1) (to_val_d (snd kc)) = Ok (inst_d (snd kc))) /\
              (d < k + 1 + Z.of_nat (dheight (snd kc)) ->
                 raises_parse (dkid_res (S n2) (k + 1) (to_val_d (snd kc))))).
    { intros kc Hin. rewrite Forall_forall in IH. specialize (IH kc Hin n2 (k + 1) o (Hwfk kc Hin)).
      pose proof (dmax_height_ge kids kc Hin).
      destruct (snd kc) as [xv xk] eqn:Ekc. rewrite to_val_d_eq. rewrite dkid_res_dict.
      rewrite <- to_val_d_eq. apply IH; [lia|reflexivity]. }
    assert (Hndv : NoDup (map fst (vitems kids))).
    { unfold vitems. rewrite map_map. cbn [fst]. exact Hnd. }
    split.
    + intros Hle.
      assert (HF : Forall2 (fun kx kr => fst kx = fst kr /\ dkid_res (S n2) (k + 1) (snd kx) = Ok (snd kr))
                           (vitems kids) (iitems kids)).
      { unfold vitems, iitems. apply Forall2_map_in. intros kc Hin. cbn [fst snd]. split; [reflexivity|].
        apply (Hkids kc Hin). pose proof (dmax_height_ge kids kc Hin). lia. }
      rewrite (dict_link_ok n2 (k + 1) _ _ no_errs Hk eq_refl eq_refl Hndv HF). reflexivity.
    + intros Hgt.
      assert (Hpos : (0 < dmax_height kids)%nat) by lia.
      destruct (dmax_height_attained kids Hpos) as (x & Hx & Hh).
      assert (HF : Forall (fun kx => (exists r, dkid_res (S n2) (k + 1) (snd kx) = Ok r) \/
                                     raises_parse (dkid_res (S n2) (k + 1) (snd kx))) (vitems kids)).
      { rewrite Forall_forall. intros y Hy. apply in_map_iff in Hy. destruct Hy as (z & <- & Hz).
        cbn [snd]. destruct (Hkids z Hz) as [H1 H2].
        destruct (Z_le_gt_dec (k + 1 + Z.of_nat (dheight (snd z))) d); [left; eauto|right; apply H2; lia]. }
      assert (HE : Exists (fun kx => raises_parse (dkid_res (S n2) (k + 1) (snd kx))) (vitems kids)).
      { rewrite Exists_exists. exists (fst x, to_val_d (snd x)). split.
        - unfold vitems. apply in_map_iff. exists x. split; [reflexivity|exact Hx].
        - cbn [snd]. apply (Hkids x Hx). lia. }
      destruct (dict_link_fail n2 (k + 1) _ no_errs Hk HF HE) as (s' & e & Hs & Hp).
      rewrite Hs. cbn [snd]. eexists; split; reflexivity.
Qed.

End DepthDict.

Transparent transform.

Lemma dnode_call re ex d t fuel : 1 <= d -> wf_dtree t -> (2 * dheight t <= fuel)%nat ->
  (Z.of_nat (dheight t) <= d ->
     call_dataclass re (dnode_world_ex ex (Some d)) fuel 0 None (to_val_d t) = Ok (inst_d t)) /\
  (d < Z.of_nat (dheight t) ->
     raises_parse (call_dataclass re (dnode_world_ex ex (Some d)) fuel 0 None (to_val_d t))).
Proof.
  intros Hd Hwf Hf. unfold call_dataclass. cbn [dnode_world_ex].
  replace {| c_fields := c_fields (dnode_decl_ex ex (Some d)); c_alias_map := c_alias_map (dnode_decl_ex ex (Some d));
             c_ci_names := c_ci_names (dnode_decl_ex ex (Some d)); c_options := c_options (dnode_decl_ex ex (Some d));
             c_dfs := c_dfs (dnode_decl_ex ex (Some d)); c_exclude_vars := c_exclude_vars (dnode_decl_ex ex (Some d));
             c_dict_based := c_dict_based (dnode_decl_ex ex (Some d)) |} with (dnode_decl_ex ex (Some d)) by reflexivity.
  destruct (dnode_parse re ex d Hd t fuel 0 default_options Hwf Hf eq_refl) as [H1 H2].
  split; intros H; [apply H1|apply H2]; lia.
Qed.
