(* Proofs/HeapProofs.v — C19 (partial): copy_value returns a cell that denotes the same value, leaves every old
   cell as it was, and shares no container with the old heap. *)
From UV Require Import Heap.
From Coq Require Import List Arith Bool Lia.
Import ListNotations.

Definition ext (h h' : heap) : Prop := exists e, h' = h ++ e.
Lemma ext_refl h : ext h h.
Proof. exists []. rewrite app_nil_r. reflexivity. Qed.
Lemma ext_trans a b c : ext a b -> ext b c -> ext a c.
Proof. intros [x ->] [y ->]. exists (x ++ y). rewrite app_assoc. reflexivity. Qed.
Lemma ext_length h h' : ext h h' -> List.length h <= List.length h'.
Proof. intros [e ->]. rewrite app_length. lia. Qed.
Lemma nth_ext (h e : heap) l o : nth_error h l = Some o -> nth_error (h ++ e) l = Some o.
Proof. intros H. rewrite nth_error_app1; [exact H|]. apply nth_error_Some. congruence. Qed.

Lemma all_some_map_mono {A} (f g : nat -> option A) (ls : list nat) (ts : list A) :
  (forall l t, f l = Some t -> g l = Some t) ->
  all_some (map f ls) = Some ts -> all_some (map g ls) = Some ts.
Proof.
  intros H. revert ts. induction ls as [|x r IH]; intros ts; cbn; [auto|].
  destruct (f x) as [a|] eqn:Ef; [|discriminate]. rewrite (H _ _ Ef).
  destruct (all_some (map f r)) as [tr|] eqn:Er; [|discriminate]. rewrite (IH _ eq_refl). auto.
Qed.
Lemma all_some_length {A} (l : list (option A)) ts : all_some l = Some ts -> List.length ts = List.length l.
Proof.
  revert ts. induction l as [|[a|] r IH]; intros ts; cbn; try discriminate.
  - intros H. injection H as <-. reflexivity.
  - destruct (all_some r) as [x|]; [|discriminate]. intros H. injection H as <-. cbn. f_equal. apply IH. reflexivity.
Qed.

Lemma denote_ext : forall n h e l t, denote n h l = Some t -> denote n (h ++ e) l = Some t.
Proof.
  induction n as [|f IH]; intros h e l t H; [discriminate|]. cbn [denote] in *.
  destruct (nth_error h l) as [o|] eqn:En; [|discriminate]. rewrite (nth_ext _ e _ _ En).
  destruct o as [a|k es|kvs|tg]; try exact H.
  - destruct (all_some (map (denote f h) es)) as [ts|] eqn:Ea; [|discriminate].
    rewrite (all_some_map_mono _ (denote f (h ++ e)) _ _ (fun l t => IH h e l t) Ea). exact H.
  - destruct (all_some (map (denote f h) (map snd kvs))) as [ts|] eqn:Ea; [|discriminate].
    rewrite (all_some_map_mono _ (denote f (h ++ e)) _ _ (fun l t => IH h e l t) Ea). exact H.
Qed.

Lemma all_new_ext : forall n b h e l, all_new n b h l = true -> all_new n b (h ++ e) l = true.
Proof.
  induction n as [|f IH]; intros b h e l H; [discriminate|]. cbn [all_new] in *.
  destruct (nth_error h l) as [o|] eqn:En; [|discriminate]. rewrite (nth_ext _ e _ _ En).
  destruct o as [a|k es|kvs|tg]; try exact H.
  - apply andb_prop in H. destruct H as [H1 H2]. rewrite H1. cbn. rewrite forallb_forall in *. intros x Hx. apply IH. apply H2. exact Hx.
  - apply andb_prop in H. destruct H as [H1 H2]. rewrite H1. cbn. rewrite forallb_forall in *. intros x Hx. apply IH. apply H2. exact Hx.
Qed.
Lemma all_new_base : forall n b0 b1 h l, b0 <= b1 -> all_new n b1 h l = true -> all_new n b0 h l = true.
Proof.
  induction n as [|f IH]; intros b0 b1 h l Hb H; [discriminate|]. cbn [all_new] in *.
  destruct (nth_error h l) as [o|]; [|discriminate].
  destruct o as [a|k es|kvs|tg]; try exact H.
  - apply andb_prop in H. destruct H as [H1 H2]. apply Nat.leb_le in H1.
    assert (b0 <=? l = true) as -> by (apply Nat.leb_le; lia). cbn. rewrite forallb_forall in *. intros x Hx. eapply IH; [exact Hb|]. apply H2. exact Hx.
  - apply andb_prop in H. destruct H as [H1 H2]. apply Nat.leb_le in H1.
    assert (b0 <=? l = true) as -> by (apply Nat.leb_le; lia). cbn. rewrite forallb_forall in *. intros x Hx. eapply IH; [exact Hb|]. apply H2. exact Hx.
Qed.

Lemma map_heap_length cp : forall ls h h1 ls', map_heap cp h ls = (h1, ls') -> List.length ls' = List.length ls.
Proof.
  induction ls as [|x r IH]; intros h h1 ls' H; cbn in H.
  - injection H as <- <-. reflexivity.
  - destruct (cp h x) as [hx x']. destruct (map_heap cp hx r) as [h2 r'] eqn:E. injection H as <- <-. cbn. f_equal. eapply IH. exact E.
Qed.

(* what one copy gives, for the copies of a list of cells *)
Definition copy_ok (f : nat) : Prop :=
  forall h l t, denote f h l = Some t ->
    let '(h', l') := copy_value f h l in
    ext h h' /\ denote f h' l' = Some t /\ all_new f (List.length h) h' l' = true.

Lemma map_heap_spec f : copy_ok f -> forall es h ts b, b <= List.length h ->
  all_some (map (denote f h) es) = Some ts ->
  let '(h1, es') := map_heap (copy_value f) h es in
  ext h h1 /\ all_some (map (denote f h1) es') = Some ts /\ forallb (all_new f b h1) es' = true.
Proof.
  intros Hok. induction es as [|x r IH]; intros h ts b Hb Hd; cbn [map_heap].
  - cbn in Hd. injection Hd as <-. split; [apply ext_refl|]. cbn. auto.
  - cbn [map all_some] in Hd. destruct (denote f h x) as [tx|] eqn:Ex; [|discriminate].
    destruct (all_some (map (denote f h) r)) as [tr|] eqn:Er; [|discriminate]. injection Hd as <-.
    pose proof (Hok h x tx Ex) as Hc. destruct (copy_value f h x) as [hx x'].
    destruct Hc as (Hext & Hdx & Hnx). destruct Hext as [e ->].
    assert (Her : all_some (map (denote f (h ++ e)) r) = Some tr).
    { apply (all_some_map_mono (denote f h)); [intros l t; apply denote_ext|exact Er]. }
    assert (Hb2 : b <= List.length (h ++ e)) by (rewrite app_length; lia).
    specialize (IH (h ++ e) tr b Hb2 Her). destruct (map_heap (copy_value f) (h ++ e) r) as [h2 r'].
    destruct IH as (Hext2 & Hd2 & Hn2). destruct Hext2 as [e2 ->].
    split; [exists (e ++ e2); rewrite app_assoc; reflexivity|]. split.
    + cbn [map all_some]. rewrite (denote_ext _ _ e2 _ _ Hdx), Hd2. reflexivity.
    + cbn [forallb]. rewrite Hn2, Bool.andb_true_r. apply all_new_ext. eapply all_new_base; [exact Hb|exact Hnx].
Qed.

Lemma combine_fst {A B} (a : list A) (b : list B) : List.length a = List.length b -> map fst (combine a b) = a.
Proof. revert b. induction a as [|x r IH]; intros [|y s]; cbn; try discriminate; auto. intros H. f_equal. apply IH. lia. Qed.
Lemma combine_snd {A B} (a : list A) (b : list B) : List.length a = List.length b -> map snd (combine a b) = b.
Proof. revert b. induction a as [|x r IH]; intros [|y s]; cbn; try discriminate; auto. intros H. f_equal. apply IH. lia. Qed.

Theorem copy_value_spec : forall f, copy_ok f.
Proof.
  induction f as [|f IH]; intros h l t H; [discriminate|].
  cbn [denote] in H. cbn [copy_value].
  destruct (nth_error h l) as [o|] eqn:En; [|discriminate].
  destruct o as [a|k es|kvs|tg].
  - split; [apply ext_refl|]. split; [cbn [denote]; rewrite En; exact H|]. cbn [all_new]. rewrite En. reflexivity.
  - destruct (all_some (map (denote f h) es)) as [ts|] eqn:Ea; [|discriminate]. injection H as <-.
    pose proof (map_heap_spec f IH es h ts (List.length h) (le_n _) Ea) as Hm.
    destruct (map_heap (copy_value f) h es) as [h1 es'] eqn:Em. destruct Hm as (Hext & Hd & Hn).
    assert (Hnth : nth_error (h1 ++ [OSeq k es']) (List.length h1) = Some (OSeq k es')).
    { rewrite nth_error_app2 by lia. rewrite Nat.sub_diag. reflexivity. }
    split; [eapply ext_trans; [exact Hext|exists [OSeq k es']; reflexivity]|]. split.
    + cbn [denote]. rewrite Hnth.
      rewrite (all_some_map_mono (denote f h1) (denote f (h1 ++ [OSeq k es'])) es' ts (fun l t => denote_ext f h1 _ l t) Hd). reflexivity.
    + cbn [all_new]. rewrite Hnth. apply andb_true_intro. split; [apply Nat.leb_le; apply ext_length; exact Hext|].
      rewrite forallb_forall in *. intros x Hx. apply all_new_ext. apply Hn. exact Hx.
  - destruct (all_some (map (denote f h) (map snd kvs))) as [ts|] eqn:Ea; [|discriminate]. injection H as <-.
    pose proof (map_heap_spec f IH (map snd kvs) h ts (List.length h) (le_n _) Ea) as Hm.
    destruct (map_heap (copy_value f) h (map snd kvs)) as [h1 vs'] eqn:Em. destruct Hm as (Hext & Hd & Hn).
    pose proof (map_heap_length _ _ _ _ _ Em) as Hlen. rewrite map_length in Hlen.
    assert (Hl2 : List.length (map fst kvs) = List.length vs') by (rewrite map_length; lia).
    set (c := OMap (combine (map fst kvs) vs')).
    assert (Hnth : nth_error (h1 ++ [c]) (List.length h1) = Some c).
    { rewrite nth_error_app2 by lia. rewrite Nat.sub_diag. reflexivity. }
    split; [eapply ext_trans; [exact Hext|exists [c]; reflexivity]|]. split.
    + cbn [denote]. rewrite Hnth. unfold c. rewrite (combine_snd _ _ Hl2), (combine_fst _ _ Hl2).
      rewrite (all_some_map_mono (denote f h1) (denote f (h1 ++ [OMap (combine (map fst kvs) vs')])) vs' ts
                 (fun l t => denote_ext f h1 _ l t) Hd). reflexivity.
    + cbn [all_new]. rewrite Hnth. unfold c. rewrite (combine_snd _ _ Hl2).
      apply andb_true_intro. split; [apply Nat.leb_le; apply ext_length; exact Hext|].
      rewrite forallb_forall in *. intros x Hx. apply all_new_ext. apply Hn. exact Hx.
  - split; [apply ext_refl|]. split; [cbn [denote]; rewrite En; exact H|]. cbn [all_new]. rewrite En. reflexivity.
Qed.

(* ---- mutation through one copy cannot be seen through the source or through another copy ---- *)
Lemma nth_set_other : forall (h : heap) c o l, l <> c -> nth_error (set_cell h c o) l = nth_error h l.
Proof.
  induction h as [|x r IH]; intros c o l Hne; [destruct c; reflexivity|].
  destruct c as [|c']; destruct l as [|l']; cbn; try reflexivity; try congruence. apply IH. congruence.
Qed.
Lemma nth_lt (h : heap) l o : nth_error h l = Some o -> l < List.length h.
Proof. intros H. apply nth_error_Some. congruence. Qed.

(* a value that lives in h does not see a write to a cell outside h *)
Lemma denote_set_above : forall n h e c o l t, List.length h <= c ->
  denote n h l = Some t -> denote n (set_cell (h ++ e) c o) l = Some t.
Proof.
  induction n as [|f IH]; intros h e c o l t Hc H; [discriminate|]. cbn [denote] in *.
  destruct (nth_error h l) as [x|] eqn:En; [|discriminate].
  pose proof (nth_lt _ _ _ En) as Hl. rewrite nth_set_other by lia. rewrite (nth_ext _ e _ _ En).
  destruct x as [a|k es|kvs|tg]; try exact H.
  - destruct (all_some (map (denote f h) es)) as [ts|] eqn:Ea; [|discriminate].
    rewrite (all_some_map_mono _ (denote f (set_cell (h ++ e) c o)) _ _ (fun l t => IH h e c o l t Hc) Ea). exact H.
  - destruct (all_some (map (denote f h) (map snd kvs))) as [ts|] eqn:Ea; [|discriminate].
    rewrite (all_some_map_mono _ (denote f (set_cell (h ++ e) c o)) _ _ (fun l t => IH h e c o l t Hc) Ea). exact H.
Qed.

Lemma all_some_map_in {A} (f g : nat -> option A) (ls : list nat) :
  (forall l, In l ls -> f l = g l) -> all_some (map f ls) = all_some (map g ls).
Proof.
  induction ls as [|x r IH]; intros H; cbn; [reflexivity|].
  rewrite (H x (or_introl eq_refl)), IH; [reflexivity|]. intros l Hl. apply H. right. exact Hl.
Qed.

(* a value whose containers are all at or after `base` does not see a write to a container before `base` *)
Lemma denote_set_below : forall n base h c o l, all_new n base h l = true -> c < base -> is_container h c = true ->
  denote n (set_cell h c o) l = denote n h l.
Proof.
  induction n as [|f IH]; intros base h c o l Hn Hc Hcont; [reflexivity|]. cbn [denote all_new] in *.
  assert (Hne : l <> c).
  { intros ->. unfold is_container in Hcont. destruct (nth_error h c) as [[a|k es|kvs|tg]|]; try discriminate;
      apply andb_prop in Hn; destruct Hn as [H1 _]; apply Nat.leb_le in H1; lia. }
  rewrite (nth_set_other _ _ _ _ Hne).
  destruct (nth_error h l) as [[a|k es|kvs|tg]|]; try reflexivity.
  - apply andb_prop in Hn. destruct Hn as [_ H2]. rewrite forallb_forall in H2.
    rewrite (all_some_map_in (denote f (set_cell h c o)) (denote f h) es); [reflexivity|].
    intros x Hx. eapply IH; [apply H2; exact Hx|exact Hc|exact Hcont].
  - apply andb_prop in Hn. destruct Hn as [_ H2]. rewrite forallb_forall in H2.
    rewrite (all_some_map_in (denote f (set_cell h c o)) (denote f h) (map snd kvs)); [reflexivity|].
    intros x Hx. eapply IH; [apply H2; exact Hx|exact Hc|exact Hcont].
Qed.

(* containers reachable through a fresh value are fresh containers of the heap *)
Lemma reachc_new : forall n base h l c, all_new n base h l = true -> reachc n h l c = true ->
  base <= c /\ c < List.length h /\ is_container h c = true.
Proof.
  induction n as [|f IH]; intros base h l c Hn Hr; [discriminate|]. cbn [all_new reachc] in *.
  destruct (nth_error h l) as [[a|k es|kvs|tg]|] eqn:En; try discriminate.
  - apply andb_prop in Hn. destruct Hn as [H1 H2]. apply Nat.leb_le in H1. apply orb_prop in Hr. destruct Hr as [Hr|Hr].
    + apply Nat.eqb_eq in Hr. subst c. split; [exact H1|]. split; [eapply nth_lt; exact En|]. unfold is_container. rewrite En. reflexivity.
    + apply existsb_exists in Hr. destruct Hr as (x & Hx & Hr). rewrite forallb_forall in H2. eapply IH; [apply H2; exact Hx|exact Hr].
  - apply andb_prop in Hn. destruct Hn as [H1 H2]. apply Nat.leb_le in H1. apply orb_prop in Hr. destruct Hr as [Hr|Hr].
    + apply Nat.eqb_eq in Hr. subst c. split; [exact H1|]. split; [eapply nth_lt; exact En|]. unfold is_container. rewrite En. reflexivity.
    + apply existsb_exists in Hr. destruct Hr as (x & Hx & Hr). rewrite forallb_forall in H2. eapply IH; [apply H2; exact Hx|exact Hr].
Qed.

Lemma is_container_ext h e c : is_container h c = true -> is_container (h ++ e) c = true.
Proof.
  unfold is_container. destruct (nth_error h c) as [o|] eqn:En; [|discriminate]. rewrite (nth_ext _ e _ _ En). auto.
Qed.

(* two instances made from one default d: whatever is written, in place, into a container reachable through the
   first instance, the default and the second instance still denote the default's value *)
Theorem instances_independent : forall f h d t h1 a h2 b c o,
  denote f h d = Some t ->
  copy_value f h d = (h1, a) -> copy_value f h1 d = (h2, b) ->
  reachc f h1 a c = true ->
  denote f (set_cell h2 c o) d = Some t /\ denote f (set_cell h2 c o) b = Some t.
Proof.
  intros f h d t h1 a h2 b c o Hd E1 E2 Hr.
  pose proof (copy_value_spec f h d t Hd) as S1. rewrite E1 in S1. destruct S1 as ([e1 ->] & Hda & Hna).
  pose proof (reachc_new _ _ _ _ _ Hna Hr) as (Hc1 & Hc2 & Hc3).
  assert (Hd1 : denote f (h ++ e1) d = Some t) by (apply denote_ext; exact Hd).
  pose proof (copy_value_spec f (h ++ e1) d t Hd1) as S2. rewrite E2 in S2. destruct S2 as ([e2 ->] & Hdb & Hnb).
  split.
  - rewrite <- app_assoc. apply denote_set_above; [exact Hc1|exact Hd].
  - rewrite (denote_set_below f (List.length (h ++ e1)) _ c o b Hnb Hc2); [exact Hdb|].
    apply is_container_ext. exact Hc3.
Qed.

Lemma copy_same_value : forall f h d t, denote f h d = Some t ->
  denote f (fst (copy_value f h d)) (snd (copy_value f h d)) = Some t.
Proof. intros f h d t H. pose proof (copy_value_spec f h d t H) as S. destruct (copy_value f h d). apply S. Qed.
Lemma copy_leaves_heap : forall f h d t, denote f h d = Some t -> exists e, fst (copy_value f h d) = h ++ e.
Proof. intros f h d t H. pose proof (copy_value_spec f h d t H) as S. destruct (copy_value f h d). apply S. Qed.
Lemma copy_shares_no_container : forall f h d t, denote f h d = Some t ->
  all_new f (List.length h) (fst (copy_value f h d)) (snd (copy_value f h d)) = true.
Proof. intros f h d t H. pose proof (copy_value_spec f h d t H) as S. destruct (copy_value f h d). apply S. Qed.
