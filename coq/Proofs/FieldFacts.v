(* Proofs/FieldFacts.v — what wf_cdecl gives, and the key lemma about input keys: a key feeds
   field k exactly when its case-folded form is one of the accepted names of k. *)
From UV Require Import Parse Verdict Assoc FieldSpec.
From Coq Require Import Lia.
Open Scope string_scope.
Open Scope list_scope.

Lemma nodupb_NoDup l : nodupb l = true -> NoDup l.
Proof.
  induction l as [|a r IH]; cbn; intros H; [constructor|].
  apply andb_prop in H. destruct H as [H1 H2]. constructor; [|apply IH; exact H2].
  apply Bool.negb_true_iff in H1. apply str_in_false in H1. exact H1.
Qed.

Lemma flt_eqb_eq a b : flt_eqb a b = true -> a = b.
Proof.
  destruct a, b; cbn; try discriminate; intros H; try reflexivity.
  - apply Bool.eqb_prop in H. congruence.
  - apply andb_prop in H. destruct H as [H1 H2]. apply Z.eqb_eq in H1. apply Z.eqb_eq in H2. congruence.
Qed.
Lemma dec_eqb_eq a b : dec_eqb a b = true -> a = b.
Proof.
  destruct a, b; cbn; try discriminate; intros H; try reflexivity.
  - apply Bool.eqb_prop in H. congruence.
  - apply andb_prop in H. destruct H as [H1 H3]. apply andb_prop in H1. destruct H1 as [H1 H2].
    apply Bool.eqb_prop in H1. apply N.eqb_eq in H2. apply Z.eqb_eq in H3. congruence.
Qed.

Lemma ident_eq : forall a b, ident a b = true -> a = b.
Proof.
  fix IH 1.
  assert (Hlst : forall xs ys,
     (fix lst (xs ys : list pyval) {struct xs} : bool :=
        match xs, ys with
        | [], [] => true
        | x :: xr, y :: yr => ident x y && lst xr yr
        | _, _ => false
        end) xs ys = true -> xs = ys).
  { fix IHl 1. intros [|x xr] [|y yr]; try discriminate; [reflexivity|].
    intros H. apply andb_prop in H. destruct H as [H1 H2]. f_equal; [apply IH; exact H1|apply IHl; exact H2]. }
  assert (Hkvl : forall xs ys,
     (fix kvl (xs ys : list (pyval * pyval)) {struct xs} : bool :=
        match xs, ys with
        | [], [] => true
        | (k, v) :: xr, (k', v') :: yr => ident k k' && ident v v' && kvl xr yr
        | _, _ => false
        end) xs ys = true -> xs = ys).
  { fix IHl 1. intros [|[k v] xr] [|[k' v'] yr]; try discriminate; [reflexivity|].
    intros H. apply andb_prop in H. destruct H as [H1 H3]. apply andb_prop in H1. destruct H1 as [H1 H2].
    f_equal; [f_equal; apply IH; assumption|apply IHl; exact H3]. }
  assert (Hskvl : forall xs ys,
     (fix skvl (xs ys : list (string * pyval)) {struct xs} : bool :=
        match xs, ys with
        | [], [] => true
        | (k, v) :: xr, (k', v') :: yr => String.eqb k k' && ident v v' && skvl xr yr
        | _, _ => false
        end) xs ys = true -> xs = ys).
  { fix IHl 1. intros [|[k v] xr] [|[k' v'] yr]; try discriminate; [reflexivity|].
    intros H. apply andb_prop in H. destruct H as [H1 H3]. apply andb_prop in H1. destruct H1 as [H1 H2].
    apply String.eqb_eq in H1. subst k'.
    f_equal; [f_equal; apply IH; assumption|apply IHl; exact H3]. }
  intros a b. destruct a, b; cbn [ident]; try discriminate; intros H; try reflexivity.
  - apply Bool.eqb_prop in H. congruence.
  - apply Z.eqb_eq in H. congruence.
  - apply flt_eqb_eq in H. congruence.
  - apply dec_eqb_eq in H. congruence.
  - apply String.eqb_eq in H. congruence.
  - apply String.eqb_eq in H. congruence.
  - f_equal. apply Hlst. exact H.
  - f_equal. apply Hlst. exact H.
  - f_equal. apply Hlst. exact H.
  - f_equal. apply Hlst. exact H.
  - f_equal. apply Hkvl. exact H.
  - apply andb_prop in H. destruct H as [H1 H2]. apply Nat.eqb_eq in H1. subst. f_equal. apply Hskvl. exact H2.
  - apply andb_prop in H. destruct H as [H1 H2]. apply Nat.eqb_eq in H1. apply Nat.eqb_eq in H2. congruence.
  - apply Nat.eqb_eq in H. congruence.
  - apply Nat.eqb_eq in H. congruence.
Qed.

Definition coherent (C : cdecl) (data : sdata) : Prop :=
  forall e1 e2 k, In e1 data -> In e2 data -> fst e1 <> fst e2 ->
    get_field_key C (fst e1) = Some k -> get_field_key C (fst e2) = Some k ->
    (py_eq (snd e1) (snd e2) = true -> snd e1 = snd e2) /\ py_eq (snd e1) (snd e1) = true.
Lemma coherentb_coherent C data : coherentb C data = true -> coherent C data.
Proof.
  unfold coherentb. intros H e1 e2 k H1 H2 Hne Hk1 Hk2.
  rewrite forallb_forall in H. specialize (H e1 H1). rewrite forallb_forall in H. specialize (H e2 H2).
  rewrite Hk1, Hk2, seqb_refl in H. cbn [negb orb] in H.
  apply Bool.orb_true_iff in H. destruct H as [H|H]; [apply seqb_eq in H; contradiction|].
  apply andb_prop in H. destruct H as [Ha Hb]. split; [|exact Hb].
  intros He. rewrite He in Ha. cbn in Ha. apply ident_eq. exact Ha.
Qed.

Record WF (C : cdecl) : Prop := {
  wf_keys : NoDup (map fst (c_fields C));
  wf_names : forall kf kf', In kf (c_fields C) -> In kf' (c_fields C) ->
             f_name (snd kf) = f_name (snd kf') -> fst kf = fst kf';
  wf_head : forall kf, In kf (c_fields C) -> exists r, aliases_of kf = fst kf :: r;
  wf_alias_nodup : forall kf, In kf (c_fields C) -> NoDup (aliases_of kf);
  wf_alias_uniq : forall kf kf' a, In kf (c_fields C) -> In kf' (c_fields C) ->
                  In a (aliases_of kf) -> In a (aliases_of kf') -> fst kf = fst kf';
  wf_amap1 : forall kf a, In kf (c_fields C) -> In a (tl (aliases_of kf)) ->
             assoc a (c_alias_map C) = Some (fst kf);
  wf_amap2 : forall a k, In (a, k) (c_alias_map C) ->
             exists f, assoc k (c_fields C) = Some f /\ In a (f_all_aliases f);
  wf_ci_lower : forall a, In a (c_ci_names C) -> str_lower a = a;
  wf_ci_alias : forall a, In a (c_ci_names C) -> exists kf, In kf (c_fields C) /\ In a (aliases_of kf);
  wf_ci_split : forall kf, In kf (c_fields C) ->
                (forall a, In a (aliases_of kf) -> In a (c_ci_names C)) \/
                (forall a, In a (aliases_of kf) -> ~ In (str_lower a) (c_ci_names C));
  wf_name_key : forall kf, In kf (c_fields C) ->
                f_name (snd kf) = fst kf \/ (str_lower (f_name (snd kf)) = fst kf /\ In (fst kf) (c_ci_names C));
  wf_names_nodup : NoDup (map (fun kf => f_name (snd kf)) (c_fields C))
}.

Lemma wf_cdecl_WF C : wf_cdecl C = true -> WF C.
Proof.
  unfold wf_cdecl. intros H.
  rewrite !Bool.andb_true_iff in H.
  destruct H as [[[[[[[[[[[H H0] H1] H2] H3] H4] H5] H6] H7] H8] H9] H10].
  rewrite forallb_forall in H0, H1, H2, H3, H4, H5, H6, H7, H8, H9.
  constructor.
  - apply nodupb_NoDup. exact H.
  - intros kf kf' Hi Hi' Hn. specialize (H0 kf Hi). rewrite forallb_forall in H0. specialize (H0 kf' Hi').
    apply Bool.orb_true_iff in H0. destruct H0 as [H0|H0]; [apply seqb_eq; exact H0|].
    apply Bool.negb_true_iff in H0. apply seqb_neq in H0. contradiction.
  - intros kf Hi. specialize (H1 kf Hi). destruct (aliases_of kf) as [|a r]; [discriminate|].
    apply seqb_eq in H1. subst. eauto.
  - intros kf Hi. apply nodupb_NoDup. apply H2. exact Hi.
  - intros kf kf' a Hi Hi' Ha Ha'. specialize (H3 kf Hi). rewrite forallb_forall in H3.
    specialize (H3 a Ha). rewrite forallb_forall in H3. specialize (H3 kf' Hi').
    apply Bool.orb_true_iff in H3. destruct H3 as [H3|H3]; [apply seqb_eq; exact H3|].
    apply Bool.negb_true_iff in H3. apply str_in_false in H3. contradiction.
  - intros kf a Hi Ha. specialize (H4 kf Hi). rewrite forallb_forall in H4. specialize (H4 a Ha).
    destruct (assoc a (c_alias_map C)) as [k|]; [|discriminate]. apply seqb_eq in H4. subst. reflexivity.
  - intros a k Hi. specialize (H5 (a, k) Hi). cbn [fst snd] in H5.
    destruct (assoc k (c_fields C)) as [f|]; [|discriminate]. exists f. split; [reflexivity|].
    apply str_in_In. exact H5.
  - intros a Hi. apply seqb_eq. apply H6. exact Hi.
  - intros a Hi. specialize (H7 a Hi). apply existsb_exists in H7. destruct H7 as [kf [Hk Ha]].
    exists kf. split; [exact Hk|]. apply str_in_In. exact Ha.
  - intros kf Hi. specialize (H8 kf Hi). apply Bool.orb_true_iff in H8. destruct H8 as [H8|H8];
      rewrite forallb_forall in H8; [left|right]; intros a Ha; specialize (H8 a Ha).
    + apply str_in_In. exact H8.
    + apply Bool.negb_true_iff in H8. apply str_in_false in H8. exact H8.
  - intros kf Hi. specialize (H9 kf Hi). apply Bool.orb_true_iff in H9. destruct H9 as [H9|H9].
    + left. apply seqb_eq. exact H9.
    + right. apply andb_prop in H9. destruct H9 as [Ha Hb]. split; [apply seqb_eq; exact Ha|apply str_in_In; exact Hb].
  - apply nodupb_NoDup. exact H10.
Qed.

(* ---- letter case ---- *)
Lemma lower_ascii_id c : is_upper_ascii c = false -> lower_ascii c = c.
Proof. unfold is_upper_ascii, lower_ascii. intros ->. reflexivity. Qed.
Lemma islower_lower s : py_islower s = true -> str_lower s = s.
Proof.
  unfold py_islower. intros H. apply andb_prop in H. destruct H as [H _].
  induction s as [|c r IH]; cbn in *; [reflexivity|].
  apply andb_prop in H. destruct H as [Hc Hr]. apply Bool.negb_true_iff in Hc.
  rewrite lower_ascii_id by exact Hc. f_equal. apply IH. exact Hr.
Qed.

Section Keys.
Variable C : cdecl.
Hypothesis HW : WF C.
Let fs := c_fields C.

Lemma assoc_field_In k f : assoc k fs = Some f -> In (k, f) fs.
Proof. apply assoc_In. Qed.
Lemma In_field_assoc k f : In (k, f) fs -> assoc k fs = Some f.
Proof. apply In_assoc_nodup. apply (wf_keys _ HW). Qed.

(* the non-folding part of _get_field_from *)
Definition direct (y : string) : option string :=
  if has_key y fs then Some y
  else match assoc y (c_alias_map C) with
       | Some t => if has_key t fs then Some t else None
       | None => None
       end.

Lemma get_field_key_direct key :
  get_field_key C key =
  match direct key with
  | Some k => Some k
  | None => if negb (py_islower key) && str_in (str_lower key) (c_ci_names C)
            then direct (str_lower key) else None
  end.
Proof. reflexivity. Qed.

Lemma direct_iff y k : direct y = Some k <-> exists f, In (k, f) fs /\ In y (f_all_aliases f).
Proof.
  unfold direct. split.
  - destruct (has_key y fs) eqn:Eh.
    + intros H. injection H as <-. unfold has_key in Eh. destruct (assoc y fs) as [f|] eqn:Ea; [|discriminate].
      exists f. apply assoc_In in Ea. split; [exact Ea|].
      destruct (wf_head _ HW _ Ea) as [r Hr]. unfold aliases_of in Hr. cbn [fst snd] in Hr. rewrite Hr. left. reflexivity.
    + destruct (assoc y (c_alias_map C)) as [t|] eqn:Em; [|discriminate].
      destruct (has_key t fs) eqn:Et; [|discriminate]. intros H. injection H as <-.
      apply assoc_In in Em. destruct (wf_amap2 _ HW _ _ Em) as [f [Hf Ha]].
      exists f. split; [apply assoc_In; exact Hf|exact Ha].
  - intros [f [Hi Ha]].
    destruct (wf_head _ HW _ Hi) as [r Hr]. unfold aliases_of in Hr. cbn [fst snd] in Hr.
    rewrite Hr in Ha. destruct Ha as [Ha|Ha].
    + subst y. assert (has_key k fs = true) as ->; [|reflexivity].
      apply has_key_In. apply (in_map fst) in Hi. exact Hi.
    + destruct (has_key y fs) eqn:Eh.
      * exfalso. unfold has_key in Eh. destruct (assoc y fs) as [f'|] eqn:Ea; [|discriminate].
        apply assoc_In in Ea. destruct (wf_head _ HW _ Ea) as [r' Hr']. unfold aliases_of in Hr'. cbn [fst snd] in Hr'.
        assert (y = k).
        { apply (wf_alias_uniq _ HW (y, f') (k, f) y Ea Hi); unfold aliases_of; cbn [snd].
          - rewrite Hr'. left. reflexivity.
          - rewrite Hr. right. exact Ha. }
        subst y. pose proof (wf_alias_nodup _ HW _ Hi) as Hn. unfold aliases_of in Hn. cbn [snd] in Hn.
        rewrite Hr in Hn. inversion Hn. contradiction.
      * assert (assoc y (c_alias_map C) = Some k) as ->.
        { apply (wf_amap1 _ HW (k, f) y Hi). unfold aliases_of. cbn [snd]. rewrite Hr. exact Ha. }
        assert (has_key k fs = true) as ->; [|reflexivity].
        apply has_key_In. apply (in_map fst) in Hi. exact Hi.
Qed.

(* the key under which field_first_parse files an input key *)
Definition fkey (x : string) : string :=
  if str_in (str_lower x) (c_ci_names C) then str_lower x else x.

Lemma alias_owner kf kf' a :
  In kf fs -> In kf' fs -> In a (aliases_of kf) -> In a (aliases_of kf') -> kf = kf'.
Proof.
  intros Hi Hi' Ha Ha'. pose proof (wf_alias_uniq _ HW _ _ _ Hi Hi' Ha Ha') as Hk.
  destruct kf as [k f], kf' as [k' f']. cbn [fst] in Hk. subst k'.
  apply In_field_assoc in Hi. apply In_field_assoc in Hi'. congruence.
Qed.

(* an accepted name of a field, in another letter case, is accepted only if the field is
   case-insensitive, and then its lower-case form is the accepted name *)
Lemma ci_alias_lower kf x :
  In kf fs -> In x (aliases_of kf) -> In (str_lower x) (c_ci_names C) -> str_lower x = x.
Proof.
  intros Hi Hx Hl. destruct (wf_ci_split _ HW _ Hi) as [Hall|Hnone].
  - apply (wf_ci_lower _ HW). apply Hall. exact Hx.
  - exfalso. apply (Hnone x Hx). exact Hl.
Qed.

Theorem target_iff x k :
  get_field_key C x = Some k <-> exists f, In (k, f) fs /\ In (fkey x) (f_all_aliases f).
Proof.
  rewrite get_field_key_direct. unfold fkey.
  destruct (str_in (str_lower x) (c_ci_names C)) eqn:Eci.
  - apply str_in_In in Eci. rewrite Bool.andb_true_r.
    destruct (direct x) as [k0|] eqn:Ed.
    + apply direct_iff in Ed. destruct Ed as [f0 [Hi0 Ha0]].
      assert (Hlx : str_lower x = x) by (apply (ci_alias_lower (k0, f0)); assumption).
      rewrite Hlx. split.
      * intros H. injection H as <-. eauto.
      * intros [f [Hi Ha]]. f_equal.
        apply (wf_alias_uniq _ HW (k0, f0) (k, f) x); assumption.
    + destruct (py_islower x) eqn:Eil; cbn [negb].
      * apply islower_lower in Eil. rewrite Eil. split; [discriminate|].
        intros H. apply direct_iff in H. congruence.
      * apply direct_iff.
  - rewrite Bool.andb_false_r. destruct (direct x) as [k0|] eqn:Ed.
    + split.
      * intros H. injection H as <-. apply direct_iff. exact Ed.
      * intros H. apply direct_iff in H. congruence.
    + split; [discriminate|]. intros H. apply direct_iff in H. congruence.
Qed.

Lemma target_field x k : get_field_key C x = Some k -> exists f, assoc k fs = Some f.
Proof. intros H. apply target_iff in H. destruct H as [f [Hi _]]. exists f. apply In_field_assoc. exact Hi. Qed.

Lemma get_field_target x :
  get_field C x = match get_field_key C x with Some k => assoc k fs | None => None end.
Proof. reflexivity. Qed.

(* different fields have different output names *)
Lemma names_differ k k' f f' : In (k, f) fs -> In (k', f') fs -> k <> k' -> f_name f <> f_name f'.
Proof. intros Hi Hi' Hne Hn. apply Hne. apply (wf_names _ HW (k, f) (k', f') Hi Hi' Hn). Qed.

(* an unknown key is not an output name, and is filed under itself *)
Lemma unknown_not_name x kf : get_field_key C x = None -> In kf fs -> f_name (snd kf) <> x.
Proof.
  intros Hx Hi Hn. destruct kf as [k f]. cbn [snd] in Hn.
  assert (Hh : In k (f_all_aliases f)).
  { destruct (wf_head _ HW _ Hi) as [r Hr]. unfold aliases_of in Hr. cbn [fst snd] in Hr. rewrite Hr. left. reflexivity. }
  assert (exists k0, get_field_key C x = Some k0) as [k0 Hk0]; [|congruence].
  exists k. apply target_iff. exists f. split; [exact Hi|].
  destruct (wf_name_key _ HW _ Hi) as [Hk|[Hk Hc]]; cbn [fst snd] in *.
  - unfold fkey. destruct (str_in (str_lower x) (c_ci_names C)) eqn:Eci; [|congruence].
    apply str_in_In in Eci. subst x.
    assert (Hal : In (f_name f) (aliases_of (k, f))) by (unfold aliases_of; cbn [snd]; congruence).
    rewrite (ci_alias_lower (k, f) (f_name f) Hi Hal Eci). congruence.
  - unfold fkey. subst x. rewrite Hk. apply str_in_In in Hc. rewrite Hc. exact Hh.
Qed.
Lemma unknown_fkey x : get_field_key C x = None -> fkey x = x.
Proof.
  intros Hx. unfold fkey. destruct (str_in (str_lower x) (c_ci_names C)) eqn:Eci; [|reflexivity].
  exfalso. apply str_in_In in Eci. destruct (wf_ci_alias _ HW _ Eci) as [[k f] [Hi Ha]].
  assert (get_field_key C x = Some k); [|congruence].
  apply target_iff. exists f. split; [exact Hi|]. unfold fkey. apply str_in_In in Eci. rewrite Eci. exact Ha.
Qed.

End Keys.
