(* Proofs/ConformProofs.v — C01: whatever the parse calculus returns conforms to the declared type.
   One lemma per construct of Model/Parse.v, each assuming the statement for the recursive knot
   `tr`; the knot is tied by induction on the fuel at the end. *)
From UV Require Import Parse Conforms ConvProofs Monad ConstraintSpec ConstraintProofs.
From Coq Require Import Lia.
Open Scope string_scope.
Open Scope list_scope.
Open Scope Z_scope.

Section Conf.
Variable re : string -> string -> bool.
Variable D : decls.
Hypothesis HD : safe_world D.

Definition sound_tr (tr : options -> Z -> ty -> pyval -> M pyval) : Prop :=
  forall o depth t v s s' w, safe o -> tr o depth t v s = (s', Ok w) -> conforms re t w.

Section Step.
Variable tr : options -> Z -> ty -> pyval -> M pyval.
Hypothesis Htr : sound_tr tr.

Lemma enter_tr_ok o depth rt t v r :
  safe o -> enter_tr tr o depth rt t v = Entered (Ok r) -> conforms re t r.
Proof.
  intros Hs. unfold enter_tr, in_fresh.
  destruct (depth_check o (new_depth depth rt)); try discriminate;
    (destruct (tr o (new_depth depth rt) t v no_errs) as [s1 r1] eqn:E; cbn [snd];
     intros H; injection H as ->; eapply Htr; eassumption).
Qed.

(* ---- _parse_seq_args ---- *)
Lemma seq_items_conf o depth arg whole : safe o ->
  forall items i acc s s' rs,
  seq_items tr o depth arg whole i items acc s = (s', Ok rs) ->
  Forall (conforms re arg) acc -> Forall (conforms re arg) rs.
Proof.
  intros Hs. induction items as [|item rest IH]; intros i acc s s' rs H Hacc; cbn [seq_items] in H.
  - injection H as _ <-. exact Hacc.
  - destruct (enter_tr tr o depth (route_idx i) arg item) as [e|[r|e| | |]] eqn:E; try discriminate H.
    + eapply IH; [exact H|]. apply Forall_app. split; [exact Hacc|].
      constructor; [|constructor]. eapply enter_tr_ok; eassumption.
    + destruct (o_invalid_items o) eqn:Pol.
      * apply mbind_ok in H. destruct H as (s1 & [] & _ & H). eapply IH; eassumption.
      * eapply IH; eassumption.
      * destruct Hs as (Hp & _). contradiction.
Qed.


(* ---- _parse_tuple_args: per-position conformance, provided no error was recorded ---- *)
Lemma tuple_items_conf o depth vals : safe o ->
  forall args i acc s s' rs,
  tuple_items tr o depth vals i args acc s = (s', Ok rs) ->
  grows s s' /\
  (e_errors s' = e_errors s -> exists new, rs = acc ++ new /\ Forall2 (conforms re) args new).
Proof.
  intros Hs. induction args as [|arg rest IH]; intros i acc s s' rs H; cbn [tuple_items] in H.
  - injection H as <- <-. split; [apply grows_refl|]. intros _. exists []. rewrite app_nil_r. split; constructor.
  - destruct (List.length vals <=? i)%nat.
    + apply mbind_ok in H. destruct H as (s1 & [] & Hh & H).
      destruct (IH _ _ _ _ _ H) as [G _].
      split; [eapply grows_trans; [eapply handle_error_grows; exact Hh|exact G]|].
      intros Heq. exfalso.
      destruct G as [x Hx]. apply handle_error_ok_adds in Hh. rewrite Hx, Hh, <- app_assoc in Heq.
      rewrite <- (app_nil_r (e_errors s)) in Heq at 2. apply app_inv_head in Heq. discriminate.
    + destruct (depth_check o (new_depth depth (route_idx i))); try discriminate H;
      (destruct (nth_error vals i) as [item|]; [|discriminate H];
       destruct (enter_tr tr o depth (route_idx i) arg item) as [e|[r|e| | |]] eqn:E; try discriminate H;
       [ destruct (IH _ _ _ _ _ H) as [G Hn]; split; [exact G|];
         intros Heq; destruct (Hn Heq) as (new & -> & HF);
         exists (r :: new); rewrite <- app_assoc; split; [reflexivity|];
         constructor; [eapply enter_tr_ok; eassumption|exact HF]
       | destruct (o_invalid_items o) eqn:Pol;
         [ | | destruct Hs as (Hp & _); contradiction ];
         (apply mbind_ok in H; destruct H as (s1 & [] & Hh & H);
          destruct (IH _ _ _ _ _ H) as [G _];
          split; [eapply grows_trans; [eapply handle_error_grows; exact Hh|exact G]|];
          intros Heq; exfalso;
          destruct G as [x Hx]; apply handle_error_ok_adds in Hh; rewrite Hx, Hh, <- app_assoc in Heq;
          rewrite <- (app_nil_r (e_errors s)) in Heq at 2; apply app_inv_head in Heq; discriminate) ]).
Qed.


(* ---- _parse_map_args ---- *)
Definition kv_ok (kt : ty) (vt : option ty) (kvs : list (pyval * pyval)) : Prop :=
  Forall (fun kv => conforms re kt (fst kv)) kvs /\
  (forall vt', vt = Some vt' -> Forall (fun kv => conforms re vt' (snd kv)) kvs).

Lemma dict_set_ok kt vt kvs k v :
  kv_ok kt vt kvs -> conforms re kt k -> (forall vt', vt = Some vt' -> conforms re vt' v) ->
  kv_ok kt vt (dict_set kvs k v).
Proof.
  intros [Hk Hv] Ck Cv. induction kvs as [|[k' v'] r IH]; cbn [dict_set].
  - split; [constructor; [exact Ck|constructor]|]. intros vt' E. constructor; [apply Cv, E|constructor].
  - inversion Hk as [|? ? Hk1 Hk2]; subst.
    assert (Hv' : forall vt', vt = Some vt' -> Forall (fun kv => conforms re vt' (snd kv)) r).
    { intros vt' E. specialize (Hv vt' E). inversion Hv; assumption. }
    destruct (py_eq k' k).
    + split; [constructor; assumption|]. intros vt' E. constructor; [apply Cv, E|apply Hv', E].
    + destruct (IH Hk2 Hv') as [I1 I2].
      split; [constructor; assumption|]. intros vt' E. constructor; [|apply I2, E].
      specialize (Hv vt' E). inversion Hv; assumption.
Qed.

Lemma map_items_conf o depth kt vt : safe o ->
  forall items acc s s' res,
  map_items tr o depth kt vt items acc s = (s', Ok res) ->
  kv_ok kt vt acc -> kv_ok kt vt res.
Proof.
  intros Hs. destruct Hs as (Hpi & Hpk & Hpv & Hrest).
  assert (Hs : safe o) by (repeat split; tauto).
  induction items as [|[k0 v0] rest IH]; intros acc s s' res H Hacc; cbn [map_items] in H.
  - injection H as _ <-. exact Hacc.
  - destruct (enter_tr tr o depth true kt k0) as [e|kr] eqn:Ek; [discriminate H|].
    destruct kr as [k|e| | |]; try discriminate H.
    + (* key converted *)
      cbn [ret] in H. unfold mbind at 1, ret in H.
      assert (Ck : conforms re kt k) by (eapply enter_tr_ok; eassumption).
      destruct vt as [vty|].
      * destruct (enter_tr tr o depth (route_val k) vty v0) as [e|[v|e| | |]] eqn:Ev; try discriminate H.
        -- destruct (hashable_deep k); [|discriminate H].
           eapply IH; [exact H|]. apply dict_set_ok; [exact Hacc|exact Ck|].
           intros vt' E. injection E as <-. eapply enter_tr_ok; eassumption.
        -- destruct (o_invalid_values o) eqn:Pol; [| |contradiction].
           ++ apply mbind_ok in H. destruct H as (s1 & [] & _ & H). eapply IH; eassumption.
           ++ eapply IH; eassumption.
      * destruct (hashable_deep k); [|discriminate H].
        eapply IH; [exact H|]. apply dict_set_ok; [exact Hacc|exact Ck|]. intros vt' E; discriminate.
    + (* key failed *)
      destruct (o_invalid_keys o) eqn:Pol; [| |contradiction].
      * apply mbind_ok in H. destruct H as (s1 & ko & Hk & H).
        apply mbind_ok in Hk. destruct Hk as (s2 & [] & _ & Hk). injection Hk as <- <-.
        eapply IH; eassumption.
      * unfold mbind at 1, ret in H. eapply IH; eassumption.
Qed.


(* ---- the validator loop ---- *)
Lemma c_regex_returns v b w : c_regex re v b = Ok w -> w = v.
Proof.
  unfold c_regex. intros H. destruct (py_str_v v); cbn [bind] in H; try discriminate.
  destruct (re_fullmatch_v re b a); cbn [bind] in H; try discriminate.
  destruct (negb (truthy a0)); [discriminate|]. injection H; auto.
Qed.
Lemma c_multiple_of_returns v b w : c_multiple_of v b = Ok w -> w = v.
Proof.
  unfold c_multiple_of. intros H. destruct (py_mod v b); cbn [bind] in H; try discriminate.
  destruct (truthy a); [discriminate|]. injection H; auto.
Qed.
Lemma c_max_digits_returns v b w : c_max_digits v b = Ok w -> w = v.
Proof.
  unfold c_max_digits. intros H. destruct (c__parse_decimal v); cbn [bind] in H; try discriminate.
  destruct (unpack2 a) as [[x y]| | | |]; cbn [bind] in H; try discriminate.
  destruct (py_gt x b) as [[|]| | | |]; cbn [bind] in H; try discriminate. injection H; auto.
Qed.
Lemma c_enum_returns v b w : c_enum v b = Ok w -> w = v.
Proof.
  unfold c_enum. intros H. destruct (is_enum_cls b).
  - unfold enum_call in H. discriminate.
  - destruct (is_enum_member v) eqn:Em.
    + destruct v; try discriminate Em. cbn in H. discriminate.
    + cbn [bind] in H. destruct (py_contains b v) as [[|]| | | |]; cbn in H; try discriminate. injection H; auto.
Qed.
Lemma c_unique_items_returns v b w : c_unique_items v b = Ok w -> w = v.
Proof.
  unfold c_unique_items. destruct (negb (truthy b)); [intros H; injection H; auto|].
  destruct (py_iter v) as [xs| | | |]; cbn [bind]; try discriminate.
  rewrite unique_loop_spec. destruct (all_distinct [] xs); [intros H; injection H; auto|discriminate].
Qed.

Lemma str_in_cons x y l : str_in x (y :: l) = true -> x = y \/ str_in x l = true.
Proof. unfold str_in. cbn [existsb]. intros H. apply orb_prop in H. destruct H as [H|H]; [left; apply String.eqb_eq; exact H|right; exact H]. Qed.

Lemma checking_returns_input name f v b w :
  checking name = true -> validator re name false = Some f -> f v b = Ok w -> w = v.
Proof.
  unfold checking. intros Hc.
  repeat (apply str_in_cons in Hc; destruct Hc as [->|Hc];
          [cbn; intros Hf; injection Hf as <-; intros Hv|]); try discriminate Hc.
  - apply c_gt_exact in Hv. tauto.
  - apply c_ge_exact in Hv. tauto.
  - apply c_lt_exact in Hv. tauto.
  - apply c_le_exact in Hv. tauto.
  - eapply c_regex_returns; eassumption.
  - eapply c_multiple_of_returns; eassumption.
  - eapply c_max_digits_returns; eassumption.
  - unfold c_length in Hv. destruct (if negb (has_len v) then _ else _); cbn [bind] in Hv; try discriminate.
    destruct (py_len_v a); cbn [bind] in Hv; try discriminate. destruct (negb _); [discriminate|]. injection Hv; auto.
  - unfold c_max_length in Hv. destruct (if negb (has_len v) then _ else _); cbn [bind] in Hv; try discriminate.
    destruct (py_len_v a); cbn [bind] in Hv; try discriminate.
    destruct (py_gt a0 b) as [[|]| | | |]; cbn [bind] in Hv; try discriminate. injection Hv; auto.
  - unfold c_min_length in Hv. destruct (if negb (has_len v) then _ else _); cbn [bind] in Hv; try discriminate.
    destruct (py_len_v a); cbn [bind] in Hv; try discriminate.
    destruct (py_lt a0 b) as [[|]| | | |]; cbn [bind] in Hv; try discriminate. injection Hv; auto.
  - eapply c_unique_items_returns; eassumption.
  - eapply c_enum_returns; eassumption.
Qed.

Lemma run_validators_checking o vals : checking_vals vals = true ->
  forall v s s' w,
  run_validators re o vals v s = (s', Ok w) ->
  w = v /\ grows s s' /\ (e_errors s' = e_errors s -> constraints_hold re vals v).
Proof.
  induction vals as [|[[name bound] lax] rest IH]; intros Hc v s s' w H; cbn [run_validators] in H.
  - injection H as <- <-. split; [reflexivity|]. split; [apply grows_refl|]. intros _. constructor.
  - cbn [checking_vals forallb] in Hc. apply andb_prop in Hc. destruct Hc as [Hc1 Hc].
    apply andb_prop in Hc1. destruct Hc1 as [Hl Hn]. destruct lax; [discriminate|].
    destruct (validator re name false) as [f|] eqn:Ef; [|discriminate H].
    destruct (f v bound) as [v'|e| | |] eqn:Efv; try discriminate H.
    + assert (v' = v) by (eapply checking_returns_input; eassumption). subst v'.
      destruct (IH Hc _ _ _ _ H) as (-> & G & Hh). split; [reflexivity|]. split; [exact G|].
      intros Heq. constructor; [rewrite Ef; exact Efv|apply Hh, Heq].
    + apply mbind_ok in H. destruct H as (s1 & [] & Hh & H).
      destruct (IH Hc _ _ _ _ H) as (-> & G & _). split; [reflexivity|].
      split; [eapply grows_trans; [eapply handle_error_grows; exact Hh|exact G]|].
      intros Heq. exfalso. destruct G as [x Hx]. apply handle_error_ok_adds in Hh.
      rewrite Hx, Hh, <- app_assoc in Heq. rewrite <- (app_nil_r (e_errors s)) in Heq at 2.
      apply app_inv_head in Heq. discriminate.
Qed.

(* without the checking hypothesis: the error list still only grows *)
Lemma run_validators_grows o vals : forall v s s' r, run_validators re o vals v s = (s', r) -> grows s s'.
Proof.
  induction vals as [|[[name bound] lax] rest IH]; intros v s s' r H; cbn [run_validators] in H.
  - injection H as <- _. apply grows_refl.
  - destruct (validator re name lax) as [f|]; [|injection H as <- _; apply grows_refl].
    destruct (f v bound) as [v'|e| | |]; try (injection H as <- _; apply grows_refl).
    + eapply IH; exact H.
    + unfold mbind in H. destruct (handle_error o _ false s) as [s1 [[]|e1| | |]] eqn:Hh;
        try (injection H as <- _; eapply handle_error_grows; exact Hh).
      eapply grows_trans; [eapply handle_error_grows; exact Hh|eapply IH; exact H].
Qed.

Lemma parse_contains_ok o depth ct mn mx v s s' w :
  parse_contains tr o depth ct mn mx v s = (s', Ok w) -> w = v /\ grows s s'.
Proof.
  unfold parse_contains. intros H.
  apply mbind_ok in H. destruct H as (s1 & items & H1 & H). unfold lift in H1. injection H1 as <- _.
  apply mbind_ok in H. destruct H as (s2 & n & H2 & H). unfold lift in H2. injection H2 as <- _.
  apply mbind_ok in H. destruct H as (s3 & [] & H3 & H). injection H as <- <-.
  split; [reflexivity|].
  repeat match type of H3 with
  | (if ?b then _ else _) _ = _ => destruct b
  | (match ?x with Some _ => _ | None => _ end) _ = _ => destruct x
  | handle_error _ _ _ _ = _ => eapply handle_error_grows; exact H3
  | ret tt _ = _ => injection H3 as <-; apply grows_refl
  end.
Qed.


(* ---- rebuilding the origin container after the args parser ---- *)
Lemma dedupe_subset (P : pyval -> Prop) xs : forall acc, Forall P xs -> Forall P acc -> Forall P (dedupe xs acc).
Proof.
  induction xs as [|x r IH]; intros acc Hx Ha; cbn [dedupe]; [exact Ha|].
  inversion Hx; subst. destruct (py_in x acc); apply IH; auto.
  apply Forall_app. split; [exact Ha|constructor; [assumption|constructor]].
Qed.

Lemma rebuild_origin_list p rs w :
  rebuild_origin p (PList rs) = Ok w ->
  exists xs, items_of w = Some xs /\ (forall P : pyval -> Prop, Forall P rs -> Forall P xs) /\
             (forall q, p = Some q -> prim_isinstance q w = true).
Proof.
  unfold rebuild_origin. destruct p as [[]|]; try discriminate; intros H.
  - injection H as <-. exists rs. repeat split; auto. intros q E; injection E as <-; reflexivity.
  - injection H as <-. exists rs. repeat split; auto. intros q E; injection E as <-; reflexivity.
  - unfold mk_set in H. destruct (forallb hashable_deep rs); [|discriminate]. injection H as <-.
    exists (dedupe rs []). repeat split; auto.
    + intros P HP. apply dedupe_subset; [exact HP|constructor].
    + intros q E; injection E as <-; reflexivity.
  - unfold mk_set in H. destruct (forallb hashable_deep rs); [|discriminate]. injection H as <-.
    exists (dedupe rs []). repeat split; auto.
    + intros P HP. apply dedupe_subset; [exact HP|constructor].
    + intros q E; injection E as <-; reflexivity.
Qed.

Lemma source_ok_base origin w :
  (forall q, (match origin with Some ot => base_prim 8 ot | None => None end) = Some q -> prim_isinstance q w = true) ->
  source_ok origin w.
Proof. unfold source_ok. destruct origin as [[| p | | |]|]; auto. Qed.

Lemma Forall2_len {A B} (R : A -> B -> Prop) l1 l2 : Forall2 R l1 l2 -> List.length l1 = List.length l2.
Proof. induction 1; cbn; auto. Qed.

(* ---- the three args parsers as a whole ---- *)
Lemma parse_seq_args_conf o depth arg v1 s1 s2 r : safe o ->
  parse_seq_args tr o depth arg v1 s1 = (s2, Ok r) ->
  exists rs, r = PList rs /\ Forall (conforms re arg) rs.
Proof.
  intros Hs H. unfold parse_seq_args in H. destruct (items_of v1) as [items|]; [|discriminate H].
  apply mbind_ok in H. destruct H as (sa & rs & Hi & H). injection H as _ <-.
  exists rs. split; [reflexivity|]. eapply seq_items_conf; [exact Hs|exact Hi|constructor].
Qed.

Lemma tuple_exceed_grows o : forall extra i s s' r, tuple_exceed o i extra s = (s', r) -> grows s s'.
Proof.
  induction extra as [|x rest IH]; intros i s s' r H; cbn [tuple_exceed] in H.
  - injection H as <- _. apply grows_refl.
  - unfold mbind in H. destruct (handle_error o _ false s) as [sa [[]|e| | |]] eqn:Hh;
      try (injection H as <- _; eapply handle_error_grows; exact Hh).
    eapply grows_trans; [eapply handle_error_grows; exact Hh|eapply IH; exact H].
Qed.

Lemma parse_tuple_args_conf o depth args v1 s1 s2 r : safe o ->
  parse_tuple_args tr o depth args v1 s1 = (s2, Ok r) ->
  grows s1 s2 /\
  (e_errors s2 = e_errors s1 ->
   exists xs, r = PTuple xs /\ (List.length args <= List.length xs)%nat /\
              Forall2 (conforms re) args (firstn (List.length args) xs)).
Proof.
  intros Hs H. unfold parse_tuple_args in H. destruct v1; try discriminate H.
  apply mbind_ok in H. destruct H as (sa & [] & He & H).
  apply mbind_ok in H. destruct H as (sb & res & Ht & H). injection H as <- <-.
  assert (G0 : grows s1 sa).
  { destruct (_ && _); [eapply tuple_exceed_grows; exact He|injection He as <-; apply grows_refl]. }
  destruct (tuple_items_conf o depth xs Hs _ _ _ _ _ _ Ht) as [G1 Hn].
  split; [eapply grows_trans; eassumption|].
  intros Heq.
  assert (Hsa : e_errors sb = e_errors sa).
  { destruct G0 as [x Hx]. destruct G1 as [y Hy]. rewrite Hy, Hx, <- app_assoc in Heq.
    rewrite <- (app_nil_r (e_errors s1)) in Heq at 2. apply app_inv_head in Heq.
    apply app_eq_nil in Heq. destruct Heq as [-> ->]. rewrite Hy, app_nil_r. reflexivity. }
  destruct (Hn Hsa) as (new & -> & HF). cbn [app].
  pose proof (Forall2_len _ _ _ HF) as Hlen.
  eexists. split; [reflexivity|]. split.
  - rewrite app_length. lia.
  - rewrite Hlen. rewrite firstn_app, Nat.sub_diag, firstn_all. cbn [firstn]. rewrite app_nil_r. exact HF.
Qed.

Lemma parse_map_args_conf o depth args v1 s1 s2 r : safe o ->
  parse_map_args tr o depth args v1 s1 = (s2, Ok r) ->
  exists kt rest kvs, args = kt :: rest /\ r = PDict kvs /\ kv_ok kt (hd_error rest) kvs.
Proof.
  intros Hs H. unfold parse_map_args in H. destruct args as [|kt rest]; [discriminate H|].
  destruct (dict_items v1) as [items|]; [|discriminate H].
  apply mbind_ok in H. destruct H as (sa & res & Hm & H). injection H as _ <-.
  exists kt, rest, res. split; [reflexivity|]. split; [reflexivity|].
  replace (hd_error rest) with (match rest with vt :: _ => Some vt | [] => None end) by (destruct rest; reflexivity).
  eapply map_items_conf; [exact Hs|exact Hm|]. split; [constructor|intros; constructor].
Qed.

(* ---- Rule.parse ---- *)
Lemma rule_parse_conf o depth origin args ell vals ct mn mx v s s' w :
  safe o ->
  rule_parse re tr o depth origin args ell vals ct mn mx v s = (s', Ok w) ->
  conforms re (TRule origin args ell vals ct mn mx) w.
Proof.
  intros Hs H. unfold rule_parse in H.
  apply mbind_ok in H. destruct H as (s1 & v1 & Ho & H).
  assert (Hv1 : match origin with Some ot => conforms re ot v1 | None => True end).
  { destruct origin as [ot|]; [|exact I].
    unfold mcatch in Ho. destruct (tr o depth ot v s) as [s0 [a|e| | |]] eqn:Et; try discriminate Ho.
    injection Ho as <- <-. eapply Htr; eassumption. }
  destruct (checking_vals vals) eqn:Hck; [|apply cf_rule_transforming; exact Hck].
  (* peel the None shortcut *)
  assert (Hcase : (exists ot, origin = Some ot /\ v1 = PNone /\ w = PNone) \/
    exists s2 v2,
      (match args_parser_of origin args ell with
       | APNone => ret v1
       | APSeq => match args with
                  | arg :: _ => do r <- parse_seq_args tr o depth arg v1;
                                lift (rebuild_origin (match origin with Some ot => base_prim 8 ot | None => None end) r)
                  | [] => ret v1 end
       | APTuple => parse_tuple_args tr o depth args v1
       | APMap => parse_map_args tr o depth args v1
       end) s1 = (s2, Ok v2) /\
      (do v3 <- (if o_ignore_constraints o then ret v2
                 else do w0 <- run_validators re o vals v2;
                      match ct with Some c => parse_contains tr o depth c mn mx w0 | None => ret w0 end);
       do _ <- raise_error; ret v3) s2 = (s', Ok w)).
  { destruct origin as [ot|]; [destruct v1|]; try (right; apply mbind_ok in H; destruct H as (s2 & v2 & H1 & H2); eauto).
    left. injection H as _ <-. eauto. }
  destruct Hcase as [(ot & -> & -> & ->)|(s2 & v2 & Hap & Ht)]; [apply cf_rule_none; exact Hv1|]. clear H.
  (* the tail: validators, contains, raise_error *)
  apply mbind_ok in Ht. destruct Ht as (sb & v3 & Hv & Ht).
  apply mbind_ok in Ht. destruct Ht as (sc & [] & Hr & Ht). injection Ht as <- <-.
  apply raise_error_ok in Hr. destruct Hr as (-> & He & _).
  pose proof Hs as (_ & _ & _ & Hic & _). rewrite Hic in Hv.
  apply mbind_ok in Hv. destruct Hv as (sd & w0 & Hrv & Hc).
  destruct (run_validators_checking o vals Hck _ _ _ _ Hrv) as (-> & G1 & Hh).
  assert (G2 : grows sd sb /\ v3 = v2).
  { destruct ct as [c|]; [apply parse_contains_ok in Hc; tauto|injection Hc as <- <-; split; [apply grows_refl|reflexivity]]. }
  destruct G2 as [G2 ->].
  pose proof (grows_nil _ _ G2 He) as Hd. pose proof (grows_nil _ _ G1 Hd) as Hs2.
  assert (Hch : constraints_hold re vals v2) by (apply Hh; congruence).
  (* per args parser *)
  destruct (args_parser_of origin args ell) eqn:Eap.
  - (* sequence *)
    destruct args as [|arg rest]; [unfold args_parser_of in Eap; destruct origin; discriminate Eap|].
    apply mbind_ok in Hap. destruct Hap as (sa & r & Hseq & Hrb). unfold lift in Hrb. injection Hrb as _ Hrb.
    destruct (parse_seq_args_conf _ _ _ _ _ _ _ Hs Hseq) as (rs & -> & HF).
    destruct (rebuild_origin_list _ _ _ Hrb) as (xs & Hit & Hsub & Hk).
    eapply cf_rule_seq; [exact Eap|apply source_ok_base; exact Hk|exact Hit|apply Hsub; exact HF|exact Hck|exact Hch].
  - (* fixed tuple *)
    destruct (parse_tuple_args_conf _ _ _ _ _ _ _ Hs Hap) as [G0 Hn].
    assert (Hs1 : e_errors s2 = e_errors s1) by (rewrite Hs2; symmetry; eapply grows_nil; eassumption).
    destruct (Hn Hs1) as (xs & -> & Hlen & HF).
    apply cf_rule_tuple; assumption.
  - (* mapping *)
    destruct (parse_map_args_conf _ _ _ _ _ _ _ Hs Hap) as (kt & rest & kvs & -> & -> & [Hk Hv]).
    apply cf_rule_map; assumption.
  - (* no args parser *)
    injection Hap as _ <-.
    apply cf_rule_plain; [exact Eap| |exact Hck|exact Hch].
    unfold source_ok. destruct origin as [[| p | | |]|]; try exact I. inversion Hv1; assumption.
Qed.


(* ---- logical types ---- *)
Lemma safe_with_flags o a b : safe o -> safe (with_flags o a b).
Proof. unfold safe, with_flags. destruct (o_override o); cbn; tauto. Qed.

Lemma exact_type_conf t v : exact_type t v = true -> conforms re t v.
Proof.
  destruct t; cbn [exact_type]; try discriminate.
  - intros H. constructor. destruct p, v; cbn in *; try discriminate; auto.
  - destruct v; try discriminate. intros H. apply Nat.eqb_eq in H. subst. constructor.
Qed.

Lemma existsb_exact args v : existsb (fun con => exact_type con v) args = true ->
  exists con, In con args /\ conforms re con v.
Proof.
  intros H. apply existsb_exists in H. destruct H as (con & Hin & He). eauto using exact_type_conf.
Qed.

Lemma or_stage_conf o depth : safe o -> forall args v s s' r,
  or_stage tr o depth args v s = (s', Ok r) ->
  e_errors s' = e_errors s /\
  match r with
  | Some w => exists con, In con args /\ conforms re con w
  | None => args = [] \/ e_tmp s' <> []
  end.
Proof.
  intros Hs. induction args as [|con rest IH]; intros v s s' r H; cbn [or_stage] in H.
  - injection H as <- <-. split; [reflexivity|left; reflexivity].
  - destruct (enter_tr tr o depth true con v) as [e|[w|e| | |]] eqn:E; try discriminate H.
    + apply mbind_ok in H. destruct H as (s1 & [] & Hc & H). injection H as <- <-.
      apply clear_tmp_errors in Hc. split; [tauto|]. exists con. split; [left; reflexivity|].
      eapply enter_tr_ok; eassumption.
    + apply mbind_ok in H. destruct H as (s1 & [] & Hc & H).
      unfold collect_tmp_error in Hc. injection Hc as <-.
      destruct (IH _ _ _ _ H) as [He Hr]. cbn [e_errors] in He. split; [exact He|].
      destruct r as [w|].
      * destruct Hr as (c & Hin & Hc). exists c. split; [right; exact Hin|exact Hc].
      * right. destruct Hr as [->|Hr]; [|exact Hr].
        cbn [or_stage] in H. injection H as <-. cbn [e_tmp]. destruct (e_tmp s); discriminate.
Qed.

Lemma and_loop_conf o depth : safe o -> forall args v s s' w,
  and_loop tr o depth args v s = (s', Ok w) -> e_errors s' = [] ->
  (args = [] /\ w = v) \/ (exists init last, args = init ++ [last] /\ conforms re last w).
Proof.
  intros Hs. induction args as [|con rest IH]; intros v s s' w H He; cbn [and_loop] in H.
  - injection H as _ <-. left. auto.
  - right. destruct (tr o depth con v s) as [s1 [v'|e| | |]] eqn:Et; try discriminate H.
    + destruct (IH _ _ _ _ H He) as [[-> ->]|(init & last & -> & Hc)].
      * exists [], con. split; [reflexivity|]. eapply Htr; eassumption.
      * exists (con :: init), last. split; [reflexivity|exact Hc].
    + exfalso. destruct (handle_error o (as_parse_error e) false s1) as [s2 [[]|e'| | |]] eqn:Hh; try discriminate H.
      injection H as <- _. apply handle_error_ok_adds in Hh. rewrite Hh in He. destruct (e_errors s1); discriminate.
Qed.

Lemma handle_error_tmp o e fr s s' r : handle_error o e fr s = (s', r) -> e_tmp s' = e_tmp s.
Proof.
  unfold handle_error. destruct (fr || negb (o_collect_errors o)); [intros H; injection H as <- _; reflexivity|].
  destruct (o_max_errors o) as [m|]; [destruct (m <=? _)|]; intros H; injection H as <- _; reflexivity.
Qed.
Lemma handle_error_adds o e fr s s' r : handle_error o e fr s = (s', r) -> e_errors s' = e_errors s ++ [e].
Proof.
  unfold handle_error. destruct (fr || negb (o_collect_errors o)); [intros H; injection H as <- _; reflexivity|].
  destruct (o_max_errors o) as [m|]; [destruct (m <=? _)|]; intros H; injection H as <- _; reflexivity.
Qed.
Lemma app_ne_self {A} (l x : list A) : x <> [] -> l ++ x <> l.
Proof. intros Hx Heq. rewrite <- (app_nil_r l) in Heq at 2. apply app_inv_head in Heq. contradiction. Qed.

(* the ^ loop.  `all` is the full argument list; res is meaningful when xor = true *)
Lemma xor_loop_conf o depth all : safe o -> forall args v res xor s s' r b,
  incl args all ->
  xor_loop tr o depth args v res xor s = (s', Ok (r, b)) ->
  (xor = true -> exists con, In con all /\ conforms re con res) ->
  grows s s' /\ (e_tmp s <> [] -> e_tmp s' <> []) /\
  (b = true -> exists con, In con all /\ conforms re con r) /\
  (b = false -> (xor = true -> e_errors s' <> e_errors s) /\
                (xor = false -> args = [] \/ e_tmp s' <> [] \/ e_errors s' <> e_errors s)).
Proof.
  intros Hs. induction args as [|con rest IH]; intros v res xor s s' r b Hin H Hx; cbn [xor_loop] in H.
  - injection H as <- <- <-. split; [apply grows_refl|]. split; [auto|]. split; [exact Hx|].
    intros ->. split; [intros Ht; discriminate|intros _; left; reflexivity].
  - assert (Hin' : incl rest all) by (intros x Hxx; apply Hin; right; exact Hxx).
    destruct (enter_tr tr o depth true con v) as [e|[w|e| | |]] eqn:E; try discriminate H.
    + destruct xor; cbn [negb] in H.
      * (* a second acceptance *)
        destruct (handle_error o (parse_err KOneOf) false s) as [s1 [[]|e1| | |]] eqn:Hh; try discriminate H.
        -- injection H as <- <- <-.
           split; [eapply handle_error_grows; exact Hh|].
           split; [rewrite (handle_error_tmp _ _ _ _ _ _ Hh); auto|].
           split; [intros Hf; discriminate|]. intros _. split; [|intros Hf; discriminate].
           intros _. rewrite (handle_error_adds _ _ _ _ _ _ Hh). apply app_ne_self. discriminate.
        -- unfold collect_tmp_error in H.
           destruct (IH _ _ _ _ _ _ _ Hin' H Hx) as (G & Ht & Hb & Hf).
           pose proof (handle_error_adds _ _ _ _ _ _ Hh) as Ha.
           assert (G1 : grows s s').
           { destruct G as [y Hy]. cbn [e_errors] in Hy. exists ([parse_err KOneOf] ++ y).
             rewrite Hy, Ha, <- app_assoc. reflexivity. }
           split; [exact G1|].
           split; [intros _; apply Ht; cbn [e_tmp]; destruct (e_tmp s1); discriminate|].
           split; [exact Hb|]. intros Hbf. split; [|intros Hf'; discriminate].
           intros _. destruct G as [y Hy]. cbn [e_errors] in Hy. rewrite Hy, Ha, <- app_assoc.
           apply app_ne_self. discriminate.
      * (* the first acceptance *)
        assert (Hw : exists c, In c all /\ conforms re c w).
        { exists con. split; [apply Hin; left; reflexivity|eapply enter_tr_ok; eassumption]. }
        destruct (IH _ _ _ _ _ _ _ Hin' H (fun _ => Hw)) as (G & Ht & Hb & Hf).
        split; [exact G|]. split; [exact Ht|]. split; [exact Hb|].
        intros Hbf. split; [intros Hf'; discriminate|]. intros _. right; right. apply Hf; auto.
    + (* rejected: a temporary error is recorded *)
      apply mbind_ok in H. destruct H as (s1 & [] & Hc & H). unfold collect_tmp_error in Hc. injection Hc as <-.
      destruct (IH _ _ _ _ _ _ _ Hin' H Hx) as (G & Ht & Hb & Hf).
      split; [exact G|].
      assert (Htn : e_tmp s' <> []) by (apply Ht; cbn [e_tmp]; destruct (e_tmp s); discriminate).
      split; [intros _; exact Htn|]. split; [exact Hb|].
      intros Hbf. destruct (Hf Hbf) as [Hf1 Hf2]. split; [exact Hf1|]. intros _. right; left. exact Htn.
Qed.

(* LogicalType.logical_parse *)
Lemma logical_parse_conf o depth op args v s s' w :
  safe o -> logical_parse tr o depth op args v s = (s', Ok w) -> conforms re (TLogic op args) w.
Proof.
  intros Hs H. destruct op; cbn [logical_parse] in H.
  - (* & *)
    apply mbind_ok in H. destruct H as (s1 & w0 & Ha & H).
    apply mbind_ok in H. destruct H as (s2 & [] & Hr & H). injection H as _ <-.
    apply raise_error_ok in Hr. destruct Hr as (-> & He & _).
    destruct (and_loop_conf o depth Hs _ _ _ _ _ Ha He) as [[-> ->]|(init & last & -> & Hc)].
    + constructor.
    + apply cf_and. exact Hc.
  - (* | *)
    destruct (existsb (fun con => exact_type con v) args) eqn:Ex.
    + injection H as _ <-. destruct (existsb_exact _ _ Ex) as (con & Hin & Hc). eapply cf_or; eassumption.
    + apply mbind_ok in H. destruct H as (s1 & r1 & H1 & H).
      assert (Hst1 : match r1 with Some r => exists con, In con args /\ conforms re con r | None => True end).
      { destruct (negb (o_no_data_loss o) || negb (o_no_explicit_cast o)).
        - destruct (or_stage_conf _ depth (safe_with_flags o _ _ Hs) _ _ _ _ _ H1) as [_ Hr]. destruct r1; auto.
        - injection H1 as _ <-. exact I. }
      destruct r1 as [r|]; [injection H as _ <-; destruct Hst1 as (con & Hin & Hc); eapply cf_or; eassumption|].
      apply mbind_ok in H. destruct H as (s2 & r2 & H2 & H).
      assert (Hst2 : match r2 with Some r => exists con, In con args /\ conforms re con r | None => True end).
      { destruct (negb (o_no_data_loss o) && negb (o_no_explicit_cast o)).
        - destruct (or_stage_conf _ depth (safe_with_flags o _ _ Hs) _ _ _ _ _ H2) as [_ Hr]. destruct r2; auto.
        - injection H2 as _ <-. exact I. }
      destruct r2 as [r|]; [injection H as _ <-; destruct Hst2 as (con & Hin & Hc); eapply cf_or; eassumption|].
      apply mbind_ok in H. destruct H as (s3 & r3 & H3 & H).
      destruct (or_stage_conf _ depth Hs _ _ _ _ _ H3) as [_ Hr].
      destruct r3 as [r|]; [injection H as _ <-; destruct Hr as (con & Hin & Hc); eapply cf_or; eassumption|].
      apply mbind_ok in H. destruct H as (s4 & [] & Hre & H). injection H as _ <-.
      apply raise_error_ok in Hre. destruct Hre as (-> & _ & Htmp).
      destruct Hr as [->|Hr]; [constructor|contradiction].
  - (* ^ *)
    destruct (existsb (fun con => exact_type con v) args) eqn:Ex.
    + injection H as _ <-. destruct (existsb_exact _ _ Ex) as (con & Hin & Hc). eapply cf_xor; eassumption.
    + apply mbind_ok in H. destruct H as (s1 & [v' xor] & Hx & H).
      apply mbind_ok in H. destruct H as (s2 & [] & Hc & H).
      apply mbind_ok in H. destruct H as (s3 & [] & Hr & H). injection H as _ <-.
      apply raise_error_ok in Hr. destruct Hr as (-> & He & Htmp).
      destruct (xor_loop_conf o depth args Hs _ _ _ _ _ _ _ _ (incl_refl _) Hx) as (G & Ht & Hb & Hf);
        [intros Hf; discriminate|].
      destruct xor.
      * destruct (Hb eq_refl) as (con & Hin & Hcf). eapply cf_xor; eassumption.
      * injection Hc as <-. destruct (Hf eq_refl) as [_ Hf2].
        destruct (Hf2 eq_refl) as [->|[Hn|Hn]]; [constructor|contradiction|].
        exfalso. apply Hn. rewrite He. symmetry. eapply grows_nil; eassumption.
  - (* ~ *) constructor.
Qed.

(* ---- data classes: the result is an instance of the class ---- *)
Lemma init_dataclass_inst c C caller depth v w : init_dataclass tr c C caller depth v = Ok w -> exists kvs, w = PInst c kvs.
Proof.
  unfold init_dataclass. intros H.
  repeat match type of H with
  | bind ?x _ = Ok _ => destruct x; cbn [bind] in H; try discriminate H
  end. injection H as <-. eauto.
Qed.

Lemma transform_dataclass_inst c o depth v w : transform_dataclass D tr c o depth v = Ok w -> exists kvs, w = PInst c kvs.
Proof.
  unfold transform_dataclass. destruct (D c) as [C|]; [|discriminate].
  intros H. match type of H with bind ?x _ = _ => destruct x as [d| | | |]; cbn [bind] in H; try discriminate H end.
  destruct d; eauto using init_dataclass_inst.
  destruct (Nat.eqb c c0) eqn:E; [|eauto using init_dataclass_inst].
  apply Nat.eqb_eq in E. subst. injection H as <-. eauto.
Qed.

(* ---- one unfolding of the knot ---- *)
Lemma transform_step_sound : sound_tr (transform_step re D tr).
Proof.
  intros o depth t v s s' w Hs H. destruct t; cbn [transform_step] in H.
  - constructor.
  - unfold lift in H. injection H as _ H. constructor. eapply conv_prim_sound; [exact H|].
    intros Hu. destruct Hs as (_ & _ & _ & _ & Hn). contradiction.
  - eapply rule_parse_conf; eassumption.
  - eapply logical_parse_conf; eassumption.
  - assert (Hi : exists kvs, w = PInst c kvs).
    { destruct v; try (unfold lift in H; injection H as _ H; eapply transform_dataclass_inst; exact H).
      destruct (Nat.eqb c c0) eqn:E.
      - apply Nat.eqb_eq in E. subst. injection H as _ <-. eauto.
      - unfold lift in H; injection H as _ H; eapply transform_dataclass_inst; exact H. }
    destruct Hi as [kvs ->]. constructor.
Qed.

End Step.

(* ---- tying the knot ---- *)
Theorem transform_sound fuel : sound_tr (transform re D fuel).
Proof.
  induction fuel as [|f IH]; cbn [transform].
  - intros o depth t v s s' w _ H. discriminate H.
  - apply transform_step_sound. exact IH.
Qed.

End Conf.
