(* Proofs/Verdict.v — the verdict of a data-class parse.
   A computation of the error-collecting monad either is *clean* (returns a value and leaves the
   error lists as they were, from every state) or *signals* (records at least one error, or does
   not return normally).  Which of the two does not depend on collect_errors: handle_error both
   records and, when failing fast, raises.  Every data-class loop of Model/Parse.v is shown to
   have the verdict computed by a pure mirror image in the option monad (None = signals); the
   strategy and contract theorems (C05, C06) are then proved on the pure functions. *)
From UV Require Import Parse Monad Sim.
From Coq Require Import Lia.
Open Scope string_scope.
Open Scope list_scope.
Open Scope Z_scope.

Definition is_ok {A} (x : out A) : bool := match x with Ok _ => true | _ => false end.

Definition vd {A} (m : M A) (p : option A) : Prop :=
  forall s, let '(s', x) := m s in
    (nerr s <= nerr s')%nat /\
    match p with
    | Some a => s' = s /\ x = Ok a
    | None => (nerr s < nerr s')%nat \/ is_ok x = false
    end.

Definition obind {A B} (p : option A) (q : A -> option B) : option B :=
  match p with Some a => q a | None => None end.

Fixpoint ofold {S E} (step : S -> E -> option S) (l : list E) (s : S) : option S :=
  match l with
  | [] => Some s
  | e :: r => obind (step s e) (ofold step r)
  end.

Lemma vd_ret {A} (a : A) : vd (ret a) (Some a).
Proof. intros s. cbn. auto. Qed.

Lemma vd_bind {A B} (m : M A) (k : A -> M B) p q :
  vd m p -> (forall a, vd (k a) (q a)) -> vd (mbind m k) (obind p q).
Proof.
  intros Hm Hk s. unfold mbind. specialize (Hm s). destruct (m s) as [s1 x].
  destruct p as [a|]; cbn [obind].
  - destruct Hm as [_ [-> ->]]. apply Hk.
  - destruct Hm as [Hle Hx]. destruct x as [a|e| | |].
    + specialize (Hk a s1). destruct (k a s1) as [s2 y]. destruct Hk as [Hle2 _].
      destruct Hx as [Hx|Hx]; [|discriminate]. split; [lia|]. left. lia.
    + split; [exact Hle|]. right. reflexivity.
    + split; [exact Hle|]. right. reflexivity.
    + split; [exact Hle|]. right. reflexivity.
    + split; [exact Hle|]. right. reflexivity.
Qed.

Lemma vd_bind_none {A B} (m : M A) (k : A -> M B) :
  vd m None -> (forall a, exists q, vd (k a) q) -> vd (mbind m k) None.
Proof.
  intros Hm Hk s. unfold mbind. specialize (Hm s). destruct (m s) as [s1 x].
  destruct Hm as [Hle Hx]. destruct x as [a|e| | |]; try (split; [exact Hle|right; reflexivity]).
  destruct (Hk a) as [q Hq]. specialize (Hq s1). destruct (k a s1) as [s2 y]. destruct Hq as [Hle2 _].
  destruct Hx as [Hx|Hx]; [|discriminate]. split; [lia|]. left. lia.
Qed.

Lemma vd_handle o e : vd (handle_error o e false) None.
Proof.
  intros s. unfold handle_error. cbn [orb].
  destruct (negb (o_collect_errors o)); [|destruct (o_max_errors o) as [m|]; [destruct (m <=? _)|]];
    unfold nerr; cbn [e_errors]; rewrite app_length; cbn; split; try lia; left; lia.
Qed.

Lemma vd_lift_bad {A} (x : out A) : is_ok x = false -> vd (lift x) None.
Proof. intros H s. cbn. split; [lia|]. right. exact H. Qed.

Lemma vd_mfold {S E} (step : S -> E -> M S) (pstep : S -> E -> option S) :
  (forall st e, vd (step st e) (pstep st e)) -> forall l st, vd (mfold step l st) (ofold pstep l st).
Proof.
  intros H. induction l as [|e r IH]; intros st; cbn [mfold ofold]; [apply vd_ret|].
  apply vd_bind; [apply H|]. intros a. apply IH.
Qed.

(* at the top: a parse in a fresh context followed by raise_error is Ok exactly when clean *)
Lemma vd_fresh {A} (m : M A) p :
  vd m p ->
  match p with
  | Some a => in_fresh (do r <- m; do _ <- raise_error; ret r) = Ok a
  | None => is_ok (in_fresh (do r <- m; do _ <- raise_error; ret r)) = false
  end.
Proof.
  intros H. unfold in_fresh, mbind. specialize (H no_errs). destruct (m no_errs) as [s1 x].
  destruct p as [a|].
  - destruct H as [_ [-> ->]]. reflexivity.
  - destruct H as [_ [H|H]].
    + destruct x as [a|e| | |]; try reflexivity.
      unfold raise_error. unfold nerr in H. cbn in H.
      destruct (e_errors s1); [cbn in H; lia|]. reflexivity.
    + destruct x; try discriminate; reflexivity.
Qed.

Section Pure.
Variable tr : options -> Z -> ty -> pyval -> M pyval.
Variable C : cdecl.
Variable o : options.
Variable depth : Z.

(* ParserField.parse_value: None = an error is signalled, Some None = no value (unprovided) *)
Definition pv (f : field) (v : pyval) : option (option pyval) :=
  match f_type f with
  | None => Some (Some v)
  | Some t =>
      match enter_tr tr o depth (route_str (f_name f)) t v with
      | Entered (Ok r) => Some (Some r)
      | Entered (Raise e) =>
          match get_on_error f o with
          | Exclude => if is_required f o then None else Some (get_default f o)
          | Preserve => Some (Some v)
          | Throw => None
          end
      | _ => None
      end
  end.

Lemma vd_parse_value f v : vd (parse_value tr o depth f v) (pv f v).
Proof.
  unfold parse_value, pv. destruct (f_type f) as [t|]; [|apply vd_ret].
  destruct (enter_tr tr o depth _ t v) as [e|[r|e| | |]]; try (apply vd_lift_bad; reflexivity); [apply vd_ret|].
  destruct (get_on_error f o).
  - apply vd_bind_none; [apply vd_handle|intros; eexists; apply vd_ret].
  - destruct (is_required f o).
    + apply vd_bind_none; [apply vd_handle|intros; eexists; apply vd_ret].
    + change (Some (get_default f o)) with (obind (Some tt) (fun _ => Some (get_default f o))).
      apply vd_bind; [apply vd_ret|intros; apply vd_ret].
  - apply vd_ret.
Qed.

Definition padd (key : string) (v : pyval) : option (option pyval) :=
  if str_in key (c_exclude_vars C) then Some None
  else match o_addition o with
       | Some false => None
       | None => Some None
       | Some true => Some (Some v)
       end.
Lemma vd_parse_addition key v : vd (parse_addition C o key v) (padd key v).
Proof.
  unfold parse_addition, padd. destruct (str_in key _); [apply vd_ret|].
  destruct (o_addition o) as [[|]|]; try apply vd_ret.
  apply vd_bind_none; [apply vd_handle|intros; eexists; apply vd_ret].
Qed.

(* --- data first --- *)
Definition dfs_pstep (st : dfs_state) (kv : string * pyval) : option dfs_state :=
  let '(result, raw, addition, deps) := st in
  let '(key, value) := kv in
  match get_field C key with
  | None =>
      obind (padd key value) (fun a =>
        Some (result, raw, (match a with Some x => sdict_set addition key x | None => addition end), deps))
  | Some f =>
      let name := f_name f in
      if is_no_input f o then
        Some ((match get_default f o with Some d => sdict_set result name d | None => result end),
              raw, addition, deps)
      else
        let seen := if o_ignore_alias_conflicts o then None
                    else match assoc name raw with
                         | Some prev => Some prev
                         | None => assoc name result
                         end in
        match seen with
        | Some prev => if negb (py_eq prev value) then None else Some st
        | None =>
            let raw' := sdict_set raw name value in
            obind (pv f value) (fun p =>
              match p with
              | None => Some (result, raw', addition, deps)
              | Some r => Some (sdict_set result name r, raw', addition, deps ++ f_dependencies f)
              end)
        end
  end.

Lemma vd_dfs_step st kv : vd (dfs_step tr C o depth st kv) (dfs_pstep st kv).
Proof.
  destruct st as [[[result raw] addition] deps]. destruct kv as [key value]. unfold dfs_step, dfs_pstep.
  destruct (get_field C key) as [f|].
  - destruct (is_no_input f o); [apply vd_ret|].
    match goal with |- vd (match ?x with _ => _ end) _ => destruct x as [prev|] end.
    + destruct (negb (py_eq prev value)).
      * apply vd_bind_none; [apply vd_handle|intros; eexists; apply vd_ret].
      * change (Some (result, raw, addition, deps)) with (obind (Some tt) (fun _ => Some (result, raw, addition, deps))).
        apply vd_bind; [apply vd_ret|intros; apply vd_ret].
    + apply vd_bind; [apply vd_parse_value|]. intros [r|]; apply vd_ret.
  - apply vd_bind; [apply vd_parse_addition|]. intros a. apply vd_ret.
Qed.

Definition dfs_missing_pstep (st : sdata * list string) (kf : string * field) : option (sdata * list string) :=
  let '(result, unprov) := st in
  let f := snd kf in
  let name := f_name f in
  if has_key name result then Some st
  else
    let unprov' := name :: unprov in
    if is_required f o then None
    else match get_default f o with
         | Some d => Some (sdict_set result name d, unprov')
         | None => Some (result, unprov')
         end.
Lemma vd_dfs_missing_step st kf : vd (dfs_missing_step o st kf) (dfs_missing_pstep st kf).
Proof.
  destruct st as [result unprov]. destruct kf as [k f]. unfold dfs_missing_step, dfs_missing_pstep. cbn [snd].
  destruct (has_key _ result); [apply vd_ret|].
  destruct (is_required f o).
  - apply vd_bind_none; [apply vd_handle|intros; eexists; apply vd_ret].
  - destruct (get_default f o); apply vd_ret.
Qed.

Definition deps_lack (deps : list string) (result : sdata) (unprov : list string) : list string :=
  filter (fun d => negb (has_key d result) || str_in d unprov) deps.
Definition deps_check_p (deps : list string) (result : sdata) (unprov : list string) : option unit :=
  match deps_lack deps result unprov with [] => Some tt | _ => None end.
Lemma vd_deps_check deps result unprov : vd (deps_check o deps result unprov) (deps_check_p deps result unprov).
Proof.
  unfold deps_check, deps_check_p, deps_lack. destruct (filter _ deps); [apply vd_ret|apply vd_handle].
Qed.
(* the `if dependencies:` guard changes nothing: no dependency, nothing lacking *)
Lemma vd_deps_guard deps result unprov :
  vd (match deps with [] => ret tt | _ => deps_check o deps result unprov end) (deps_check_p deps result unprov).
Proof. destruct deps; [apply vd_ret|apply vd_deps_check]. Qed.

Definition data_first_p (data : sdata) : option sdata :=
  obind (ofold dfs_pstep data ([], [], [], [])) (fun r =>
    let '(result, _, addition, deps) := r in
    obind (ofold dfs_missing_pstep (c_fields C) (result, [])) (fun r2 =>
      let '(result2, unprov) := r2 in
      obind (deps_check_p deps result2 unprov) (fun _ => Some (sdict_update result2 addition)))).

Lemma vd_data_first data : vd (data_first_parse tr C o depth data) (data_first_p data).
Proof.
  unfold data_first_parse, data_first_p, dfs_loop, dfs_missing.
  apply vd_bind; [apply vd_mfold; apply vd_dfs_step|]. intros [[[result raw] addition] deps].
  apply vd_bind; [apply vd_mfold; apply vd_dfs_missing_step|]. intros [result2 unprov].
  apply vd_bind; [apply vd_deps_guard|]. intros _. apply vd_ret.
Qed.

(* --- field first --- *)
Definition ffs_fold_pstep (acc : sdata) (kv : string * pyval) : option sdata :=
  let '(k, v) := kv in
  let lk := str_lower k in
  if str_in lk (c_ci_names C) then
    match assoc lk acc with
    | Some prev =>
        if o_ignore_alias_conflicts o then Some (sdict_set acc lk v)
        else if negb (py_eq prev v) then
               match get_field C lk with
               | Some f => if is_no_input f o then Some acc else None
               | None => Some acc
               end
             else Some acc
    | None => Some (sdict_set acc lk v)
    end
  else Some (sdict_set acc k v).
Lemma vd_ffs_fold_step acc kv : vd (ffs_fold_step C o acc kv) (ffs_fold_pstep acc kv).
Proof.
  destruct kv as [k v]. unfold ffs_fold_step, ffs_fold_pstep.
  destruct (str_in _ _); [|apply vd_ret].
  destruct (assoc _ acc) as [prev|]; [|apply vd_ret].
  destruct (o_ignore_alias_conflicts o); [apply vd_ret|].
  destruct (negb (py_eq prev v)).
  - destruct (get_field C _) as [f|].
    + destruct (is_no_input f o).
      * change (Some acc) with (obind (Some tt) (fun _ => Some acc)). apply vd_bind; [apply vd_ret|intros; apply vd_ret].
      * change None with (obind (@None unit) (fun _ => Some acc)). apply vd_bind; [apply vd_handle|intros; apply vd_ret].
    + change (Some acc) with (obind (Some tt) (fun _ => Some acc)). apply vd_bind; [apply vd_ret|intros; apply vd_ret].
  - change (Some acc) with (obind (Some tt) (fun _ => Some acc)). apply vd_bind; [apply vd_ret|intros; apply vd_ret].
Qed.
Definition ffs_prepare_p (data : sdata) : option sdata :=
  match c_ci_names C with
  | [] => Some data
  | _ => ofold ffs_fold_pstep data []
  end.
Lemma vd_ffs_prepare data : vd (ffs_prepare C o data) (ffs_prepare_p data).
Proof.
  unfold ffs_prepare, ffs_prepare_p. destruct (c_ci_names C); [apply vd_ret|].
  apply vd_mfold. apply vd_ffs_fold_step.
Qed.

Definition ffs_pstep (data : sdata) (st : ffs_state) (kf : string * field) : option ffs_state :=
  let '(result, used, unprov, deps) := st in
  let f := snd kf in
  let name := f_name f in
  let '(value, conflict) := ffs_lookup (o_ignore_alias_conflicts o) (f_all_aliases f) data None in
  match value with
  | None =>
      let unprov' := name :: unprov in
      if is_required f o then None
      else Some ((match get_default f o with Some d => sdict_set result name d | None => result end),
                 used, unprov', deps)
  | Some v =>
      let used' := used ++ f_all_aliases f in
      if is_no_input f o then
        Some ((match get_default f o with Some d => sdict_set result name d | None => result end),
              used', unprov, deps)
      else if conflict then None
      else obind (pv f v) (fun p =>
             match p with
             | None => Some (result, used', unprov, deps)
             | Some r => Some (sdict_set result name r, used', unprov, deps ++ f_dependencies f)
             end)
  end.
Lemma vd_ffs_step data st kf : vd (ffs_step tr o depth data st kf) (ffs_pstep data st kf).
Proof.
  destruct st as [[[result used] unprov] deps]. destruct kf as [k f]. unfold ffs_step, ffs_pstep. cbn [snd].
  destruct (ffs_lookup _ _ _ _) as [value conflict]. destruct value as [v|].
  - destruct (is_no_input f o); [apply vd_ret|].
    destruct conflict.
    + apply vd_bind_none; [apply vd_handle|]. intros _.
      exists (obind (pv f v) (fun p =>
                match p with
                | None => Some (result, used ++ f_all_aliases f, unprov, deps)
                | Some r => Some (sdict_set result (f_name f) r, used ++ f_all_aliases f, unprov, deps ++ f_dependencies f)
                end)).
      apply vd_bind; [apply vd_parse_value|]. intros [r|]; apply vd_ret.
    + match goal with |- vd _ ?q => change q with (obind (Some tt) (fun _ => q)) end.
      apply vd_bind; [apply vd_ret|]. intros _.
      apply vd_bind; [apply vd_parse_value|]. intros [r|]; apply vd_ret.
  - destruct (is_required f o).
    + apply vd_bind_none; [apply vd_handle|intros; eexists; apply vd_ret].
    + apply vd_ret.
Qed.

Definition ffs_add_pstep (used : list string) (addition : sdata) (kv : string * pyval) : option sdata :=
  let '(k, v) := kv in
  if str_in k used then Some addition
  else obind (padd k v) (fun a => Some (match a with Some x => sdict_set addition k x | None => addition end)).
Lemma vd_ffs_add_step used addition kv : vd (ffs_add_step C o used addition kv) (ffs_add_pstep used addition kv).
Proof.
  destruct kv as [k v]. unfold ffs_add_step, ffs_add_pstep. destruct (str_in k used); [apply vd_ret|].
  apply vd_bind; [apply vd_parse_addition|intros; apply vd_ret].
Qed.

Definition field_first_p (data0 : sdata) : option sdata :=
  obind (ffs_prepare_p data0) (fun data =>
    obind (ofold (ffs_pstep data) (c_fields C) ([], [], [], [])) (fun r =>
      let '(result, used, unprov, deps) := r in
      obind (deps_check_p deps result unprov) (fun _ =>
        match o_addition o with
        | None => Some result
        | Some _ => obind (ofold (ffs_add_pstep used) data []) (fun add => Some (sdict_update result add))
        end))).
Lemma vd_field_first data : vd (field_first_parse tr C o depth data) (field_first_p data).
Proof.
  unfold field_first_parse, field_first_p, ffs_loop, ffs_addition.
  apply vd_bind; [apply vd_ffs_prepare|]. intros data'.
  apply vd_bind; [apply vd_mfold; apply vd_ffs_step|]. intros [[[result used] unprov] deps].
  apply vd_bind; [apply vd_deps_guard|]. intros _.
  destruct (o_addition o); [|apply vd_ret].
  apply vd_bind; [apply vd_mfold; apply vd_ffs_add_step|]. intros; apply vd_ret.
Qed.

(* --- parse_data without its final raise_error --- *)
Definition params_p (data : sdata) : option unit :=
  let n := llen data in
  obind (match opt_pos (o_max_params o) with Some m => if m <? n then None else Some tt | None => Some tt end) (fun _ =>
         match opt_pos (o_min_params o) with Some m => if n <? m then None else Some tt | None => Some tt end).
Definition uses_dfs : bool := match o_data_first_search o with Some b => b | None => c_dfs C end.
Definition parse_data_p (data : sdata) : option sdata :=
  obind (params_p data) (fun _ => if uses_dfs then data_first_p data else field_first_p data).

Definition parse_body (data : sdata) : M sdata :=
  let n := llen data in
  do _ <- (match opt_pos (o_max_params o) with
           | Some m => if m <? n then handle_error o (parse_err KParamsExceed) false else ret tt
           | None => ret tt end);
  do _ <- (match opt_pos (o_min_params o) with
           | Some m => if n <? m then handle_error o (parse_err KParamsLack) false else ret tt
           | None => ret tt end);
  if uses_dfs then data_first_parse tr C o depth data else field_first_parse tr C o depth data.

Lemma parse_data_body data s :
  parse_data tr C o depth data s = (do r <- parse_body data; do _ <- raise_error; ret r) s.
Proof.
  unfold parse_data, parse_body, uses_dfs, mbind.
  match goal with |- (let '(_, _) := ?c s in _) = _ => destruct (c s) as [s1 [[]|e| | |]]; try reflexivity end.
  match goal with |- (let '(_, _) := ?c s1 in _) = _ => destruct (c s1) as [s2 [[]|e| | |]]; try reflexivity end.
Qed.

Lemma vd_parse_body data : vd (parse_body data) (parse_data_p data).
Proof.
  unfold parse_body, parse_data_p, params_p.
  match goal with |- vd _ (obind (obind ?a ?b) ?c) =>
    replace (obind (obind a b) c) with (obind a (fun x => obind (b x) c)) by (destruct a; reflexivity) end.
  apply vd_bind.
  { destruct (opt_pos (o_max_params o)) as [m|]; [|apply vd_ret]. destruct (m <? _); [apply vd_handle|apply vd_ret]. }
  intros _. apply vd_bind.
  { destruct (opt_pos (o_min_params o)) as [m|]; [|apply vd_ret]. destruct (_ <? m); [apply vd_handle|apply vd_ret]. }
  intros _. destruct uses_dfs; [apply vd_data_first|apply vd_field_first].
Qed.

(* what the caller of parse_data sees (init_dataclass runs it in a fresh context) *)
Theorem parse_data_verdict data :
  match parse_data_p data with
  | Some r => in_fresh (parse_data tr C o depth data) = Ok r
  | None => is_ok (in_fresh (parse_data tr C o depth data)) = false
  end.
Proof.
  pose proof (vd_fresh _ _ (vd_parse_body data)) as H.
  unfold in_fresh in *. rewrite parse_data_body. exact H.
Qed.

End Pure.
