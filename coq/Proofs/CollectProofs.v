(* Proofs/CollectProofs.v — C10: collecting errors changes neither the verdict nor the value.
   The fail-fast run and the collecting run of every construct of the parse calculus are related
   by the simulation of Proofs/Sim.v. *)
From UV Require Import Parse Monad Sim.
From Coq Require Import Lia.
Open Scope string_scope.
Open Scope list_scope.
Open Scope Z_scope.

Lemma sim_junk_l {A} (x : out A) (m : M A) : junk x -> sim (lift x) m.
Proof. intros Hj sf sc _. cbn. destruct (m sc). left. exact Hj. Qed.
Lemma sim_junk_r {A} (x : out A) (m : M A) : junk x -> sim m (lift x).
Proof. intros Hj sf sc _. cbn. destruct (m sf). right; left. exact Hj. Qed.
Lemma crel_with_flags of oc a b : crel of oc -> crel (with_flags of a b) (with_flags oc a b).
Proof.
  intros H. pose proof H as H0. unfold crel in H0. decompose [and] H0. clear H0.
  unfold with_flags.
  repeat match goal with Ho : o_override ?x = false |- context [o_override ?x] => rewrite Ho end.
  unfold crel. cbn. repeat split; try assumption; try congruence; destruct a, b; congruence.
Qed.

Section Collect.
Variable re : string -> string -> bool.
Variable D : decls.
Variable tr : options -> Z -> ty -> pyval -> M pyval.
Hypothesis Ksim : forall of oc d t v, crel of oc -> sim (tr of d t v) (tr oc d t v).
Hypothesis Kmono : forall o d t v, mono (tr o d t v).
Hypothesis Kclean : forall o d t v s s' w, tr o d t v s = (s', Ok w) -> nerr s' = nerr s.

Definition erel {A} (x y : entered A) : Prop :=
  match x, y with
  | EnterFailed _, EnterFailed _ => True
  | Entered rf, Entered rc => junk rf \/ junk rc \/ req rf rc
  | _, _ => False
  end.

Lemma depth_check_crel of oc d : crel of oc -> depth_check of d = depth_check oc d.
Proof. intros H. destruct H as (_ & _ & _ & Hd & _). unfold depth_check. rewrite Hd. reflexivity. Qed.

Lemma fresh_rel of oc d t v : crel of oc ->
  let rf := in_fresh (tr of d t v) in let rc := in_fresh (tr oc d t v) in
  junk rf \/ junk rc \/ req rf rc.
Proof.
  intros Hc. unfold in_fresh.
  pose proof (Ksim of oc d t v Hc no_errs no_errs (conj eq_refl eq_refl)) as Hs.
  pose proof (Kclean oc d t v no_errs) as Hcc. pose proof (Kclean of d t v no_errs) as Hcf.
  destruct (tr of d t v no_errs) as [sf' rf]. destruct (tr oc d t v no_errs) as [sc' rc]. cbn [snd].
  destruct Hs as [Hj|[Hj|[(_ & _ & Hr & _)|(Hdf & Hdc)]]]; auto.
  destruct rf as [a| | | |]; cbn; auto; [specialize (Hcf _ _ eq_refl); lia|].
  destruct rc as [b| | | |]; cbn; auto. specialize (Hcc _ _ eq_refl). lia.
Qed.

Lemma enter_rel of oc depth rt t v : crel of oc ->
  erel (enter_tr tr of depth rt t v) (enter_tr tr oc depth rt t v).
Proof.
  intros Hc. unfold enter_tr. rewrite (depth_check_crel of oc _ Hc).
  destruct (depth_check oc (new_depth depth rt)); cbn [erel]; auto; apply fresh_rel; exact Hc.
Qed.

(* ---- _parse_seq_args ---- *)
Lemma seq_items_mono o depth arg whole : forall items i acc, mono (seq_items tr o depth arg whole i items acc).
Proof.
  induction items as [|item rest IH]; intros i acc; cbn [seq_items]; [apply mono_ret|].
  destruct (enter_tr tr o depth (route_idx i) arg item) as [e|[r|e| | |]]; try apply mono_lift; try apply IH.
  destruct (o_invalid_items o); try apply IH. apply mono_bind; [apply mono_handle_error|intros; apply IH].
Qed.

Lemma seq_items_sim of oc depth arg whole : crel of oc -> forall items i acc,
  sim (seq_items tr of depth arg whole i items acc) (seq_items tr oc depth arg whole i items acc).
Proof.
  intros Hc. induction items as [|item rest IH]; intros i acc; cbn [seq_items]; [apply sim_ret|].
  pose proof (enter_rel of oc depth (route_idx i) arg item Hc) as He.
  assert (Hpol : o_invalid_items of = o_invalid_items oc) by (unfold crel in Hc; decompose [and] Hc; assumption).
  destruct (enter_tr tr of depth (route_idx i) arg item) as [ef|[rf|ef| | |]];
  destruct (enter_tr tr oc depth (route_idx i) arg item) as [ec|[rc|ec| | |]]; cbn [erel] in He;
    try contradiction; try (apply sim_junk_l; exact I); try (apply sim_junk_r; exact I);
    try apply sim_raise;
    try (destruct He as [[]|[[]|He]]; cbn in He; try contradiction).
  - subst rc. apply IH.
  - rewrite Hpol. destruct (o_invalid_items oc); try apply IH.
    apply sim_bind; [apply sim_handle_error; exact Hc|apply mono_handle_error|apply mono_handle_error|intros; apply IH|intros; apply seq_items_mono|intros; apply seq_items_mono].
Qed.


(* a tactic for the recurring shape: both runs branch on related `enter_tr` results *)
Ltac enter_cases He :=
  cbn [erel] in He; try contradiction;
  try (apply sim_junk_l; exact I); try (apply sim_junk_r; exact I); try apply sim_raise;
  try (destruct He as [[]|[[]|He]]; cbn in He; try contradiction).

Lemma crel_items of oc : crel of oc -> o_invalid_items of = o_invalid_items oc.
Proof. unfold crel. intros H. decompose [and] H. assumption. Qed.
Lemma crel_keys of oc : crel of oc -> o_invalid_keys of = o_invalid_keys oc.
Proof. unfold crel. intros H. decompose [and] H. assumption. Qed.
Lemma crel_values of oc : crel of oc -> o_invalid_values of = o_invalid_values oc.
Proof. unfold crel. intros H. decompose [and] H. assumption. Qed.

(* ---- _parse_tuple_args ---- *)
Lemma tuple_items_mono o depth vals : forall args i acc, mono (tuple_items tr o depth vals i args acc).
Proof.
  induction args as [|arg rest IH]; intros i acc; cbn [tuple_items]; [apply mono_ret|].
  destruct (List.length vals <=? i)%nat; [apply mono_bind; [apply mono_handle_error|intros; apply IH]|].
  destruct (depth_check o (new_depth depth (route_idx i))); try apply mono_lift;
  (destruct (nth_error vals i); [|apply mono_lift];
   destruct (enter_tr tr o depth (route_idx i) arg p) as [e|[r|e| | |]]; try apply mono_lift; try apply IH;
   destruct (o_invalid_items o); try apply IH; apply mono_bind; try apply mono_handle_error; intros; apply IH).
Qed.

Lemma tuple_items_sim of oc depth vals : crel of oc -> forall args i acc,
  sim (tuple_items tr of depth vals i args acc) (tuple_items tr oc depth vals i args acc).
Proof.
  intros Hc. induction args as [|arg rest IH]; intros i acc; cbn [tuple_items]; [apply sim_ret|].
  destruct (List.length vals <=? i)%nat.
  { apply sim_bind; [apply sim_handle_error; exact Hc|apply mono_handle_error|apply mono_handle_error|intros; apply IH|intros; apply tuple_items_mono|intros; apply tuple_items_mono]. }
  rewrite (depth_check_crel of oc _ Hc).
  destruct (depth_check oc (new_depth depth (route_idx i))); try apply sim_lift;
  (destruct (nth_error vals i) as [item|]; [|apply sim_lift];
   pose proof (enter_rel of oc depth (route_idx i) arg item Hc) as He;
   rewrite (crel_items of oc Hc);
   destruct (enter_tr tr of depth (route_idx i) arg item) as [ef|[rf|ef| | |]];
   destruct (enter_tr tr oc depth (route_idx i) arg item) as [ec|[rc|ec| | |]]; enter_cases He;
   [subst rc; apply IH|
    destruct (o_invalid_items oc); try apply IH;
    (apply sim_bind; [apply sim_handle_error; exact Hc|apply mono_handle_error|apply mono_handle_error|intros; apply IH|intros; apply tuple_items_mono|intros; apply tuple_items_mono])]).
Qed.

Lemma tuple_exceed_mono o : forall extra i, mono (tuple_exceed o i extra).
Proof. induction extra as [|x r IH]; intros i; cbn [tuple_exceed]; [apply mono_ret|apply mono_bind; [apply mono_handle_error|intros; apply IH]]. Qed.
Lemma tuple_exceed_sim of oc : crel of oc -> forall extra i, sim (tuple_exceed of i extra) (tuple_exceed oc i extra).
Proof.
  intros Hc. induction extra as [|x r IH]; intros i; cbn [tuple_exceed]; [apply sim_ret|].
  apply sim_bind; [apply sim_handle_error; exact Hc|apply mono_handle_error|apply mono_handle_error|intros; apply IH|intros; apply tuple_exceed_mono|intros; apply tuple_exceed_mono].
Qed.

Lemma parse_tuple_args_mono o depth args v : mono (parse_tuple_args tr o depth args v).
Proof.
  unfold parse_tuple_args. destruct v; try apply mono_lift.
  apply mono_bind; [destruct (_ && _); [apply tuple_exceed_mono|apply mono_ret]|intros].
  apply mono_bind; [apply tuple_items_mono|intros; apply mono_ret].
Qed.
Lemma parse_tuple_args_sim of oc depth args v : crel of oc ->
  sim (parse_tuple_args tr of depth args v) (parse_tuple_args tr oc depth args v).
Proof.
  intros Hc. unfold parse_tuple_args. destruct v; try apply sim_lift.
  assert (Ha : o_addition of = o_addition oc) by (unfold crel in Hc; decompose [and] Hc; assumption).
  assert (Hn : o_no_data_loss of = o_no_data_loss oc) by (unfold crel in Hc; decompose [and] Hc; assumption).
  rewrite Ha, Hn.
  apply sim_bind.
  - destruct (_ && _); [apply tuple_exceed_sim; exact Hc|apply sim_ret].
  - destruct (_ && _); [apply tuple_exceed_mono|apply mono_ret].
  - destruct (_ && _); [apply tuple_exceed_mono|apply mono_ret].
  - intros _. apply sim_bind; [apply tuple_items_sim; exact Hc|apply tuple_items_mono|apply tuple_items_mono|intros; apply sim_ret|intros; apply mono_ret|intros; apply mono_ret].
  - intros _. apply mono_bind; [apply tuple_items_mono|intros; apply mono_ret].
  - intros _. apply mono_bind; [apply tuple_items_mono|intros; apply mono_ret].
Qed.

(* ---- _parse_seq_args as a whole ---- *)
Lemma parse_seq_args_mono o depth arg v : mono (parse_seq_args tr o depth arg v).
Proof. unfold parse_seq_args. destruct (items_of v); [|apply mono_lift]. apply mono_bind; [apply seq_items_mono|intros; apply mono_ret]. Qed.
Lemma parse_seq_args_sim of oc depth arg v : crel of oc ->
  sim (parse_seq_args tr of depth arg v) (parse_seq_args tr oc depth arg v).
Proof.
  intros Hc. unfold parse_seq_args. destruct (items_of v); [|apply sim_lift].
  apply sim_bind; [apply seq_items_sim; exact Hc|apply seq_items_mono|apply seq_items_mono|intros; apply sim_ret|intros; apply mono_ret|intros; apply mono_ret].
Qed.

(* generic decomposition of monotonicity goals *)
Ltac mono_auto IH :=
  repeat first
    [ apply mono_ret | apply mono_lift | apply mono_handle_error | apply mono_raise_error
    | apply mono_collect_tmp | apply mono_clear_tmp | apply IH | apply Kmono
    | (apply mono_bind; [|intros])
    | match goal with |- mono (if ?b then _ else _) => destruct b end
    | match goal with |- mono (match ?x with _ => _ end) => destruct x end ].

(* ---- _parse_map_args ---- *)
Lemma map_items_mono o depth kt vt : forall items acc, mono (map_items tr o depth kt vt items acc).
Proof.
  induction items as [|[k0 v0] rest IH]; intros acc; cbn [map_items]; mono_auto IH.
Qed.


(* generic decomposition of simulation goals whose two sides are the same program run with
   related options *)
Ltac sim_step Hc IH IHm :=
  first
    [ apply sim_ret | apply sim_lift | apply sim_raise
    | (apply sim_handle_error; exact Hc) | apply sim_raise_error | apply sim_collect_tmp | apply sim_clear_tmp
    | (apply sim_junk_l; exact I) | (apply sim_junk_r; exact I)
    | apply IH | (apply Ksim; exact Hc)
    | (apply sim_bind; [ | mono_auto IHm | mono_auto IHm | intros | intros; mono_auto IHm | intros; mono_auto IHm ])
    | match goal with
      | |- sim (match enter_tr tr ?of ?d ?rt ?t ?v with _ => _ end) (match enter_tr tr ?oc ?d ?rt ?t ?v with _ => _ end) =>
          let He := fresh "He" in
          pose proof (enter_rel of oc d rt t v Hc) as He;
          destruct (enter_tr tr of d rt t v) as [?|[?|?| | |]];
          destruct (enter_tr tr oc d rt t v) as [?|[?|?| | |]]; enter_cases He; try subst
      end
    | match goal with |- sim (if ?b then _ else _) (if ?b then _ else _) => destruct b end
    | match goal with |- sim (match ?x with _ => _ end) (match ?x with _ => _ end) => destruct x end ].
Ltac sim_auto Hc IH IHm := repeat sim_step Hc IH IHm.

Lemma map_items_sim of oc depth kt vt : crel of oc -> forall items acc,
  sim (map_items tr of depth kt vt items acc) (map_items tr oc depth kt vt items acc).
Proof.
  intros Hc. induction items as [|[k0 v0] rest IH]; intros acc; cbn [map_items]; [apply sim_ret|].
  rewrite (crel_keys of oc Hc), (crel_values of oc Hc).
  pose proof (fun o => map_items_mono o depth kt vt rest) as IHm.
  sim_auto Hc IH IHm.
Qed.


Lemma parse_map_args_mono o depth args v : mono (parse_map_args tr o depth args v).
Proof. unfold parse_map_args. pose proof (fun kt vt items => map_items_mono o depth kt vt items) as IHm. mono_auto IHm. Qed.
Lemma parse_map_args_sim of oc depth args v : crel of oc ->
  sim (parse_map_args tr of depth args v) (parse_map_args tr oc depth args v).
Proof.
  intros Hc. unfold parse_map_args. destruct args as [|kt rest]; [apply sim_lift|].
  destruct (dict_items v); [|apply sim_lift].
  apply sim_bind; [apply map_items_sim; exact Hc|apply map_items_mono|apply map_items_mono|intros; apply sim_ret|intros; apply mono_ret|intros; apply mono_ret].
Qed.

(* ---- validators: pure, identical in both runs ---- *)
Lemma run_validators_mono o vals : forall v, mono (run_validators re o vals v).
Proof. induction vals as [|[[name bound] lax] rest IH]; intros v; cbn [run_validators]; mono_auto IH. Qed.
Lemma run_validators_sim of oc vals : crel of oc -> forall v,
  sim (run_validators re of vals v) (run_validators re oc vals v).
Proof.
  intros Hc. induction vals as [|[[name bound] lax] rest IH]; intros v; cbn [run_validators]; [apply sim_ret|].
  pose proof (fun o => run_validators_mono o rest) as IHm. sim_auto Hc IH IHm.
Qed.

(* ---- contains ---- *)
Lemma count_contains_rel of oc depth ct : crel of oc -> forall items i n,
  junk (count_contains tr of depth ct i items n) \/ junk (count_contains tr oc depth ct i items n) \/
  req (count_contains tr of depth ct i items n) (count_contains tr oc depth ct i items n).
Proof.
  intros Hc. induction items as [|item rest IH]; intros i n; cbn [count_contains]; [right; right; reflexivity|].
  pose proof (enter_rel of oc depth (route_idx i) ct item Hc) as He.
  destruct (enter_tr tr of depth (route_idx i) ct item) as [ef|[rf|ef| | |]];
  destruct (enter_tr tr oc depth (route_idx i) ct item) as [ec|[rc|ec| | |]]; cbn [erel] in He;
    try contradiction; cbn; auto; try (destruct He as [[]|[[]|He]]; cbn in He; try contradiction); auto.
Qed.

Lemma parse_contains_mono o depth ct mn mx v : mono (parse_contains tr o depth ct mn mx v).
Proof. unfold parse_contains. mono_auto I. Qed.
Lemma parse_contains_sim of oc depth ct mn mx v : crel of oc ->
  sim (parse_contains tr of depth ct mn mx v) (parse_contains tr oc depth ct mn mx v).
Proof.
  intros Hc. unfold parse_contains.
  apply sim_bind; [apply sim_lift|apply mono_lift|apply mono_lift| | |]; try (intros; mono_auto I).
  intros items.
  apply sim_bind; [apply sim_lift_rel; apply count_contains_rel; exact Hc|apply mono_lift|apply mono_lift| | |]; try (intros; mono_auto I).
  intros n. sim_auto Hc I I.
Qed.

(* ---- Rule.parse ---- *)
Lemma rule_parse_mono o depth origin args ell vals ct mn mx v :
  mono (rule_parse re tr o depth origin args ell vals ct mn mx v).
Proof.
  unfold rule_parse. apply mono_bind.
  - destruct origin; [|apply mono_ret]. eapply mono_ext; [apply mcatch_mtry|].
    apply mono_mtry; [apply Kmono|intros; apply mono_ret|intros; mono_auto I].
  - intros v1.
    assert (Hm : mono
      (do v2 <- match args_parser_of origin args ell with
                | APSeq => match args with
                           | [] => ret v1
                           | arg :: _ => do r <- parse_seq_args tr o depth arg v1;
                                         lift (rebuild_origin match origin with Some ot => base_prim 8 ot | None => None end r)
                           end
                | APTuple => parse_tuple_args tr o depth args v1
                | APMap => parse_map_args tr o depth args v1
                | APNone => ret v1
                end;
       do v3 <- (if o_ignore_constraints o then ret v2
                 else do w <- run_validators re o vals v2;
                      match ct with Some ct0 => parse_contains tr o depth ct0 mn mx w | None => ret w end);
       do _ <- raise_error; ret v3)).
    { apply mono_bind.
      - destruct (args_parser_of origin args ell); try apply mono_ret.
        + destruct args; [apply mono_ret|]. apply mono_bind; [apply parse_seq_args_mono|intros; apply mono_lift].
        + apply parse_tuple_args_mono.
        + apply parse_map_args_mono.
      - intros v2. apply mono_bind; [|intros; mono_auto I].
        destruct (o_ignore_constraints o); [apply mono_ret|].
        apply mono_bind; [apply run_validators_mono|intros; destruct ct; [apply parse_contains_mono|apply mono_ret]]. }
    destruct origin; [destruct v1|]; try exact Hm. apply mono_ret.
Qed.

Lemma rule_parse_sim of oc depth origin args ell vals ct mn mx v : crel of oc ->
  sim (rule_parse re tr of depth origin args ell vals ct mn mx v)
      (rule_parse re tr oc depth origin args ell vals ct mn mx v).
Proof.
  intros Hc. unfold rule_parse.
  assert (Hic : o_ignore_constraints of = o_ignore_constraints oc) by (unfold crel in Hc; decompose [and] Hc; assumption).
  apply sim_bind.
  - destruct origin as [ot|]; [|apply sim_ret].
    eapply sim_ext; [apply mcatch_mtry|apply mcatch_mtry|].
    apply sim_mtry; try apply Kmono; try (intros; apply sim_ret); try (intros; apply mono_ret); try (apply Ksim; exact Hc);
      intros; try (mono_auto I).
    apply sim_bind; [apply sim_handle_error; exact Hc|apply mono_handle_error|apply mono_handle_error|intros; apply sim_ret|intros; apply mono_ret|intros; apply mono_ret].
  - destruct origin; [|apply mono_ret]. eapply mono_ext; [apply mcatch_mtry|].
    apply mono_mtry; [apply Kmono|intros; apply mono_ret|intros; mono_auto I].
  - destruct origin; [|apply mono_ret]. eapply mono_ext; [apply mcatch_mtry|].
    apply mono_mtry; [apply Kmono|intros; apply mono_ret|intros; mono_auto I].
  - intros v1.
    assert (Hm : sim
      (do v2 <- match args_parser_of origin args ell with
                | APSeq => match args with
                           | [] => ret v1
                           | arg :: _ => do r <- parse_seq_args tr of depth arg v1;
                                         lift (rebuild_origin match origin with Some ot => base_prim 8 ot | None => None end r)
                           end
                | APTuple => parse_tuple_args tr of depth args v1
                | APMap => parse_map_args tr of depth args v1
                | APNone => ret v1
                end;
       do v3 <- (if o_ignore_constraints of then ret v2
                 else do w <- run_validators re of vals v2;
                      match ct with Some ct0 => parse_contains tr of depth ct0 mn mx w | None => ret w end);
       do _ <- raise_error; ret v3)
      (do v2 <- match args_parser_of origin args ell with
                | APSeq => match args with
                           | [] => ret v1
                           | arg :: _ => do r <- parse_seq_args tr oc depth arg v1;
                                         lift (rebuild_origin match origin with Some ot => base_prim 8 ot | None => None end r)
                           end
                | APTuple => parse_tuple_args tr oc depth args v1
                | APMap => parse_map_args tr oc depth args v1
                | APNone => ret v1
                end;
       do v3 <- (if o_ignore_constraints oc then ret v2
                 else do w <- run_validators re oc vals v2;
                      match ct with Some ct0 => parse_contains tr oc depth ct0 mn mx w | None => ret w end);
       do _ <- raise_error; ret v3)).
    { rewrite Hic. apply sim_bind.
      - destruct (args_parser_of origin args ell); try apply sim_ret.
        + destruct args; [apply sim_ret|].
          apply sim_bind; [apply parse_seq_args_sim; exact Hc|apply parse_seq_args_mono|apply parse_seq_args_mono|intros; apply sim_lift|intros; apply mono_lift|intros; apply mono_lift].
        + apply parse_tuple_args_sim; exact Hc.
        + apply parse_map_args_sim; exact Hc.
      - destruct (args_parser_of origin args ell); try apply mono_ret;
          [destruct args; [apply mono_ret|apply mono_bind; [apply parse_seq_args_mono|intros; apply mono_lift]]
          |apply parse_tuple_args_mono|apply parse_map_args_mono].
      - destruct (args_parser_of origin args ell); try apply mono_ret;
          [destruct args; [apply mono_ret|apply mono_bind; [apply parse_seq_args_mono|intros; apply mono_lift]]
          |apply parse_tuple_args_mono|apply parse_map_args_mono].
      - intros v2. apply sim_bind.
        + destruct (o_ignore_constraints oc); [apply sim_ret|].
          apply sim_bind; [apply run_validators_sim; exact Hc|apply run_validators_mono|apply run_validators_mono| | |];
            intros; destruct ct; try apply sim_ret; try apply mono_ret; try apply parse_contains_mono.
          apply parse_contains_sim; exact Hc.
        + destruct (o_ignore_constraints oc); [apply mono_ret|].
          apply mono_bind; [apply run_validators_mono|intros; destruct ct; [apply parse_contains_mono|apply mono_ret]].
        + destruct (o_ignore_constraints oc); [apply mono_ret|].
          apply mono_bind; [apply run_validators_mono|intros; destruct ct; [apply parse_contains_mono|apply mono_ret]].
        + intros v3. sim_auto Hc I I.
        + intros; mono_auto I.
        + intros; mono_auto I.
      - intros v2. apply mono_bind; [|intros; mono_auto I].
        destruct (o_ignore_constraints oc); [apply mono_ret|].
        apply mono_bind; [apply run_validators_mono|intros; destruct ct; [apply parse_contains_mono|apply mono_ret]].
      - intros v2. apply mono_bind; [|intros; mono_auto I].
        destruct (o_ignore_constraints oc); [apply mono_ret|].
        apply mono_bind; [apply run_validators_mono|intros; destruct ct; [apply parse_contains_mono|apply mono_ret]]. }
    destruct origin; [destruct v1|]; try exact Hm. apply sim_ret.
  - intros v1. pose proof (rule_parse_mono of depth origin args ell vals ct mn mx v) as Hx.
    (* the continuation alone is monotone: reuse the decomposition of rule_parse_mono *)
    clear Hx. destruct origin; [destruct v1|]; try apply mono_ret;
    (apply mono_bind;
     [destruct (args_parser_of _ args ell); try apply mono_ret;
        [destruct args; [apply mono_ret|apply mono_bind; [apply parse_seq_args_mono|intros; apply mono_lift]]
        |apply parse_tuple_args_mono|apply parse_map_args_mono]
     |intros v2; apply mono_bind; [|intros; mono_auto I];
      destruct (o_ignore_constraints of); [apply mono_ret|];
      apply mono_bind; [apply run_validators_mono|intros; destruct ct; [apply parse_contains_mono|apply mono_ret]]]).
  - intros v1. destruct origin; [destruct v1|]; try apply mono_ret;
    (apply mono_bind;
     [destruct (args_parser_of _ args ell); try apply mono_ret;
        [destruct args; [apply mono_ret|apply mono_bind; [apply parse_seq_args_mono|intros; apply mono_lift]]
        |apply parse_tuple_args_mono|apply parse_map_args_mono]
     |intros v2; apply mono_bind; [|intros; mono_auto I];
      destruct (o_ignore_constraints oc); [apply mono_ret|];
      apply mono_bind; [apply run_validators_mono|intros; destruct ct; [apply parse_contains_mono|apply mono_ret]]]).
Qed.


(* ---- logical types ---- *)
Lemma or_stage_mono o depth : forall args v, mono (or_stage tr o depth args v).
Proof. induction args as [|con rest IH]; intros v; cbn [or_stage]; mono_auto IH. Qed.
Lemma or_stage_sim of oc depth : crel of oc -> forall args v, sim (or_stage tr of depth args v) (or_stage tr oc depth args v).
Proof.
  intros Hc. induction args as [|con rest IH]; intros v; cbn [or_stage]; [apply sim_ret|].
  pose proof (fun o => or_stage_mono o depth rest) as IHm. sim_auto Hc IH IHm.
Qed.
(* a union stage never touches the recorded errors *)
Lemma or_stage_errors o depth : forall args v s, nerr (fst (or_stage tr o depth args v s)) = nerr s.
Proof.
  induction args as [|con rest IH]; intros v s; cbn [or_stage]; [reflexivity|].
  destruct (enter_tr tr o depth true con v) as [e|[r|e| | |]]; try reflexivity.
  unfold mbind, collect_tmp_error. rewrite IH. reflexivity.
Qed.

Lemma and_loop_eq o depth con rest v s :
  and_loop tr o depth (con :: rest) v s =
  mtry (tr o depth con v) (fun v' => and_loop tr o depth rest v')
       (fun e => do _ <- handle_error o (as_parse_error e) false; ret v) s.
Proof.
  cbn [and_loop]. unfold mtry. destruct (tr o depth con v s) as [s1 [v'|e| | |]]; reflexivity.
Qed.
Lemma and_loop_mono o depth : forall args v, mono (and_loop tr o depth args v).
Proof.
  induction args as [|con rest IH]; intros v; [cbn; apply mono_ret|].
  eapply mono_ext; [intros; apply and_loop_eq|]. apply mono_mtry; [apply Kmono|intros; apply IH|intros; mono_auto I].
Qed.
Lemma and_loop_sim of oc depth : crel of oc -> forall args v, sim (and_loop tr of depth args v) (and_loop tr oc depth args v).
Proof.
  intros Hc. induction args as [|con rest IH]; intros v; [cbn; apply sim_ret|].
  eapply sim_ext; [intros; apply and_loop_eq|intros; apply and_loop_eq|].
  apply sim_mtry; try apply Kmono; try (apply Ksim; exact Hc); try (intros; apply IH); try (intros; apply and_loop_mono);
    try (intros; mono_auto I).
  intros x x'. apply sim_bind; [apply sim_handle_error; exact Hc|apply mono_handle_error|apply mono_handle_error|intros; apply sim_ret|intros; apply mono_ret|intros; apply mono_ret].
Qed.

Definition xor_again (o : options) (depth : Z) (rest : list ty) (v res : pyval) : M (pyval * bool) :=
  mtry (handle_error o (parse_err KOneOf) false) (fun _ => ret (res, false))
       (fun e => do _ <- collect_tmp_error e; xor_loop tr o depth rest v res true).
Lemma xor_again_eq o depth rest v res s :
  (let '(s1, hr) := handle_error o (parse_err KOneOf) false s in
   match hr with
   | Ok _ => (s1, Ok (res, false))
   | Raise e => let '(s2, _) := collect_tmp_error e s1 in xor_loop tr o depth rest v res true s2
   | Diverge => (s1, Diverge) | OutOfFuel => (s1, OutOfFuel) | Unmodelled => (s1, Unmodelled)
   end) = xor_again o depth rest v res s.
Proof.
  unfold xor_again, mtry. destruct (handle_error o (parse_err KOneOf) false s) as [s1 [[]|e| | |]]; try reflexivity.
Qed.

Lemma xor_loop_mono o depth : forall args v res xor, mono (xor_loop tr o depth args v res xor).
Proof.
  induction args as [|con rest IH]; intros v res xor; cbn [xor_loop]; [apply mono_ret|].
  destruct (enter_tr tr o depth true con v) as [e|[r|e| | |]]; try apply mono_lift.
  - destruct (negb xor); [apply IH|].
    eapply mono_ext; [intros; apply xor_again_eq|]. unfold xor_again.
    apply mono_mtry; [apply mono_handle_error|intros; apply mono_ret|intros; mono_auto IH].
  - mono_auto IH.
Qed.

Lemma xor_loop_sim of oc depth : crel of oc -> forall args v res xor,
  sim (xor_loop tr of depth args v res xor) (xor_loop tr oc depth args v res xor).
Proof.
  intros Hc. induction args as [|con rest IH]; intros v res xor; cbn [xor_loop]; [apply sim_ret|].
  pose proof (enter_rel of oc depth true con v Hc) as He.
  pose proof (fun o => xor_loop_mono o depth rest) as IHm.
  destruct (enter_tr tr of depth true con v) as [ef|[rf|ef| | |]];
  destruct (enter_tr tr oc depth true con v) as [ec|[rc|ec| | |]]; enter_cases He.
  - subst rc. destruct (negb xor); [apply IH|].
    eapply sim_ext; [intros; apply xor_again_eq|intros; apply xor_again_eq|]. unfold xor_again.
    apply sim_mtry; try apply mono_handle_error; try (apply sim_handle_error; exact Hc);
      try (intros; apply sim_ret); try (intros; apply mono_ret); try (intros; mono_auto IHm).
    intros x x'. apply sim_bind; [apply sim_collect_tmp|apply mono_collect_tmp|apply mono_collect_tmp|intros; apply IH|intros; apply IHm|intros; apply IHm].
  - apply sim_bind; [apply sim_collect_tmp|apply mono_collect_tmp|apply mono_collect_tmp|intros; apply IH|intros; apply IHm|intros; apply IHm].
Qed.

Definition not_accepted (o : options) (v : pyval) : M pyval :=
  mtry (handle_error o (parse_err KNegate) false) (fun _ => do _ <- raise_error; ret v) (fun _ => do _ <- raise_error; ret v).
Lemma not_accepted_eq o v s :
  (let '(s1, _) := handle_error o (parse_err KNegate) false s in (do _ <- raise_error; ret v) s1) = not_accepted o v s.
Proof.
  unfold not_accepted, mtry. unfold handle_error.
  destruct (false || negb (o_collect_errors o)); [reflexivity|].
  destruct (o_max_errors o) as [m|]; [destruct (m <=? _)|]; reflexivity.
Qed.

Lemma logical_parse_mono o depth op args v : mono (logical_parse tr o depth op args v).
Proof.
  destruct op; cbn [logical_parse].
  - apply mono_bind; [apply and_loop_mono|intros; mono_auto I].
  - pose proof (fun o' => or_stage_mono o' depth args v) as Hs. mono_auto Hs.
  - destruct (existsb _ args); [apply mono_ret|].
    apply mono_bind; [apply xor_loop_mono|]. intros [v' xor]. mono_auto I.
  - destruct args as [|con rest]; [mono_auto I|].
    destruct (enter_tr tr o depth true con v) as [e|[r|e| | |]]; try apply mono_lift; try (mono_auto I).
    eapply mono_ext; [intros; apply not_accepted_eq|]. unfold not_accepted.
    apply mono_mtry; [apply mono_handle_error|intros; mono_auto I|intros; mono_auto I].
Qed.

Lemma crel_flags of oc : crel of oc ->
  o_no_data_loss of = o_no_data_loss oc /\ o_no_explicit_cast of = o_no_explicit_cast oc.
Proof. unfold crel. intros H. decompose [and] H. auto. Qed.

Lemma logical_parse_sim of oc depth op args v : crel of oc ->
  sim (logical_parse tr of depth op args v) (logical_parse tr oc depth op args v).
Proof.
  intros Hc. destruct op; cbn [logical_parse].
  - apply sim_bind; [apply and_loop_sim; exact Hc|apply and_loop_mono|apply and_loop_mono| | |]; try (intros; mono_auto I).
    intros w. sim_auto Hc I I.
  - destruct (crel_flags of oc Hc) as [-> ->].
    destruct (existsb _ args); [apply sim_ret|].
    pose proof (fun o' => or_stage_mono o' depth args v) as Hs.
    apply sim_bind.
    + destruct (_ || _); [apply or_stage_sim; apply crel_with_flags; exact Hc|apply sim_ret].
    + destruct (_ || _); mono_auto Hs.
    + destruct (_ || _); mono_auto Hs.
    + intros [r|]; [apply sim_ret|].
      apply sim_bind.
      * destruct (_ && _); [apply or_stage_sim; apply crel_with_flags; exact Hc|apply sim_ret].
      * destruct (_ && _); mono_auto Hs.
      * destruct (_ && _); mono_auto Hs.
      * intros [r|]; [apply sim_ret|].
        apply sim_bind; [apply or_stage_sim; exact Hc|mono_auto Hs|mono_auto Hs| | |].
        -- intros [r|]; [apply sim_ret|]. sim_auto Hc I I.
        -- intros a. mono_auto Hs.
        -- intros a. mono_auto Hs.
      * intros a. mono_auto Hs.
      * intros a. mono_auto Hs.
    + intros a. mono_auto Hs.
    + intros a. mono_auto Hs.
  - destruct (existsb _ args); [apply sim_ret|].
    apply sim_bind; [apply xor_loop_sim; exact Hc|apply xor_loop_mono|apply xor_loop_mono| | |].
    + intros [v' xor]. sim_auto Hc I I.
    + intros [v' xor]. mono_auto I.
    + intros [v' xor]. mono_auto I.
  - destruct args as [|con rest]; [sim_auto Hc I I|].
    pose proof (enter_rel of oc depth true con v Hc) as He.
    destruct (enter_tr tr of depth true con v) as [ef|[rf|ef| | |]];
    destruct (enter_tr tr oc depth true con v) as [ec|[rc|ec| | |]]; enter_cases He.
    + eapply sim_ext; [intros; apply not_accepted_eq|intros; apply not_accepted_eq|]. unfold not_accepted.
      apply sim_mtry; try apply mono_handle_error; try (apply sim_handle_error; exact Hc); intros; try (mono_auto I); sim_auto Hc I I.
    + sim_auto Hc I I.
Qed.


(* ---- a successful parse leaves the recorded errors as they were ---- *)
Lemma nerr_zero s : e_errors s = [] -> nerr s = 0%nat.
Proof. unfold nerr. intros ->. reflexivity. Qed.

Lemma ends_with_raise_error {A} (m : M A) (x : A) s s' w :
  (do _ <- m; do _ <- raise_error; ret x) s = (s', Ok w) -> nerr s' = 0%nat.
Proof.
  intros H. apply mbind_ok in H. destruct H as (s1 & a & _ & H).
  apply mbind_ok in H. destruct H as (s2 & [] & Hr & H). injection H as <- _.
  apply raise_error_ok in Hr. destruct Hr as (-> & He & _). apply nerr_zero. exact He.
Qed.

Lemma clean_of_mono {A} (m : M A) s s' w : mono m -> m s = (s', Ok w) -> nerr s' = 0%nat -> nerr s' = nerr s.
Proof. intros Hm H Hz. specialize (Hm s). rewrite H in Hm. cbn [fst] in Hm. lia. Qed.

Lemma rule_parse_clean o depth origin args ell vals ct mn mx v s s' w :
  rule_parse re tr o depth origin args ell vals ct mn mx v s = (s', Ok w) -> nerr s' = nerr s.
Proof.
  intros H. pose proof H as H0. unfold rule_parse in H.
  apply mbind_ok in H. destruct H as (s1 & v1 & Ho & H).
  assert (Hs1 : nerr s1 = nerr s).
  { destruct origin as [ot|]; [|injection Ho as <- _; reflexivity].
    unfold mcatch in Ho. destruct (tr o depth ot v s) as [s0 [a|e| | |]] eqn:Et; try discriminate Ho.
    all: try (injection Ho as <- _; eapply Kclean; exact Et).
    all: try (unfold mbind, handle_error in Ho; cbn [orb] in Ho; discriminate Ho). }
  assert (Hlate : forall m : M pyval,
            (do v2 <- m; do v3 <- (if o_ignore_constraints o then ret v2
                                    else do w0 <- run_validators re o vals v2;
                                         match ct with Some c => parse_contains tr o depth c mn mx w0 | None => ret w0 end);
             do _ <- raise_error; ret v3) s1 = (s', Ok w) -> nerr s' = 0%nat).
  { intros m Hm. apply mbind_ok in Hm. destruct Hm as (s2 & v2 & _ & Hm).
    apply mbind_ok in Hm. destruct Hm as (s3 & v3 & _ & Hm).
    apply mbind_ok in Hm. destruct Hm as (s4 & [] & Hr & Hm). injection Hm as <- _.
    apply raise_error_ok in Hr. destruct Hr as (-> & He & _). apply nerr_zero. exact He. }
  destruct origin as [ot|]; [destruct v1|];
    try (eapply clean_of_mono; [apply rule_parse_mono|exact H0|eapply Hlate; exact H]).
  injection H as <- _. exact Hs1.
Qed.

Lemma logical_parse_clean o depth op args v s s' w :
  logical_parse tr o depth op args v s = (s', Ok w) -> nerr s' = nerr s.
Proof.
  intros H. pose proof H as H0. destruct op; cbn [logical_parse] in H.
  - eapply clean_of_mono; [apply logical_parse_mono|exact H0|].
    apply mbind_ok in H. destruct H as (s1 & w0 & _ & H). apply mbind_ok in H. destruct H as (s2 & [] & Hr & H).
    injection H as <- _. apply raise_error_ok in Hr. destruct Hr as (-> & He & _). apply nerr_zero; exact He.
  - destruct (existsb _ args); [injection H as <- _; reflexivity|].
    apply mbind_ok in H. destruct H as (s1 & r1 & H1 & H).
    assert (E1 : nerr s1 = nerr s).
    { destruct (_ || _); [|injection H1 as <- _; reflexivity].
      pose proof (or_stage_errors (with_flags o (Some true) (Some true)) depth args v s) as Hx. rewrite H1 in Hx. exact Hx. }
    destruct r1 as [r|]; [injection H as <- _; exact E1|].
    apply mbind_ok in H. destruct H as (s2 & r2 & H2 & H).
    assert (E2 : nerr s2 = nerr s1).
    { destruct (_ && _); [|injection H2 as <- _; reflexivity].
      pose proof (or_stage_errors (with_flags o (Some true) None) depth args v s1) as Hx. rewrite H2 in Hx. exact Hx. }
    destruct r2 as [r|]; [injection H as <- _; lia|].
    apply mbind_ok in H. destruct H as (s3 & r3 & H3 & H).
    assert (E3 : nerr s3 = nerr s2).
    { pose proof (or_stage_errors o depth args v s2) as Hx. rewrite H3 in Hx. exact Hx. }
    destruct r3 as [r|]; [injection H as <- _; lia|].
    apply mbind_ok in H. destruct H as (s4 & [] & Hr & H). injection H as <- _.
    apply raise_error_state in Hr. subst. lia.
  - destruct (existsb _ args); [injection H as <- _; reflexivity|].
    eapply clean_of_mono; [apply logical_parse_mono|exact H0|].
    apply mbind_ok in H. destruct H as (s1 & [v' xor] & _ & H).
    apply mbind_ok in H. destruct H as (s2 & [] & _ & H).
    apply mbind_ok in H. destruct H as (s3 & [] & Hr & H). injection H as <- _.
    apply raise_error_ok in Hr. destruct Hr as (-> & He & _). apply nerr_zero; exact He.
  - eapply clean_of_mono; [apply logical_parse_mono|exact H0|].
    destruct args as [|con rest].
    + apply mbind_ok in H. destruct H as (s1 & [] & Hr & H). injection H as <- _.
      apply raise_error_ok in Hr. destruct Hr as (-> & He & _). apply nerr_zero; exact He.
    + destruct (enter_tr tr o depth true con v) as [e|[r|e| | |]]; try discriminate H.
      * destruct (handle_error o (parse_err KNegate) false s) as [s1 r1].
        apply mbind_ok in H. destruct H as (s2 & [] & Hr & H). injection H as <- _.
        apply raise_error_ok in Hr. destruct Hr as (-> & He & _). apply nerr_zero; exact He.
      * apply mbind_ok in H. destruct H as (s2 & [] & Hr & H). injection H as <- _.
        apply raise_error_ok in Hr. destruct Hr as (-> & He & _). apply nerr_zero; exact He.
Qed.

(* nested data classes are parsed with their own options: the two runs do the very same thing *)
Lemma transform_dataclass_same of oc c depth v : crel of oc ->
  transform_dataclass D tr c of depth v = transform_dataclass D tr c oc depth v.
Proof.
  intros Hc. unfold transform_dataclass. destruct (D c) as [C|]; [|reflexivity].
  destruct (crel_flags of oc Hc) as [E1 E2]. rewrite E1, E2.
  assert (Hn : forall C0, nested_options C0 of = nested_options C0 oc).
  { intros C0. unfold nested_options. unfold crel in Hc. decompose [and] Hc.
    repeat match goal with Ho : o_override ?x = false |- context [o_override ?x] => rewrite Ho end.
    rewrite !andb_false_r. reflexivity. }
  assert (Hi : forall d, init_dataclass tr c C of depth d = init_dataclass tr c C oc depth d).
  { intros d. unfold init_dataclass. rewrite Hn. reflexivity. }
  match goal with |- bind ?x _ = bind ?x _ => destruct x as [d| | | |]; cbn [bind]; try reflexivity end.
  destruct d; try apply Hi. destruct (Nat.eqb c c0); [reflexivity|apply Hi].
Qed.

(* ---- one unfolding of the knot: all three invariants ---- *)
Lemma transform_step_mono o depth t v : mono (transform_step re D tr o depth t v).
Proof.
  destruct t; cbn [transform_step].
  - mono_auto I.
  - apply mono_lift.
  - apply rule_parse_mono.
  - apply logical_parse_mono.
  - destruct v; try apply mono_lift. destruct (Nat.eqb c c0); [apply mono_ret|apply mono_lift].
Qed.

Lemma transform_step_clean o depth t v s s' w :
  transform_step re D tr o depth t v s = (s', Ok w) -> nerr s' = nerr s.
Proof.
  destruct t; cbn [transform_step]; intros H.
  - apply mbind_ok in H. destruct H as (s1 & [] & Hr & H). injection H as <- _. apply raise_error_state in Hr. subst. reflexivity.
  - injection H as <- _. reflexivity.
  - eapply rule_parse_clean; exact H.
  - eapply logical_parse_clean; exact H.
  - destruct v; try (injection H as <- _; reflexivity).
    destruct (Nat.eqb c c0); injection H as <- _; reflexivity.
Qed.

Lemma transform_step_sim of oc depth t v : crel of oc ->
  sim (transform_step re D tr of depth t v) (transform_step re D tr oc depth t v).
Proof.
  intros Hc. destruct t; cbn [transform_step].
  - sim_auto Hc I I.
  - destruct (crel_flags of oc Hc) as [-> ->].
    assert (o_unresolved of = o_unresolved oc) as -> by (unfold crel in Hc; decompose [and] Hc; assumption).
    apply sim_lift.
  - apply rule_parse_sim; exact Hc.
  - apply logical_parse_sim; exact Hc.
  - rewrite (transform_dataclass_same of oc c depth v Hc).
    destruct v; try apply sim_lift. destruct (Nat.eqb c c0); [apply sim_ret|apply sim_lift].
Qed.

End Collect.

(* ---- data-class field parsing under related options ---- *)
Section Fields.
Variable re : string -> string -> bool.
Variable D : decls.
Variable tr : options -> Z -> ty -> pyval -> M pyval.
Hypothesis Ksim : forall of oc d t v, crel of oc -> sim (tr of d t v) (tr oc d t v).
Hypothesis Kmono : forall o d t v, mono (tr o d t v).
Hypothesis Kclean : forall o d t v s s' w, tr o d t v s = (s', Ok w) -> nerr s' = nerr s.

Ltac mono_auto' IH :=
  repeat first
    [ apply mono_ret | apply mono_lift | apply mono_handle_error | apply mono_raise_error
    | apply mono_collect_tmp | apply mono_clear_tmp | apply IH | apply Kmono
    | (apply mono_bind; [|intros])
    | match goal with |- mono (if ?b then _ else _) => destruct b end
    | match goal with |- mono (match ?x with _ => _ end) => destruct x end ].

(* the field predicates do not read collect_errors / max_errors *)
Lemma crel_field_preds of oc f : crel of oc ->
  is_required f of = is_required f oc /\ is_no_input f of = is_no_input f oc /\
  get_default f of = get_default f oc /\ get_on_error f of = get_on_error f oc.
Proof.
  intros Hc. unfold crel in Hc. decompose [and] Hc.
  unfold is_required, is_no_input, get_default, get_on_error, always_no_input, flag_applies.
  repeat match goal with H : ?p of = ?p oc |- _ => rewrite H; clear H end. auto.
Qed.

Lemma parse_value_mono o depth f v : mono (parse_value tr o depth f v).
Proof.
  unfold parse_value. destruct (f_type f); [|apply mono_ret].
  destruct (enter_tr tr o depth (route_str (f_name f)) t v) as [e|[r|e| | |]]; mono_auto' I.
Qed.

Lemma parse_value_sim of oc depth f v : crel of oc -> sim (parse_value tr of depth f v) (parse_value tr oc depth f v).
Proof.
  intros Hc. unfold parse_value. destruct (f_type f) as [t|]; [|apply sim_ret].
  destruct (crel_field_preds of oc f Hc) as (E1 & E2 & E3 & E4). rewrite E1, E3, E4.
  pose proof (enter_rel tr Ksim Kclean of oc depth (route_str (f_name f)) t v Hc) as He.
  destruct (enter_tr tr of depth (route_str (f_name f)) t v) as [ef|[rf|ef| | |]];
  destruct (enter_tr tr oc depth (route_str (f_name f)) t v) as [ec|[rc|ec| | |]]; cbn [erel] in He;
    try contradiction; try (apply sim_junk_l; exact I); try (apply sim_junk_r; exact I); try apply sim_raise;
    try (destruct He as [[]|[[]|He]]; cbn in He; try contradiction).
  - subst rc. apply sim_ret.
  - destruct (get_on_error f oc).
    + apply sim_bind; [apply sim_handle_error; exact Hc|apply mono_handle_error|apply mono_handle_error|intros; apply sim_ret|intros; apply mono_ret|intros; apply mono_ret].
    + apply sim_bind; [destruct (is_required f oc); [apply sim_handle_error; exact Hc|apply sim_ret]
                      |destruct (is_required f oc); mono_auto' I|destruct (is_required f oc); mono_auto' I
                      |intros; apply sim_ret|intros; apply mono_ret|intros; apply mono_ret].
    + apply sim_ret.
Qed.

End Fields.

(* ---- tying the knot ---- *)
Section Knot.
Variable re : string -> string -> bool.
Variable D : decls.

Lemma transform_invariants fuel :
  (forall of oc d t v, crel of oc -> sim (transform re D fuel of d t v) (transform re D fuel oc d t v)) /\
  (forall o d t v, mono (transform re D fuel o d t v)) /\
  (forall o d t v s s' w, transform re D fuel o d t v s = (s', Ok w) -> nerr s' = nerr s).
Proof.
  induction fuel as [|f (IHs & IHm & IHc)]; cbn [transform].
  - split; [intros; apply sim_lift|]. split; [intros; apply mono_lift|]. intros; discriminate.
  - split; [intros; apply transform_step_sim; assumption|].
    split; [intros; apply transform_step_mono; assumption|].
    intros; eapply transform_step_clean; eassumption.
Qed.

(* THE RESULT: the two runs of the public entry point agree on verdict and value *)
Theorem collect_same_verdict fuel of oc t v :
  crel of oc ->
  let rf := type_transform re D fuel of t v in
  let rc := type_transform re D fuel oc t v in
  junk rf \/ junk rc \/ req rf rc.
Proof.
  intros Hc. unfold type_transform.
  rewrite (depth_check_crel of oc 1 Hc).
  destruct (depth_check oc 1); cbn [bind]; auto; try (right; right; exact I).
  destruct (transform_invariants fuel) as (Hs & Hm & Hcl).
  apply (fresh_rel (transform re D fuel) Hs Hcl of oc 1 t v Hc).
Qed.

End Knot.

(* ---- the cap: at most max_errors errors are ever recorded before the collected error is raised ---- *)
Lemma handle_error_cap o e s s' r m :
  o_collect_errors o = true -> o_max_errors o = Some m -> (nerr s < Z.to_nat m)%nat -> 1 <= m ->
  handle_error o e false s = (s', r) ->
  (r = Ok tt /\ (nerr s' < Z.to_nat m)%nat) \/
  (exists e', r = Raise e' /\ ex_kind e' = KCollected /\
              List.length (ex_sub e') = (Z.to_nat m + ntmp s)%nat /\ nerr s' = Z.to_nat m).
Proof.
  intros Hc Hm Hlt Hm1. unfold handle_error. rewrite Hc, Hm. cbn [negb orb].
  destruct (m <=? llen (e_errors {| e_errors := e_errors s ++ [e]; e_tmp := e_tmp s |})) eqn:E;
    intros H; injection H as <- <-; cbn [e_errors e_tmp] in *.
  - right. eexists. split; [reflexivity|]. split; [reflexivity|].
    unfold collected, nerr, ntmp, llen in *. cbn [ex_sub e_errors e_tmp]. rewrite map_length, !app_length in *. cbn [List.length] in *.
    apply Z.leb_le in E. split; lia.
  - left. split; [reflexivity|]. unfold nerr, llen in *. cbn [e_errors]. rewrite app_length in *. cbn [List.length] in *.
    apply Z.leb_gt in E. lia.
Qed.
