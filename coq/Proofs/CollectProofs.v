(* Proofs/CollectProofs.v — C10: collecting errors changes neither the verdict nor the value.
   The fail-fast run and the collecting run of every construct of the parse calculus are related
   by the simulation of Proofs/Sim.v. *)
From UV Require Import Parse Monad Sim.
From Coq Require Import Lia.
Open Scope string_scope.
Open Scope list_scope.
Open Scope Z_scope.

Lemma sim_junk_l {A} (x : out A) (m : M A) : junk x -> sim (lift x) m.
Proof. intros Hj sf sc _. cbn. destruct (m sc). left. exact Hj. Qed.
Lemma sim_junk_r {A} (x : out A) (m : M A) : junk x -> sim m (lift x).
Proof. intros Hj sf sc _. cbn. destruct (m sf). right; left. exact Hj. Qed.
Lemma sim_raise {A} e e' : sim (@lift A (Raise e)) (lift (Raise e')).
Proof. intros sf sc H. cbn. right; right. split; [intros _; split; [exact I|exact H]|lia]. Qed.

Lemma crel_with_flags of oc a b : crel of oc -> crel (with_flags of a b) (with_flags oc a b).
Proof.
  intros H. pose proof H as H0. unfold crel in H0. decompose [and] H0. clear H0.
  unfold with_flags.
  repeat match goal with Ho : o_override ?x = false |- context [o_override ?x] => rewrite Ho end.
  unfold crel. cbn. repeat split; try assumption; try congruence; destruct a, b; congruence.
Qed.

Section Collect.
Variable re : string -> string -> bool.
Variable D : decls.
Variable tr : options -> Z -> ty -> pyval -> M pyval.
Hypothesis Ksim : forall of oc d t v, crel of oc -> sim (tr of d t v) (tr oc d t v).
Hypothesis Kmono : forall o d t v, mono (tr o d t v).
Hypothesis Kclean : forall o d t v s s' w, tr o d t v s = (s', Ok w) -> nerr s' = nerr s.

Definition erel {A} (x y : entered A) : Prop :=
  match x, y with
  | EnterFailed _, EnterFailed _ => True
  | Entered rf, Entered rc => junk rf \/ junk rc \/ req rf rc
  | _, _ => False
  end.

Lemma depth_check_crel of oc d : crel of oc -> depth_check of d = depth_check oc d.
Proof. intros H. destruct H as (_ & _ & _ & Hd & _). unfold depth_check. rewrite Hd. reflexivity. Qed.

Lemma fresh_rel of oc d t v : crel of oc ->
  let rf := in_fresh (tr of d t v) in let rc := in_fresh (tr oc d t v) in
  junk rf \/ junk rc \/ req rf rc.
Proof.
  intros Hc. unfold in_fresh.
  pose proof (Ksim of oc d t v Hc no_errs no_errs (conj eq_refl eq_refl)) as Hs.
  pose proof (Kclean oc d t v no_errs) as Hcl.
  destruct (tr of d t v no_errs) as [sf' rf]. destruct (tr oc d t v no_errs) as [sc' rc]. cbn [snd].
  destruct Hs as [Hj|[Hj|[Hclean Hpois]]]; auto.
  destruct (Nat.eq_dec (nerr sc') (nerr no_errs)) as [E|E].
  - right; right. apply Hclean. exact E.
  - assert (Hlt : (nerr no_errs < nerr sc')%nat) by (unfold nerr in *; cbn in *; lia).
    specialize (Hpois Hlt). destruct rf; cbn in Hpois; try contradiction.
    destruct rc as [w| | | |]; auto.
    exfalso. apply E. eapply Hcl. reflexivity.
Qed.

Lemma enter_rel of oc depth rt t v : crel of oc ->
  erel (enter_tr tr of depth rt t v) (enter_tr tr oc depth rt t v).
Proof.
  intros Hc. unfold enter_tr. rewrite (depth_check_crel of oc _ Hc).
  destruct (depth_check oc (new_depth depth rt)); cbn [erel]; auto; apply fresh_rel; exact Hc.
Qed.

(* ---- _parse_seq_args ---- *)
Lemma seq_items_mono o depth arg whole : forall items i acc, mono (seq_items tr o depth arg whole i items acc).
Proof.
  induction items as [|item rest IH]; intros i acc; cbn [seq_items]; [apply mono_ret|].
  destruct (enter_tr tr o depth (route_idx i) arg item) as [e|[r|e| | |]]; try apply mono_lift; try apply IH.
  destruct (o_invalid_items o); try apply IH. apply mono_bind; [apply mono_handle_error|intros; apply IH].
Qed.

Lemma seq_items_sim of oc depth arg whole : crel of oc -> forall items i acc,
  sim (seq_items tr of depth arg whole i items acc) (seq_items tr oc depth arg whole i items acc).
Proof.
  intros Hc. induction items as [|item rest IH]; intros i acc; cbn [seq_items]; [apply sim_ret|].
  pose proof (enter_rel of oc depth (route_idx i) arg item Hc) as He.
  assert (Hpol : o_invalid_items of = o_invalid_items oc) by (unfold crel in Hc; decompose [and] Hc; assumption).
  destruct (enter_tr tr of depth (route_idx i) arg item) as [ef|[rf|ef| | |]];
  destruct (enter_tr tr oc depth (route_idx i) arg item) as [ec|[rc|ec| | |]]; cbn [erel] in He;
    try contradiction; try (apply sim_junk_l; exact I); try (apply sim_junk_r; exact I);
    try apply sim_raise;
    try (destruct He as [[]|[[]|He]]; cbn in He; try contradiction).
  - subst rc. apply IH.
  - rewrite Hpol. destruct (o_invalid_items oc); try apply IH.
    apply sim_bind; [apply sim_handle_error; exact Hc|apply mono_handle_error|intros; apply IH|intros; apply seq_items_mono].
Qed.


(* a tactic for the recurring shape: both runs branch on related `enter_tr` results *)
Ltac enter_cases He :=
  cbn [erel] in He; try contradiction;
  try (apply sim_junk_l; exact I); try (apply sim_junk_r; exact I); try apply sim_raise;
  try (destruct He as [[]|[[]|He]]; cbn in He; try contradiction).

Lemma crel_items of oc : crel of oc -> o_invalid_items of = o_invalid_items oc.
Proof. unfold crel. intros H. decompose [and] H. assumption. Qed.
Lemma crel_keys of oc : crel of oc -> o_invalid_keys of = o_invalid_keys oc.
Proof. unfold crel. intros H. decompose [and] H. assumption. Qed.
Lemma crel_values of oc : crel of oc -> o_invalid_values of = o_invalid_values oc.
Proof. unfold crel. intros H. decompose [and] H. assumption. Qed.

(* ---- _parse_tuple_args ---- *)
Lemma tuple_items_mono o depth vals : forall args i acc, mono (tuple_items tr o depth vals i args acc).
Proof.
  induction args as [|arg rest IH]; intros i acc; cbn [tuple_items]; [apply mono_ret|].
  destruct (List.length vals <=? i)%nat; [apply mono_bind; [apply mono_handle_error|intros; apply IH]|].
  destruct (depth_check o (new_depth depth (route_idx i))); try apply mono_lift;
  (destruct (nth_error vals i); [|apply mono_lift];
   destruct (enter_tr tr o depth (route_idx i) arg p) as [e|[r|e| | |]]; try apply mono_lift; try apply IH;
   destruct (o_invalid_items o); try apply IH; apply mono_bind; try apply mono_handle_error; intros; apply IH).
Qed.

Lemma tuple_items_sim of oc depth vals : crel of oc -> forall args i acc,
  sim (tuple_items tr of depth vals i args acc) (tuple_items tr oc depth vals i args acc).
Proof.
  intros Hc. induction args as [|arg rest IH]; intros i acc; cbn [tuple_items]; [apply sim_ret|].
  destruct (List.length vals <=? i)%nat.
  { apply sim_bind; [apply sim_handle_error; exact Hc|apply mono_handle_error|intros; apply IH|intros; apply tuple_items_mono]. }
  rewrite (depth_check_crel of oc _ Hc).
  destruct (depth_check oc (new_depth depth (route_idx i))); try apply sim_lift;
  (destruct (nth_error vals i) as [item|]; [|apply sim_lift];
   pose proof (enter_rel of oc depth (route_idx i) arg item Hc) as He;
   rewrite (crel_items of oc Hc);
   destruct (enter_tr tr of depth (route_idx i) arg item) as [ef|[rf|ef| | |]];
   destruct (enter_tr tr oc depth (route_idx i) arg item) as [ec|[rc|ec| | |]]; enter_cases He;
   [subst rc; apply IH|
    destruct (o_invalid_items oc); try apply IH;
    (apply sim_bind; [apply sim_handle_error; exact Hc|apply mono_handle_error|intros; apply IH|intros; apply tuple_items_mono])]).
Qed.

Lemma tuple_exceed_mono o : forall extra i, mono (tuple_exceed o i extra).
Proof. induction extra as [|x r IH]; intros i; cbn [tuple_exceed]; [apply mono_ret|apply mono_bind; [apply mono_handle_error|intros; apply IH]]. Qed.
Lemma tuple_exceed_sim of oc : crel of oc -> forall extra i, sim (tuple_exceed of i extra) (tuple_exceed oc i extra).
Proof.
  intros Hc. induction extra as [|x r IH]; intros i; cbn [tuple_exceed]; [apply sim_ret|].
  apply sim_bind; [apply sim_handle_error; exact Hc|apply mono_handle_error|intros; apply IH|intros; apply tuple_exceed_mono].
Qed.

Lemma parse_tuple_args_mono o depth args v : mono (parse_tuple_args tr o depth args v).
Proof.
  unfold parse_tuple_args. destruct v; try apply mono_lift.
  apply mono_bind; [destruct (_ && _); [apply tuple_exceed_mono|apply mono_ret]|intros].
  apply mono_bind; [apply tuple_items_mono|intros; apply mono_ret].
Qed.
Lemma parse_tuple_args_sim of oc depth args v : crel of oc ->
  sim (parse_tuple_args tr of depth args v) (parse_tuple_args tr oc depth args v).
Proof.
  intros Hc. unfold parse_tuple_args. destruct v; try apply sim_lift.
  assert (Ha : o_addition of = o_addition oc) by (unfold crel in Hc; decompose [and] Hc; assumption).
  assert (Hn : o_no_data_loss of = o_no_data_loss oc) by (unfold crel in Hc; decompose [and] Hc; assumption).
  rewrite Ha, Hn.
  apply sim_bind.
  - destruct (_ && _); [apply tuple_exceed_sim; exact Hc|apply sim_ret].
  - destruct (_ && _); [apply tuple_exceed_mono|apply mono_ret].
  - intros _. apply sim_bind; [apply tuple_items_sim; exact Hc|apply tuple_items_mono|intros; apply sim_ret|intros; apply mono_ret].
  - intros _. apply mono_bind; [apply tuple_items_mono|intros; apply mono_ret].
Qed.

(* ---- _parse_seq_args as a whole ---- *)
Lemma parse_seq_args_mono o depth arg v : mono (parse_seq_args tr o depth arg v).
Proof. unfold parse_seq_args. destruct (items_of v); [|apply mono_lift]. apply mono_bind; [apply seq_items_mono|intros; apply mono_ret]. Qed.
Lemma parse_seq_args_sim of oc depth arg v : crel of oc ->
  sim (parse_seq_args tr of depth arg v) (parse_seq_args tr oc depth arg v).
Proof.
  intros Hc. unfold parse_seq_args. destruct (items_of v); [|apply sim_lift].
  apply sim_bind; [apply seq_items_sim; exact Hc|apply seq_items_mono|intros; apply sim_ret|intros; apply mono_ret].
Qed.

(* generic decomposition of monotonicity goals *)
Ltac mono_auto IH :=
  repeat first
    [ apply mono_ret | apply mono_lift | apply mono_handle_error | apply mono_raise_error
    | apply mono_collect_tmp | apply mono_clear_tmp | apply IH | apply Kmono
    | (apply mono_bind; [|intros])
    | match goal with |- mono (if ?b then _ else _) => destruct b end
    | match goal with |- mono (match ?x with _ => _ end) => destruct x end ].

(* ---- _parse_map_args ---- *)
Lemma map_items_mono o depth kt vt : forall items acc, mono (map_items tr o depth kt vt items acc).
Proof.
  induction items as [|[k0 v0] rest IH]; intros acc; cbn [map_items]; mono_auto IH.
Qed.


(* generic decomposition of simulation goals whose two sides are the same program run with
   related options *)
Ltac sim_step Hc IH IHm :=
  first
    [ apply sim_ret | apply sim_lift | apply sim_raise
    | (apply sim_handle_error; exact Hc) | apply sim_raise_error | apply sim_collect_tmp | apply sim_clear_tmp
    | (apply sim_junk_l; exact I) | (apply sim_junk_r; exact I)
    | apply IH | (apply Ksim; exact Hc)
    | (apply sim_bind; [ | mono_auto IHm | intros | intros; mono_auto IHm ])
    | match goal with
      | |- sim (match enter_tr tr ?of ?d ?rt ?t ?v with _ => _ end) (match enter_tr tr ?oc ?d ?rt ?t ?v with _ => _ end) =>
          let He := fresh "He" in
          pose proof (enter_rel of oc d rt t v Hc) as He;
          destruct (enter_tr tr of d rt t v) as [?|[?|?| | |]];
          destruct (enter_tr tr oc d rt t v) as [?|[?|?| | |]]; enter_cases He; try subst
      end
    | match goal with |- sim (if ?b then _ else _) (if ?b then _ else _) => destruct b end
    | match goal with |- sim (match ?x with _ => _ end) (match ?x with _ => _ end) => destruct x end ].
Ltac sim_auto Hc IH IHm := repeat sim_step Hc IH IHm.

Lemma map_items_sim of oc depth kt vt : crel of oc -> forall items acc,
  sim (map_items tr of depth kt vt items acc) (map_items tr oc depth kt vt items acc).
Proof.
  intros Hc. induction items as [|[k0 v0] rest IH]; intros acc; cbn [map_items]; [apply sim_ret|].
  rewrite (crel_keys of oc Hc), (crel_values of oc Hc).
  pose proof (map_items_mono oc depth kt vt rest) as IHm.
  sim_auto Hc IH IHm.
Qed.

End Collect.
