(* Proofs/CollectProofs.v — C10: collecting errors changes neither the verdict nor the value.
   The fail-fast run and the collecting run of every construct of the parse calculus are related
   by the simulation of Proofs/Sim.v. *)
From UV Require Import Parse Monad Sim.
From Coq Require Import Lia.
Open Scope string_scope.
Open Scope list_scope.
Open Scope Z_scope.

Lemma sim_junk_l {A} (x : out A) (m : M A) : junk x -> sim (lift x) m.
Proof. intros Hj sf sc _. cbn. destruct (m sc). left. exact Hj. Qed.
Lemma sim_junk_r {A} (x : out A) (m : M A) : junk x -> sim m (lift x).
Proof. intros Hj sf sc _. cbn. destruct (m sf). right; left. exact Hj. Qed.
Lemma sim_raise {A} e e' : sim (@lift A (Raise e)) (lift (Raise e')).
Proof. intros sf sc H. cbn. right; right. split; [intros _; split; [exact I|exact H]|lia]. Qed.

Lemma crel_with_flags of oc a b : crel of oc -> crel (with_flags of a b) (with_flags oc a b).
Proof.
  intros H. pose proof H as H0. unfold crel in H0. decompose [and] H0. clear H0.
  unfold with_flags.
  repeat match goal with Ho : o_override ?x = false |- context [o_override ?x] => rewrite Ho end.
  unfold crel. cbn. repeat split; try assumption; try congruence; destruct a, b; congruence.
Qed.

Section Collect.
Variable re : string -> string -> bool.
Variable D : decls.
Variable tr : options -> Z -> ty -> pyval -> M pyval.
Hypothesis Ksim : forall of oc d t v, crel of oc -> sim (tr of d t v) (tr oc d t v).
Hypothesis Kmono : forall o d t v, mono (tr o d t v).
Hypothesis Kclean : forall o d t v s s' w, tr o d t v s = (s', Ok w) -> nerr s' = nerr s.

Definition erel {A} (x y : entered A) : Prop :=
  match x, y with
  | EnterFailed _, EnterFailed _ => True
  | Entered rf, Entered rc => junk rf \/ junk rc \/ req rf rc
  | _, _ => False
  end.

Lemma depth_check_crel of oc d : crel of oc -> depth_check of d = depth_check oc d.
Proof. intros H. destruct H as (_ & _ & _ & Hd & _). unfold depth_check. rewrite Hd. reflexivity. Qed.

Lemma fresh_rel of oc d t v : crel of oc ->
  let rf := in_fresh (tr of d t v) in let rc := in_fresh (tr oc d t v) in
  junk rf \/ junk rc \/ req rf rc.
Proof.
  intros Hc. unfold in_fresh.
  pose proof (Ksim of oc d t v Hc no_errs no_errs (conj eq_refl eq_refl)) as Hs.
  pose proof (Kclean oc d t v no_errs) as Hcl.
  destruct (tr of d t v no_errs) as [sf' rf]. destruct (tr oc d t v no_errs) as [sc' rc]. cbn [snd].
  destruct Hs as [Hj|[Hj|[Hclean Hpois]]]; auto.
  destruct (Nat.eq_dec (nerr sc') (nerr no_errs)) as [E|E].
  - right; right. apply Hclean. exact E.
  - assert (Hlt : (nerr no_errs < nerr sc')%nat) by (unfold nerr in *; cbn in *; lia).
    specialize (Hpois Hlt). destruct rf; cbn in Hpois; try contradiction.
    destruct rc as [w| | | |]; auto.
    exfalso. apply E. eapply Hcl. reflexivity.
Qed.

Lemma enter_rel of oc depth rt t v : crel of oc ->
  erel (enter_tr tr of depth rt t v) (enter_tr tr oc depth rt t v).
Proof.
  intros Hc. unfold enter_tr. rewrite (depth_check_crel of oc _ Hc).
  destruct (depth_check oc (new_depth depth rt)); cbn [erel]; auto; apply fresh_rel; exact Hc.
Qed.

(* ---- _parse_seq_args ---- *)
Lemma seq_items_mono o depth arg whole : forall items i acc, mono (seq_items tr o depth arg whole i items acc).
Proof.
  induction items as [|item rest IH]; intros i acc; cbn [seq_items]; [apply mono_ret|].
  destruct (enter_tr tr o depth (route_idx i) arg item) as [e|[r|e| | |]]; try apply mono_lift; try apply IH.
  destruct (o_invalid_items o); try apply IH. apply mono_bind; [apply mono_handle_error|intros; apply IH].
Qed.

Lemma seq_items_sim of oc depth arg whole : crel of oc -> forall items i acc,
  sim (seq_items tr of depth arg whole i items acc) (seq_items tr oc depth arg whole i items acc).
Proof.
  intros Hc. induction items as [|item rest IH]; intros i acc; cbn [seq_items]; [apply sim_ret|].
  pose proof (enter_rel of oc depth (route_idx i) arg item Hc) as He.
  assert (Hpol : o_invalid_items of = o_invalid_items oc) by (unfold crel in Hc; decompose [and] Hc; assumption).
  destruct (enter_tr tr of depth (route_idx i) arg item) as [ef|[rf|ef| | |]];
  destruct (enter_tr tr oc depth (route_idx i) arg item) as [ec|[rc|ec| | |]]; cbn [erel] in He;
    try contradiction; try (apply sim_junk_l; exact I); try (apply sim_junk_r; exact I);
    try apply sim_raise;
    try (destruct He as [[]|[[]|He]]; cbn in He; try contradiction).
  - subst rc. apply IH.
  - rewrite Hpol. destruct (o_invalid_items oc); try apply IH.
    apply sim_bind; [apply sim_handle_error; exact Hc|apply mono_handle_error|intros; apply IH|intros; apply seq_items_mono].
Qed.

End Collect.
