(* Proofs/DepthTupleProofs.v — the same for `link: Tuple[Node, ...] = ()` (adapted from DepthProofs.v: the element loop is the
   same, the origin is tuple and the converted elements are rebuilt into a tuple). *)
From UV Require Import Parse DepthSpec DepthProofs.
From Coq Require Import Lia ZifyBool ZifyNat.
Open Scope string_scope.
Open Scope list_scope.
Open Scope Z_scope.

Section DepthTup.
Variable re : string -> string -> bool.
Variable ex : list string.   (* names the class excludes from additional keys: any *)
Variable d : Z.
Hypothesis d_pos : 1 <= d.

Let o := opts_with_depth (Some d).
Let C := tnode_decl_ex ex (Some d).
Let W := tnode_world_ex ex (Some d).

Lemma depth_check_o k : depth_check o k = if d <? k then Raise (parse_err KDepth) else Ok tt.
Proof. unfold depth_check, o. cbn [o_max_depth opts_with_depth]. destruct (d =? 0) eqn:E; [lia|]. reflexivity. Qed.

(* rose-tree induction *)
Fixpoint tree_ind' (P : tree -> Prop) (H : forall v kids, Forall P kids -> P (Node v kids)) (t : tree) : P t :=
  match t with
  | Node v kids =>
      H v kids ((fix go (l : list tree) : Forall P l :=
                   match l with
                   | [] => Forall_nil P
                   | x :: r => Forall_cons x (tree_ind' P H x) (go r)
                   end) kids)
  end.

(* a builtin leaf: the exact-type shortcut *)
Lemma tr_int n k v s : transform re W (S n) o k (TPrim TInt) (PInt v) s = (s, Ok (PInt v)).
Proof. reflexivity. Qed.
Lemma tr_list n k vs s : transform re W (S n) o k (TPrim TTuple) (PTuple vs) s = (s, Ok (PTuple vs)).
Proof. reflexivity. Qed.

(* the outcome of converting one element in its own (fresh) context *)
Definition kid_res (n : nat) (k : Z) (x : pyval) : out pyval :=
  in_fresh (transform re W n o k (TData 0) x).

(* _parse_seq_args over elements whose individual outcomes are known, fail-fast, inside the limit *)
Lemma seq_items_all_ok n k whole items rs : d <? k = false ->
  Forall2 (fun x r => kid_res n k x = Ok r) items rs ->
  forall i acc s,
  seq_items (transform re W n) o k (TData 0) whole i items acc s = (s, Ok (acc ++ rs)).
Proof.
  intros Hk HF. induction HF as [|x r items rs Hx HF IH]; intros i acc s; cbn [seq_items].
  - rewrite app_nil_r. reflexivity.
  - unfold enter_tr, new_depth, route_idx. rewrite depth_check_o, Hk.
    unfold kid_res in Hx. rewrite Hx. rewrite IH. rewrite <- app_assoc. reflexivity.
Qed.

Definition raises_parse (x : out pyval) : Prop := exists e, x = Raise e /\ is_parse_err e = true.

Lemma seq_items_some_fail n k items : d <? k = false ->
  Forall (fun x => (exists r, kid_res n k x = Ok r) \/ raises_parse (kid_res n k x)) items ->
  Exists (fun x => raises_parse (kid_res n k x)) items ->
  forall i acc s vs,
  exists s' e, seq_items (transform re W n) o k (TData 0) (PTuple vs) i items acc s = (s', Raise e)
               /\ is_parse_err e = true.
Proof.
  intros Hk HF HE. induction HF as [|x items Hx HF IH]; intros i acc s vs.
  - inversion HE.
  - cbn [seq_items]. unfold enter_tr, new_depth, route_idx. rewrite depth_check_o, Hk.
    destruct Hx as [[r Hr]|(e & He & Hp)].
    + unfold kid_res in Hr. rewrite Hr.
      apply IH. inversion HE as [? ? Hbad|? ? Hrest]; subst; [|exact Hrest].
      destruct Hbad as (e & He & _). unfold kid_res in He. congruence.
    + unfold kid_res in He. rewrite He.
      unfold o at 1. cbn [o_invalid_items opts_with_depth].
      unfold mbind, handle_error. cbn [o_collect_errors opts_with_depth o orb negb].
      eexists. eexists. split; [reflexivity|reflexivity].
Qed.


(* Rule.parse of List['Node'] on a list *)
Lemma tuple_link_ok n k vs rs s : d <? k = false -> e_errors s = [] -> e_tmp s = [] ->
  Forall2 (fun x r => kid_res (S n) k x = Ok r) vs rs ->
  transform re W (S (S n)) o k tuple_link (PTuple vs) s = (s, Ok (PTuple rs)).
Proof.
  intros Hk He Ht HF. unfold tuple_link. cbn [transform transform_step].
  unfold rule_parse, mcatch, mbind at 1.
  change (transform_step re W (transform re W n)) with (transform re W (S n)).
  rewrite tr_list. cbn [args_parser_of base_prim]. unfold mbind, parse_seq_args. cbn [items_of].
  unfold mbind.
  change (fun (o0 : options) (depth : Z) (t : ty) (v : pyval) => transform re W (S n) o0 depth t v)
    with (transform re W (S n)).
  rewrite (seq_items_all_ok (S n) k (PTuple vs) vs rs Hk HF). cbn [app].
  unfold ret, lift. cbn [rebuild_origin base_prim]. unfold o at 1. cbn [o_ignore_constraints opts_with_depth].
  cbn [run_validators]. unfold ret, raise_error. rewrite He, Ht. reflexivity.
Qed.

Lemma tuple_link_fail n k vs s : d <? k = false ->
  Forall (fun x => (exists r, kid_res (S n) k x = Ok r) \/ raises_parse (kid_res (S n) k x)) vs ->
  Exists (fun x => raises_parse (kid_res (S n) k x)) vs ->
  exists s' e, transform re W (S (S n)) o k tuple_link (PTuple vs) s = (s', Raise e) /\ is_parse_err e = true.
Proof.
  intros Hk HF HE. unfold tuple_link. cbn [transform transform_step].
  unfold rule_parse, mcatch, mbind at 1.
  change (transform_step re W (transform re W n)) with (transform re W (S n)).
  rewrite tr_list. cbn [args_parser_of base_prim]. unfold mbind, parse_seq_args. cbn [items_of].
  unfold mbind.
  change (fun (o0 : options) (depth : Z) (t : ty) (v : pyval) => transform re W (S n) o0 depth t v)
    with (transform re W (S n)).
  destruct (seq_items_some_fail (S n) k vs Hk HF HE 0%nat [] s vs) as (s' & e & Hs & Hp).
  rewrite Hs. eauto.
Qed.


(* converting one element that is a mapping: a nested data-class construction one level deeper *)
Lemma kid_res_dict n k kvs :
  kid_res (S n) k (PDict kvs) = init_dataclass (transform re W n) 0 C o k (PDict kvs).
Proof. reflexivity. Qed.

Opaque transform.

(* one node, given what its link field parses to *)
Lemma init_node n k caller v vs :
  o_override caller = false -> d <? k + 1 = false ->
  init_dataclass (transform re W (S n)) 0 C caller k (PDict [(PStr "v", PInt v); (PStr "link", PTuple vs)]) =
  match snd (transform re W (S n) o (k + 1) tuple_link (PTuple vs) no_errs) with
  | Ok r => Ok (PInst 0 [("v", PInt v); ("link", r)])
  | Raise e => Raise (parse_err_at KType (PStr "link"))
  | Diverge => Diverge | OutOfFuel => OutOfFuel | Unmodelled => Unmodelled
  end.
Proof.
  intros Hov Hk.
  assert (Hd0 : (d =? 0) = false) by lia.
  pose proof (tr_int n (k + 1) v no_errs) as Hint.
  set (tr := transform re W (S n)) in *.
  unfold init_dataclass, nested_options. change (c_options C) with o. rewrite Hov.
  cbv -[tr tuple_link Z.ltb Z.eqb Z.add].
  rewrite Hd0, Hk. cbv -[tr tuple_link Z.ltb Z.eqb Z.add].
  cbv -[tr tuple_link Z.ltb Z.eqb Z.add] in Hint. rewrite Hint.
  cbv -[tr tuple_link Z.ltb Z.eqb Z.add]. rewrite ?Hd0, ?Hk. cbv -[tr tuple_link Z.ltb Z.eqb Z.add].
  match goal with |- context [tr ?a ?b tuple_link ?c ?st] =>
    destruct (tr a b tuple_link c st) as [s1 [r|exn0| | |]] end;
    cbv -[tr tuple_link Z.ltb Z.eqb Z.add]; reflexivity.
Qed.

Lemma init_too_deep tr k caller data :
  o_override caller = false -> d <? k + 1 = true ->
  init_dataclass tr 0 C caller k data = Raise (parse_err KDepth).
Proof.
  intros Hov Hk. unfold init_dataclass, nested_options. change (c_options C) with o. rewrite Hov.
  cbn [o_override o opts_with_depth negb andb]. rewrite depth_check_o, Hk. reflexivity.
Qed.

Lemma Forall2_map_in {A B} (P : B -> B -> Prop) (f g : A -> B) l :
  (forall x, In x l -> P (f x) (g x)) -> Forall2 P (map f l) (map g l).
Proof.
  induction l as [|y r IH]; intros H; cbn [map]; constructor.
  - apply H. left; reflexivity.
  - apply IH. intros x Hx. apply H. right; exact Hx.
Qed.

Lemma max_height_cons y r : max_height (y :: r) = Nat.max (height y) (max_height r).
Proof. reflexivity. Qed.

Lemma max_height_ge kids x : In x kids -> (height x <= max_height kids)%nat.
Proof.
  induction kids as [|y r IH]; intros Hin; [destruct Hin|]. cbn [max_height fold_right].
  destruct Hin as [->|Hin]; [lia|]. specialize (IH Hin). unfold max_height in IH. lia.
Qed.
Lemma max_height_attained kids : (0 < max_height kids)%nat -> exists x, In x kids /\ height x = max_height kids.
Proof.
  induction kids as [|y r IH]; cbn [max_height fold_right]; intros H; [lia|].
  fold (max_height r) in *. destruct (Nat.le_gt_cases (max_height r) (height y)).
  - exists y. split; [left; reflexivity|lia].
  - destruct IH as (x & Hx & Hh); [lia|]. exists x. split; [right; exact Hx|lia].
Qed.

(* THE RESULT: for every tree, at any starting level k, with enough fuel *)
Lemma tnode_parse : forall t n k caller,
  (2 * height t <= n)%nat -> o_override caller = false ->
  (k + Z.of_nat (height t) <= d ->
     init_dataclass (transform re W n) 0 C caller k (to_val_t t) = Ok (inst_t t)) /\
  (d < k + Z.of_nat (height t) ->
     raises_parse (init_dataclass (transform re W n) 0 C caller k (to_val_t t))).
Proof.
  induction t as [v kids IH] using tree_ind'. intros n k caller Hn Hov.
  cbn [height] in Hn. fold (max_height kids) in Hn.
  destruct n as [|[|n2]]; try lia.
  cbn [to_val_t inst_t height]. fold (max_height kids).
  destruct (d <? k + 1) eqn:Hk.
  - split; [lia|]. intros _. rewrite init_too_deep by assumption. eexists; split; reflexivity.
  - rewrite init_node by assumption.
    assert (Hov' : o_override o = false) by reflexivity.
    assert (Hkids : forall x, In x kids ->
              (k + 1 + Z.of_nat (height x) <= d -> kid_res (S n2) (k + 1) (to_val_t x) = Ok (inst_t x)) /\
              (d < k + 1 + Z.of_nat (height x) -> raises_parse (kid_res (S n2) (k + 1) (to_val_t x)))).
    { intros x Hin. rewrite Forall_forall in IH. specialize (IH x Hin n2 (k + 1) o).
      pose proof (max_height_ge kids x Hin).
      destruct x as [xv xk]. cbn [to_val_t]. rewrite kid_res_dict.
      apply IH; [lia|reflexivity]. }
    split.
    + intros Hle.
      assert (HF : Forall2 (fun x r => kid_res (S n2) (k + 1) x = Ok r) (map to_val_t kids) (map inst_t kids)).
      { apply Forall2_map_in. intros x Hin. apply (Hkids x Hin).
        pose proof (max_height_ge kids x Hin). lia. }
      rewrite (tuple_link_ok n2 (k + 1) _ _ no_errs Hk eq_refl eq_refl HF). reflexivity.
    + intros Hgt.
      assert (Hpos : (0 < max_height kids)%nat) by lia.
      destruct (max_height_attained kids Hpos) as (x & Hx & Hh).
      assert (HF : Forall (fun y => (exists r, kid_res (S n2) (k + 1) y = Ok r) \/
                                    raises_parse (kid_res (S n2) (k + 1) y)) (map to_val_t kids)).
      { rewrite Forall_forall. intros y Hy. apply in_map_iff in Hy. destruct Hy as (z & <- & Hz).
        destruct (Hkids z Hz) as [H1 H2].
        destruct (Z_le_gt_dec (k + 1 + Z.of_nat (height z)) d); [left; eauto|right; apply H2; lia]. }
      assert (HE : Exists (fun y => raises_parse (kid_res (S n2) (k + 1) y)) (map to_val_t kids)).
      { rewrite Exists_exists. exists (to_val_t x). split; [apply in_map; exact Hx|].
        apply (Hkids x Hx). lia. }
      destruct (tuple_link_fail n2 (k + 1) _ no_errs Hk HF HE) as (s' & e & Hs & Hp).
      rewrite Hs. cbn [snd]. eexists; split; reflexivity.
Qed.

End DepthTup.

Transparent transform.

(* through the public entry point Cls.__from__(data) / Cls( **data) *)
Lemma tnode_call re ex d t fuel : 1 <= d -> (2 * height t <= fuel)%nat ->
  (Z.of_nat (height t) <= d ->
     call_dataclass re (tnode_world_ex ex (Some d)) fuel 0 None (to_val_t t) = Ok (inst_t t)) /\
  (d < Z.of_nat (height t) ->
     raises_parse (call_dataclass re (tnode_world_ex ex (Some d)) fuel 0 None (to_val_t t))).
Proof.
  intros Hd Hf. unfold call_dataclass. cbn [tnode_world_ex].
  replace {| c_fields := c_fields (tnode_decl_ex ex (Some d)); c_alias_map := c_alias_map (tnode_decl_ex ex (Some d));
             c_ci_names := c_ci_names (tnode_decl_ex ex (Some d)); c_options := c_options (tnode_decl_ex ex (Some d));
             c_dfs := c_dfs (tnode_decl_ex ex (Some d)); c_exclude_vars := c_exclude_vars (tnode_decl_ex ex (Some d));
             c_dict_based := c_dict_based (tnode_decl_ex ex (Some d)) |} with (tnode_decl_ex ex (Some d)) by reflexivity.
  destruct (tnode_parse re ex d Hd t fuel 0 default_options Hf eq_refl) as [H1 H2].
  split; intros H; [apply H1|apply H2]; lia.
Qed.
