(* Proofs/RegistryProofs.v — lemmas for C16. *)
From UV Require Import PyVal Registry RegistrySpec.
From Coq Require Import Lia.
Open Scope Z_scope.

Section WithHier.
Variable H : hier.

(* first matching entry of a list (scan, but returning the entry) *)
Fixpoint first_match (l : list entry) (c : cls) : option entry :=
  match l with
  | [] => None
  | e :: r => if matches H e c then Some e else first_match r c
  end.

Lemma scan_first_match l c : scan H l c = option_map e_conv (first_match l c).
Proof.
  induction l as [|e r IH]; cbn [scan first_match]; [reflexivity|].
  unfold matches. destruct (detect H (e_crit e) c) as [[|]|]; cbn; auto.
Qed.

Inductive sorted_desc : list entry -> Prop :=
| sd_nil : sorted_desc []
| sd_cons e l : sorted_desc l -> (forall x, In x l -> e_prio x <= e_prio e) -> sorted_desc (e :: l).

Lemma in_insert_front e x l : In x (insert_front e l) -> x = e \/ In x l.
Proof.
  induction l as [|y r IH]; cbn [insert_front]; intros Hin.
  - destruct Hin as [->|[]]; auto.
  - destruct (e_prio e <? e_prio y) eqn:E.
    + destruct Hin as [->|Hin]; [right; left; reflexivity|].
      destruct (IH Hin) as [->|Hr]; [auto|right; right; exact Hr].
    + destruct Hin as [->|Hin]; auto.
Qed.

Lemma insert_front_sorted e l : sorted_desc l -> sorted_desc (insert_front e l).
Proof.
  induction 1 as [|y r Hs IH Hle]; cbn [insert_front].
  - constructor; [constructor|intros x []].
  - destruct (e_prio e <? e_prio y) eqn:E.
    + constructor; [exact IH|].
      intros x Hin. destruct (in_insert_front _ _ _ Hin) as [->|Hr]; [lia|auto].
    + constructor; [constructor; assumption|].
      intros x [->|Hin]; [lia|]. specialize (Hle _ Hin). lia.
Qed.

Lemma stable_sort_sorted l : sorted_desc (stable_sort_desc l).
Proof. induction l as [|x r IH]; cbn; [constructor|apply insert_front_sorted, IH]. Qed.

Lemma first_match_in l c e : first_match l c = Some e -> In e l /\ matches H e c = true.
Proof.
  induction l as [|x r IH]; cbn [first_match]; [discriminate|].
  destruct (matches H x c) eqn:M; intros E.
  - injection E as <-. split; [left; reflexivity|exact M].
  - destruct (IH E); split; [right|]; assumption.
Qed.

(* the key step: what the front-insertion + stable sort does to the first match *)
Lemma first_match_insert_front l e c :
  sorted_desc l ->
  first_match (insert_front e l) c =
  if matches H e c then
    match first_match l c with
    | Some e' => if e_prio e <? e_prio e' then Some e' else Some e
    | None => Some e
    end
  else first_match l c.
Proof.
  induction 1 as [|y r Hs IH Hle]; cbn [insert_front first_match].
  - destruct (matches H e c); reflexivity.
  - destruct (e_prio e <? e_prio y) eqn:E; cbn [first_match].
    + destruct (matches H y c) eqn:My.
      * destruct (matches H e c); [rewrite E|]; reflexivity.
      * exact IH.
    + destruct (matches H e c) eqn:Me; [|reflexivity].
      destruct (matches H y c) eqn:My.
      * rewrite E. reflexivity.
      * destruct (first_match r c) as [e'|] eqn:F; [|reflexivity].
        destruct (first_match_in _ _ _ F) as [Hin _]. specialize (Hle _ Hin).
        destruct (e_prio e <? e_prio e') eqn:E'; [lia|reflexivity].
Qed.

Lemma first_match_sort hist c : first_match (stable_sort_desc hist) c = best H hist c.
Proof.
  induction hist as [|e r IH]; cbn [stable_sort_desc best]; [reflexivity|].
  rewrite first_match_insert_front by apply stable_sort_sorted.
  rewrite IH. reflexivity.
Qed.

(* `best` really is the declarative winner *)
Lemma best_is_best regs c e :
  best H regs c = Some e -> exists i, is_best H regs c i /\ nth_error regs i = Some e.
Proof.
  revert e. induction regs as [|x older IH]; cbn [best]; intros e; [discriminate|].
  destruct (matches H x c) eqn:Mx.
  - destruct (best H older c) as [e'|] eqn:B.
    + destruct (IH _ eq_refl) as (i & (e0 & Hn & Hm & Hall) & Hn').
      rewrite Hn in Hn'. injection Hn' as ->.
      destruct (e_prio x <? e_prio e') eqn:E; intros Eq; injection Eq as <-.
      * exists (S i). split; [|exact Hn].
        exists e'. split; [exact Hn|]. split; [exact Hm|].
        intros [|j] e2 Hj Mj; cbn in Hj.
        -- injection Hj as <-. left. lia.
        -- destruct (Hall _ _ Hj Mj) as [?|[? ?]]; [left; assumption|right; split; [assumption|lia]].
      * exists O. split; [|reflexivity].
        exists x. split; [reflexivity|]. split; [exact Mx|].
        intros [|j] e2 Hj Mj; cbn in Hj.
        -- injection Hj as <-. right; split; [reflexivity|lia].
        -- destruct (Hall _ _ Hj Mj) as [?|[? ?]].
           ++ assert (e_prio e2 <= e_prio x) by lia.
              destruct (Z.eq_dec (e_prio e2) (e_prio x)); [right; split; [assumption|lia]|left; lia].
           ++ assert (e_prio e2 <= e_prio x) by lia.
              destruct (Z.eq_dec (e_prio e2) (e_prio x)); [right; split; [assumption|lia]|left; lia].
    + intros Eq; injection Eq as <-.
      exists O. split; [|reflexivity].
      exists x. split; [reflexivity|]. split; [exact Mx|].
      intros [|j] e2 Hj Mj; cbn in Hj.
      * injection Hj as <-. right; split; [reflexivity|lia].
      * exfalso. clear IH. revert j Hj. induction older as [|y o IHo]; intros j Hj.
        -- destruct j; discriminate.
        -- cbn [best] in B. destruct j; cbn in Hj.
           ++ injection Hj as ->. rewrite Mj in B. destruct (best H o c); [destruct (_ <? _)|]; discriminate.
           ++ destruct (matches H y c).
              ** destruct (best H o c); [destruct (_ <? _)|]; discriminate.
              ** eapply IHo; eassumption.
  - intros B. destruct (IH _ B) as (i & (e0 & Hn & Hm & Hall) & Hn').
    exists (S i). split; [|exact Hn'].
    exists e0. split; [exact Hn|]. split; [exact Hm|].
    intros [|j] e2 Hj Mj; cbn in Hj.
    + injection Hj as <-. congruence.
    + destruct (Hall _ _ Hj Mj) as [?|[? ?]]; [left; assumption|right; split; [assumption|lia]].
Qed.

Lemma best_none regs c :
  best H regs c = None -> forall e, In e regs -> matches H e c = false.
Proof.
  induction regs as [|x older IH]; cbn [best]; intros B e Hin; [destruct Hin|].
  destruct (matches H x c) eqn:Mx.
  - destruct (best H older c); [destruct (_ <? _)|]; discriminate.
  - destruct Hin as [<-|Hin]; [exact Mx|auto].
Qed.

(* ---- the invariant tying a concrete registry to its history ---- *)
Definition cache_ok (R : registry) : Prop :=
  forall c f, cache_get c (r_cache R) = Some f -> scan H (r_entries R) c = Some f.

Definition reg_inv (R : registry) (S0 : sreg) : Prop :=
  r_entries R = stable_sort_desc (s_hist S0) /\ cache_ok R /\ r_default R = s_default S0.

Lemma register_inv R S0 cr f p :
  reg_inv R S0 ->
  reg_inv (register R cr f p)
          {| s_hist := {| e_crit := cr; e_conv := f; e_prio := p |} :: s_hist S0;
             s_default := s_default S0 |}.
Proof.
  intros (He & Hc & Hd). unfold register, reg_inv; cbn [r_entries r_cache r_default s_hist s_default].
  split; [|split].
  - cbn [stable_sort_desc]. rewrite He.
    (* sorting an already sorted tail is the identity: both sides are insert_front into sort(hist) *)
    assert (Hidem : forall l, sorted_desc l -> stable_sort_desc l = l).
    { induction 1 as [|y r Hs IH Hle]; cbn; [reflexivity|]. rewrite IH.
      destruct r as [|z r']; cbn; [reflexivity|].
      specialize (Hle z (or_introl eq_refl)).
      destruct (e_prio y <? e_prio z) eqn:E; [lia|reflexivity]. }
    rewrite Hidem by apply stable_sort_sorted. reflexivity.
  - intros c g. cbn. discriminate.
  - exact Hd.
Qed.

Lemma scan_best R S0 c :
  reg_inv R S0 -> scan H (r_entries R) c = option_map e_conv (best H (s_hist S0) c).
Proof.
  intros (He & _ & _). rewrite scan_first_match, He, first_match_sort. reflexivity.
Qed.

Lemma resolve_correct chain schain c :
  Forall2 reg_inv chain schain ->
  let '(chain', r) := resolve H chain c in
  Forall2 reg_inv chain' schain /\ r = spec_resolve H schain c.
Proof.
  induction 1 as [|R S0 base sbase HR Hbase IH]; cbn [resolve spec_resolve].
  - split; [constructor|reflexivity].
  - pose proof (scan_best R S0 c HR) as Hscan.
    destruct HR as (He & Hc & Hd).
    destruct (if r_use_cache R then cache_get c (r_cache R) else None) as [f|] eqn:Hit.
    + split; [constructor; [repeat split; assumption|assumption]|].
      destruct (r_use_cache R); [|discriminate].
      apply Hc in Hit. rewrite Hscan in Hit.
      destruct (best H (s_hist S0) c); cbn in Hit; [congruence|discriminate].
    + destruct (scan H (r_entries R) c) as [f|] eqn:Sc.
      * destruct (best H (s_hist S0) c) as [e|] eqn:B; cbn in Hscan; [|discriminate].
        injection Hscan as ->.
        split; [|reflexivity].
        constructor; [|assumption].
        destruct (r_use_cache R) eqn:U; [|repeat split; assumption].
        repeat split; cbn [r_entries r_cache r_default]; [exact He| |exact Hd].
        intros c' g. cbn [r_entries r_cache cache_get]. destruct (Nat.eqb c' c) eqn:Ec.
        -- apply Nat.eqb_eq in Ec. subst c'. intros Eq. injection Eq as <-. exact Sc.
        -- apply Hc.
      * destruct (best H (s_hist S0) c) as [e|] eqn:B; cbn in Hscan; [discriminate|].
        destruct base as [|R1 base'].
        -- inversion Hbase; subst. split; [constructor; [repeat split; assumption|constructor]|exact Hd].
        -- inversion Hbase as [|? S1 ? sbase' ? ? ]; subst.
           destruct (resolve H (R1 :: base') c) as [base2 res] eqn:Er.
           destruct IH as [IH1 IH2].
           split; [constructor; [repeat split; assumption|exact IH1]|exact IH2].
Qed.

Lemma update_nth_inv chain schain w cr f p :
  Forall2 reg_inv chain schain ->
  Forall2 reg_inv
    (update_nth w (fun R => register R cr f p) chain)
    (update_nth w (fun S0 => {| s_hist := {| e_crit := cr; e_conv := f; e_prio := p |} :: s_hist S0;
                               s_default := s_default S0 |}) schain).
Proof.
  intros HF. revert w. induction HF as [|R S0 base sbase HR Hbase IH]; intros w; cbn [update_nth].
  - destruct w; constructor.
  - destruct w; constructor; auto using register_inv.
Qed.

Theorem run_refines ops : forall sc chain schain,
  Forall2 reg_inv chain schain ->
  rrun H sc chain ops = spec_run H sc schain ops.
Proof.
  induction ops as [|o ops IH]; intros sc chain schain Inv; cbn [rrun spec_run]; [reflexivity|].
  destruct o as [w cr f p|c]; cbn [rstep spec_step].
  - apply IH. apply update_nth_inv, Inv.
  - unfold resolve_top, spec_resolve_top.
    destruct (if sc then h_shortcut H c else None) as [g|].
    + f_equal. apply IH, Inv.
    + pose proof (resolve_correct chain schain c Inv) as Hr.
      destruct (resolve H chain c) as [chain' r]. destruct Hr as [Inv' ->].
      f_equal. apply IH, Inv'.
Qed.

End WithHier.

(* fresh registries satisfy the invariant *)
Lemma empty_inv H uc d : reg_inv H (empty_registry uc d) {| s_hist := []; s_default := d |}.
Proof. repeat split. intros c f. cbn. discriminate. Qed.
