(* Proofs/Sim.v — a simulation between the fail-fast and the collecting run of the same parse
   (C10).  The two runs differ only inside handle_error; states and outcomes are compared up to
   the payload of exceptions (which error object is stored or raised), never up to their number. *)
From UV Require Import Parse Monad.
From Coq Require Import Lia.
Open Scope string_scope.
Open Scope list_scope.
Open Scope Z_scope.

Definition nerr (s : errs) : nat := List.length (e_errors s).
Definition ntmp (s : errs) : nat := List.length (e_tmp s).
(* same number of recorded / temporary errors *)
Definition seq (a b : errs) : Prop := nerr a = nerr b /\ ntmp a = ntmp b.
(* same outcome up to the exception raised *)
Definition req {A} (x y : out A) : Prop :=
  match x, y with
  | Ok a, Ok b => a = b
  | Raise _, Raise _ => True
  | Diverge, Diverge | OutOfFuel, OutOfFuel | Unmodelled, Unmodelled => True
  | _, _ => False
  end.
Definition is_exc {A} (x : out A) : Prop := match x with Raise _ => True | _ => False end.
(* outcomes that are not produced by the modelled part of Python proper *)
Definition junk {A} (x : out A) : Prop := match x with Ok _ | Raise _ => False | _ => True end.

(* mf: the computation under fail-fast options, mc: under collecting options.
   Outcomes outside the modelled part (OutOfFuel / Unmodelled / Diverge) on either side make the
   comparison void; they are excluded by the final theorems' statements. *)
Definition sim {A} (mf mc : M A) : Prop :=
  forall sf sc, seq sf sc ->
    let '(sf', rf) := mf sf in
    let '(sc', rc) := mc sc in
    junk rf \/ junk rc \/
    ((nerr sc' = nerr sc -> req rf rc /\ seq sf' sc') /\
     (nerr sc < nerr sc' -> is_exc rf)%nat).

(* the collecting computation never forgets a recorded error, from any state *)
Definition mono {A} (m : M A) : Prop := forall s, (nerr s <= nerr (fst (m s)))%nat.

Lemma sim_ret {A} (a : A) : sim (ret a) (ret a).
Proof. intros sf sc H. cbn. right; right. split; [intros _; split; [reflexivity|exact H]|lia]. Qed.
Lemma mono_ret {A} (a : A) : mono (ret a).
Proof. intros s. cbn. lia. Qed.

Lemma sim_lift {A} (x : out A) : sim (lift x) (lift x).
Proof.
  intros sf sc H. cbn. destruct x; cbn; auto;
    right; right; (split; [intros _; split; [reflexivity || exact I|exact H]|lia]).
Qed.
Lemma mono_lift {A} (x : out A) : mono (lift x).
Proof. intros s. cbn. lia. Qed.

Lemma sim_bind {A B} (mf mc : M A) (kf kc : A -> M B) :
  sim mf mc -> mono mc -> (forall a, sim (kf a) (kc a)) -> (forall a, mono (kc a)) ->
  sim (mbind mf kf) (mbind mc kc).
Proof.
  intros Hm Hmono Hk Hkmono sf sc Hs. unfold mbind.
  specialize (Hm sf sc Hs). pose proof (Hmono sc) as Hge.
  destruct (mf sf) as [sf1 rf1]. destruct (mc sc) as [sc1 rc1]. cbn [fst] in Hge.
  destruct Hm as [Hj|[Hj|(Hclean & Hpois)]].
  - destruct rf1; cbn in Hj; try contradiction; destruct (match rc1 with Ok a => _ | _ => _ end); left; exact I.
  - destruct rc1; cbn in Hj; try contradiction;
      destruct (match rf1 with Ok a => _ | _ => _ end); right; left; exact I.
  - destruct (Nat.eq_dec (nerr sc1) (nerr sc)) as [Heq|Hne].
    + destruct (Hclean Heq) as [Hr Hs1].
      destruct rf1 as [a| | | |], rc1 as [b| | | |]; cbn in Hr; try contradiction;
        try (right; right; split; [intros _; split; [exact I|exact Hs1]|lia]);
        try (left; exact I).
      subst b. specialize (Hk a sf1 sc1 Hs1).
      destruct (kf a sf1) as [sf2 rf2]. destruct (kc a sc1) as [sc2 rc2].
      destruct Hk as [Hj|[Hj|(Hclean2 & Hpois2)]]; [left; exact Hj|right; left; exact Hj|].
      right; right. split; [intros H2; apply Hclean2; lia|intros H2; apply Hpois2; lia].
    + assert (Hlt : (nerr sc < nerr sc1)%nat) by lia.
      specialize (Hpois Hlt). destruct rf1 as [a| | | |]; cbn in Hpois; try contradiction.
      destruct rc1 as [b| | | |]; try (right; left; exact I).
      * pose proof (Hkmono b sc1) as Hm2. destruct (kc b sc1) as [sc2 rc2]. cbn [fst] in Hm2.
        right; right. split; [intros H2; lia|intros _; exact I].
      * right; right. split; [intros H2; lia|intros _; exact I].
Qed.

Lemma mono_bind {A B} (m : M A) (k : A -> M B) : mono m -> (forall a, mono (k a)) -> mono (mbind m k).
Proof.
  intros Hm Hk s. unfold mbind. specialize (Hm s). destruct (m s) as [s1 [a| | | |]]; cbn [fst] in *; try exact Hm.
  specialize (Hk a s1). lia.
Qed.

(* ---- the primitives of RuntimeContext ---- *)
(* options that differ at most in collect_errors / max_errors; of fails fast, oc collects *)
Definition crel (of oc : options) : Prop :=
  o_collect_errors of = false /\ o_collect_errors oc = true /\ o_override of = false /\
  o_max_depth of = o_max_depth oc /\ o_max_params of = o_max_params oc /\ o_min_params of = o_min_params oc /\
  o_addition of = o_addition oc /\ o_invalid_items of = o_invalid_items oc /\ o_invalid_keys of = o_invalid_keys oc /\
  o_invalid_values of = o_invalid_values oc /\ o_unresolved of = o_unresolved oc /\
  o_no_explicit_cast of = o_no_explicit_cast oc /\ o_no_data_loss of = o_no_data_loss oc /\
  o_ignore_constraints of = o_ignore_constraints oc /\ o_ignore_alias_conflicts of = o_ignore_alias_conflicts oc /\
  o_ignore_required of = o_ignore_required oc /\ o_force_default of = o_force_default oc /\
  o_no_default of = o_no_default oc /\ o_defer_default of = o_defer_default oc /\
  o_data_first_search of = o_data_first_search oc /\ o_mode of = o_mode oc /\
  o_allow_subclasses of = o_allow_subclasses oc /\ o_case_insensitive of = o_case_insensitive oc /\
  o_override oc = false.

Lemma sim_handle_error of oc e e' fr : crel of oc -> sim (handle_error of e fr) (handle_error oc e' fr).
Proof.
  intros (Hf & Hc & _) sf sc [Hn Ht]. unfold handle_error. rewrite Hf, Hc. cbn [negb].
  replace (fr || true) with true by (destruct fr; reflexivity).
  destruct (fr || false); [|destruct (o_max_errors oc) as [m|]; [destruct (m <=? _)|]];
    right; right; (split; [unfold nerr; cbn [e_errors]; rewrite app_length; cbn; lia|intros _; exact I]).
Qed.
Lemma mono_handle_error o e fr : mono (handle_error o e fr).
Proof.
  intros s. unfold handle_error.
  destruct (fr || negb (o_collect_errors o)); [|destruct (o_max_errors o) as [m|]; [destruct (m <=? _)|]];
    unfold nerr; cbn [fst e_errors]; rewrite app_length; lia.
Qed.

Lemma sim_raise_error : sim raise_error raise_error.
Proof.
  intros sf sc Hs. pose proof Hs as [Hn Ht]. unfold raise_error.
  unfold nerr, ntmp in Hn, Ht.
  destruct (e_errors sf) as [|a l] eqn:E1, (e_errors sc) as [|b m] eqn:E2; cbn in Hn; try discriminate;
  destruct (e_tmp sf) as [|c p] eqn:E3, (e_tmp sc) as [|d q] eqn:E4; cbn in Ht; try discriminate;
    right; right; (split; [intros _; split; [exact I || reflexivity|exact Hs]|lia]).
Qed.
Lemma mono_raise_error : mono raise_error.
Proof. intros s. unfold raise_error. destruct (e_errors s), (e_tmp s); cbn; lia. Qed.

Lemma sim_collect_tmp e e' : sim (collect_tmp_error e) (collect_tmp_error e').
Proof.
  intros sf sc [Hn Ht]. unfold collect_tmp_error. right; right.
  split; [intros _; split; [reflexivity|]|unfold nerr; cbn; lia].
  split; unfold nerr, ntmp in *; cbn [e_errors e_tmp]; [exact Hn|rewrite !app_length; cbn; lia].
Qed.
Lemma mono_collect_tmp e : mono (collect_tmp_error e).
Proof. intros s. unfold nerr. cbn. lia. Qed.
Lemma sim_clear_tmp : sim clear_tmp_error clear_tmp_error.
Proof.
  intros sf sc [Hn Ht]. unfold clear_tmp_error. right; right.
  split; [intros _; split; [reflexivity|split; [exact Hn|reflexivity]]|unfold nerr; cbn; lia].
Qed.
Lemma mono_clear_tmp : mono clear_tmp_error.
Proof. intros s. unfold nerr. cbn. lia. Qed.
