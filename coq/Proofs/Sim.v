(* Proofs/Sim.v — a simulation between the fail-fast and the collecting run of the same parse
   (C10).  The two runs differ only inside handle_error; states and outcomes are compared up to
   the payload of exceptions (which error object is stored or raised), never up to their number. *)
From UV Require Import Parse Monad.
From Coq Require Import Lia.
Open Scope string_scope.
Open Scope list_scope.
Open Scope Z_scope.

Definition nerr (s : errs) : nat := List.length (e_errors s).
Definition ntmp (s : errs) : nat := List.length (e_tmp s).
(* same number of recorded / temporary errors *)
Definition seq (a b : errs) : Prop := nerr a = nerr b /\ ntmp a = ntmp b.
(* same outcome up to the exception raised *)
Definition req {A} (x y : out A) : Prop :=
  match x, y with
  | Ok a, Ok b => a = b
  | Raise _, Raise _ => True
  | Diverge, Diverge | OutOfFuel, OutOfFuel | Unmodelled, Unmodelled => True
  | _, _ => False
  end.
Definition is_exc {A} (x : out A) : Prop := match x with Raise _ => True | _ => False end.
(* outcomes that are not produced by the modelled part of Python proper *)
Definition junk {A} (x : out A) : Prop := match x with Ok _ | Raise _ => False | _ => True end.

(* mf: the computation under fail-fast options, mc: under collecting options.
   Either both runs record no new error and then agree (lockstep), or both have recorded one
   (from the first handle_error on, the fail-fast run is on its way out and the collecting run is
   poisoned).  Outcomes outside the modelled part (OutOfFuel / Unmodelled / Diverge) on either
   side void the comparison; the final theorems exclude them in their statements. *)
Definition sim {A} (mf mc : M A) : Prop :=
  forall sf sc, seq sf sc ->
    let '(sf', rf) := mf sf in
    let '(sc', rc) := mc sc in
    junk rf \/ junk rc \/
    (nerr sf' = nerr sf /\ nerr sc' = nerr sc /\ req rf rc /\ seq sf' sc') \/
    (nerr sf < nerr sf' /\ nerr sc < nerr sc')%nat.

(* no computation ever forgets a recorded error, from any state *)
Definition mono {A} (m : M A) : Prop := forall s, (nerr s <= nerr (fst (m s)))%nat.

Lemma sim_ext {A} (mf mf' mc mc' : M A) :
  (forall s, mf s = mf' s) -> (forall s, mc s = mc' s) -> sim mf' mc' -> sim mf mc.
Proof. intros H1 H2 H sf sc Hs. rewrite H1, H2. apply H. exact Hs. Qed.
Lemma mono_ext {A} (m m' : M A) : (forall s, m s = m' s) -> mono m' -> mono m.
Proof. intros H1 H s. rewrite H1. apply H. Qed.

Lemma sim_ret {A} (a : A) : sim (ret a) (ret a).
Proof. intros sf sc H. cbn. right; right; left. repeat split; auto; apply H. Qed.
Lemma mono_ret {A} (a : A) : mono (ret a).
Proof. intros s. cbn. lia. Qed.

Lemma sim_lift_rel {A} (x y : out A) : junk x \/ junk y \/ req x y -> sim (lift x) (lift y).
Proof.
  intros H sf sc Hs. cbn. destruct H as [H|[H|H]]; auto. right; right; left. repeat split; auto; apply Hs.
Qed.
Lemma req_refl {A} (x : out A) : junk x \/ req x x.
Proof. destruct x; cbn; auto. Qed.
Lemma sim_lift {A} (x : out A) : sim (lift x) (lift x).
Proof. apply sim_lift_rel. destruct (req_refl x); auto. Qed.
Lemma mono_lift {A} (x : out A) : mono (lift x).
Proof. intros s. cbn. lia. Qed.

(* try: m, then k  except Exception as e: h e *)
Definition mtry {A B} (m : M A) (k : A -> M B) (h : exn -> M B) : M B :=
  fun s => let '(s1, r) := m s in
           match r with
           | Ok a => k a s1
           | Raise e => h e s1
           | Diverge => (s1, Diverge) | OutOfFuel => (s1, OutOfFuel) | Unmodelled => (s1, Unmodelled)
           end.

Lemma mono_mtry {A B} (m : M A) (k : A -> M B) (h : exn -> M B) :
  mono m -> (forall a, mono (k a)) -> (forall e, mono (h e)) -> mono (mtry m k h).
Proof.
  intros Hm Hk Hh s. unfold mtry. specialize (Hm s). destruct (m s) as [s1 [a|e| | |]]; cbn [fst] in *; try exact Hm.
  - specialize (Hk a s1). lia.
  - specialize (Hh e s1). lia.
Qed.

Lemma sim_mtry {A B} (mf mc : M A) (kf kc : A -> M B) (hf hc : exn -> M B) :
  sim mf mc -> mono mf -> mono mc ->
  (forall a, sim (kf a) (kc a)) -> (forall a, mono (kf a)) -> (forall a, mono (kc a)) ->
  (forall e e', sim (hf e) (hc e')) -> (forall e, mono (hf e)) -> (forall e, mono (hc e)) ->
  sim (mtry mf kf hf) (mtry mc kc hc).
Proof.
  intros Hm Hmf Hmc Hk Hkf Hkc Hh Hhf Hhc sf sc Hs. unfold mtry.
  specialize (Hm sf sc Hs). pose proof (Hmf sf) as Hgf. pose proof (Hmc sc) as Hgc.
  destruct (mf sf) as [sf1 rf1]. destruct (mc sc) as [sc1 rc1]. cbn [fst] in *.
  (* what follows the first stage never forgets an error *)
  assert (Hf : forall sf2 rf2, (match rf1 with Ok a => kf a sf1 | Raise e => hf e sf1 | Diverge => (sf1, Diverge)
                | OutOfFuel => (sf1, OutOfFuel) | Unmodelled => (sf1, Unmodelled) end) = (sf2, rf2) -> (nerr sf1 <= nerr sf2)%nat).
  { intros sf2 rf2 E. destruct rf1 as [a|e| | |]; try (injection E as <- _; lia).
    - pose proof (Hkf a sf1) as Hx. rewrite E in Hx. exact Hx.
    - pose proof (Hhf e sf1) as Hx. rewrite E in Hx. exact Hx. }
  assert (Hc : forall sc2 rc2, (match rc1 with Ok a => kc a sc1 | Raise e => hc e sc1 | Diverge => (sc1, Diverge)
                | OutOfFuel => (sc1, OutOfFuel) | Unmodelled => (sc1, Unmodelled) end) = (sc2, rc2) -> (nerr sc1 <= nerr sc2)%nat).
  { intros sc2 rc2 E. destruct rc1 as [a|e| | |]; try (injection E as <- _; lia).
    - pose proof (Hkc a sc1) as Hx. rewrite E in Hx. exact Hx.
    - pose proof (Hhc e sc1) as Hx. rewrite E in Hx. exact Hx. }
  destruct (match rf1 with Ok a => kf a sf1 | Raise e => hf e sf1 | Diverge => (sf1, Diverge)
            | OutOfFuel => (sf1, OutOfFuel) | Unmodelled => (sf1, Unmodelled) end) as [sf2 rf2] eqn:Ef.
  destruct (match rc1 with Ok a => kc a sc1 | Raise e => hc e sc1 | Diverge => (sc1, Diverge)
            | OutOfFuel => (sc1, OutOfFuel) | Unmodelled => (sc1, Unmodelled) end) as [sc2 rc2] eqn:Ec.
  specialize (Hf _ _ eq_refl). specialize (Hc _ _ eq_refl).
  destruct Hm as [Hj|[Hj|[(Hcf & Hcc & Hr & Hs1)|(Hdf & Hdc)]]].
  - destruct rf1; cbn in Hj; try contradiction; injection Ef as _ <-; left; exact I.
  - destruct rc1; cbn in Hj; try contradiction; injection Ec as _ <-; right; left; exact I.
  - destruct rf1 as [a|e| | |], rc1 as [b|e'| | |]; cbn in Hr; try contradiction;
      try (injection Ef as _ <-; left; exact I).
    + subst b. specialize (Hk a sf1 sc1 Hs1). rewrite Ef, Ec in Hk.
      destruct Hk as [Hj|[Hj|[(H1 & H2 & H3 & H4)|(H1 & H2)]]]; auto.
      * right; right; left. repeat split; try lia; auto; apply H4.
      * right; right; right. lia.
    + specialize (Hh e e' sf1 sc1 Hs1). rewrite Ef, Ec in Hh.
      destruct Hh as [Hj|[Hj|[(H1 & H2 & H3 & H4)|(H1 & H2)]]]; auto.
      * right; right; left. repeat split; try lia; auto; apply H4.
      * right; right; right. lia.
  - right; right; right. lia.
Qed.

(* bind is try with a handler that re-raises *)
Lemma mbind_mtry {A B} (m : M A) (k : A -> M B) s : mbind m k s = mtry m k (fun e => lift (Raise e)) s.
Proof. unfold mbind, mtry, lift. destruct (m s) as [s1 [a|e| | |]]; reflexivity. Qed.

Lemma sim_raise {A} e e' : sim (@lift A (Raise e)) (lift (Raise e')).
Proof. apply sim_lift_rel. right; right. exact I. Qed.

Lemma sim_bind {A B} (mf mc : M A) (kf kc : A -> M B) :
  sim mf mc -> mono mf -> mono mc ->
  (forall a, sim (kf a) (kc a)) -> (forall a, mono (kf a)) -> (forall a, mono (kc a)) ->
  sim (mbind mf kf) (mbind mc kc).
Proof.
  intros. eapply sim_ext; [apply mbind_mtry|apply mbind_mtry|].
  apply sim_mtry; auto; intros; try apply sim_raise; apply mono_lift.
Qed.

Lemma mono_bind {A B} (m : M A) (k : A -> M B) : mono m -> (forall a, mono (k a)) -> mono (mbind m k).
Proof.
  intros Hm Hk. eapply mono_ext; [apply mbind_mtry|]. apply mono_mtry; auto. intros; apply mono_lift.
Qed.

(* mcatch is try with the identity continuation *)
Lemma mcatch_mtry {A} (m : M A) (h : exn -> M A) s : mcatch m h s = mtry m (fun a => ret a) h s.
Proof. unfold mcatch, mtry, ret. destruct (m s) as [s1 [a|e| | |]]; reflexivity. Qed.

(* ---- the primitives of RuntimeContext ---- *)
(* options that differ at most in collect_errors / max_errors; of fails fast, oc collects *)
Definition crel (of oc : options) : Prop :=
  o_collect_errors of = false /\ o_collect_errors oc = true /\ o_override of = false /\
  o_max_depth of = o_max_depth oc /\ o_max_params of = o_max_params oc /\ o_min_params of = o_min_params oc /\
  o_addition of = o_addition oc /\ o_invalid_items of = o_invalid_items oc /\ o_invalid_keys of = o_invalid_keys oc /\
  o_invalid_values of = o_invalid_values oc /\ o_unresolved of = o_unresolved oc /\
  o_no_explicit_cast of = o_no_explicit_cast oc /\ o_no_data_loss of = o_no_data_loss oc /\
  o_ignore_constraints of = o_ignore_constraints oc /\ o_ignore_alias_conflicts of = o_ignore_alias_conflicts oc /\
  o_ignore_required of = o_ignore_required oc /\ o_force_default of = o_force_default oc /\
  o_no_default of = o_no_default oc /\ o_defer_default of = o_defer_default oc /\
  o_data_first_search of = o_data_first_search oc /\ o_mode of = o_mode oc /\
  o_allow_subclasses of = o_allow_subclasses oc /\ o_case_insensitive of = o_case_insensitive oc /\
  o_override oc = false.

Lemma sim_handle_error of oc e e' fr : crel of oc -> sim (handle_error of e fr) (handle_error oc e' fr).
Proof.
  intros (Hf & Hc & _) sf sc [Hn Ht]. unfold handle_error. rewrite Hf, Hc. cbn [negb].
  replace (fr || true) with true by (destruct fr; reflexivity).
  destruct (fr || false); [|destruct (o_max_errors oc) as [m|]; [destruct (m <=? _)|]];
    right; right; right; unfold nerr; cbn [e_errors]; rewrite !app_length; cbn; lia.
Qed.
Lemma mono_handle_error o e fr : mono (handle_error o e fr).
Proof.
  intros s. unfold handle_error.
  destruct (fr || negb (o_collect_errors o)); [|destruct (o_max_errors o) as [m|]; [destruct (m <=? _)|]];
    unfold nerr; cbn [fst e_errors]; rewrite app_length; lia.
Qed.

Lemma sim_raise_error : sim raise_error raise_error.
Proof.
  intros sf sc Hs. pose proof Hs as [Hn Ht]. unfold raise_error.
  unfold nerr, ntmp in Hn, Ht.
  destruct (e_errors sf) as [|a l] eqn:E1, (e_errors sc) as [|b m] eqn:E2; cbn in Hn; try discriminate;
  destruct (e_tmp sf) as [|c p] eqn:E3, (e_tmp sc) as [|d q] eqn:E4; cbn in Ht; try discriminate;
    right; right; left; (repeat split; auto; try exact I; try apply Hs).
Qed.
Lemma mono_raise_error : mono raise_error.
Proof. intros s. unfold raise_error. destruct (e_errors s), (e_tmp s); cbn; lia. Qed.

Lemma sim_collect_tmp e e' : sim (collect_tmp_error e) (collect_tmp_error e').
Proof.
  intros sf sc [Hn Ht]. unfold collect_tmp_error. right; right; left.
  repeat split; unfold nerr, ntmp in *; cbn [e_errors e_tmp]; auto. rewrite !app_length; cbn; lia.
Qed.
Lemma mono_collect_tmp e : mono (collect_tmp_error e).
Proof. intros s. unfold nerr. cbn. lia. Qed.
Lemma sim_clear_tmp : sim clear_tmp_error clear_tmp_error.
Proof.
  intros sf sc [Hn Ht]. unfold clear_tmp_error. right; right; left.
  repeat split; unfold nerr, ntmp in *; cbn [e_errors e_tmp]; auto.
Qed.
Lemma mono_clear_tmp : mono clear_tmp_error.
Proof. intros s. unfold nerr. cbn. lia. Qed.
