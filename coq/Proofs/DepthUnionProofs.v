(* Proofs/DepthUnionProofs.v — with max_depth = d, `class Node: v: int; link: Union[Node, int, None] = None` accepts a
   chain (ending in a node without link or in a scalar arm of the union) exactly when its length is at most d (C18):
   adapted from DepthOptProofs.v (three union arms; a scalar at the end takes the exact-class shortcut). *)
From UV Require Import Parse DepthSpec DepthProofs.
From Coq Require Import Lia ZifyBool ZifyNat.
Open Scope string_scope.
Open Scope list_scope.
Open Scope Z_scope.

Section DepthUni.
Variable re : string -> string -> bool.
Variable ex : list string.   (* names the class excludes from additional keys: any *)
Variable d : Z.
Hypothesis d_pos : 1 <= d.

Let o := opts_with_depth (Some d).
Let C := unode_decl_ex ex (Some d).
Let W := unode_world_ex ex (Some d).

Lemma u_odepth_check k ndl nec :
  depth_check (with_flags o ndl nec) k = if d <? k then Raise (parse_err KDepth) else Ok tt.
Proof. unfold depth_check, with_flags, o. cbn [o_override o_max_depth opts_with_depth]. destruct (d =? 0) eqn:E; [lia|]. reflexivity. Qed.
Lemma u_odepth_check_o k : depth_check o k = if d <? k then Raise (parse_err KDepth) else Ok tt.
Proof. unfold depth_check, o. cbn [o_max_depth opts_with_depth]. destruct (d =? 0) eqn:E; [lia|]. reflexivity. Qed.

Lemma u_otr_int n k v s : transform re W (S n) o k (TPrim TInt) (PInt v) s = (s, Ok (PInt v)).
Proof. reflexivity. Qed.

(* converting the nested mapping under the options of any union stage: the nested class parses with its own options *)
Lemma u_okid_flags n k ndl nec kvs :
  in_fresh (transform re W (S n) (with_flags o ndl nec) k (TData 0) (PDict kvs))
  = init_dataclass (transform re W n) 0 C (with_flags o ndl nec) k (PDict kvs).
Proof. reflexivity. Qed.
Lemma u_okid_plain n k kvs :
  in_fresh (transform re W (S n) o k (TData 0) (PDict kvs))
  = init_dataclass (transform re W n) 0 C o k (PDict kvs).
Proof. reflexivity. Qed.

(* None never accepts a mapping, whatever the stage *)
Lemma u_onone_flags n k ndl nec kvs :
  exists e, in_fresh (transform re W (S n) (with_flags o ndl nec) k (TPrim TNone) (PDict kvs)) = Raise e.
Proof. destruct ndl as [[|]|], nec as [[|]|]; eexists; reflexivity. Qed.
Lemma u_onone_plain n k kvs :
  exists e, in_fresh (transform re W (S n) o k (TPrim TNone) (PDict kvs)) = Raise e.
Proof. eexists; reflexivity. Qed.

(* int(...) refuses a non-empty mapping in every stage (an empty one is falsy and becomes 0 leniently) *)
Lemma u_int_flags n k ndl nec kv kvs :
  exists e, in_fresh (transform re W (S n) (with_flags o ndl nec) k (TPrim TInt) (PDict (kv :: kvs))) = Raise e.
Proof. destruct ndl as [[|]|], nec as [[|]|]; eexists; reflexivity. Qed.
Lemma u_int_plain n k kv kvs :
  exists e, in_fresh (transform re W (S n) o k (TPrim TInt) (PDict (kv :: kvs))) = Raise e.
Proof. eexists; reflexivity. Qed.

(* a scalar arm of the union at the end of the chain: the exact-class shortcut *)
Lemma u_link_int n k i : snd (transform re W (S (S n)) o k uni_link (PInt i) no_errs) = Ok (PInt i).
Proof. reflexivity. Qed.

Lemma u_override_flags ndl nec : o_override (with_flags o ndl nec) = false.
Proof. reflexivity. Qed.

Lemma u_otr_unfold n : transform re W (S n) = transform_step re W (transform re W n).
Proof. reflexivity. Qed.

Opaque transform.

(* the union on a mapping whose nested construction succeeds (in every stage alike) *)
Lemma u_union_ok n k kvs r : d <? k = false ->
  (forall caller, o_override caller = false ->
     init_dataclass (transform re W n) 0 C caller k (PDict kvs) = Ok r) ->
  transform_step re W (transform re W (S n)) o k uni_union (PDict kvs) no_errs = (no_errs, Ok r).
Proof.
  intros Hk Hkid. unfold uni_union. cbn [transform_step]. unfold logical_parse.
  cbn [existsb exact_type prim_exact orb].
  unfold o at 1 2 3 4. cbn [o_no_data_loss o_no_explicit_cast opts_with_depth negb orb andb]. fold o.
  unfold mbind at 1. cbn [or_stage]. unfold enter_tr, new_depth. rewrite u_odepth_check, Hk.
  rewrite u_okid_flags, (Hkid _ (u_override_flags _ _)).
  reflexivity.
Qed.

Lemma u_union_fail n k kvs : kvs <> [] -> d <? k = false ->
  (forall caller, o_override caller = false ->
     raises_parse (init_dataclass (transform re W n) 0 C caller k (PDict kvs))) ->
  exists s' e, transform_step re W (transform re W (S n)) o k uni_union (PDict kvs) no_errs = (s', Raise e).
Proof.
  intros Hne Hk Hkid. destruct kvs as [|kv0 kvs0]; [contradiction|]. set (kvs := kv0 :: kvs0) in *. unfold uni_union. cbn [transform_step]. unfold logical_parse.
  cbn [existsb exact_type prim_exact orb].
  unfold o at 1 2 3 4. cbn [o_no_data_loss o_no_explicit_cast opts_with_depth negb orb andb]. fold o.
  destruct (Hkid _ (u_override_flags (Some true) (Some true))) as (e1 & He1 & _).
  destruct (Hkid _ (u_override_flags (Some true) None)) as (e2 & He2 & _).
  destruct (Hkid o eq_refl) as (e3 & He3 & _).
  destruct (u_onone_flags n k (Some true) (Some true) kvs) as (f1 & Hf1).
  destruct (u_onone_flags n k (Some true) None kvs) as (f2 & Hf2).
  destruct (u_onone_plain n k kvs) as (f3 & Hf3).
  destruct (u_int_flags n k (Some true) (Some true) kv0 kvs0) as (g1 & Hg1).
  destruct (u_int_flags n k (Some true) None kv0 kvs0) as (g2 & Hg2).
  destruct (u_int_plain n k kv0 kvs0) as (g3 & Hg3). fold kvs in Hg1, Hg2, Hg3.
  unfold mbind at 1. cbn [or_stage]. unfold enter_tr, new_depth. rewrite !u_odepth_check, u_odepth_check_o, Hk.
  rewrite !u_okid_flags, u_okid_plain, He1, He2, He3, Hg1, Hg2, Hg3, Hf1, Hf2, Hf3.
  eexists. eexists. reflexivity.
Qed.

(* the field type: a Rule whose origin is the union *)
Lemma u_link_ok n k kvs fs : d <? k = false ->
  (forall caller, o_override caller = false ->
     init_dataclass (transform re W n) 0 C caller k (PDict kvs) = Ok (PInst 0 fs)) ->
  snd (transform_step re W (transform re W (S (S n))) o k uni_link (PDict kvs) no_errs) = Ok (PInst 0 fs).
Proof.
  intros Hk Hkid. unfold uni_link. cbn [transform_step]. unfold rule_parse, mcatch, mbind at 1.
  rewrite u_otr_unfold, (u_union_ok n k kvs _ Hk Hkid).
  reflexivity.
Qed.

Lemma u_link_fail n k kvs : kvs <> [] -> d <? k = false ->
  (forall caller, o_override caller = false ->
     raises_parse (init_dataclass (transform re W n) 0 C caller k (PDict kvs))) ->
  exists e, snd (transform_step re W (transform re W (S (S n))) o k uni_link (PDict kvs) no_errs) = Raise e
            /\ is_parse_err e = true.
Proof.
  intros Hne Hk Hkid. unfold uni_link. cbn [transform_step]. unfold rule_parse, mcatch, mbind at 1.
  destruct (u_union_fail n k kvs Hne Hk Hkid) as (s' & e & He).
  rewrite u_otr_unfold, He.
  eexists. split; reflexivity.
Qed.

(* one node with a successor, given what its `next` field parses to *)
Lemma u_init_onode n k caller v kvs :
  o_override caller = false -> d <? k + 1 = false ->
  init_dataclass (transform re W (S n)) 0 C caller k (PDict [(PStr "v", PInt v); (PStr "link", PDict kvs)]) =
  match snd (transform re W (S n) o (k + 1) uni_link (PDict kvs) no_errs) with
  | Ok r => Ok (PInst 0 [("v", PInt v); ("link", r)])
  | Raise e => Raise (parse_err_at KType (PStr "link"))
  | Diverge => Diverge | OutOfFuel => OutOfFuel | Unmodelled => Unmodelled
  end.
Proof.
  intros Hov Hk.
  assert (Hd0 : (d =? 0) = false) by lia.
  pose proof (u_otr_int n (k + 1) v no_errs) as Hint.
  set (tr := transform re W (S n)) in *.
  unfold init_dataclass, nested_options. change (c_options C) with o. rewrite Hov.
  cbv -[tr uni_link Z.ltb Z.eqb Z.add].
  rewrite Hd0, Hk. cbv -[tr uni_link Z.ltb Z.eqb Z.add].
  cbv -[tr uni_link Z.ltb Z.eqb Z.add] in Hint. rewrite Hint.
  cbv -[tr uni_link Z.ltb Z.eqb Z.add]. rewrite ?Hd0, ?Hk. cbv -[tr uni_link Z.ltb Z.eqb Z.add].
  match goal with |- context [tr ?a ?b uni_link ?c ?st] =>
    destruct (tr a b uni_link c st) as [s1 [r|exn0| | |]] end;
    cbv -[tr uni_link Z.ltb Z.eqb Z.add]; reflexivity.
Qed.

(* the last node: `next` is absent and takes its default *)
Lemma u_init_oend n k caller v :
  o_override caller = false -> d <? k + 1 = false ->
  init_dataclass (transform re W (S n)) 0 C caller k (PDict [(PStr "v", PInt v)]) =
  Ok (PInst 0 [("v", PInt v); ("link", PNone)]).
Proof.
  intros Hov Hk.
  assert (Hd0 : (d =? 0) = false) by lia.
  pose proof (u_otr_int n (k + 1) v no_errs) as Hint.
  set (tr := transform re W (S n)) in *.
  unfold init_dataclass, nested_options. change (c_options C) with o. rewrite Hov.
  cbv -[tr uni_link Z.ltb Z.eqb Z.add].
  rewrite Hd0, Hk. cbv -[tr uni_link Z.ltb Z.eqb Z.add].
  cbv -[tr uni_link Z.ltb Z.eqb Z.add] in Hint. rewrite Hint.
  cbv -[tr uni_link Z.ltb Z.eqb Z.add]. rewrite ?Hd0, ?Hk. cbv -[tr uni_link Z.ltb Z.eqb Z.add].
  reflexivity.
Qed.

Lemma u_oinit_too_deep tr k caller data :
  o_override caller = false -> d <? k + 1 = true ->
  init_dataclass tr 0 C caller k data = Raise (parse_err KDepth).
Proof.
  intros Hov Hk. unfold init_dataclass, nested_options. change (c_options C) with o. rewrite Hov.
  cbn [o_override o opts_with_depth negb andb]. rewrite u_odepth_check_o, Hk. reflexivity.
Qed.

Lemma u_inst_inst c : exists fs, inst_u c = PInst 0 fs.
Proof. destruct c; eexists; reflexivity. Qed.
Lemma u_to_val_dict c : exists kvs, to_val_u c = PDict kvs /\ kvs <> [].
Proof. destruct c; eexists; (split; [reflexivity|discriminate]). Qed.

(* a node whose link is a scalar arm of the union *)
Lemma u_init_int n k caller v i :
  o_override caller = false -> d <? k + 1 = false ->
  init_dataclass (transform re W (S (S (S n)))) 0 C caller k (PDict [(PStr "v", PInt v); (PStr "link", PInt i)]) =
  Ok (PInst 0 [("v", PInt v); ("link", PInt i)]).
Proof.
  intros Hov Hk.
  assert (Hd0 : (d =? 0) = false) by lia.
  pose proof (u_otr_int (S (S n)) (k + 1) v no_errs) as Hint.
  pose proof (u_link_int (S n) (k + 1) i) as Hlink.
  set (tr := transform re W (S (S (S n)))) in *.
  unfold init_dataclass, nested_options. change (c_options C) with o. rewrite Hov.
  cbv -[tr uni_link Z.ltb Z.eqb Z.add].
  rewrite Hd0, Hk. cbv -[tr uni_link Z.ltb Z.eqb Z.add].
  cbv -[tr uni_link Z.ltb Z.eqb Z.add] in Hint. rewrite Hint.
  cbv -[tr uni_link Z.ltb Z.eqb Z.add]. rewrite ?Hd0, ?Hk. cbv -[tr uni_link Z.ltb Z.eqb Z.add].
  destruct (tr o (k + 1) uni_link (PInt i) no_errs) as [s1 r1] eqn:E. cbn [snd] in Hlink. subst r1.
  cbv -[tr uni_link Z.ltb Z.eqb Z.add]. reflexivity.
Qed.

(* THE RESULT for the union family *)
Lemma u_onode_parse : forall c n k caller,
  (3 * ulength c <= n)%nat -> o_override caller = false ->
  (k + Z.of_nat (ulength c) <= d ->
     init_dataclass (transform re W n) 0 C caller k (to_val_u c) = Ok (inst_u c)) /\
  (d < k + Z.of_nat (ulength c) ->
     raises_parse (init_dataclass (transform re W n) 0 C caller k (to_val_u c))).
Proof.
  induction c as [v|v i|v c IH]; intros n k caller Hn Hov; cbn [ulength] in Hn |- *.
  - destruct n as [|n1]; [lia|]. cbn [to_val_u inst_u].
    destruct (d <? k + 1) eqn:Hk.
    + split; [lia|]. intros _. rewrite u_oinit_too_deep by assumption. eexists; split; reflexivity.
    + split; [|lia]. intros _. apply u_init_oend; assumption.
  - destruct n as [|[|[|n2]]]; try lia. cbn [to_val_u inst_u].
    destruct (d <? k + 1) eqn:Hk.
    + split; [lia|]. intros _. rewrite u_oinit_too_deep by assumption. eexists; split; reflexivity.
    + split; [|lia]. intros _. apply u_init_int; assumption.
  - destruct n as [|[|[|n2]]]; try lia. cbn [to_val_u inst_u].
    destruct (d <? k + 1) eqn:Hk.
    + split; [lia|]. intros _. rewrite u_oinit_too_deep by assumption. eexists; split; reflexivity.
    + destruct (u_to_val_dict c) as (kvs & Hkvs & Hne). rewrite Hkvs.
      rewrite u_init_onode by assumption. rewrite u_otr_unfold.
      split.
      * intros Hle. destruct (u_inst_inst c) as (fs & Hfs). rewrite (u_link_ok n2 (k + 1) kvs fs Hk); [rewrite Hfs; reflexivity|].
        rewrite <- Hfs.
        intros caller' Hov'. rewrite <- Hkvs. apply (IH n2 (k + 1) caller'); [lia|exact Hov'|lia].
      * intros Hgt. destruct (u_link_fail n2 (k + 1) kvs Hne Hk) as (e & He & Hp).
        { intros caller' Hov'. rewrite <- Hkvs. apply (IH n2 (k + 1) caller'); [lia|exact Hov'|lia]. }
        rewrite He. eexists; split; reflexivity.
Qed.

End DepthUni.

Transparent transform.

Lemma u_onode_call re ex d c fuel : 1 <= d -> (3 * ulength c <= fuel)%nat ->
  (Z.of_nat (ulength c) <= d ->
     call_dataclass re (unode_world_ex ex (Some d)) fuel 0 None (to_val_u c) = Ok (inst_u c)) /\
  (d < Z.of_nat (ulength c) ->
     raises_parse (call_dataclass re (unode_world_ex ex (Some d)) fuel 0 None (to_val_u c))).
Proof.
  intros Hd Hf. unfold call_dataclass. cbn [unode_world_ex].
  replace {| c_fields := c_fields (unode_decl_ex ex (Some d)); c_alias_map := c_alias_map (unode_decl_ex ex (Some d));
             c_ci_names := c_ci_names (unode_decl_ex ex (Some d)); c_options := c_options (unode_decl_ex ex (Some d));
             c_dfs := c_dfs (unode_decl_ex ex (Some d)); c_exclude_vars := c_exclude_vars (unode_decl_ex ex (Some d));
             c_dict_based := c_dict_based (unode_decl_ex ex (Some d)) |} with (unode_decl_ex ex (Some d)) by reflexivity.
  destruct (u_onode_parse re ex d Hd c fuel 0 default_options Hf eq_refl) as [H1 H2].
  split; intros H; [apply H1|apply H2]; lia.
Qed.
