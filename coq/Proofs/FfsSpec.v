(* Proofs/FfsSpec.v — field_first_parse refines the field contract (Spec/FieldSpec.v).
   Stage 1 folds the keys of case-insensitive names (a fold over the data, decomposed per folded
   key); stage 2 looks every field up under its accepted names, in their order. *)
From UV Require Import Parse Verdict Assoc FieldSpec FieldFacts ContractCommon DfsSpec.
From Coq Require Import Lia.
Open Scope string_scope.
Open Scope list_scope.

Lemma filter_key_nodup {A} (q : string * A -> bool) (l : list (string * A)) a :
  NoDup (keys l) ->
  filter (fun e => String.eqb (fst e) a && q e) l =
  match assoc a l with Some v => if q (a, v) then [(a, v)] else [] | None => [] end.
Proof.
  induction l as [|[k v] r IH]; cbn; intros Hn; [reflexivity|].
  inversion Hn as [|? ? Hni Hn']; subst. rewrite (String.eqb_sym a k).
  destruct (String.eqb k a) eqn:E; cbn [andb].
  - apply seqb_eq in E. subst k.
    assert (Hr : filter (fun e => String.eqb (fst e) a && q e) r = []).
    { apply filter_nil_iff. intros [k' v'] Hi. cbn [fst]. destruct (String.eqb k' a) eqn:E'; [|reflexivity].
      apply seqb_eq in E'. subst k'. exfalso. apply Hni. apply (in_map fst) in Hi. exact Hi. }
    rewrite Hr. destruct (q (a, v)); reflexivity.
  - apply IH. exact Hn'.
Qed.

Section Ffs.
Variable tr : options -> Z -> ty -> pyval -> M pyval.
Variable C : cdecl.
Variable o : options.
Variable depth : Z.
Hypothesis HW : WF C.
Hypothesis Hign : o_ignore_alias_conflicts o = false.
Let fs := c_fields C.
Let ci := c_ci_names C.

(* ---- stage 1: the fold of case-insensitive keys, per folded key ---- *)
Definition gtgt (e : string * pyval) : string := fkey C (fst e).
Definition glstep (a : string) (cur : option pyval) (e : string * pyval) : option (option pyval) :=
  if str_in (str_lower (fst e)) ci then
    match cur with
    | Some prev =>
        if negb (py_eq prev (snd e)) then
          match get_field C (str_lower (fst e)) with
          | Some f => if is_no_input f o then Some cur else None
          | None => Some cur
          end
        else Some cur
    | None => Some (Some (snd e))
    end
  else Some (Some (snd e)).

Lemma ffs_Hstep acc e :
  match glstep (gtgt e) (assoc (gtgt e) acc) e with
  | None => ffs_fold_pstep C o acc e = None
  | Some l' => exists acc', ffs_fold_pstep C o acc e = Some acc' /\ assoc (gtgt e) acc' = l' /\
                            forall a, a <> gtgt e -> assoc a acc' = assoc a acc
  end.
Proof.
  destruct e as [x v]. unfold gtgt, fkey, glstep, ffs_fold_pstep. cbn [fst snd]. fold ci. rewrite Hign.
  destruct (str_in (str_lower x) ci).
  - destruct (assoc (str_lower x) acc) as [prev|] eqn:Ea.
    + destruct (negb (py_eq prev v)).
      * destruct (get_field C (str_lower x)) as [f|].
        -- destruct (is_no_input f o); [|reflexivity]. exists acc. auto.
        -- exists acc. auto.
      * exists acc. auto.
    + eexists. split; [reflexivity|]. split; [apply assoc_set_same|]. intros a Ha. apply assoc_set_other. exact Ha.
  - eexists. split; [reflexivity|]. split; [apply assoc_set_same|]. intros a Ha. apply assoc_set_other. exact Ha.
Qed.

Definition grp (a : string) (data : sdata) : sdata := sub _ _ String.eqb gtgt a data.

Lemma ffs_some data acc acc' :
  ofold (ffs_fold_pstep C o) data acc = Some acc' ->
  forall a, ofold (glstep a) (grp a data) (assoc a acc) = Some (assoc a acc').
Proof. apply (decomp_some _ _ _ _ String.eqb seqb_eq gtgt (fun a acc => assoc a acc) _ glstep ffs_Hstep). Qed.
Lemma ffs_none data acc :
  ofold (ffs_fold_pstep C o) data acc = None ->
  exists a, ofold (glstep a) (grp a data) (assoc a acc) = None.
Proof. apply (decomp_none _ _ _ _ String.eqb seqb_eq gtgt (fun a acc => assoc a acc) _ glstep ffs_Hstep). Qed.

Lemma grp_In a data e : In e (grp a data) <-> In e data /\ gtgt e = a.
Proof. unfold grp, sub. rewrite filter_In, seqb_eq. tauto. Qed.

(* all entries filed under a are folded, or none is *)
Lemma grp_branch a data e : In e (grp a data) -> str_in (str_lower (fst e)) ci = str_in a ci.
Proof.
  intros He. apply grp_In in He. destruct He as [_ He]. unfold gtgt, fkey in He. fold ci in He.
  destruct (str_in (str_lower (fst e)) ci) eqn:E.
  - subst a. symmetry. exact E.
  - subst a. symmetry. apply str_in_false. intros Hin.
    pose proof (wf_ci_lower C HW _ Hin) as Hl. apply str_in_false in E. apply E. rewrite Hl. exact Hin.
Qed.
Lemma grp_ci_key a data e : In e (grp a data) -> str_in a ci = true -> str_lower (fst e) = a.
Proof.
  intros He Ha. pose proof (grp_branch _ _ _ He) as Hb. rewrite Ha in Hb.
  apply grp_In in He. destruct He as [_ He]. unfold gtgt, fkey in He. fold ci in He. rewrite Hb in He. exact He.
Qed.

(* closed forms *)
Lemma grp_fold_nonci a es : (forall e, In e es -> str_in (str_lower (fst e)) ci = false) ->
  forall cur, ofold (glstep a) es cur = Some (match rev es with e :: _ => Some (snd e) | [] => cur end).
Proof.
  intros Hb. induction es as [|e r IH] using rev_ind; intros cur; [reflexivity|].
  rewrite rev_unit.
  assert (Hsplit : forall l c, ofold (glstep a) (l ++ [e]) c = obind (ofold (glstep a) l c) (fun c' => glstep a c' e)).
  { induction l as [|e' l IHl]; intros c; cbn [app ofold obind].
    - destruct (glstep a c e); reflexivity.
    - destruct (glstep a c e'); cbn [obind]; [apply IHl|reflexivity]. }
  rewrite Hsplit, IH by (intros e' He'; apply Hb; apply in_or_app; left; exact He').
  cbn [obind]. unfold glstep. rewrite (Hb e) by (apply in_or_app; right; left; reflexivity). reflexivity.
Qed.

Lemma grp_fold_ci a f es :
  (forall e, In e es -> str_in (str_lower (fst e)) ci = true /\ str_lower (fst e) = a) ->
  get_field C a = Some f ->
  ofold (glstep a) es None =
  match map snd es with
  | [] => Some None
  | g1 :: more => if is_no_input f o || forallb (py_eq g1) more then Some (Some g1) else None
  end.
Proof.
  intros Hb Hf. destruct es as [|e1 r]; [reflexivity|].
  cbn [ofold map]. unfold glstep at 1. destruct (Hb e1 (or_introl eq_refl)) as [Hb1 _]. rewrite Hb1. cbn [obind].
  assert (Hrest : forall l, (forall e, In e l -> str_in (str_lower (fst e)) ci = true /\ str_lower (fst e) = a) ->
            ofold (glstep a) l (Some (snd e1)) =
            if is_no_input f o || forallb (py_eq (snd e1)) (map snd l) then Some (Some (snd e1)) else None).
  { induction l as [|e l IHl]; intros Hl; cbn [ofold map forallb].
    - rewrite Bool.orb_true_r. reflexivity.
    - unfold glstep at 1. destruct (Hl e (or_introl eq_refl)) as [Hc Hk]. rewrite Hc, Hk, Hf.
      destruct (py_eq (snd e1) (snd e)); cbn [negb andb obind].
      + apply IHl. intros e' He'. apply Hl. right. exact He'.
      + destruct (is_no_input f o); cbn [orb obind]; [|reflexivity].
        rewrite IHl by (intros e' He'; apply Hl; right; exact He'). reflexivity. }
  apply Hrest. intros e He. apply Hb. right. exact He.
Qed.

(* ---- stage 2: the lookup of one field under its accepted names ---- *)
Lemma lookup_some A d c :
  ffs_lookup false A d (Some c) =
  (Some c, existsb (fun a => match assoc a d with Some x => negb (py_eq x c) | None => false end) A).
Proof.
  induction A as [|a r IH]; [reflexivity|]. cbn [ffs_lookup existsb].
  destruct (assoc a d) as [x|]; [|exact IH].
  destruct (negb (py_eq x c)); [reflexivity|exact IH].
Qed.

Lemma lookup_char A d : NoDup A ->
  let '(value, conflict) := ffs_lookup false A d None in
  match value with
  | None => (forall a, In a A -> assoc a d = None) /\ conflict = false
  | Some w => exists a0, In a0 A /\ assoc a0 d = Some w /\
              (conflict = false -> forall a x, In a A -> assoc a d = Some x -> x = w \/ py_eq x w = true) /\
              (conflict = true -> exists a x, In a A /\ a <> a0 /\ assoc a d = Some x /\ py_eq x w = false)
  end.
Proof.
  induction A as [|a r IH]; intros Hn; [cbn; split; [intros ? []|reflexivity]|].
  inversion Hn as [|? ? Hni Hn']; subst.
  cbn [ffs_lookup]. destruct (assoc a d) as [x0|] eqn:Ea.
  - rewrite lookup_some. exists a. split; [left; reflexivity|]. split; [exact Ea|]. split.
    + intros Hc a' x [<-|Hin] Hx; [left; congruence|].
      right. destruct (py_eq x x0) eqn:Ep; [reflexivity|]. exfalso.
      assert (existsb (fun a => match assoc a d with Some x => negb (py_eq x x0) | None => false end) r = true); [|congruence].
      apply existsb_exists. exists a'. split; [exact Hin|]. rewrite Hx, Ep. reflexivity.
    + intros Hc. apply existsb_exists in Hc. destruct Hc as (a' & Hin & Hx).
      destruct (assoc a' d) as [x|] eqn:Ea'; [|discriminate]. exists a', x. split; [right; exact Hin|].
      split; [intros ->; contradiction|]. split; [exact Ea'|]. apply Bool.negb_true_iff. exact Hx.
  - specialize (IH Hn'). destruct (ffs_lookup false r d None) as [value conflict]. destruct value as [w|].
    + destruct IH as (a0 & Hin0 & Ha0 & Hnc & Hc). exists a0. split; [right; exact Hin0|]. split; [exact Ha0|]. split.
      * intros Hf a' x [<-|Hin] Hx; [congruence|]. eapply Hnc; eassumption.
      * intros Ht. destruct (Hc Ht) as (a' & x & Hin & Hne & Hx & Hp). exists a', x. split; [right; exact Hin|auto].
    + destruct IH as [Hall Hc]. split; [|exact Hc]. intros a' [<-|Hin]; [exact Ea|apply Hall; exact Hin].
Qed.

Lemma nodup_keys_filter {A} (p : string * A -> bool) (l : list (string * A)) :
  NoDup (keys l) -> NoDup (keys (filter p l)).
Proof.
  unfold keys. induction l as [|e r IH]; cbn; intros Hn; [constructor|].
  inversion Hn as [|? ? Hni Hn']; subst. destruct (p e); cbn; [|apply IH; exact Hn'].
  constructor; [|apply IH; exact Hn']. intros Hin. apply Hni. apply in_map_iff in Hin. destruct Hin as (e' & He' & Hin).
  apply filter_In in Hin. apply in_map_iff. exists e'. tauto.
Qed.

(* ---- one field against the whole input ---- *)
Section Field.
Variable data : sdata.
Hypothesis Hnd : NoDup (keys data).
Hypothesis Hcoh : coherent C data.
Variables (k : string) (f : field).
Hypothesis Hkf : In (k, f) fs.
Let A := f_all_aliases f.
Let HE := dsub C (Some k) data.

Lemma K1 e : get_field_key C (fst e) = Some k <-> In (gtgt e) A.
Proof.
  rewrite (target_iff C HW). unfold gtgt. split.
  - intros (f' & Hi & Ha). assert (f' = f); [|subst; exact Ha].
    apply (In_field_assoc C HW) in Hi. apply (In_field_assoc C HW) in Hkf. congruence.
  - intros Ha. exists f. auto.
Qed.
Lemma HE_In e : In e HE <-> In e data /\ In (gtgt e) A.
Proof. unfold HE. rewrite (dsub_In tr C o depth). rewrite K1. tauto. Qed.
Lemma grp_HE a e : In a A -> In e (grp a data) -> In e HE.
Proof. intros Ha He. apply grp_In in He. destruct He as [Hd Hg]. apply HE_In. split; [exact Hd|]. rewrite Hg. exact Ha. Qed.
Lemma HE_nodup : NoDup (keys HE).
Proof.
  unfold HE, dsub, sub, keys. clear -Hnd. induction data as [|e r IH]; cbn; [constructor|].
  inversion Hnd as [|? ? Hni Hn']; subst. destruct (oseqb (dtgt C e) (Some k)); cbn; [|apply IH; exact Hn'].
  constructor; [|apply IH; exact Hn']. intros Hin. apply Hni. apply in_map_iff in Hin. destruct Hin as (e' & He' & Hin).
  apply filter_In in Hin. apply in_map_iff. exists e'. tauto.
Qed.
Lemma HE_target e : In e HE -> get_field_key C (fst e) = Some k.
Proof. intros He. apply (dsub_In tr C o depth) in He. tauto. Qed.
Lemma HE_data e : In e HE -> In e data.
Proof. intros He. apply (dsub_In tr C o depth) in He. tauto. Qed.

(* data-first reading: all later values equal the first  <->  all values are one value *)
Lemma dfs_same e1 restE :
  HE = e1 :: restE ->
  (forallb (py_eq (snd e1)) (map snd restE) = true <-> forall e, In e HE -> snd e = snd e1).
Proof.
  intros Hs. pose proof HE_nodup as Hn. rewrite Hs in Hn. cbn in Hn. inversion Hn as [|? ? Hni _]; subst.
  assert (H1 : In e1 HE) by (rewrite Hs; left; reflexivity).
  assert (Hdiff : forall e, In e restE -> fst e1 <> fst e).
  { intros e He Heq. apply Hni. rewrite Heq. apply (in_map fst) in He. exact He. }
  assert (Hr : forall e, In e restE -> In e HE) by (intros e He; rewrite Hs; right; exact He).
  split.
  - intros Hf e He. rewrite Hs in He. destruct He as [<-|He]; [reflexivity|].
    rewrite forallb_forall in Hf. specialize (Hf (snd e) (in_map snd _ _ He)).
    destruct (Hcoh e1 e k (HE_data _ H1) (HE_data _ (Hr _ He)) (Hdiff _ He) (HE_target _ H1) (HE_target _ (Hr _ He))) as [Hstrict _].
    symmetry. apply Hstrict. exact Hf.
  - intros Hall. apply forallb_forall. intros x Hx. apply in_map_iff in Hx. destruct Hx as (e & <- & He).
    rewrite (Hall e (Hr _ He)).
    destruct (Hcoh e1 e k (HE_data _ H1) (HE_data _ (Hr _ He)) (Hdiff _ He) (HE_target _ H1) (HE_target _ (Hr _ He))) as [_ Hrefl].
    exact Hrefl.
Qed.

(* two different entries of the field with one value: == holds between them *)
Lemma same_eq e e' : In e HE -> In e' HE -> fst e <> fst e' -> snd e = snd e' -> py_eq (snd e) (snd e') = true.
Proof.
  intros He He' Hne Hs. rewrite <- Hs.
  destruct (Hcoh e e' k (HE_data _ He) (HE_data _ He') Hne (HE_target _ He) (HE_target _ He')) as [_ Hrefl]. exact Hrefl.
Qed.
Lemma eq_same e e' : In e HE -> In e' HE -> fst e <> fst e' -> py_eq (snd e) (snd e') = true -> snd e = snd e'.
Proof.
  intros He He' Hne Hp.
  destruct (Hcoh e e' k (HE_data _ He) (HE_data _ He') Hne (HE_target _ He) (HE_target _ He')) as [Hstrict _]. auto.
Qed.

(* the accepted names of the field are all folded, or none is *)
Lemma alias_ci_cases :
  (forall a, In a A -> str_in a ci = true /\ get_field C a = Some f) \/
  (forall a, In a A -> str_in a ci = false /\
                       grp a data = match assoc a data with Some v => if negb (str_in (str_lower a) ci) then [(a, v)] else [] | None => [] end).
Proof.
  destruct (wf_ci_split C HW _ Hkf) as [Hall|Hnone]; unfold aliases_of in *; cbn [snd] in *; fold A in Hall || fold A in Hnone.
  - left. intros a Ha. pose proof (Hall a Ha) as Hci. split; [apply str_in_In; exact Hci|].
    rewrite get_field_target.
    assert (Ht : get_field_key C a = Some k).
    { apply (target_iff C HW). exists f. split; [exact Hkf|]. unfold fkey.
      rewrite (wf_ci_lower C HW a Hci). destruct (str_in a (c_ci_names C)); exact Ha. }
    rewrite Ht. apply (In_field_assoc C HW). exact Hkf.
  - right. intros a Ha.
    assert (Hnci : str_in a ci = false).
    { apply str_in_false. intros Hin. apply (Hnone a Ha). rewrite (wf_ci_lower C HW a Hin). exact Hin. }
    split; [exact Hnci|].
    pose proof (filter_key_nodup (fun e => negb (str_in (str_lower (fst e)) ci)) data a Hnd) as Hfk.
    cbn [fst] in Hfk. etransitivity; [|exact Hfk]. clear Hfk.
    unfold grp, sub. apply filter_ext. intros [x v]. unfold gtgt, fkey. cbn [fst]. fold ci.
    destruct (str_in (str_lower x) ci) eqn:E; cbn [negb].
    + rewrite Bool.andb_false_r. apply seqb_neq. intros Heq. apply str_in_In in E. rewrite Heq in E.
      apply str_in_false in Hnci. contradiction.
    + rewrite Bool.andb_true_r. reflexivity.
Qed.

(* what stage 1 leaves under an accepted name: the first value filed there, and for a field that
   takes input all the values filed there are == to it *)
Lemma alias_val data' a :
  ofold (ffs_fold_pstep C o) data [] = Some data' -> In a A ->
  match grp a data with
  | [] => assoc a data' = None
  | g1 :: more => assoc a data' = Some (snd g1) /\
                  (is_no_input f o = false -> forallb (py_eq (snd g1)) (map snd more) = true)
  end.
Proof.
  intros Hfold Ha. pose proof (ffs_some _ _ _ Hfold a) as Hg. cbn [assoc] in Hg.
  destruct alias_ci_cases as [Hci|Hnci].
  - destruct (Hci a Ha) as [Hin Hf].
    rewrite (grp_fold_ci a f (grp a data)) in Hg; [|intros e He; split; [rewrite (grp_branch _ _ _ He); exact Hin|apply (grp_ci_key _ _ _ He Hin)]|exact Hf].
    destruct (grp a data) as [|g1 more]; cbn [map] in Hg; [injection Hg as <-; reflexivity|].
    destruct (is_no_input f o); cbn [orb] in Hg.
    + injection Hg as <-. split; [reflexivity|discriminate].
    + destruct (forallb (py_eq (snd g1)) (map snd more)); [|discriminate]. injection Hg as <-. auto.
  - destruct (Hnci a Ha) as [Hin Hshape].
    rewrite (grp_fold_nonci a (grp a data)) in Hg by (intros e He; rewrite (grp_branch _ _ _ He); exact Hin).
    injection Hg as Hg. rewrite Hshape in *. destruct (assoc a data) as [v|]; [|symmetry; exact Hg].
    destruct (negb (str_in (str_lower a) ci)); cbn in Hg; [|symmetry; exact Hg].
    split; [symmetry; exact Hg|reflexivity].
Qed.

Lemma HE_grp e : In e HE -> In (gtgt e) A /\ In e (grp (gtgt e) data).
Proof. intros He. apply HE_In in He. destruct He as [Hd Ha]. split; [exact Ha|]. apply grp_In. auto. Qed.
Lemma grp_key_diff a a' g g' : In g (grp a data) -> In g' (grp a' data) -> a <> a' -> fst g <> fst g'.
Proof.
  intros Hg Hg' Hne Heq. apply grp_In in Hg. apply grp_In in Hg'. destruct Hg as [_ Hg]. destruct Hg' as [_ Hg'].
  unfold gtgt in *. rewrite Heq in Hg. congruence.
Qed.

(* field-first reading: no conflict found  ->  all values given for the field are one value *)
Lemma ffs_same data' w :
  ofold (ffs_fold_pstep C o) data [] = Some data' -> is_no_input f o = false -> NoDup A ->
  ffs_lookup false A data' None = (Some w, false) -> forall e, In e HE -> snd e = w.
Proof.
  intros Hfold Hni HnA Hl e He.
  pose proof (lookup_char A data' HnA) as Hc. rewrite Hl in Hc. destruct Hc as (a0 & Ha0 & Hw & Hnc & _). specialize (Hnc eq_refl).
  destruct (HE_grp e He) as [Ha Hg]. set (a := gtgt e) in *.
  pose proof (alias_val data' a Hfold Ha) as Hav.
  pose proof (nodup_keys_filter (fun e => String.eqb (gtgt e) a) data Hnd) as Hng. fold (sub _ _ String.eqb gtgt a data) in Hng. fold (grp a data) in Hng.
  destruct (grp a data) as [|g1 more] eqn:Eg; [destruct Hg|].
  destruct Hav as [Hx Hall]. specialize (Hall Hni).
  assert (Hg1 : In g1 HE) by (apply (grp_HE a); [exact Ha|rewrite Eg; left; reflexivity]).
  assert (Heg : snd e = snd g1).
  { destruct Hg as [<-|Hm]; [reflexivity|]. symmetry. apply eq_same; [exact Hg1|exact He| |].
    - cbn in Hng. inversion Hng as [|? ? Hni2 _]; subst. intros Heq. apply Hni2. rewrite Heq. apply (in_map fst) in Hm. exact Hm.
    - rewrite forallb_forall in Hall. apply Hall. apply in_map. exact Hm. }
  destruct (Hnc a (snd g1) Ha Hx) as [Hxw|Hp]; [congruence|].
  destruct (string_dec a a0) as [Heq|Hne]; [subst a0; congruence|].
  pose proof (alias_val data' a0 Hfold Ha0) as Hav0.
  destruct (grp a0 data) as [|g0 more0] eqn:Eg0; [congruence|]. destruct Hav0 as [Hx0 _].
  assert (Hw0 : w = snd g0) by congruence.
  assert (Hg0 : In g0 HE) by (apply (grp_HE a0); [exact Ha0|rewrite Eg0; left; reflexivity]).
  rewrite Heg, Hw0. apply eq_same; [exact Hg1|exact Hg0| |rewrite <- Hw0; exact Hp].
  apply (grp_key_diff a a0); [rewrite Eg; left; reflexivity|rewrite Eg0; left; reflexivity|exact Hne].
Qed.

Lemma ffs_conflict data' w e1 restE :
  ofold (ffs_fold_pstep C o) data [] = Some data' -> NoDup A ->
  ffs_lookup false A data' None = (Some w, true) -> HE = e1 :: restE ->
  forallb (py_eq (snd e1)) (map snd restE) = false.
Proof.
  intros Hfold HnA Hl Hs. destruct (forallb (py_eq (snd e1)) (map snd restE)) eqn:Ef; [|reflexivity]. exfalso.
  pose proof (proj1 (dfs_same e1 restE Hs) Ef) as Hall.
  pose proof (lookup_char A data' HnA) as Hc. rewrite Hl in Hc. destruct Hc as (a0 & Ha0 & Hw & _ & Hc).
  destruct (Hc eq_refl) as (a & x & Ha & Hne & Hx & Hp).
  pose proof (alias_val data' a Hfold Ha) as Hav. pose proof (alias_val data' a0 Hfold Ha0) as Hav0.
  destruct (grp a data) as [|g1 more] eqn:Eg; [congruence|]. destruct Hav as [Hx1 _].
  destruct (grp a0 data) as [|g0 more0] eqn:Eg0; [congruence|]. destruct Hav0 as [Hx0 _].
  assert (Hg1 : In g1 HE) by (apply (grp_HE a); [exact Ha|rewrite Eg; left; reflexivity]).
  assert (Hg0 : In g0 HE) by (apply (grp_HE a0); [exact Ha0|rewrite Eg0; left; reflexivity]).
  assert (Hpe : py_eq (snd g1) (snd g0) = true).
  { apply same_eq; [exact Hg1|exact Hg0| |rewrite (Hall _ Hg1), (Hall _ Hg0); reflexivity].
    apply (grp_key_diff a a0); [rewrite Eg; left; reflexivity|rewrite Eg0; left; reflexivity|exact Hne]. }
  assert (x = snd g1) by congruence. assert (w = snd g0) by congruence. subst x w. congruence.
Qed.

(* the field as field_first_parse sees it, against the values given for it *)
Lemma ffs_field data' :
  ofold (ffs_fold_pstep C o) data [] = Some data' -> NoDup A ->
  let '(value, conflict) := ffs_lookup false A data' None in
  match HE with
  | [] => value = None
  | e1 :: restE =>
      value <> None /\
      (is_no_input f o = false ->
       if conflict then forallb (py_eq (snd e1)) (map snd restE) = false
       else value = Some (snd e1) /\ forallb (py_eq (snd e1)) (map snd restE) = true)
  end.
Proof.
  intros Hfold HnA. pose proof (lookup_char A data' HnA) as Hc.
  destruct (ffs_lookup false A data' None) as [value conflict] eqn:Hl.
  destruct HE as [|e1 restE] eqn:Es.
  - destruct value as [w|]; [|reflexivity]. exfalso. destruct Hc as (a0 & Ha0 & Hw & _).
    pose proof (alias_val data' a0 Hfold Ha0) as Hav. destruct (grp a0 data) as [|g0 more0] eqn:Eg0; [congruence|].
    assert (Hg0 : In g0 HE) by (apply (grp_HE a0); [exact Ha0|rewrite Eg0; left; reflexivity]).
    fold HE in Es. rewrite Es in Hg0. destruct Hg0.
  - fold HE in Es.
    assert (H1 : In e1 HE) by (rewrite Es; left; reflexivity).
    assert (Hv : value <> None).
    { destruct value as [w|]; [discriminate|]. destruct Hc as [Hall _].
      destruct (HE_grp e1 H1) as [Ha Hg]. pose proof (alias_val data' _ Hfold Ha) as Hav.
      destruct (grp (gtgt e1) data) as [|g1 more]; [destruct Hg|]. destruct Hav as [Hx _]. rewrite (Hall _ Ha) in Hx. discriminate. }
    split; [exact Hv|]. intros Hni. destruct value as [w|]; [|congruence].
    destruct conflict.
    + eapply ffs_conflict; eassumption.
    + pose proof (ffs_same data' w Hfold Hni HnA Hl) as Hsame. split.
      * rewrite (Hsame e1 H1). reflexivity.
      * apply (dfs_same e1 restE Es). intros e He. rewrite (Hsame e He), (Hsame e1 H1). reflexivity.
Qed.

(* a conflict found while folding the letter cases of one name is a conflict for data-first too *)
Lemma grp_conflict a g1 more e1 restE :
  In a A -> grp a data = g1 :: more -> forallb (py_eq (snd g1)) (map snd more) = false ->
  HE = e1 :: restE -> forallb (py_eq (snd e1)) (map snd restE) = false.
Proof.
  intros Ha Eg Hf Hs. destruct (forallb (py_eq (snd e1)) (map snd restE)) eqn:Ef; [|reflexivity]. exfalso.
  pose proof (proj1 (dfs_same e1 restE Hs) Ef) as Hall.
  apply forallb_false_iff in Hf. destruct Hf as (x & Hx & Hp). apply in_map_iff in Hx. destruct Hx as (gi & <- & Hgi).
  assert (Hg1 : In g1 HE) by (apply (grp_HE a); [exact Ha|rewrite Eg; left; reflexivity]).
  assert (Hg2 : In gi HE) by (apply (grp_HE a); [exact Ha|rewrite Eg; right; exact Hgi]).
  pose proof (nodup_keys_filter (fun e => String.eqb (gtgt e) a) data Hnd) as Hng.
  fold (sub _ _ String.eqb gtgt a data) in Hng. fold (grp a data) in Hng. rewrite Eg in Hng. cbn in Hng.
  inversion Hng as [|? ? Hni2 _]; subst.
  assert (py_eq (snd g1) (snd gi) = true); [|congruence].
  apply same_eq; [exact Hg1|exact Hg2| |rewrite (Hall _ Hg1), (Hall _ Hg2); reflexivity].
  intros Heq. apply Hni2. rewrite Heq. apply (in_map fst) in Hgi. exact Hgi.
Qed.

(* the step of the loop over the fields, in terms of the contract *)
Definition upd (result : sdata) (name : string) (v : option pyval) : sdata :=
  match v with Some x => sdict_set result name x | None => result end.
Definition sstep (st : ffs_state) (kf : string * field) : option ffs_state :=
  let '(result, used, unprov, deps) := st in
  match field_out tr C o depth kf data with
  | FErr => None
  | FOut v given dp =>
      Some (upd result (f_name (snd kf)) v,
            (if given then used ++ f_all_aliases (snd kf) else used),
            (if given then unprov else f_name (snd kf) :: unprov),
            (if dp then deps ++ f_dependencies (snd kf) else deps))
  end.

Lemma ffs_step_fo data' st :
  ofold (ffs_fold_pstep C o) data [] = Some data' ->
  ffs_pstep tr o depth data' st (k, f) = sstep st (k, f).
Proof.
  intros Hfold. destruct st as [[[result used] unprov] deps].
  pose proof (wf_alias_nodup C HW _ Hkf) as HnA. unfold aliases_of in HnA. cbn [snd] in HnA. fold A in HnA.
  pose proof (ffs_field data' Hfold HnA) as Hff.
  unfold ffs_pstep, sstep, field_out. cbn [fst snd]. rewrite Hign. fold A.
  rewrite (hits_dsub C k data). fold HE.
  destruct (ffs_lookup false A data' None) as [value conflict].
  destruct HE as [|e1 restE]; cbn [map FieldSpec.fo].
  - subst value. destruct (is_required f o); [reflexivity|]. unfold upd. reflexivity.
  - destruct Hff as [Hv Hin]. destruct value as [v|]; [|congruence].
    destruct (is_no_input f o); [reflexivity|]. specialize (Hin eq_refl).
    destruct conflict.
    + rewrite Hin. reflexivity.
    + destruct Hin as [Hval Hall]. injection Hval as ->. rewrite Hall.
      destruct (pv tr o depth f (snd e1)) as [[r|]|]; reflexivity.
Qed.

End Field.

(* with no case-insensitive name the data is taken as it is *)
Lemma fold_noci : c_ci_names C = [] -> forall data acc,
  NoDup (keys (acc ++ data)) -> ofold (ffs_fold_pstep C o) data acc = Some (acc ++ data).
Proof.
  intros Hci. induction data as [|[x v] r IH]; intros acc Hn; cbn [ofold]; [rewrite app_nil_r; reflexivity|].
  unfold ffs_fold_pstep at 1. rewrite Hci. cbn [str_in existsb obind].
  assert (Hx : ~ In x (keys acc)).
  { unfold keys in *. rewrite map_app in Hn. apply NoDup_remove_2 in Hn. intros Hin. apply Hn. apply in_or_app. left. exact Hin. }
  rewrite (keys_set_new acc x v Hx). rewrite IH; rewrite <- app_assoc; [reflexivity|exact Hn].
Qed.

Lemma prepare_some data data' : NoDup (keys data) ->
  ffs_prepare_p C o data = Some data' -> ofold (ffs_fold_pstep C o) data [] = Some data'.
Proof.
  intros Hn. unfold ffs_prepare_p. destruct (c_ci_names C) eqn:Eci; [|auto].
  intros H. injection H as <-. apply (fold_noci Eci data []). exact Hn.
Qed.
Lemma prepare_none data : ffs_prepare_p C o data = None -> ofold (ffs_fold_pstep C o) data [] = None.
Proof. unfold ffs_prepare_p. destruct (c_ci_names C); [discriminate|auto]. Qed.

(* ---- the loop over the fields ---- *)
Notation field_out := (field_out tr C o depth).

Definition loop_post (data : sdata) (l : list (string * field)) (st : ffs_state) (res : option ffs_state) : Prop :=
  let '(result, used, unprov, deps) := st in
  match res with
  | None => exists kf, In kf l /\ field_out kf data = FErr
  | Some (result', used', unprov', deps') =>
      (forall kf, In kf l -> field_out kf data <> FErr) /\
      (forall x, assoc x result' =
                 match find (fun kf => String.eqb (fname kf) x) l with
                 | Some kf => match field_out kf data with FOut (Some v) _ _ => Some v | _ => assoc x result end
                 | None => assoc x result
                 end) /\
      (forall x, In x unprov' <-> In x unprov \/
                 exists kf, In kf l /\ fname kf = x /\ exists v dp, field_out kf data = FOut v false dp) /\
      (forall d, In d deps' <-> In d deps \/
                 exists kf, In kf l /\ In d (f_dependencies (snd kf)) /\ exists v g, field_out kf data = FOut v g true) /\
      (forall a, In a used' <-> In a used \/
                 exists kf, In kf l /\ In a (f_all_aliases (snd kf)) /\ exists v dp, field_out kf data = FOut v true dp)
  end.

Lemma ffs_loop_char data l : NoDup (map fname l) -> forall st,
  loop_post data l st (ofold (sstep data) l st).
Proof.
  induction l as [|kf r IH]; intros Hn [[[result used] unprov] deps].
  - cbn. split; [intros ? []|]. split; [reflexivity|].
    repeat split; try (intros H; left; exact H); intros [H|(kf & [] & _)]; exact H.
  - inversion Hn as [|? ? Hni Hn']; subst. cbn [ofold]. unfold sstep at 1.
    destruct (field_out kf data) as [|v g dp] eqn:Efo; cbn [obind].
    + exists kf. split; [left; reflexivity|exact Efo].
    + specialize (IH Hn' (upd result (f_name (snd kf)) v,
                           (if g then used ++ f_all_aliases (snd kf) else used),
                           (if g then unprov else f_name (snd kf) :: unprov),
                           (if dp then deps ++ f_dependencies (snd kf) else deps))).
      unfold loop_post in *.
      match type of IH with match ?t with _ => _ end =>
        match goal with |- match ?g0 with _ => _ end => change g0 with t end;
        destruct t as [[[[result' used'] unprov'] deps']|] end.
      2:{ destruct IH as (kf' & Hi & He). exists kf'. split; [right; exact Hi|exact He]. }
      destruct IH as (Hok & Hval & Hunp & Hdep & Husd). split; [|split; [|split; [|split]]].
      * intros kf' [<-|Hi]; [congruence|apply Hok; exact Hi].
      * intros x. rewrite Hval. cbn [find]. destruct (String.eqb (fname kf) x) eqn:En.
        -- apply seqb_eq in En.
           destruct (find (fun kf0 => String.eqb (fname kf0) x) r) as [kf'|] eqn:Ef.
           { exfalso. apply find_some in Ef. destruct Ef as [Hi He]. apply seqb_eq in He. apply Hni. rewrite En, <- He.
             apply (in_map fname) in Hi. exact Hi. }
           rewrite Efo. unfold upd, fname in *. destruct v as [w|]; [rewrite En; apply assoc_set_same|reflexivity].
        -- apply seqb_neq in En.
           assert (Hu : assoc x (upd result (f_name (snd kf)) v) = assoc x result).
           { unfold upd. destruct v; [apply assoc_set_other; unfold fname in En; congruence|reflexivity]. }
           rewrite Hu. reflexivity.
      * intros x. rewrite Hunp. split.
        -- intros [H|(kf' & Hi & Hx & Hf)].
           ++ destruct g; [left; exact H|]. destruct H as [<-|H]; [|left; exact H].
              right. exists kf. split; [left; reflexivity|]. split; [reflexivity|eauto].
           ++ right. exists kf'. split; [right; exact Hi|auto].
        -- intros [H|(kf' & [<-|Hi] & Hx & v' & dp' & Hf)].
           ++ left. destruct g; [exact H|right; exact H].
           ++ left. rewrite Efo in Hf. injection Hf as _ -> _. left. exact Hx.
           ++ right. exists kf'. eauto.
      * intros d. rewrite Hdep. split.
        -- intros [H|(kf' & Hi & Hx & Hf)].
           ++ destruct dp; [|left; exact H]. apply in_app_or in H. destruct H as [H|H]; [left; exact H|].
              right. exists kf. split; [left; reflexivity|]. split; [exact H|eauto].
           ++ right. exists kf'. split; [right; exact Hi|auto].
        -- intros [H|(kf' & [<-|Hi] & Hx & v' & g' & Hf)].
           ++ left. destruct dp; [apply in_or_app; left; exact H|exact H].
           ++ left. rewrite Efo in Hf. injection Hf as _ _ ->. apply in_or_app. right. exact Hx.
           ++ right. exists kf'. eauto.
      * intros a. rewrite Husd. split.
        -- intros [H|(kf' & Hi & Hx & Hf)].
           ++ destruct g; [|left; exact H]. apply in_app_or in H. destruct H as [H|H]; [left; exact H|].
              right. exists kf. split; [left; reflexivity|]. split; [exact H|eauto].
           ++ right. exists kf'. split; [right; exact Hi|auto].
        -- intros [H|(kf' & [<-|Hi] & Hx & v' & dp' & Hf)].
           ++ left. destruct g; [apply in_or_app; left; exact H|exact H].
           ++ left. rewrite Efo in Hf. injection Hf as _ -> _. apply in_or_app. right. exact Hx.
           ++ right. exists kf'. eauto.
Qed.

Lemma ofold_ext_in {S E} (f g : S -> E -> option S) (l : list E) :
  (forall s e, In e l -> f s e = g s e) -> forall s, ofold f l s = ofold g l s.
Proof.
  induction l as [|e r IH]; intros H s; [reflexivity|]. cbn [ofold]. rewrite H by (left; reflexivity).
  destruct (g s e); [|reflexivity]. cbn [obind]. apply IH. intros s' e' Hi. apply H. right. exact Hi.
Qed.

(* ---- the folded data ---- *)
Section Folded.
Variable data data' : sdata.
Hypothesis Hnd : NoDup (keys data).
Hypothesis Hcoh : coherent C data.
Hypothesis Hfold : ofold (ffs_fold_pstep C o) data [] = Some data'.

Lemma folded_nodup : NoDup (keys data').
Proof.
  apply (ofold_inv (ffs_fold_pstep C o) (fun acc => NoDup (keys acc))) with (l := data) (s := []); [|constructor|exact Hfold].
  intros acc [x v] acc' Hn. unfold ffs_fold_pstep. rewrite Hign.
  destruct (str_in _ _).
  - destruct (assoc _ acc) as [prev|].
    + destruct (negb (py_eq prev v)).
      * destruct (get_field C _) as [f|]; [destruct (is_no_input f o)|]; intros H; try discriminate; injection H as <-; exact Hn.
      * intros H. injection H as <-. exact Hn.
    + intros H. injection H as <-. apply nodup_keys_set. exact Hn.
  - intros H. injection H as <-. apply nodup_keys_set. exact Hn.
Qed.

Lemma alias_target kf a : In kf fs -> In a (aliases_of kf) -> get_field_key C a = Some (fst kf).
Proof.
  intros Hi Ha. destruct kf as [k f]. apply (target_iff C HW). exists f. split; [exact Hi|].
  unfold fkey. destruct (str_in (str_lower a) (c_ci_names C)) eqn:E; [|exact Ha].
  apply str_in_In in E. rewrite (ci_alias_lower C HW (k, f) a Hi Ha E). exact Ha.
Qed.

(* an unknown key stays as it is *)
Lemma folded_unknown x : get_field_key C x = None -> assoc x data' = assoc x data.
Proof.
  intros Hx. pose proof (ffs_some _ _ _ Hfold x) as Hg. cbn [assoc] in Hg.
  assert (Hshape : grp x data = match assoc x data with Some v => [(x, v)] | None => [] end).
  { pose proof (filter_key_nodup (fun _ => true) data x Hnd) as Hfk. cbn beta in Hfk.
    etransitivity; [|exact Hfk]. unfold grp, sub. apply filter_ext_in. intros [y v] Hin. cbn [fst]. rewrite Bool.andb_true_r.
    unfold gtgt. cbn [fst].
    destruct (String.eqb y x) eqn:E.
    - apply seqb_eq in E. subst y. rewrite (unknown_fkey C HW x Hx). apply seqb_refl.
    - apply seqb_neq. intros Heq. apply seqb_neq in E. apply E.
      destruct (get_field_key C y) as [k'|] eqn:Ey.
      + exfalso. apply (target_iff C HW) in Ey. destruct Ey as (f' & Hi' & Ha'). rewrite Heq in Ha'.
        pose proof (alias_target (k', f') x Hi' Ha') as Ht. congruence.
      + rewrite (unknown_fkey C HW y Ey) in Heq. exact Heq. }
  rewrite (grp_fold_nonci x (grp x data)) in Hg.
  - injection Hg as Hg. rewrite <- Hg, Hshape. destruct (assoc x data); reflexivity.
  - intros e He. rewrite (grp_branch _ _ _ He). apply str_in_false. intros Hin.
    destruct (wf_ci_alias C HW _ Hin) as (kf & Hi & Ha). pose proof (alias_target kf x Hi Ha). congruence.
Qed.

(* a key of the folded data is an accepted name of a field that was given, or an unknown key *)
Lemma folded_key a v' : assoc a data' = Some v' ->
  (exists kf, In kf fs /\ In a (aliases_of kf) /\ hits C (fst kf) data <> []) \/ get_field_key C a = None.
Proof.
  intros Ha. pose proof (ffs_some _ _ _ Hfold a) as Hg. cbn [assoc] in Hg.
  destruct (grp a data) as [|e r] eqn:Eg; [cbn in Hg; congruence|].
  assert (He : In e (grp a data)) by (rewrite Eg; left; reflexivity).
  apply grp_In in He. destruct He as [Hin Hga].
  destruct (get_field_key C (fst e)) as [k'|] eqn:Et.
  - left. pose proof Et as Et2. apply (target_iff C HW) in Et. destruct Et as (f' & Hi' & Ha').
    exists (k', f'). split; [exact Hi'|]. split; [unfold aliases_of; cbn [snd]; unfold gtgt in Hga; rewrite <- Hga; exact Ha'|].
    cbn [fst]. rewrite (hits_dsub C k' data). intros Hnil.
    assert (Hd : In e (dsub C (Some k') data)) by (apply (dsub_In tr C o depth); auto).
    destruct (dsub C (Some k') data); [destruct Hd|discriminate].
  - right. unfold gtgt in Hga. rewrite (unknown_fkey C HW _ Et) in Hga. rewrite <- Hga. exact Et.
Qed.

End Folded.

(* ---- a conflict found while folding fails the contract too ---- *)
Lemma fold_fail data :
  NoDup (keys data) -> coherent C data ->
  ofold (ffs_fold_pstep C o) data [] = None -> fields_ok tr C o depth data = false.
Proof.
  intros Hnd Hcoh H. apply ffs_none in H. destruct H as [a H]. cbn [assoc] in H.
  destruct (str_in a ci) eqn:Eci.
  2:{ rewrite (grp_fold_nonci a (grp a data)) in H; [discriminate|]. intros e He. rewrite (grp_branch _ _ _ He). exact Eci. }
  pose proof Eci as Hin. apply str_in_In in Hin. destruct (wf_ci_alias C HW _ Hin) as ([k f] & Hi & Ha).
  unfold aliases_of in Ha. cbn [snd] in Ha.
  destruct (alias_ci_cases data Hnd k f Hi) as [Hc|Hc]; [|destruct (Hc a Ha) as [Hc1 _]; fold ci in Eci; congruence].
  destruct (Hc a Ha) as [_ Hf].
  rewrite (grp_fold_ci a f (grp a data)) in H;
    [|intros e He; split; [rewrite (grp_branch _ _ _ He); exact Eci|apply (grp_ci_key _ _ _ He Eci)]|exact Hf].
  destruct (grp a data) as [|g1 more] eqn:Eg; cbn [map] in H; [discriminate|].
  destruct (is_no_input f o) eqn:Eni; cbn [orb] in H; [discriminate|].
  destruct (forallb (py_eq (snd g1)) (map snd more)) eqn:Ef; [discriminate|].
  assert (Hg1 : In g1 (dsub C (Some k) data)).
  { apply (grp_HE data k f Hi a); [exact Ha|rewrite Eg; left; reflexivity]. }
  destruct (dsub C (Some k) data) as [|e1 restE] eqn:Es; [destruct Hg1|].
  pose proof (grp_conflict data Hnd Hcoh k f Hi a g1 more e1 restE Ha Eg Ef Es) as Hconf.
  apply forallb_false_iff. exists (k, f). split; [exact Hi|].
  unfold FieldSpec.field_out, FieldSpec.fo. cbn [fst snd]. rewrite (hits_dsub C k data), Es. cbn [map].
  rewrite Eni, Hconf. reflexivity.
Qed.

Lemma ffs_add_char used l : forall acc,
  ofold (ffs_add_pstep C o used) l acc =
  if forallb (fun e : string * pyval => str_in (fst e) used || padd_ok C o e) l
  then Some (fold_left (add_entry C o) (filter (fun e => negb (str_in (fst e) used)) l) acc) else None.
Proof.
  induction l as [|[a v'] r IH]; intros acc; [reflexivity|].
  cbn [ofold forallb filter]. unfold ffs_add_pstep at 1, padd_ok at 1. cbn [fst snd].
  destruct (str_in a used); cbn [negb orb obind andb].
  - apply IH.
  - cbn [fold_left].
    assert (He : add_entry C o acc (a, v') = match padd C o a v' with Some (Some x) => sdict_set acc a x | _ => acc end) by reflexivity.
    rewrite He. destruct (padd C o a v') as [[w|]|]; cbn [obind]; [apply IH|apply IH|reflexivity].
Qed.

(* ---- the theorem ---- *)
Theorem ffs_contract data :
  NoDup (keys data) -> coherent C data ->
  match field_first_p tr C o depth data with
  | Some r => fields_ok tr C o depth data && adds_ok C o data && deps_ok tr C o depth data = true /\
              forall x, assoc x r = contract_val tr C o depth data x
  | None => fields_ok tr C o depth data && adds_ok C o data && deps_ok tr C o depth data = false
  end.
Proof.
  intros Hnd Hcoh. unfold field_first_p.
  destruct (ffs_prepare_p C o data) as [data'|] eqn:Ep; cbn [obind].
  2:{ rewrite (fold_fail data Hnd Hcoh (prepare_none _ Ep)). reflexivity. }
  pose proof (prepare_some _ _ Hnd Ep) as Hfold.
  rewrite (ofold_ext_in (ffs_pstep tr o depth data') (sstep data) (c_fields C)).
  2:{ intros st [k f] Hi. apply ffs_step_fo; assumption. }
  pose proof (ffs_loop_char data (c_fields C) (wf_names_nodup C HW) ([], [], [], [])) as Hloop.
  unfold loop_post in Hloop.
  destruct (ofold (sstep data) (c_fields C) ([], [], [], [])) as [[[[result used] unprov] deps]|]; cbn [obind].
  2:{ destruct Hloop as (kf & Hi & He). apply Bool.andb_false_iff. left. apply Bool.andb_false_iff. left.
      apply forallb_false_iff. exists kf. split; [exact Hi|]. rewrite He. reflexivity. }
  destruct Hloop as (Hok & Hval & Hunp & Hdep & Husd).
  assert (Hfok : fields_ok tr C o depth data = true).
  { apply forallb_forall. intros kf Hi. specialize (Hok kf Hi). destruct (field_out kf data); [congruence|reflexivity]. }
  (* a field with a hit is given *)
  assert (Hgiven : forall kf, In kf fs -> hits C (fst kf) data <> [] -> exists v dp, field_out kf data = FOut v true dp).
  { intros kf Hi Hh. specialize (Hok kf Hi). unfold FieldSpec.field_out, FieldSpec.fo in *.
    destruct (hits C (fst kf) data) as [|v1 more]; [congruence|].
    destruct (is_no_input (snd kf) o); [eauto|].
    destruct (forallb (py_eq v1) more); [|congruence]. destruct (pv tr o depth (snd kf) v1); [eauto|congruence]. }
  (* keys of the folded data *)
  assert (Hused_alias : forall a, In a used -> exists k, get_field_key C a = Some k).
  { intros a Ha. apply Husd in Ha. destruct Ha as [[]|(kf & Hi & Ha & _)]. exists (fst kf). apply alias_target; assumption. }
  assert (Hkey_used : forall a v', assoc a data' = Some v' -> get_field_key C a <> None -> In a used).
  { intros a v' Ha Ht. destruct (folded_key data data' Hfold a v' Ha) as [(kf & Hi & Hal & Hh)|Hn]; [|congruence].
    apply Husd. right. exists kf. split; [exact Hi|]. split; [exact Hal|]. apply Hgiven; assumption. }
  (* additions *)
  set (P := fun e : string * pyval => str_in (fst e) used || padd_ok C o e).
  assert (Hadds : forallb P data' = adds_ok C o data).
  { destruct (adds_ok C o data) eqn:Ea.
    - apply forallb_forall. intros [a v'] Hin. unfold P. cbn [fst].
      pose proof (In_assoc_nodup data' a v' (folded_nodup data data' Hfold) Hin) as Has.
      destruct (get_field_key C a) as [k|] eqn:Et.
      + assert (In a used) as Hu by (eapply Hkey_used; [exact Has|congruence]). apply str_in_In in Hu. rewrite Hu. reflexivity.
      + rewrite (folded_unknown data data' Hnd Hfold a Et) in Has. apply assoc_In in Has.
        unfold adds_ok in Ea. rewrite forallb_forall in Ea. specialize (Ea _ Has). unfold target, addition_of in Ea. cbn [fst snd] in Ea.
        rewrite Et in Ea. unfold padd_ok. cbn [fst snd]. rewrite Ea. apply Bool.orb_true_r.
    - apply forallb_false_iff in Ea. destruct Ea as ([x v] & Hin & Hp). unfold target, addition_of in Hp. cbn [fst snd] in Hp.
      destruct (get_field_key C x) eqn:Et; [discriminate|].
      apply forallb_false_iff. exists (x, v). split.
      + apply assoc_In. rewrite (folded_unknown data data' Hnd Hfold x Et). apply In_assoc_nodup; assumption.
      + unfold P, padd_ok. cbn [fst snd]. destruct (padd C o x v); [discriminate|].
        rewrite Bool.orb_false_r. apply str_in_false. intros Hu. destruct (Hused_alias x Hu). congruence. }
  (* the dependency check *)
  assert (Hdc : deps_check_p deps result unprov = Some tt <-> deps_ok tr C o depth data = true).
  { apply (deps_common tr C o depth).
    - intros d. rewrite Hdep. split; [intros [[]|H]; exact H|intros H; right; exact H].
    - intros d. unfold provided. unfold has_key. rewrite Hval. cbn [assoc].
      change (find (fun kf => String.eqb (fname kf) d) (c_fields C)) with (field_named C d).
      destruct (field_named C d) as [kf|] eqn:Efn; [|split; [intros [? _]; discriminate|discriminate]].
      pose proof (field_named_In C d kf Efn) as [Hi Hn]. fold field_out.
      destruct (field_out kf data) as [|[w|] g dp] eqn:Efo; try (split; [intros [? _]; discriminate|discriminate]).
      split.
      + intros [_ Hu]. destruct g; [reflexivity|]. exfalso. apply str_in_false in Hu. apply Hu. apply Hunp. right.
        exists kf. split; [exact Hi|]. split; [exact Hn|eauto].
      + intros Hg. destruct g; [|discriminate]. split; [reflexivity|]. apply str_in_false. intros Hu. apply Hunp in Hu.
        destruct Hu as [[]|(kf' & Hi' & Hn' & v' & dp' & Hf')].
        assert (kf' = kf).
        { pose proof (field_named_of C HW kf' Hi') as H1. unfold fname in Hn'. rewrite Hn' in H1. congruence. }
        subst kf'. congruence. }
  rewrite Hfok. cbn [andb].
  (* field values *)
  assert (Hres : forall x, assoc x result =
             match field_named C x with
             | Some kf => match field_out kf data with FOut v _ _ => v | FErr => None end
             | None => None
             end).
  { intros x. rewrite Hval. cbn [assoc].
    change (find (fun kf => String.eqb (fname kf) x) (c_fields C)) with (field_named C x).
    destruct (field_named C x) as [kf|]; [|reflexivity]. destruct (field_out kf data) as [|[w|] g dp]; reflexivity. }
  destruct (deps_check_p deps result unprov) as [[]|] eqn:Edc; cbn [obind].
  2:{ destruct (deps_ok tr C o depth data) eqn:Edo; [|apply Bool.andb_false_r].
      exfalso. assert (@None unit = Some tt) by (apply Hdc; reflexivity). discriminate. }
  assert (Hdo : deps_ok tr C o depth data = true) by (apply Hdc; reflexivity). rewrite Hdo, Bool.andb_true_r.
  (* lookups of the additions *)
  assert (Haddlook : forall x,
            (match (match assoc x data' with Some v => if negb (str_in x used) then Some v else None | None => None end) with
             | Some v => match padd C o x v with Some (Some w) => Some w | _ => None end
             | None => None end) =
            match assoc x data with
            | Some v => match target C x with
                        | None => match padd C o x v with Some (Some w) => Some w | _ => None end
                        | Some _ => None
                        end
            | None => None
            end).
  { intros x. unfold target. destruct (get_field_key C x) as [k|] eqn:Et.
    - destruct (assoc x data') as [v'|] eqn:Ea.
      + assert (In x used) as Hu by (eapply Hkey_used; [exact Ea|congruence]). apply str_in_In in Hu. rewrite Hu. cbn [negb].
        destruct (assoc x data); reflexivity.
      + destruct (assoc x data); reflexivity.
    - rewrite (folded_unknown data data' Hnd Hfold x Et).
      destruct (assoc x data) as [v|]; [|reflexivity].
      assert (str_in x used = false) as ->; [|reflexivity].
      apply str_in_false. intros Hu. destruct (Hused_alias x Hu). congruence. }
  destruct (o_addition o) as [b|] eqn:Eadd.
  - (* additions are looked at *)
    pose proof (ffs_add_char used data' []) as Hchar. fold P in Hchar.
    rewrite Hchar, Hadds. destruct (adds_ok C o data); cbn [obind]; [|reflexivity].
    split; [reflexivity|].
    apply (final_common tr C o depth HW data result _ Hnd Hres).
    intros x.
    assert (Hnf : NoDup (keys (filter (fun e => negb (str_in (fst e) used)) data'))).
    { apply nodup_keys_filter. apply (folded_nodup data data' Hfold). }
    rewrite assoc_rev_nodup by (apply fold_add_nodup; constructor).
    rewrite (add_lookup C o _ [] x Hnf).
    rewrite (assoc_filter_nodup _ data' x (folded_nodup data data' Hfold)). cbn [fst assoc].
    rewrite <- Haddlook.
    destruct (assoc x data') as [v'|]; [|reflexivity]. destruct (negb (str_in x used)); [|reflexivity].
    destruct (padd C o x v') as [[w|]|]; reflexivity.
  - (* addition=None: nothing is kept, nothing fails *)
    assert (Hpn : forall x v, padd C o x v = Some None).
    { intros x v. unfold padd. rewrite Eadd. destruct (str_in x (c_exclude_vars C)); reflexivity. }
    assert (Ha : adds_ok C o data = true).
    { apply forallb_forall. intros e _. unfold addition_of. rewrite Hpn. destruct (target C (fst e)); reflexivity. }
    rewrite Ha. split; [reflexivity|].
    intros x. rewrite <- (final_common tr C o depth HW data result [] Hnd Hres).
    + unfold sdict_update. reflexivity.
    + intros y. cbn [rev assoc]. destruct (assoc y data) as [v|]; [|reflexivity].
      destruct (target C y); [reflexivity|]. rewrite Hpn. reflexivity.
Qed.

End Ffs.
