(* Proofs/Assoc.v — association lists with string keys (the dicts of the data-class parsers),
   option-monad folds, and the decomposition of a fold over a product state into the folds of
   its components. *)
From UV Require Import Parse Verdict.
From Coq Require Import Lia.
Open Scope string_scope.
Open Scope list_scope.

Lemma seqb_refl s : String.eqb s s = true.
Proof. apply String.eqb_refl. Qed.
Lemma seqb_eq a b : String.eqb a b = true <-> a = b.
Proof. apply String.eqb_eq. Qed.
Lemma seqb_neq a b : String.eqb a b = false <-> a <> b.
Proof. apply String.eqb_neq. Qed.

Lemma str_in_In s l : str_in s l = true <-> In s l.
Proof.
  unfold str_in. rewrite existsb_exists. split.
  - intros [x [Hx He]]. apply seqb_eq in He. subst. exact Hx.
  - intros H. exists s. split; [exact H|apply seqb_refl].
Qed.
Lemma str_in_false s l : str_in s l = false <-> ~ In s l.
Proof. rewrite <- str_in_In. destruct (str_in s l); split; intros H; try congruence; try (exfalso; apply H; reflexivity). Qed.

Lemma NoDup_app_one {A} (l : list A) (x : A) : NoDup l -> ~ In x l -> NoDup (l ++ [x]).
Proof.
  induction l as [|a r IH]; cbn; intros Hn Hx.
  - constructor; [tauto|constructor].
  - inversion Hn as [|? ? Ha Hr]; subst. constructor.
    + rewrite in_app_iff. cbn. intros [H|[H|[]]]; [contradiction|]. subst. apply Hx. left. reflexivity.
    + apply IH; [exact Hr|]. intros H. apply Hx. right. exact H.
Qed.

Section AssocFacts.
Context {A : Type}.
Implicit Types (l : list (string * A)) (k x : string).

Definition keys l : list string := map fst l.

Lemma assoc_In l k a : assoc k l = Some a -> In (k, a) l.
Proof.
  induction l as [|[k' a'] r IH]; cbn; [discriminate|].
  destruct (String.eqb k k') eqn:E.
  - intros H. injection H as <-. apply seqb_eq in E. subst. left. reflexivity.
  - intros H. right. apply IH. exact H.
Qed.
Lemma assoc_None l k : assoc k l = None <-> ~ In k (keys l).
Proof.
  induction l as [|[k' a'] r IH]; cbn; [tauto|].
  destruct (String.eqb k k') eqn:E.
  - apply seqb_eq in E. subst. split; [discriminate|]. intros H. exfalso. apply H. left. reflexivity.
  - apply seqb_neq in E. rewrite IH. split; intros H.
    + intros [H1|H1]; [congruence|contradiction].
    + intros H1. apply H. right. exact H1.
Qed.
Lemma assoc_Some_key l k a : assoc k l = Some a -> In k (keys l).
Proof. intros H. apply assoc_In in H. apply (in_map fst) in H. exact H. Qed.
Lemma In_assoc_nodup l k a : NoDup (keys l) -> In (k, a) l -> assoc k l = Some a.
Proof.
  induction l as [|[k' a'] r IH]; cbn; [tauto|]. intros Hn [H|H].
  - injection H as -> ->. rewrite seqb_refl. reflexivity.
  - inversion Hn as [|? ? Hni Hn']; subst.
    destruct (String.eqb k k') eqn:E.
    + apply seqb_eq in E. subst. exfalso. apply Hni. apply (in_map fst) in H. exact H.
    + apply IH; assumption.
Qed.
Lemma has_key_In l k : has_key k l = true <-> In k (keys l).
Proof.
  unfold has_key. destruct (assoc k l) eqn:E.
  - split; [intros _; eapply assoc_Some_key; exact E|reflexivity].
  - split; [discriminate|]. intros H. apply assoc_None in E. contradiction.
Qed.
Lemma has_key_false l k : has_key k l = false <-> ~ In k (keys l).
Proof. rewrite <- has_key_In. destruct (has_key k l); split; intros H; try congruence; try (exfalso; apply H; reflexivity). Qed.
Lemma has_key_assoc l k : has_key k l = match assoc k l with Some _ => true | None => false end.
Proof. reflexivity. Qed.
End AssocFacts.

(* sdict_set: d[k] = v *)
Lemma assoc_set_same l k v : assoc k (sdict_set l k v) = Some v.
Proof.
  induction l as [|[k' v'] r IH]; cbn; [rewrite seqb_refl; reflexivity|].
  destruct (String.eqb k' k) eqn:E; cbn.
  - rewrite String.eqb_sym, E. reflexivity.
  - rewrite String.eqb_sym, E. exact IH.
Qed.
Lemma assoc_set_other l k v x : x <> k -> assoc x (sdict_set l k v) = assoc x l.
Proof.
  intros Hx. induction l as [|[k' v'] r IH]; cbn.
  - apply seqb_neq in Hx. rewrite Hx. reflexivity.
  - destruct (String.eqb k' k) eqn:E; cbn.
    + apply seqb_eq in E. subst k'. apply seqb_neq in Hx. rewrite Hx. reflexivity.
    + destruct (String.eqb x k'); [reflexivity|exact IH].
Qed.
Lemma assoc_set l k v x : assoc x (sdict_set l k v) = if String.eqb x k then Some v else assoc x l.
Proof.
  destruct (String.eqb x k) eqn:E.
  - apply seqb_eq in E. subst. apply assoc_set_same.
  - apply seqb_neq in E. apply assoc_set_other. exact E.
Qed.
Lemma has_key_set l k v x : has_key x (sdict_set l k v) = String.eqb x k || has_key x l.
Proof. unfold has_key. rewrite assoc_set. destruct (String.eqb x k); reflexivity. Qed.
Lemma keys_set_new l k v : ~ In k (keys l) -> sdict_set l k v = l ++ [(k, v)].
Proof.
  induction l as [|[k' v'] r IH]; cbn; [reflexivity|]. intros H.
  destruct (String.eqb k' k) eqn:E.
  - apply seqb_eq in E. subst. exfalso. apply H. left. reflexivity.
  - f_equal. apply IH. intros H1. apply H. right. exact H1.
Qed.
Lemma keys_set l k v : In k (keys l) -> keys (sdict_set l k v) = keys l.
Proof.
  induction l as [|[k' v'] r IH]; cbn; [tauto|]. intros H.
  destruct (String.eqb k' k) eqn:E; cbn; [reflexivity|]. f_equal. apply IH.
  destruct H as [H|H]; [|exact H]. apply seqb_neq in E. congruence.
Qed.
Lemma In_keys_set l k v x : In x (keys (sdict_set l k v)) <-> x = k \/ In x (keys l).
Proof.
  rewrite <- !has_key_In, has_key_set. rewrite Bool.orb_true_iff, seqb_eq. tauto.
Qed.
Lemma nodup_keys_set l k v : NoDup (keys l) -> NoDup (keys (sdict_set l k v)).
Proof.
  intros Hn. destruct (in_dec string_dec k (keys l)) as [Hi|Hi].
  - rewrite keys_set; assumption.
  - rewrite keys_set_new by exact Hi. unfold keys. rewrite map_app. cbn.
    apply NoDup_app_one; assumption.
Qed.

Lemma assoc_app {A} (l1 l2 : list (string * A)) x :
  assoc x (l1 ++ l2) = match assoc x l1 with Some w => Some w | None => assoc x l2 end.
Proof.
  induction l1 as [|[k1 v1] r1 IH1]; cbn; [reflexivity|]. destruct (String.eqb x k1); [reflexivity|apply IH1].
Qed.

(* result.update(addition) *)
Lemma assoc_update a b x :
  assoc x (sdict_update a b) = match assoc x (rev b) with Some v => Some v | None => assoc x a end.
Proof.
  unfold sdict_update. revert a. induction b as [|[k v] r IH]; intros a; cbn [fold_left rev]; [reflexivity|].
  rewrite IH. cbn [fst snd].
  rewrite assoc_app. destruct (assoc x (rev r)); [reflexivity|]. cbn. rewrite assoc_set.
  destruct (String.eqb x k); reflexivity.
Qed.
Lemma assoc_rev_nodup {A} (l : list (string * A)) x : NoDup (keys l) -> assoc x (rev l) = assoc x l.
Proof.
  intros Hn. destruct (assoc x l) as [a|] eqn:E.
  - apply In_assoc_nodup.
    + unfold keys. rewrite map_rev. apply NoDup_rev. exact Hn.
    + apply in_rev. rewrite rev_involutive. apply assoc_In. exact E.
  - apply assoc_None. apply assoc_None in E. unfold keys in *. rewrite map_rev. rewrite <- in_rev. exact E.
Qed.

(* ---- a fold over a product state decomposes into the folds of its components ---- *)
Section Decomp.
Variables (S E K L : Type).
Variable keqb : K -> K -> bool.
Hypothesis keqb_spec : forall a b, keqb a b = true <-> a = b.
Variable tgt : E -> K.
Variable view : K -> S -> L.
Variable step : S -> E -> option S.
Variable lstep : K -> L -> E -> option L.
(* an element reads and writes the component it targets, and nothing else *)
Hypothesis Hstep : forall s e,
  match lstep (tgt e) (view (tgt e) s) e with
  | None => step s e = None
  | Some l' => exists s', step s e = Some s' /\ view (tgt e) s' = l' /\
                          forall k, k <> tgt e -> view k s' = view k s
  end.

Definition sub (k : K) (l : list E) : list E := filter (fun e => keqb (tgt e) k) l.

Lemma decomp_some l : forall s s', ofold step l s = Some s' ->
  forall k, ofold (lstep k) (sub k l) (view k s) = Some (view k s').
Proof.
  induction l as [|e r IH]; intros s s' H k; cbn [ofold sub filter] in *.
  - injection H as <-. reflexivity.
  - pose proof (Hstep s e) as Hs. destruct (step s e) as [s1|] eqn:E1; cbn [obind] in H; [|discriminate].
    destruct (lstep (tgt e) (view (tgt e) s) e) as [l'|] eqn:E2; [|discriminate].
    destruct Hs as (s1' & Hs1 & Hv & Ho). injection Hs1 as <-.
    destruct (keqb (tgt e) k) eqn:Ek.
    + apply keqb_spec in Ek. subst k. cbn [ofold]. rewrite E2. cbn [obind]. rewrite <- Hv.
      apply (IH _ _ H).
    + assert (k <> tgt e) as Hne. { intros ->. assert (keqb (tgt e) (tgt e) = true) by (apply keqb_spec; reflexivity). congruence. }
      rewrite <- (Ho k Hne). apply (IH _ _ H).
Qed.

Lemma decomp_none l : forall s, ofold step l s = None ->
  exists k, ofold (lstep k) (sub k l) (view k s) = None.
Proof.
  induction l as [|e r IH]; intros s H; cbn [ofold] in H; [discriminate|].
  pose proof (Hstep s e) as Hs. destruct (lstep (tgt e) (view (tgt e) s) e) as [l'|] eqn:E2.
  - destruct Hs as (s1 & Hs1 & Hv & Ho). rewrite Hs1 in H. cbn [obind] in H.
    destruct (IH _ H) as [k Hk]. exists k. cbn [sub filter].
    destruct (keqb (tgt e) k) eqn:Ek.
    + apply keqb_spec in Ek. subst k. cbn [ofold]. rewrite E2. cbn [obind]. rewrite <- Hv. exact Hk.
    + assert (k <> tgt e) as Hne. { intros ->. assert (keqb (tgt e) (tgt e) = true) by (apply keqb_spec; reflexivity). congruence. }
      rewrite <- (Ho k Hne). exact Hk.
  - exists (tgt e). cbn [sub filter].
    assert (keqb (tgt e) (tgt e) = true) as -> by (apply keqb_spec; reflexivity).
    cbn [ofold]. rewrite E2. reflexivity.
Qed.
End Decomp.
