(* Proofs/ErrProofs.v — C04: constrained and logical types raise ParseError and nothing else;
   data-class construction likewise.  Every failure of a nested conversion is wrapped or collected
   by the construct around it, so no induction on the fuel is needed: the statement holds for any
   recursive knot that returns instances of the builtin target classes. *)
From UV Require Import Parse Conforms Wf ConvProofs Monad ConformProofs.
From Coq Require Import Lia.
Open Scope string_scope.
Open Scope list_scope.
Open Scope Z_scope.

Definition parse_only {A} (x : errs * out A) : Prop := forall e, snd x = Raise e -> is_parse_err e = true.

(* the knot returns instances of builtin targets (true of `transform` by C01's leaf lemma) *)
Definition kindly (tr : options -> Z -> ty -> pyval -> M pyval) : Prop :=
  forall o depth p v s s' w, tr o depth (TPrim p) v s = (s', Ok w) ->
    opaque_prim p = false -> prim_isinstance p w = true.

Section Err.
Variable re : string -> string -> bool.
Variable D : decls.
Variable tr : options -> Z -> ty -> pyval -> M pyval.
Hypothesis Hk : kindly tr.

Lemma parse_only_mbind {A B} (m : M A) (f : A -> M B) s :
  parse_only (m s) -> (forall a s1, m s = (s1, Ok a) -> parse_only (f a s1)) -> parse_only (mbind m f s).
Proof.
  unfold parse_only, mbind. intros Hm Hf e. destruct (m s) as [s1 [a|e1| | |]] eqn:E; cbn [snd] in *;
    try discriminate; [apply Hf; reflexivity|intros H; injection H as <-; apply Hm; reflexivity].
Qed.
Lemma parse_only_ret {A} (a : A) s : parse_only (ret a s).
Proof. intros e H. discriminate. Qed.
Lemma parse_only_handle o e fr s : is_parse_err e = true -> parse_only (handle_error o e fr s).
Proof.
  intros He e' H. destruct (handle_error o e fr s) as [s' r] eqn:E. cbn [snd] in H. subst r.
  eapply handle_error_raises; eassumption.
Qed.
Lemma parse_only_raise_error s : parse_only (raise_error s).
Proof. intros e H. destruct (raise_error s) as [s' r] eqn:E. cbn [snd] in H. subst. eapply raise_error_raises; exact E. Qed.

Lemma parse_only_lift {A} (x : out A) s : (forall e, x = Raise e -> is_parse_err e = true) -> parse_only (lift x s).
Proof. intros H e. cbn. apply H. Qed.
Lemma parse_only_unmodelled {A} s : parse_only (@lift A Unmodelled s).
Proof. apply parse_only_lift. intros e H; discriminate. Qed.

Lemma depth_check_parse o d e : depth_check o d = Raise e -> is_parse_err e = true.
Proof. unfold depth_check. destruct (o_max_depth o); [destruct (_ && _)|]; intros H; try discriminate; injection H as <-; reflexivity. Qed.

Lemma enter_failed_parse o depth rt t v e : enter_tr tr o depth rt t v = EnterFailed e -> is_parse_err e = true.
Proof.
  unfold enter_tr. destruct (depth_check o (new_depth depth rt)) eqn:E; try discriminate.
  intros H. injection H as <-. eapply depth_check_parse; exact E.
Qed.

(* ---- args parsers ---- *)
Lemma seq_items_parse_only o depth arg whole : forall items i acc s,
  parse_only (seq_items tr o depth arg whole i items acc s).
Proof.
  induction items as [|item rest IH]; intros i acc s; cbn [seq_items]; [apply parse_only_ret|].
  destruct (enter_tr tr o depth (route_idx i) arg item) as [e|[r|e| | |]] eqn:E;
    try (intros e' H; discriminate H); try apply IH.
  - intros e' H. injection H as <-. eapply enter_failed_parse; exact E.
  - destruct (o_invalid_items o); try apply IH.
    apply parse_only_mbind; [apply parse_only_handle; reflexivity|intros; apply IH].
Qed.

Lemma tuple_items_parse_only o depth vals : forall args i acc s,
  parse_only (tuple_items tr o depth vals i args acc s).
Proof.
  induction args as [|arg rest IH]; intros i acc s; cbn [tuple_items]; [apply parse_only_ret|].
  destruct (List.length vals <=? i)%nat eqn:El.
  - apply parse_only_mbind; [apply parse_only_handle; reflexivity|intros; apply IH].
  - destruct (depth_check o (new_depth depth (route_idx i))) eqn:Ed;
      try (destruct (nth_error vals i) as [item|] eqn:En;
           [|exfalso; apply nth_error_None in En; apply Nat.leb_gt in El; lia];
           destruct (enter_tr tr o depth (route_idx i) arg item) as [e|[r|e| | |]] eqn:E;
           try (intros e' H; discriminate H); try apply IH;
           [intros e' H; injection H as <-; eapply enter_failed_parse; exact E
           |destruct (o_invalid_items o); try apply IH;
            apply parse_only_mbind; try (apply parse_only_handle; reflexivity); intros; apply IH]).
    intros e' H. injection H as <-. eapply depth_check_parse; exact Ed.
Qed.

Lemma tuple_exceed_parse_only o : forall extra i s, parse_only (tuple_exceed o i extra s).
Proof.
  induction extra as [|x r IH]; intros i s; cbn [tuple_exceed]; [apply parse_only_ret|].
  apply parse_only_mbind; [apply parse_only_handle; reflexivity|intros; apply IH].
Qed.

Lemma parse_tuple_args_parse_only o depth args v s : parse_only (parse_tuple_args tr o depth args v s).
Proof.
  unfold parse_tuple_args. destruct v; try apply parse_only_unmodelled.
  apply parse_only_mbind.
  - destruct (_ && _); [apply tuple_exceed_parse_only|apply parse_only_ret].
  - intros _ s1 _. apply parse_only_mbind; [apply tuple_items_parse_only|intros; apply parse_only_ret].
Qed.


(* ---- hashability of converted scalars ---- *)
Lemma scalar_inst_hashable p w : scalar_prim p = true -> prim_isinstance p w = true -> hashable_deep w = true.
Proof. destruct p, w; cbn; intros; try discriminate; reflexivity. Qed.

Lemma enter_scalar_hashable o depth rt t v r :
  scalar_ty t = true -> enter_tr tr o depth rt t v = Entered (Ok r) -> hashable_deep r = true.
Proof.
  destruct t; try discriminate. cbn [scalar_ty]. intros Hsc. unfold enter_tr, in_fresh.
  destruct (depth_check o (new_depth depth rt)); try discriminate;
  (destruct (tr o (new_depth depth rt) (TPrim p) v no_errs) as [s1 r1] eqn:E; cbn [snd]; intros H; injection H as ->;
   eapply scalar_inst_hashable; [exact Hsc|]; eapply Hk; [exact E|]; destruct p; try discriminate; reflexivity).
Qed.

Lemma seq_items_hashable o depth arg whole : scalar_ty arg = true -> o_invalid_items o <> Preserve ->
  forall items i acc s s' rs,
  seq_items tr o depth arg whole i items acc s = (s', Ok rs) ->
  forallb hashable_deep acc = true -> forallb hashable_deep rs = true.
Proof.
  intros Hsc Hnp. induction items as [|item rest IH]; intros i acc s s' rs H Hacc; cbn [seq_items] in H.
  - injection H as _ <-. exact Hacc.
  - destruct (enter_tr tr o depth (route_idx i) arg item) as [e|[r|e| | |]] eqn:E; try discriminate H.
    + eapply IH; [exact H|]. rewrite forallb_app, Hacc. cbn [forallb andb].
      rewrite (enter_scalar_hashable _ _ _ _ _ _ Hsc E). reflexivity.
    + destruct (o_invalid_items o) eqn:Pol; [| |contradiction].
      * apply mbind_ok in H. destruct H as (s1 & [] & _ & H). eapply IH; eassumption.
      * eapply IH; eassumption.
Qed.

Lemma rebuild_parse_only bp rs s :
  (match bp with Some TSet | Some TFrozen => forallb hashable_deep rs = true | _ => True end) ->
  parse_only (lift (rebuild_origin bp (PList rs)) s).
Proof.
  intros H. apply parse_only_lift. intros e. unfold rebuild_origin.
  destruct bp as [[]|]; try discriminate; unfold mk_set; rewrite H; discriminate.
Qed.

(* ---- _parse_map_args ---- *)
Lemma map_items_parse_only o depth kt vt : scalar_ty kt = true -> o_invalid_keys o <> Preserve ->
  forall items acc s, parse_only (map_items tr o depth kt vt items acc s).
Proof.
  intros Hsc Hnp. induction items as [|[k0 v0] rest IH]; intros acc s; cbn [map_items]; [apply parse_only_ret|].
  destruct (enter_tr tr o depth true kt k0) as [e|kr] eqn:Ek.
  - intros e' H. injection H as <-. eapply enter_failed_parse; exact Ek.
  - destruct kr as [k|e| | |]; try (intros e' H; discriminate H).
    + unfold mbind at 1, ret.
      pose proof (enter_scalar_hashable _ _ _ _ _ _ Hsc Ek) as Hh. rewrite Hh.
      destruct vt as [vty|]; [|apply IH].
      destruct (enter_tr tr o depth (route_val k) vty v0) as [e|[v|e| | |]] eqn:Ev;
        try (intros e' H; discriminate H); try apply IH.
      * intros e' H. injection H as <-. eapply enter_failed_parse; exact Ev.
      * destruct (o_invalid_values o); try apply IH.
        apply parse_only_mbind; [apply parse_only_handle; reflexivity|intros; apply IH].
    + destruct (o_invalid_keys o) eqn:Pol; [| |contradiction].
      * apply parse_only_mbind.
        -- apply parse_only_mbind; [apply parse_only_handle; reflexivity|intros; apply parse_only_ret].
        -- intros ko s1 Hko. apply mbind_ok in Hko. destruct Hko as (s2 & [] & _ & Hko). injection Hko as _ <-. apply IH.
      * unfold mbind at 1, ret. apply IH.
Qed.

(* ---- validators, contains ---- *)
Lemma run_validators_parse_only o vals : forall v s, parse_only (run_validators re o vals v s).
Proof.
  induction vals as [|[[name bound] lax] rest IH]; intros v s; cbn [run_validators]; [apply parse_only_ret|].
  destruct (validator re name lax) as [f|]; [|apply parse_only_unmodelled].
  destruct (f v bound); try (intros e' H; discriminate H); try apply IH.
  apply parse_only_mbind; [apply parse_only_handle; reflexivity|intros; apply IH].
Qed.

Lemma count_contains_parse o depth ct : forall items i n e,
  count_contains tr o depth ct i items n = Raise e -> is_parse_err e = true.
Proof.
  induction items as [|item rest IH]; intros i n e; cbn [count_contains]; [discriminate|].
  destruct (enter_tr tr o depth (route_idx i) ct item) as [e1|[r|e1| | |]] eqn:E; try discriminate; try apply IH.
  intros H. injection H as <-. eapply enter_failed_parse; exact E.
Qed.

Lemma py_iter_container p v : container_prim p = true -> prim_isinstance p v = true -> exists xs, py_iter v = Ok xs.
Proof. destruct p, v; cbn; intros; try discriminate; eauto. Qed.

Lemma parse_contains_parse_only o depth ct mn mx v s :
  (exists xs, py_iter v = Ok xs) -> parse_only (parse_contains tr o depth ct mn mx v s).
Proof.
  intros [xs Hx]. unfold parse_contains. rewrite Hx.
  apply parse_only_mbind; [apply parse_only_lift; discriminate|]. intros items s1 _.
  apply parse_only_mbind; [apply parse_only_lift; apply count_contains_parse|]. intros n s2 _.
  apply parse_only_mbind; [|intros; apply parse_only_ret].
  repeat match goal with
  | |- parse_only ((if ?b then _ else _) _) => destruct b
  | |- parse_only ((match ?x with Some _ => _ | None => _ end) _) => destruct x
  | |- parse_only (handle_error _ _ _ _) => apply parse_only_handle; reflexivity
  | |- parse_only (ret _ _) => apply parse_only_ret
  end.
Qed.


Lemma parse_only_mcatch {A} (m : M A) (h : exn -> M A) s :
  (forall e s1, parse_only (h e s1)) -> parse_only (mcatch m h s).
Proof.
  intros Hh. unfold mcatch. destruct (m s) as [s1 [a|e| | |]] eqn:E; try (intros e' H; discriminate H). apply Hh.
Qed.

(* the value handed to `contains` is iterable: what each args parser returns for a container source *)
Lemma args_stage_iterable o depth p args ell v1 s1 s2 v2 :
  container_prim p = true -> prim_isinstance p v1 = true ->
  (match args_parser_of (Some (TPrim p)) args ell with
   | APNone => ret v1
   | APSeq => match args with
              | arg :: _ => do r <- parse_seq_args tr o depth arg v1; lift (rebuild_origin (base_prim 8 (TPrim p)) r)
              | [] => ret v1 end
   | APTuple => parse_tuple_args tr o depth args v1
   | APMap => parse_map_args tr o depth args v1
   end) s1 = (s2, Ok v2) ->
  exists xs, py_iter v2 = Ok xs.
Proof.
  intros Hc Hi H. destruct (args_parser_of (Some (TPrim p)) args ell).
  - destruct args as [|arg rest]; [injection H as _ <-; eapply py_iter_container; eassumption|].
    apply mbind_ok in H. destruct H as (sa & r & Hseq & Hrb). unfold lift in Hrb. injection Hrb as _ Hrb.
    unfold parse_seq_args in Hseq. destruct (items_of v1); [|discriminate Hseq].
    apply mbind_ok in Hseq. destruct Hseq as (sb & rs & _ & Hr). injection Hr as _ <-.
    assert (Hrb' : rebuild_origin (Some p) (PList rs) = Ok v2) by exact Hrb.
    destruct (rebuild_origin_list _ _ _ Hrb') as (xs & _ & _ & Hkind).
    eapply py_iter_container; [exact Hc|apply Hkind; reflexivity].
  - unfold parse_tuple_args in H. destruct v1; try discriminate H.
    apply mbind_ok in H. destruct H as (sa & [] & _ & H). apply mbind_ok in H. destruct H as (sb & res & _ & H).
    injection H as _ <-. cbn. eauto.
  - unfold parse_map_args in H. destruct args; [discriminate H|]. destruct (dict_items v1); [|discriminate H].
    apply mbind_ok in H. destruct H as (sa & res & _ & H). injection H as _ <-. cbn. eauto.
  - injection H as _ <-. eapply py_iter_container; eassumption.
Qed.

Lemma andb_true4 a b c d : a && b && c && d = true -> a = true /\ b = true /\ c = true /\ d = true.
Proof. intros H. repeat (apply andb_prop in H; destruct H as [H ?]). auto. Qed.

(* ---- Rule.parse raises ParseError only ---- *)
Lemma rule_parse_parse_only o depth origin args ell vals ct mn mx v s :
  no_preserve o -> wf_ty (TRule origin args ell vals ct mn mx) = true ->
  parse_only (rule_parse re tr o depth origin args ell vals ct mn mx v s).
Proof.
  intros [Hni Hnk] Hwf. cbn [wf_ty] in Hwf. apply andb_true4 in Hwf. destruct Hwf as (_ & _ & Hhash & Hct).
  unfold rule_parse. apply parse_only_mbind.
  { destruct origin as [ot|]; [|apply parse_only_ret].
    apply parse_only_mcatch. intros e s1.
    apply parse_only_mbind; [apply parse_only_handle; reflexivity|intros; apply parse_only_ret]. }
  intros v1 s1 Hv1.
  (* facts about v1 needed by `contains` *)
  assert (Hkind : forall p, origin = Some (TPrim p) -> opaque_prim p = false -> prim_isinstance p v1 = true).
  { intros p -> Hop. unfold mcatch in Hv1. destruct (tr o depth (TPrim p) v s) as [s0 [a|e| | |]] eqn:Et; try discriminate Hv1.
    all: try (injection Hv1 as <- <-; eapply Hk; eassumption).
    all: try (unfold mbind, handle_error in Hv1; cbn [orb] in Hv1; discriminate Hv1). }
  assert (Hmain : parse_only
    ((do v2 <-
      match args_parser_of origin args ell with
      | APSeq => match args with
                 | [] => ret v1
                 | arg :: _ => do r <- parse_seq_args tr o depth arg v1;
                               lift (rebuild_origin match origin with Some ot => base_prim 8 ot | None => None end r)
                 end
      | APTuple => parse_tuple_args tr o depth args v1
      | APMap => parse_map_args tr o depth args v1
      | APNone => ret v1
      end;
      do v3 <- (if o_ignore_constraints o then ret v2
                else do w <- run_validators re o vals v2;
                     match ct with Some ct0 => parse_contains tr o depth ct0 mn mx w | None => ret w end);
      do _ <- raise_error; ret v3) s1)).
  { apply parse_only_mbind.
    - (* the args parser *)
      destruct (args_parser_of origin args ell) eqn:Eap; try apply parse_only_ret.
      + destruct args as [|arg rest]; [apply parse_only_ret|].
        apply parse_only_mbind.
        * unfold parse_seq_args. destruct (items_of v1); [|apply parse_only_unmodelled].
          apply parse_only_mbind; [apply seq_items_parse_only|intros; apply parse_only_ret].
        * intros r sa Hr. unfold parse_seq_args in Hr. destruct (items_of v1) as [items|]; [|discriminate Hr].
          apply mbind_ok in Hr. destruct Hr as (sb & rs & Hsi & Hr). injection Hr as _ <-.
          apply rebuild_parse_only.
          destruct origin as [ot|]; [|exact I]. destruct (base_prim 8 ot) as [[]|] eqn:Eb; try exact I.
          -- cbn [forallb] in Hhash. apply andb_prop in Hhash. destruct Hhash as [Hsc _].
             eapply seq_items_hashable; [exact Hsc|exact Hni|exact Hsi|reflexivity].
          -- cbn [forallb] in Hhash. apply andb_prop in Hhash. destruct Hhash as [Hsc _].
             eapply seq_items_hashable; [exact Hsc|exact Hni|exact Hsi|reflexivity].
      + apply parse_tuple_args_parse_only.
      + unfold parse_map_args. destruct args as [|kt rest]; [apply parse_only_unmodelled|].
        destruct (dict_items v1); [|apply parse_only_unmodelled].
        apply parse_only_mbind; [|intros; apply parse_only_ret].
        apply map_items_parse_only; [|exact Hnk].
        destruct origin; exact Hhash.
    - intros v2 s2 Hv2. apply parse_only_mbind; [|intros; apply parse_only_mbind; [apply parse_only_raise_error|intros; apply parse_only_ret]].
      destruct (o_ignore_constraints o); [apply parse_only_ret|].
      apply parse_only_mbind; [apply run_validators_parse_only|].
      intros w s3 Hw. destruct ct as [c|]; [|apply parse_only_ret].
      apply andb_prop in Hct. destruct Hct as [Hct Hor]. apply andb_prop in Hct. destruct Hct as [_ Hck].
      destruct origin as [[| p | | |]|]; try discriminate Hor.
      destruct (run_validators_checking re o vals Hck _ _ _ _ Hw) as (-> & _ & _).
      apply parse_contains_parse_only.
      eapply args_stage_iterable; [exact Hor| |exact Hv2].
      apply Hkind; [reflexivity|]. destruct p; try discriminate Hor; reflexivity. }
  destruct origin as [ot|]; [destruct v1|]; try exact Hmain. apply parse_only_ret.
Qed.


(* ---- logical types ---- *)
Lemma or_stage_parse_only o depth : forall args v s, parse_only (or_stage tr o depth args v s).
Proof.
  induction args as [|con rest IH]; intros v s; cbn [or_stage]; [apply parse_only_ret|].
  destruct (enter_tr tr o depth true con v) as [e|[r|e| | |]] eqn:E; try (intros e' H; discriminate H).
  - intros e' H. injection H as <-. eapply enter_failed_parse; exact E.
  - apply parse_only_mbind; [intros e' H; cbn in H; discriminate H|intros; apply IH].
Qed.

Lemma and_loop_parse_only o depth : forall args v s, parse_only (and_loop tr o depth args v s).
Proof.
  induction args as [|con rest IH]; intros v s; cbn [and_loop]; [apply parse_only_ret|].
  destruct (tr o depth con v s) as [s1 [v'|e| | |]]; try (intros e' H; discriminate H); [apply IH|].
  destruct (handle_error o (as_parse_error e) false s1) as [s2 [[]|e1| | |]] eqn:Hh; try (intros e' H; discriminate H).
  intros e' H. injection H as <-. eapply handle_error_raises; [|exact Hh].
  unfold as_parse_error. destruct (is_parse_err e) eqn:Ep; [exact Ep|reflexivity].
Qed.

Lemma xor_loop_parse_only o depth : forall args v res xor s, parse_only (xor_loop tr o depth args v res xor s).
Proof.
  induction args as [|con rest IH]; intros v res xor s; cbn [xor_loop]; [apply parse_only_ret|].
  destruct (enter_tr tr o depth true con v) as [e|[r|e| | |]] eqn:E; try (intros e' H; discriminate H).
  - intros e' H. injection H as <-. eapply enter_failed_parse; exact E.
  - destruct (negb xor); [apply IH|].
    destruct (handle_error o (parse_err KOneOf) false s) as [s1 [[]|e1| | |]]; try (intros e' H; discriminate H).
    destruct (collect_tmp_error e1 s1) as [s2 r2]. apply IH.
  - apply parse_only_mbind; [intros e' H; cbn in H; discriminate H|intros; apply IH].
Qed.

Lemma logical_parse_parse_only o depth op args v s : parse_only (logical_parse tr o depth op args v s).
Proof.
  destruct op; cbn [logical_parse].
  - apply parse_only_mbind; [apply and_loop_parse_only|intros].
    apply parse_only_mbind; [apply parse_only_raise_error|intros; apply parse_only_ret].
  - destruct (existsb _ args); [apply parse_only_ret|].
    apply parse_only_mbind; [destruct (_ || _); [apply or_stage_parse_only|apply parse_only_ret]|].
    intros [r|] s1 _; [apply parse_only_ret|].
    apply parse_only_mbind; [destruct (_ && _); [apply or_stage_parse_only|apply parse_only_ret]|].
    intros [r|] s2 _; [apply parse_only_ret|].
    apply parse_only_mbind; [apply or_stage_parse_only|].
    intros [r|] s3 _; [apply parse_only_ret|].
    apply parse_only_mbind; [apply parse_only_raise_error|intros; apply parse_only_ret].
  - destruct (existsb _ args); [apply parse_only_ret|].
    apply parse_only_mbind; [apply xor_loop_parse_only|]. intros [v' xor] s1 _.
    apply parse_only_mbind; [destruct xor; [intros e' H; discriminate H|apply parse_only_ret]|]. intros _ s2 _.
    apply parse_only_mbind; [apply parse_only_raise_error|intros; apply parse_only_ret].
  - destruct args as [|con rest].
    + apply parse_only_mbind; [apply parse_only_raise_error|intros; apply parse_only_ret].
    + destruct (enter_tr tr o depth true con v) as [e|[r|e| | |]] eqn:E; try (intros e' H; discriminate H).
      * intros e' H. injection H as <-. eapply enter_failed_parse; exact E.
      * destruct (handle_error o (parse_err KNegate) false s) as [s1 r1].
        apply parse_only_mbind; [apply parse_only_raise_error|intros; apply parse_only_ret].
      * apply parse_only_mbind; [apply parse_only_raise_error|intros; apply parse_only_ret].
Qed.

(* ---- one unfolding, for the types that are entry points ---- *)
Lemma transform_step_parse_only o depth t v s :
  no_preserve o -> wf_ty t = true -> guarded t = true ->
  parse_only (transform_step re D tr o depth t v s).
Proof.
  intros Hnp Hwf Hg. destruct t; try discriminate Hg; cbn [transform_step].
  - apply parse_only_mbind; [apply parse_only_raise_error|intros; apply parse_only_ret].
  - apply rule_parse_parse_only; assumption.
  - apply logical_parse_parse_only.
Qed.

(* ---- data-class construction ---- *)
Lemma parse_value_parse_only o depth f v s : parse_only (parse_value tr o depth f v s).
Proof.
  unfold parse_value. destruct (f_type f) as [t|]; [|apply parse_only_ret].
  destruct (enter_tr tr o depth (route_str (f_name f)) t v) as [e|[r|e| | |]] eqn:E; try (intros e' H; discriminate H).
  - intros e' H. injection H as <-. eapply enter_failed_parse; exact E.
  - destruct (get_on_error f o).
    + apply parse_only_mbind; [apply parse_only_handle; reflexivity|intros; apply parse_only_ret].
    + apply parse_only_mbind; [destruct (is_required f o); [apply parse_only_handle; reflexivity|apply parse_only_ret]|intros; apply parse_only_ret].
    + apply parse_only_ret.
Qed.

Lemma parse_addition_parse_only C o k v s : parse_only (parse_addition C o k v s).
Proof.
  unfold parse_addition. destruct (str_in k (c_exclude_vars C)); [apply parse_only_ret|].
  destruct (o_addition o) as [[|]|]; try apply parse_only_ret.
  apply parse_only_mbind; [apply parse_only_handle; reflexivity|intros; apply parse_only_ret].
Qed.

Lemma mfold_parse_only {S E} (step : S -> E -> M S) :
  (forall st e s, parse_only (step st e s)) -> forall l st s, parse_only (mfold step l st s).
Proof.
  intros H. induction l as [|e r IH]; intros st s; cbn [mfold]; [apply parse_only_ret|].
  apply parse_only_mbind; [apply H|intros; apply IH].
Qed.

Lemma dfs_missing_parse_only o fields result unprov s : parse_only (dfs_missing o fields result unprov s).
Proof.
  unfold dfs_missing. apply mfold_parse_only. clear. intros [result unprov] [k f] s. unfold dfs_missing_step. cbn [snd].
  destruct (has_key (f_name f) result); [apply parse_only_ret|].
  destruct (is_required f o).
  - apply parse_only_mbind; [apply parse_only_handle; reflexivity|intros; apply parse_only_ret].
  - destruct (get_default f o); apply parse_only_ret.
Qed.

Lemma deps_check_parse_only o deps result unprov s : parse_only (deps_check o deps result unprov s).
Proof. unfold deps_check. destruct (filter _ deps); [apply parse_only_ret|apply parse_only_handle; reflexivity]. Qed.

Lemma dfs_loop_parse_only C o depth data st s : parse_only (dfs_loop tr C o depth data st s).
Proof.
  unfold dfs_loop. apply mfold_parse_only. clear. intros [[[result raw] addition] deps] [key value] s.
  unfold dfs_step.
  destruct (get_field C key) as [f|].
  - destruct (is_no_input f o); [apply parse_only_ret|].
    match goal with |- parse_only (match ?x with _ => _ end _) => destruct x as [prev|] end.
    + apply parse_only_mbind; [destruct (negb _); [apply parse_only_handle; reflexivity|apply parse_only_ret]|intros; apply parse_only_ret].
    + apply parse_only_mbind; [apply parse_value_parse_only|]. intros [r|] s1 _; apply parse_only_ret.
  - apply parse_only_mbind; [apply parse_addition_parse_only|intros; apply parse_only_ret].
Qed.

Lemma ffs_loop_parse_only o depth data fields st s : parse_only (ffs_loop tr o depth data fields st s).
Proof.
  unfold ffs_loop. apply mfold_parse_only. clear. intros [[[result used] unprov] deps] [k f] s.
  unfold ffs_step. cbn [snd].
  destruct (ffs_lookup _ _ _ _) as [value conflict].
  destruct value as [v|].
  - destruct (is_no_input f o); [apply parse_only_ret|].
    apply parse_only_mbind; [destruct conflict; [apply parse_only_handle; reflexivity|apply parse_only_ret]|].
    intros _ s1 _.
    apply parse_only_mbind; [apply parse_value_parse_only|]. intros [r|] s2 _; apply parse_only_ret.
  - destruct (is_required f o); [|apply parse_only_ret].
    apply parse_only_mbind; [apply parse_only_handle; reflexivity|intros; apply parse_only_ret].
Qed.

Lemma ffs_prepare_parse_only C o data s : parse_only (ffs_prepare C o data s).
Proof.
  unfold ffs_prepare. destruct (c_ci_names C) eqn:E; [apply parse_only_ret|].
  apply mfold_parse_only. clear. intros acc [k v] s. unfold ffs_fold_step.
  destruct (str_in _ _); [|apply parse_only_ret].
  destruct (assoc _ acc) as [prev|]; [|apply parse_only_ret].
  destruct (o_ignore_alias_conflicts o); [apply parse_only_ret|].
  apply parse_only_mbind; [|intros; apply parse_only_ret].
  destruct (negb _); [|apply parse_only_ret].
  destruct (get_field C _) as [f|]; [|apply parse_only_ret].
  destruct (is_no_input f o); [apply parse_only_ret|apply parse_only_handle; reflexivity].
Qed.

Lemma ffs_addition_parse_only C o data used addition s : parse_only (ffs_addition C o data used addition s).
Proof.
  unfold ffs_addition. apply mfold_parse_only. clear. intros addition [k v] s. unfold ffs_add_step.
  destruct (str_in k used); [apply parse_only_ret|].
  apply parse_only_mbind; [apply parse_addition_parse_only|intros; apply parse_only_ret].
Qed.

Lemma parse_data_parse_only C o depth data s : parse_only (parse_data tr C o depth data s).
Proof.
  unfold parse_data.
  apply parse_only_mbind; [destruct (opt_pos _); [destruct (_ <? _); [apply parse_only_handle; reflexivity|apply parse_only_ret]|apply parse_only_ret]|].
  intros _ s1 _.
  apply parse_only_mbind; [destruct (opt_pos _); [destruct (_ <? _); [apply parse_only_handle; reflexivity|apply parse_only_ret]|apply parse_only_ret]|].
  intros _ s2 _.
  apply parse_only_mbind.
  - destruct (match o_data_first_search o with Some b => b | None => c_dfs C end).
    + unfold data_first_parse. apply parse_only_mbind; [apply dfs_loop_parse_only|]. intros [[[result raw] addition] deps] s3 _.
      apply parse_only_mbind; [apply dfs_missing_parse_only|].
      intros [result2 unprov] s4 _.
      apply parse_only_mbind; [destruct deps; [apply parse_only_ret|apply deps_check_parse_only]|intros; apply parse_only_ret].
    + unfold field_first_parse.
      apply parse_only_mbind; [apply ffs_prepare_parse_only|].
      intros data' s3' _.
      apply parse_only_mbind; [apply ffs_loop_parse_only|]. intros [[[result used] unprov] deps] s3 _.
      apply parse_only_mbind; [destruct deps; [apply parse_only_ret|apply deps_check_parse_only]|]. intros _ s4 _.
      destruct (o_addition o); [|apply parse_only_ret].
      apply parse_only_mbind; [apply ffs_addition_parse_only|intros; apply parse_only_ret].
  - intros result s3 _. apply parse_only_mbind; [apply parse_only_raise_error|intros; apply parse_only_ret].
Qed.

(* init_dataclass on a string-keyed mapping (or a non-mapping): ParseError only *)
Definition str_keyed (v : pyval) : Prop :=
  match v with PDict kvs => exists l, str_keys kvs = Some l | _ => True end.

Lemma init_dataclass_parse_only c C caller depth v e :
  str_keyed v -> init_dataclass tr c C caller depth v = Raise e -> is_parse_err e = true.
Proof.
  intros Hsk. unfold init_dataclass.
  destruct (depth_check _ _) eqn:Ed; cbn [bind]; try discriminate;
    [|intros H; injection H as <-; eapply depth_check_parse; exact Ed].
  match goal with |- bind ?x _ = _ -> _ => destruct x as [d| | | |] eqn:Edv; cbn [bind]; try discriminate end.
  2:{ intros H. injection H as <-.
      destruct v; try (injection Edv as <-; reflexivity); try discriminate Edv;
      destruct (o_no_explicit_cast _); try (injection Edv as <-; reflexivity);
      destruct (to_dict _ _); try discriminate Edv; injection Edv as <-; reflexivity. }
  match goal with |- bind ?x _ = _ -> _ => destruct x as [data| | | |] eqn:Edata; cbn [bind]; try discriminate end.
  2:{ exfalso. destruct d; try discriminate Edata. destruct (str_keys kvs) eqn:Esk; [discriminate Edata|].
      assert (v = PDict kvs).
      { destruct v; try (injection Edv as <-; reflexivity);
        destruct (o_no_explicit_cast _); try discriminate Edv;
        destruct (to_dict _ _) eqn:Etd; try discriminate Edv; injection Edv as ->;
        unfold to_dict in Etd; cbn in Etd; try discriminate Etd. }
      subst v. destruct Hsk as [l Hl]. congruence. }
  unfold in_fresh. destruct (parse_data tr C _ (depth + 1) data no_errs) as [s1 r1] eqn:Ep. cbn [snd].
  destruct r1; cbn [bind]; try discriminate. intros H. injection H as <-.
  pose proof (parse_data_parse_only C (nested_options C caller) (depth + 1) data no_errs) as Hp.
  rewrite Ep in Hp. apply Hp. reflexivity.
Qed.

End Err.

(* `transform` returns instances of the builtin targets *)
Lemma transform_kindly re D fuel : kindly (transform re D fuel).
Proof.
  destruct fuel as [|f]; intros o depth p v s s' w H Hop; cbn [transform] in H; [discriminate H|].
  cbn [transform_step] in H. unfold lift in H. injection H as _ H.
  eapply conv_prim_sound; [exact H|]. intros _. exact Hop.
Qed.

Theorem transform_parse_only re D fuel o depth t v s s' e :
  no_preserve o -> wf_ty t = true -> guarded t = true ->
  transform re D fuel o depth t v s = (s', Raise e) -> is_parse_err e = true.
Proof.
  intros Hnp Hwf Hg H. destruct fuel as [|f]; cbn [transform] in H; [discriminate H|].
  pose proof (transform_step_parse_only re D (transform re D f) (transform_kindly re D f) o depth t v s Hnp Hwf Hg) as Hp.
  rewrite H in Hp. apply Hp. reflexivity.
Qed.
