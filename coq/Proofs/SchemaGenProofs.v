(* Proofs/SchemaGenProofs.v — C13 (partial): the structure of the generated object schema matches what the
   parser does (the field contract of C05): listed properties are exactly the fields that take input
   (input view), `required` is exactly the fields whose absence is an error, additionalProperties is the
   addition policy; in the output view every required property is present in what the parser produces and
   every key it produces for a field is a listed property. *)
From UV Require Import Parse Verdict Assoc FieldSpec FieldFacts ContractCommon DfsSpec FieldProofs SchemaGen.
From Coq Require Import Lia.
Open Scope string_scope.
Open Scope list_scope.

(* with non-callable flags the per-value test and the static test coincide (after the fix of is_no_input) *)
Lemma is_no_input_always f o : is_no_input f o = always_no_input f o.
Proof.
  unfold is_no_input, always_no_input, flag_applies.
  destruct (f_no_input f) as [[|]|s]; cbn [flag_true]; destruct (o_mode o) as [m|]; try reflexivity;
    destruct (String.eqb m ""); try reflexivity; try (destruct (str_contains s m); reflexivity).
Qed.
Lemma is_no_output_always f o : is_no_output f o = always_no_output f o.
Proof.
  unfold is_no_output, always_no_output, flag_applies.
  destruct (f_no_output f) as [[|]|s]; cbn [flag_true]; destruct (o_mode o) as [m|]; try reflexivity;
    destruct (String.eqb m ""); try reflexivity; try (destruct (str_contains s m); reflexivity).
Qed.

Section GenP.
Variable tr : options -> Z -> ty -> pyval -> M pyval.
Variable C : cdecl.
Variable depth : Z.
Hypothesis Hwf : wf_cdecl C = true.
Let o := c_options C.
Let HW : WF C := wf_cdecl_WF C Hwf.

(* ---- input view ---- *)
Theorem props_in_exact x :
  In x (gen_props C false) <-> exists kf, In kf (c_fields C) /\ f_name (snd kf) = x /\ is_no_input (snd kf) o = false.
Proof.
  unfold gen_props, visible. rewrite in_map_iff. split.
  - intros (kf & Hn & Hf). apply filter_In in Hf. destruct Hf as [Hi Hv]. exists kf. split; [exact Hi|]. split; [exact Hn|].
    rewrite is_no_input_always. apply Bool.negb_true_iff. exact Hv.
  - intros (kf & Hi & Hn & Hni). exists kf. split; [exact Hn|]. apply filter_In. split; [exact Hi|].
    rewrite is_no_input_always in Hni. fold o. rewrite Hni. reflexivity.
Qed.

(* a listed name is an accepted input key of its own field *)
Theorem listed_name_feeds_its_field kf :
  In kf (c_fields C) -> target C (f_name (snd kf)) = Some (fst kf).
Proof.
  intros Hi. destruct (get_field_key C (f_name (snd kf))) as [k|] eqn:Et.
  - unfold target. rewrite Et. f_equal.
    destruct (target_field C HW _ _ Et) as [f' Hf']. apply assoc_In in Hf'.
    (* the field fed by the name has the name among its accepted names; so has kf *)
    apply (target_iff C HW) in Et. destruct Et as (f2 & Hi2 & Ha2).
    destruct kf as [k0 f0]. cbn [fst snd] in *.
    destruct (wf_name_key C HW _ Hi) as [Hk|[Hk Hc]]; cbn [fst snd] in *.
    + (* name = key: the key is the head of its own accepted names *)
      destruct (wf_head C HW _ Hi) as [r Hr]. unfold aliases_of in Hr. cbn [fst snd] in Hr.
      assert (Hfk : fkey C (f_name f0) = f_name f0 \/ In (str_lower (f_name f0)) (c_ci_names C)).
      { unfold fkey. destruct (str_in (str_lower (f_name f0)) (c_ci_names C)) eqn:E; [right; apply str_in_In; exact E|left; reflexivity]. }
      destruct Hfk as [Hfk|Hci].
      * rewrite Hfk in Ha2. symmetry. apply (wf_alias_uniq C HW (k0, f0) (k, f2) (f_name f0) Hi Hi2); unfold aliases_of; cbn [snd].
        -- rewrite Hr, Hk. left. reflexivity.
        -- exact Ha2.
      * assert (Hal : In (f_name f0) (aliases_of (k0, f0))) by (unfold aliases_of; cbn [snd]; rewrite Hr, Hk; left; reflexivity).
        pose proof (ci_alias_lower C HW (k0, f0) (f_name f0) Hi Hal Hci) as Hl.
        unfold fkey in Ha2. apply str_in_In in Hci. rewrite Hci, Hl in Ha2.
        symmetry. apply (wf_alias_uniq C HW (k0, f0) (k, f2) (f_name f0) Hi Hi2); [exact Hal|exact Ha2].
    + (* case-insensitive: the key is the lower-cased name *)
      unfold fkey in Ha2. rewrite Hk in Ha2. apply str_in_In in Hc. rewrite Hc in Ha2.
      destruct (wf_head C HW _ Hi) as [r Hr]. unfold aliases_of in Hr. cbn [fst snd] in Hr.
      symmetry. apply (wf_alias_uniq C HW (k0, f0) (k, f2) k0 Hi Hi2); unfold aliases_of; cbn [snd]; [rewrite Hr; left; reflexivity|exact Ha2].
  - exfalso. apply (unknown_not_name C HW _ kf Et Hi). reflexivity.
Qed.

(* `required` lists exactly the fields whose absence is an error *)
Theorem required_in_exact x :
  In x (gen_required C false) <-> exists kf, In kf (c_fields C) /\ f_name (snd kf) = x /\ is_required (snd kf) o = true.
Proof.
  unfold gen_required, visible. rewrite in_map_iff. cbn [andb]. split.
  - intros (kf & Hn & Hf). apply filter_In in Hf. destruct Hf as [Hi Hv]. apply andb_prop in Hv. destruct Hv as [_ Hr].
    rewrite Bool.orb_false_r in Hr. exists kf. auto.
  - intros (kf & Hi & Hn & Hr). exists kf. split; [exact Hn|]. apply filter_In. split; [exact Hi|].
    fold o. rewrite Hr. rewrite Bool.orb_true_l, Bool.andb_true_r.
    (* a required field is never always_no_input *)
    unfold is_required in Hr. destruct (o_ignore_required o || negb (flag_truthy (f_required (snd kf)))); [discriminate|].
    destruct (always_no_input (snd kf) o); [discriminate|reflexivity].
Qed.
Theorem required_missing_is_an_error kf data :
  In kf (c_fields C) -> In (f_name (snd kf)) (gen_required C false) -> hits C (fst kf) data = [] ->
  contract_ok tr C o depth data = false.
Proof.
  intros Hi Hr Hh. apply required_in_exact in Hr. destruct Hr as (kf' & Hi' & Hn & Hreq).
  assert (kf' = kf).
  { pose proof (wf_names C HW kf' kf Hi' Hi Hn) as Hk. destruct kf as [k f], kf' as [k' f']. cbn [fst] in Hk. subst k'.
    apply (In_field_assoc C HW) in Hi. apply (In_field_assoc C HW) in Hi'. congruence. }
  subst kf'. eapply missing_required_fails; eassumption.
Qed.
Theorem unrequired_missing_is_no_error kf data :
  In kf (c_fields C) -> ~ In (f_name (snd kf)) (gen_required C false) -> hits C (fst kf) data = [] ->
  field_out tr C o depth kf data = FOut (get_default (snd kf) o) false false.
Proof.
  intros Hi Hr Hh. rewrite (missing_field tr C o depth kf data Hi Hh).
  destruct (is_required (snd kf) o) eqn:E; [|reflexivity].
  exfalso. apply Hr. apply required_in_exact. exists kf. auto.
Qed.

(* additionalProperties is the addition policy, and the policy is what the parser does with unknown keys *)
Theorem additional_is_the_policy data x v :
  In (x, v) data -> NoDup (keys data) -> target C x = None -> field_named C x = None ->
  str_in x (c_exclude_vars C) = false ->
  match gen_additional C with
  | Some false => contract_ok tr C o depth data = false                  (* rejected *)
  | Some true => contract_val tr C o depth data x = Some v               (* kept as it is *)
  | None => contract_val tr C o depth data x = None                      (* dropped *)
  end.
Proof.
  intros Hi Hn Ht Hf Hx. unfold gen_additional. fold o.
  destruct (o_addition o) as [[|]|] eqn:Ea.
  - rewrite (unknown_key tr C o depth data x v Hi Hn Ht Hf), Hx, Ea. reflexivity.
  - eapply unknown_key_rejected; eassumption.
  - rewrite (unknown_key tr C o depth data x v Hi Hn Ht Hf), Hx, Ea. reflexivity.
Qed.

(* ---- output view ---- *)
(* every property the output schema requires is in what the parser produces *)
Theorem required_out_present kf data :
  In kf (c_fields C) -> In (f_name (snd kf)) (gen_required C true) ->
  o_ignore_alias_conflicts o = false -> NoDup (keys data) -> coherentb C data = true ->
  forall r, in_fresh (parse_data tr C o depth data) = Ok r ->
  exists v, assoc (f_name (snd kf)) r = Some v.
Proof.
  intros Hi Hr Hign Hnd Hc r Hp.
  pose proof (parse_data_contract tr C o depth Hwf Hign data Hnd Hc) as Hpc. rewrite Hp in Hpc. destruct Hpc as [Hok Hval].
  rewrite Hval. unfold contract_val. rewrite (field_named_of C HW kf Hi).
  (* no field fails *)
  unfold contract_ok in Hok. apply andb_prop in Hok. destruct Hok as [_ Hok]. apply andb_prop in Hok. destruct Hok as [Hok _].
  apply andb_prop in Hok. destruct Hok as [Hfo _]. unfold fields_ok in Hfo. rewrite forallb_forall in Hfo. specialize (Hfo kf Hi).
  (* why the name is required *)
  unfold gen_required in Hr. apply in_map_iff in Hr. destruct Hr as (kf' & Hn & Hf). apply filter_In in Hf. destruct Hf as [Hi' Hv].
  assert (kf' = kf).
  { pose proof (wf_names C HW kf' kf Hi' Hi Hn) as Hk. destruct kf as [k f], kf' as [k' f']. cbn [fst] in Hk. subst k'.
    apply (In_field_assoc C HW) in Hi. apply (In_field_assoc C HW) in Hi'. congruence. }
  subst kf'. apply andb_prop in Hv. destruct Hv as [_ Hwhy]. fold o in Hwhy. cbn [andb] in Hwhy.
  unfold field_out, fo in *.
  destruct (hits C (fst kf) data) as [|v1 more].
  - destruct (is_required (snd kf) o); [discriminate|]. cbn [orb] in Hwhy. unfold has_applied_default in Hwhy. fold o in Hwhy.
    destruct (get_default (snd kf) o) as [d|]; [eauto|discriminate].
  - destruct (is_no_input (snd kf) o) eqn:Eni.
    + rewrite (no_input_not_required _ _ Eni) in Hwhy. cbn [orb] in Hwhy. unfold has_applied_default in Hwhy. fold o in Hwhy.
      destruct (get_default (snd kf) o) as [d|]; [eauto|discriminate].
    + destruct (forallb (py_eq v1) more); [|discriminate].
      destruct (pv tr o depth (snd kf) v1) as [[w|]|] eqn:Epv; [eauto| |discriminate].
      destruct (pv_none_facts tr o depth _ _ Epv) as [Hgd Hnr]. rewrite Hnr in Hwhy. cbn [orb] in Hwhy.
      unfold has_applied_default in Hwhy. fold o in Hwhy. rewrite Hgd in Hwhy. discriminate.
Qed.

(* a Schema instance holds a field's key only if the output schema lists it *)
Theorem out_keys_are_listed kf values x v :
  c_dict_based C = true -> In kf (c_fields C) -> get_field C x = Some (snd kf) -> x = f_name (snd kf) ->
  In (x, v) (instance_data C o values) -> In x (gen_props C true).
Proof.
  intros Hdb Hi Hg Hx Hin. apply (instance_dict_based C o values x v Hdb) in Hin. destruct Hin as [_ Hno].
  rewrite Hg in Hno. unfold gen_props. apply in_map_iff. exists kf. split; [symmetry; exact Hx|].
  apply filter_In. split; [exact Hi|]. unfold visible. fold o. rewrite <- is_no_output_always, Hno. reflexivity.
Qed.

End GenP.
