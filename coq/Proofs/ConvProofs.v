(* Proofs/ConvProofs.v — every builtin converter returns an instance of its target class
   (the leaf case of C01), for all inputs and both preference flags. *)
From UV Require Import Parse.
From Coq Require Import Lia.
Open Scope string_scope.
Open Scope list_scope.
Open Scope Z_scope.

Ltac inv H := inversion H; subst; clear H.

(* peel one monadic bind / match in a hypothesis of the form  _ = Ok w *)
Ltac peel H :=
  repeat match type of H with
  | (let* _ := ?x in _) = Ok _ => let E := fresh "E" in destruct x eqn:E; cbn [bind] in H; try discriminate H
  | bind ?x _ = Ok _ => let E := fresh "E" in destruct x eqn:E; cbn [bind] in H; try discriminate H
  | (if ?b then _ else _) = Ok _ => let E := fresh "E" in destruct b eqn:E; try discriminate H
  | (match ?x with _ => _ end) = Ok _ => let E := fresh "E" in destruct x eqn:E; try discriminate H
  | Ok _ = Ok _ => inv H
  | raise_type = Ok _ => discriminate H
  | raise_value = Ok _ => discriminate H
  | Raise _ = Ok _ => discriminate H
  | Unmodelled = Ok _ => discriminate H
  end.

Lemma py_str_v_kind v w : py_str_v v = Ok w -> is_str w = true.
Proof. unfold py_str_v, bind. destruct (py_str v); intros H; inv H. reflexivity. Qed.

Lemma to_null_sound nec v w : to_null nec v = Ok w -> w = PNone.
Proof. unfold to_null. intros H. destruct v; peel H; reflexivity. Qed.

Lemma to_bool_sound nec ndl v w : to_bool nec ndl v = Ok w -> exists b, w = PBool b.
Proof. unfold to_bool. intros H. destruct v; peel H; eauto. Qed.

Lemma int_of_dec_kind d w : int_of_dec d = Ok w -> is_int w = true.
Proof. unfold int_of_dec. intros H. destruct d; peel H; reflexivity. Qed.

Lemma to_integer_sound nec ndl v w : to_integer nec ndl v = Ok w -> is_int w = true.
Proof.
  unfold to_integer. intros H.
  destruct v; try (inv H; reflexivity);
  (destruct (if nec then _ else _) as [dd| | | |] eqn:Ed; cbn [bind] in H; try discriminate H;
   match type of H with
   | match ?early with Some _ => _ | None => _ end = Ok _ =>
       destruct early as [r|] eqn:Eearly;
       [ inv H; destruct nec; [discriminate Eearly|];
         destruct dd; try discriminate Eearly;
         repeat match type of Eearly with
                | (if ?b then _ else _) = Some _ => destruct b
                | Some _ = Some _ => inv Eearly
                | None = Some _ => discriminate Eearly
                end; reflexivity
       | peel H; eauto using int_of_dec_kind ]
   end).
Qed.

Lemma float_of_kind v w : float_of v = Ok w -> is_float w = true.
Proof. unfold float_of. intros H. destruct v; peel H; reflexivity. Qed.

Lemma to_float_sound nec ndl v w : to_float nec ndl v = Ok w -> is_float w = true.
Proof. unfold to_float. intros H. destruct v; try (inv H; reflexivity); peel H; eauto using float_of_kind. Qed.

Lemma to_decimal_sound nec ndl v w : to_decimal nec ndl v = Ok w -> is_decimal w = true.
Proof. unfold to_decimal. intros H. destruct v; try (inv H; reflexivity); peel H; reflexivity. Qed.

Lemma to_str_sound nec ndl v w : to_str nec ndl v = Ok w -> is_str w = true.
Proof. unfold to_str. intros H. destruct v; try (inv H; reflexivity); peel H; eauto using py_str_v_kind. Qed.

Lemma to_bytes_sound nec ndl v w : to_bytes nec ndl v = Ok w -> is_bytes w = true.
Proof. unfold to_bytes. intros H. peel H; reflexivity. Qed.

Lemma mk_set_kind fr xs w : mk_set fr xs = Ok w ->
  (fr = false -> exists ys, w = PSet ys) /\ (fr = true -> exists ys, w = PFrozen ys).
Proof. unfold mk_set. intros H. peel H. destruct fr; split; intros; try discriminate; eauto. Qed.

Lemma arr_make_kind a xs w : arr_make a xs = Ok w -> arr_is a w = true.
Proof.
  destruct a; cbn [arr_make]; intros H; try (inv H; reflexivity).
  - destruct (mk_set_kind _ _ _ H) as [H1 _]. destruct (H1 eq_refl) as [ys ->]. reflexivity.
  - destruct (mk_set_kind _ _ _ H) as [_ H1]. destruct (H1 eq_refl) as [ys ->]. reflexivity.
Qed.

Lemma to_array_sound nec ndl a v w : to_array nec ndl a v = Ok w -> arr_is a w = true.
Proof.
  unfold to_array. destruct (arr_is a v) eqn:E; intros H; [inv H; exact E|].
  destruct v; peel H; eauto using arr_make_kind.
Qed.

Lemma to_dict_sound nec v w : to_dict nec v = Ok w -> is_dictlike w = true.
Proof. unfold to_dict. intros H. destruct v; peel H; reflexivity. Qed.

Definition opaque_prim (p : prim) : bool := match p with TOpaque _ => true | _ => false end.

(* the leaf case of C01: unresolved_types='ignore' is a documented exemption *)
Lemma conv_prim_sound nec ndl u p v w :
  conv_prim nec ndl u p v = Ok w -> (u = UIgnore -> opaque_prim p = false) ->
  prim_isinstance p w = true.
Proof.
  unfold conv_prim. destruct (prim_exact p v) eqn:Ex; intros H Hu.
  - inv H. destruct p, w; cbn in *; try discriminate; auto.
  - destruct p.
    + apply to_null_sound in H. subst. reflexivity.
    + apply to_bool_sound in H. destruct H as [b ->]. reflexivity.
    + apply to_integer_sound in H. destruct w; try discriminate; reflexivity.
    + apply to_float_sound in H. destruct w; try discriminate; reflexivity.
    + apply to_decimal_sound in H. destruct w; try discriminate; reflexivity.
    + apply to_str_sound in H. destruct w; try discriminate; reflexivity.
    + apply to_bytes_sound in H. destruct w; try discriminate; reflexivity.
    + apply to_array_sound in H. destruct w; try discriminate; reflexivity.
    + apply to_array_sound in H. destruct w; try discriminate; reflexivity.
    + apply to_array_sound in H. destruct w; try discriminate; reflexivity.
    + apply to_array_sound in H. destruct w; try discriminate; reflexivity.
    + apply to_dict_sound in H. destruct w; try discriminate; reflexivity.
    + unfold handle_unresolved in H. destruct u.
      * destruct v; peel H. cbn. assumption.
      * destruct v; peel H. cbn. assumption.
      * specialize (Hu eq_refl). discriminate.
Qed.
