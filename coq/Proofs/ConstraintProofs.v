(* Proofs/ConstraintProofs.v — characterising lemmas for the generated validators
   (Gen/Constraints.v, translated from utype/parser/rule.py on every run). *)
From UV Require Import PyVal PyPrim PyOps Constraints ConstraintSpec.
From Coq Require Import Lia ZifyBool.
Open Scope string_scope.
Open Scope list_scope.
Open Scope Z_scope.

(* all comparison-based validators are decided by one case split on py_cmp *)
Ltac cmp_crush v b :=
  unfold gtP, geP, ltP, leP, py_gt, py_ge, py_lt, py_le, bind in *;
  destruct (py_cmp v b) as [[[| |]|]| | | |]; cbn;
  intuition (try congruence; try discriminate).

Lemma c_gt_exact v b w : c_gt v b = Ok w <-> gtP v b /\ w = v.
Proof. unfold c_gt. cmp_crush v b. Qed.
Lemma c_ge_exact v b w : c_ge v b = Ok w <-> geP v b /\ w = v.
Proof. unfold c_ge. cmp_crush v b. Qed.
Lemma c_lt_exact v b w : c_lt v b = Ok w <-> ltP v b /\ w = v.
Proof. unfold c_lt. cmp_crush v b. Qed.
Lemma c_le_exact v b w : c_le v b = Ok w <-> leP v b /\ w = v.
Proof. unfold c_le. cmp_crush v b. Qed.

(* ---- generic destructor for the `out` monad ---- *)
Ltac mdestruct :=
  match goal with
  | |- context [bind ?x _] => let E := fresh "E" in destruct x eqn:E; cbn [bind]
  | H : context [bind ?x _] |- _ => let E := fresh "E" in destruct x eqn:E; cbn [bind] in H
  end.

(* ---- length family ---- *)
Lemma sized_unfold v : (if negb (has_len v) then let* t := py_str_v v in Ok t else Ok v) = sized v.
Proof. unfold sized. destruct (has_len v); cbn; [reflexivity|]. destruct (py_str_v v); reflexivity. Qed.

Lemma py_len_v_ok s l : py_len_v s = Ok l <-> exists n, py_len s = Ok n /\ l = PInt n.
Proof.
  unfold py_len_v, bind. destruct (py_len s); split; intros H; try discriminate;
    try (destruct H as (n & H1 & H2); discriminate).
  - injection H as <-. eauto.
  - destruct H as (n & H1 & ->). congruence.
Qed.

Lemma py_eq_int_int a b : py_eq (PInt a) (PInt b) = (a =? b).
Proof.
  cbn. unfold fin_cmp. rewrite !Z.min_id, !Z.sub_diag. cbn. rewrite !Z.mul_1_r.
  destruct (Z.compare_spec a b); symmetry; [apply Z.eqb_eq|apply Z.eqb_neq|apply Z.eqb_neq]; lia.
Qed.

Lemma py_cmp_int_int a b : py_cmp (PInt a) (PInt b) = Ok (Some (Z.compare a b)).
Proof. cbn. unfold fin_cmp. rewrite !Z.min_id, !Z.sub_diag. cbn. rewrite !Z.mul_1_r. reflexivity. Qed.

Lemma c_length_exact v n w : c_length v (PInt n) = Ok w <-> lengthP v n /\ w = v.
Proof.
  unfold c_length, lengthP, len_of. rewrite sized_unfold.
  destruct (sized v) as [s| | | |]; cbn [bind]; try (split; [discriminate|intros [H _]; discriminate]).
  unfold py_len_v. destruct (py_len s) as [l| | | |]; cbn [bind];
    try (split; [discriminate|intros [H _]; discriminate]).
  rewrite py_eq_int_int. destruct (Z.eqb_spec l n); cbn; split; intros H.
  - injection H as <-. subst. auto.
  - destruct H as [_ ->]. reflexivity.
  - discriminate.
  - destruct H as [H _]. congruence.
Qed.

Lemma c_max_length_exact v n w : c_max_length v (PInt n) = Ok w <-> max_lengthP v n /\ w = v.
Proof.
  unfold c_max_length, max_lengthP, len_of. rewrite sized_unfold.
  destruct (sized v) as [s| | | |]; cbn [bind];
    try (split; [discriminate|intros [(l & H & _) _]; discriminate]).
  unfold py_len_v. destruct (py_len s) as [l| | | |]; cbn [bind];
    try (split; [discriminate|intros [(l' & H & _) _]; discriminate]).
  unfold py_gt. rewrite py_cmp_int_int. cbn [bind].
  destruct (Z.compare_spec l n); split; intros H0;
    try (injection H0 as <-; split; [exists l; split; [reflexivity|lia]|reflexivity]);
    try (destruct H0 as [_ ->]; reflexivity); try discriminate.
  destruct H0 as [(l' & Hl & Hle) _]. injection Hl as <-. lia.
Qed.

Lemma c_min_length_exact v n w : c_min_length v (PInt n) = Ok w <-> min_lengthP v n /\ w = v.
Proof.
  unfold c_min_length, min_lengthP, len_of. rewrite sized_unfold.
  destruct (sized v) as [s| | | |]; cbn [bind];
    try (split; [discriminate|intros [(l & H & _) _]; discriminate]).
  unfold py_len_v. destruct (py_len s) as [l| | | |]; cbn [bind];
    try (split; [discriminate|intros [(l' & H & _) _]; discriminate]).
  unfold py_lt. rewrite py_cmp_int_int. cbn [bind].
  destruct (Z.compare_spec l n); split; intros H0;
    try (injection H0 as <-; split; [exists l; split; [reflexivity|lia]|reflexivity]);
    try (destruct H0 as [_ ->]; reflexivity); try discriminate.
  destruct H0 as [(l' & Hl & Hle) _]. injection Hl as <-. lia.
Qed.

(* ---- const ---- *)
Definition tolerance := [(KInt, KFloat); (KInt, KDecimal)].
Lemma c_const_exact v b w : c_const v b = Ok w <-> constP tolerance v b /\ w = b.
Proof.
  unfold c_const, constP, tolerance.
  destruct (py_eq v b); cbn [negb].
  - destruct (kind_eqb (kind_of v) (kind_of b)); cbn [negb].
    + split; [intros H; injection H as <-; auto|intros [_ ->]; reflexivity].
    + destruct (kind_pair_in _ _ _).
      * split; [intros H; injection H as <-; auto|intros [_ ->]; reflexivity].
      * split; [discriminate|intros [[_ [H|H]] _]; discriminate].
  - split; [discriminate|intros [[H _] _]; discriminate].
Qed.

(* ---- enum (the list form; Enum classes / members are outside the universe) ---- *)
Lemma c_enum_exact v lst w :
  is_enum_cls lst = false -> is_enum_member v = false ->
  (c_enum v lst = Ok w <-> enumP v lst /\ w = v).
Proof.
  intros Hc Hm. unfold c_enum, enumP. rewrite Hc, Hm. cbn [bind].
  destruct (py_contains lst v) as [[|]| | | |]; cbn;
    intuition (try congruence; try discriminate).
Qed.

(* ---- unique_items ---- *)
Lemma unique_loop_spec K seen xs :
  c_unique_items_loop1 K (PList seen) xs =
  if all_distinct seen xs then K (PList (seen ++ xs)) else Raise (other_err XValueError).
Proof.
  revert seen. induction xs as [|x r IH]; intros seen; cbn [c_unique_items_loop1 all_distinct].
  - rewrite app_nil_r. reflexivity.
  - cbn [py_contains bind]. destruct (py_in x seen); cbn [negb andb]; [reflexivity|].
    cbn [py_append bind]. rewrite IH. rewrite <- app_assoc. reflexivity.
Qed.

Lemma c_unique_items_exact v w :
  c_unique_items v (PBool true) = Ok w <-> uniqueP v /\ w = v.
Proof.
  unfold c_unique_items, uniqueP. cbn [truthy negb].
  destruct (py_iter v) as [xs| | | |]; cbn [bind];
    try (split; [discriminate|intros [(xs' & H & _) _]; discriminate]).
  rewrite unique_loop_spec. destruct (all_distinct [] xs) eqn:Hd; split; intros H.
  - injection H as <-. split; [exists xs; auto|reflexivity].
  - destruct H as [_ ->]. reflexivity.
  - discriminate.
  - destruct H as [(xs' & Hx & Hd') _]. injection Hx as <-. congruence.
Qed.

Lemma c_unique_items_off v w : c_unique_items v (PBool false) = Ok w <-> w = v.
Proof. unfold c_unique_items. cbn. split; [intros H; injection H as <-; reflexivity|intros ->; reflexivity]. Qed.

(* ---- multiple_of on integers ---- *)
Lemma c_multiple_of_int z k w :
  c_multiple_of (PInt z) (PInt k) = Ok w <-> multipleP z k /\ w = PInt z.
Proof.
  unfold c_multiple_of, multipleP. cbn [py_mod as_intlike].
  destruct (Z.eqb_spec k 0); cbn [bind].
  - split; [discriminate|intros [[H _] _]; contradiction].
  - cbn [truthy num_of num_is_zero]. destruct (Z.eqb_spec (z mod k) 0); cbn [negb].
    + split; [intros H; injection H as <-; auto|intros [_ ->]; reflexivity].
    + split; [discriminate|intros [[_ H] _]; contradiction].
Qed.

(* ---- _parse_decimal, max_digits, decimal_places on finite Decimals ---- *)
Lemma digits_fuel_len f n acc :
  llen (digits_fuel f n acc) = ndigits_fuel f n + llen acc.
Proof.
  revert n acc. induction f as [|f IH]; intros n acc; cbn [digits_fuel ndigits_fuel].
  - unfold llen. cbn [List.length]. lia.
  - destruct (n <? 10)%N.
    + unfold llen. cbn [List.length]. lia.
    + rewrite IH. unfold llen. cbn [List.length]. lia.
Qed.
Lemma digits_list_len c : llen (digits_list c) = ndigits c.
Proof. unfold digits_list, ndigits. rewrite digits_fuel_len. unfold llen. cbn. lia. Qed.

Lemma ndigits_fuel_pos f n : 1 <= ndigits_fuel f n.
Proof. revert n. induction f as [|f IH]; intros n; cbn [ndigits_fuel]; [lia|]. destruct (n <? 10)%N; [lia|]. specialize (IH (n / 10)%N). lia. Qed.
Lemma ndigits_pos c : 1 <= ndigits c.
Proof. apply ndigits_fuel_pos. Qed.

Lemma py_in_int_strs e : py_in (PInt e) [PStr "F"; PStr "n"; PStr "N"] = false.
Proof. reflexivity. Qed.

Lemma parse_decimal_spec s c e :
  c__parse_decimal (PDec (DFin s c e)) =
  Ok (PTuple [PInt (dec_digits c e); PInt (dec_places e)]).
Proof.
  unfold c__parse_decimal, dec_digits, dec_places.
  cbn [is_decimal negb bind dec_tuple_tail unpack2 py_contains].
  rewrite py_in_int_strs. cbn [bind].
  unfold py_ge, py_gt. rewrite !py_cmp_int_int. cbn [bind].
  unfold py_len_v. cbn [py_len bind]. rewrite digits_list_len.
  destruct (Z.compare_spec e 0) as [->|Hlt|Hgt]; cbn [bind].
  - cbn [py_add as_intlike bind]. f_equal.
  - cbn [py_abs bind]. rewrite py_cmp_int_int. cbn [bind].
    pose proof (ndigits_pos c).
    destruct (Z.compare_spec (Z.abs e) (ndigits c)); cbn [bind];
      (destruct (0 <=? e) eqn:E0; [lia|]); repeat f_equal; lia.
  - cbn [py_add as_intlike bind]. destruct (0 <=? e) eqn:E0; [|lia]. reflexivity.
Qed.

Lemma c_max_digits_exact s c e m w :
  c_max_digits (PDec (DFin s c e)) (PInt m) = Ok w <->
  dec_digits c e <= m /\ w = PDec (DFin s c e).
Proof.
  unfold c_max_digits. rewrite parse_decimal_spec. cbn [bind unpack2].
  unfold py_gt. rewrite py_cmp_int_int. cbn [bind].
  destruct (Z.compare_spec (dec_digits c e) m); split; intros H0;
    try (injection H0 as <-; split; [lia|reflexivity]);
    try (destruct H0 as [_ ->]; reflexivity); try discriminate.
  destruct H0; lia.
Qed.

(* decimal_places accepts exactly when the number of places is within the bound; the value it
   returns is round(value, d), which has the same numeric value (shown for the Ok case) *)
Lemma c_decimal_places_verdict s c e k :
  is_ok (c_decimal_places (PDec (DFin s c e)) (PInt k)) = true -> dec_places e <= k.
Proof.
  unfold c_decimal_places. rewrite parse_decimal_spec. cbn [bind unpack2].
  unfold py_gt. rewrite py_cmp_int_int. cbn [bind].
  destruct (Z.compare_spec (dec_places e) k); cbn; intros; try lia; discriminate.
Qed.
Lemma c_decimal_places_rejects s c e k :
  k < dec_places e -> c_decimal_places (PDec (DFin s c e)) (PInt k) = Raise (other_err XValueError).
Proof.
  intros Hk. unfold c_decimal_places. rewrite parse_decimal_spec. cbn [bind unpack2].
  unfold py_gt. rewrite py_cmp_int_int. cbn [bind].
  destruct (Z.compare_spec (dec_places e) k); try lia. reflexivity.
Qed.

Lemma pow10_pos n : 0 < 10 ^ n \/ n < 0.
Proof. destruct (Z.lt_ge_cases n 0); [right; assumption|left; apply Z.pow_pos_nonneg; lia]. Qed.

Lemma dec_round_pad_eq s c e k d' :
  - k <= e -> dec_round (DFin s c e) k = Ok d' -> py_eq (PDec d') (PDec (DFin s c e)) = true.
Proof.
  intros Hk. unfold dec_round. destruct (- k <=? e) eqn:E; [|apply Z.leb_gt in E; lia].
  destruct (ndigits _ <=? 28); [|discriminate]. intros H; injection H as <-.
  cbn [py_eq num_of num_cmp]. unfold fin_cmp.
  replace (Z.min (- k) e) with (- k) by lia.
  replace (Z.min 0 0) with 0 by reflexivity.
  replace (- k - - k) with 0 by lia. replace (0 - 0) with 0 by reflexivity.
  change (2 ^ 0) with 1. change (10 ^ 0) with 1.
  rewrite N2Z.inj_mul. rewrite Z2N.id by (apply Z.pow_nonneg; lia).
  assert (Hp : 0 < 10 ^ (e - - k)) by (apply Z.pow_pos_nonneg; lia).
  destruct s.
  - match goal with |- match (?a ?= ?b) with _ => _ end = _ => replace a with b by ring end.
    rewrite Z.compare_refl. reflexivity.
  - match goal with |- match (?a ?= ?b) with _ => _ end = _ => replace a with b by ring end.
    rewrite Z.compare_refl. reflexivity.
Qed.

Lemma c_decimal_places_value s c e k w :
  c_decimal_places (PDec (DFin s c e)) (PInt k) = Ok w ->
  py_eq w (PDec (DFin s c e)) = true.
Proof.
  intros H. pose proof H as H'. unfold c_decimal_places in H. rewrite parse_decimal_spec in H.
  cbn [bind unpack2] in H. unfold py_gt in H. rewrite py_cmp_int_int in H. cbn [bind] in H.
  assert (Hle : dec_places e <= k).
  { apply c_decimal_places_verdict with (s := s) (c := c). rewrite H'. reflexivity. }
  destruct (Z.compare_spec (dec_places e) k); try lia;
  cbn [is_decimal py_round bind] in H;
  (destruct (dec_round (DFin s c e) k) as [d'| | | |] eqn:R; cbn [bind] in H; try discriminate;
   injection H as <-; eapply dec_round_pad_eq; [|exact R];
   unfold dec_places in Hle; destruct (0 <=? e) eqn:E0; lia).
Qed.
