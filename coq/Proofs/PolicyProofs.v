(* Proofs/PolicyProofs.v — C11: 'exclude' drops exactly the offending elements, 'preserve' puts them
   back unchanged at their positions; every other element is converted as under 'throw'. *)
From UV Require Import Parse Monad FieldPred.
From Coq Require Import Lia.
Open Scope string_scope.
Open Scope list_scope.
Open Scope Z_scope.

Section Policy.
Variable tr : options -> Z -> ty -> pyval -> M pyval.
Variable depth : Z.

(* what converting one element says, under options o *)
Definition elem (o : options) (t : ty) (x : pyval) : entered pyval := enter_tr tr o depth true t x.
Definition ok_of (r : entered pyval) : option pyval := match r with Entered (Ok w) => Some w | _ => None end.
Definition decided_items (o : options) (t : ty) (items : list pyval) : Prop :=
  forall x, In x items -> (exists w, elem o t x = Entered (Ok w)) \/ (exists e, elem o t x = Entered (Raise e)).

(* ---------------- sequences: list, set, variable-length tuple ---------------- *)
Definition kept (o : options) (t : ty) (items : list pyval) : list pyval :=
  flat_map (fun x => match ok_of (elem o t x) with Some w => [w] | None => [] end) items.
Definition put_back (o : options) (t : ty) (items : list pyval) : list pyval :=
  map (fun x => match ok_of (elem o t x) with Some w => w | None => x end) items.

Lemma seq_items_exclude o arg whole : o_invalid_items o = Exclude ->
  forall items i acc s, decided_items o arg items ->
  seq_items tr o depth arg whole i items acc s = (s, Ok (acc ++ kept o arg items)).
Proof.
  intros Hp. induction items as [|x rest IH]; intros i acc s Hd; cbn [seq_items kept flat_map].
  - rewrite app_nil_r. reflexivity.
  - assert (Hd' : decided_items o arg rest) by (intros y Hy; apply Hd; right; exact Hy).
    unfold decided_items, elem in *. change (route_idx i) with true.
    destruct (Hd x (or_introl eq_refl)) as [[w Hw]|[e He]].
    + rewrite Hw. cbn [ok_of]. rewrite IH by exact Hd'. unfold kept, elem. rewrite <- app_assoc. reflexivity.
    + rewrite He. cbn [ok_of]. rewrite Hp. rewrite IH by exact Hd'. reflexivity.
Qed.

Lemma seq_items_preserve o arg whole : o_invalid_items o = Preserve ->
  forall items i acc s, decided_items o arg items ->
  seq_items tr o depth arg whole i items acc s = (s, Ok (acc ++ put_back o arg items)).
Proof.
  intros Hp. induction items as [|x rest IH]; intros i acc s Hd; cbn [seq_items put_back map].
  - rewrite app_nil_r. reflexivity.
  - assert (Hd' : decided_items o arg rest) by (intros y Hy; apply Hd; right; exact Hy).
    unfold decided_items, elem in *. change (route_idx i) with true.
    destruct (Hd x (or_introl eq_refl)) as [[w Hw]|[e He]].
    + rewrite Hw. cbn [ok_of]. rewrite IH by exact Hd'. unfold put_back, elem. rewrite <- app_assoc. reflexivity.
    + rewrite He. cbn [ok_of]. rewrite Hp. rewrite IH by exact Hd'. unfold put_back, elem. rewrite <- app_assoc. reflexivity.
Qed.

(* under any policy, a sequence all of whose elements are accepted is converted element by element *)
Lemma seq_items_all_accepted o arg whole : forall items i acc s,
  (forall x, In x items -> exists w, elem o arg x = Entered (Ok w)) ->
  seq_items tr o depth arg whole i items acc s = (s, Ok (acc ++ kept o arg items)).
Proof.
  induction items as [|x rest IH]; intros i acc s Hd; cbn [seq_items kept flat_map].
  - rewrite app_nil_r. reflexivity.
  - unfold elem in *. change (route_idx i) with true.
    destruct (Hd x (or_introl eq_refl)) as [w Hw]. rewrite Hw. cbn [ok_of].
    rewrite IH by (intros y Hy; apply Hd; right; exact Hy). unfold kept, elem. rewrite <- app_assoc. reflexivity.
Qed.

Definition accepted_b (o : options) (t : ty) (x : pyval) : bool := match ok_of (elem o t x) with Some _ => true | None => false end.

Lemma kept_filter o t items : kept o t (filter (accepted_b o t) items) = kept o t items.
Proof.
  induction items as [|x rest IH]; [reflexivity|]. cbn [filter kept flat_map]. unfold accepted_b at 1.
  destruct (ok_of (elem o t x)) eqn:E; cbn [kept flat_map]; [rewrite E|]; fold (kept o t rest); fold (kept o t (filter (accepted_b o t) rest)); rewrite IH; reflexivity.
Qed.

(* THE RESULT for sequences.  oE excludes, oT throws; element conversions do not depend on that
   difference (true of every element type that is not itself a container with offending elements).
   Then parsing under 'exclude' equals parsing, under 'throw', the input with exactly the offending
   elements removed. *)
Theorem exclude_is_filter oE oT arg whole items i acc s :
  o_invalid_items oE = Exclude ->
  (forall x, elem oE arg x = elem oT arg x) ->
  decided_items oE arg items ->
  seq_items tr oE depth arg whole i items acc s =
  seq_items tr oT depth arg whole i (filter (accepted_b oE arg) items) acc s.
Proof.
  intros Hp Hsame Hd.
  rewrite seq_items_exclude by assumption.
  rewrite (seq_items_all_accepted oT arg whole (filter (accepted_b oE arg) items)).
  - f_equal. f_equal. f_equal. rewrite <- (kept_filter oE arg items). unfold kept.
    apply flat_map_ext. intros x. rewrite Hsame. reflexivity.
  - intros x Hx. apply filter_In in Hx. destruct Hx as [_ Hx]. unfold accepted_b in Hx. rewrite <- Hsame.
    destruct (elem oE arg x) as [e|[w| | | |]]; cbn in Hx; try discriminate. eauto.
Qed.

(* 'preserve': the result is the 'exclude' result with the offending elements back at their positions *)
Theorem preserve_is_put_back oP arg whole items i acc s :
  o_invalid_items oP = Preserve -> decided_items oP arg items ->
  seq_items tr oP depth arg whole i items acc s = (s, Ok (acc ++ put_back oP arg items)).
Proof. intros. apply seq_items_preserve; assumption. Qed.

(* non-offending elements are converted exactly as they are alone; positions are kept *)
Lemma put_back_length o t items : List.length (put_back o t items) = List.length items.
Proof. unfold put_back. apply map_length. Qed.
Lemma put_back_nth o t items n x : nth_error items n = Some x ->
  nth_error (put_back o t items) n = Some (match ok_of (elem o t x) with Some w => w | None => x end).
Proof. intros H. unfold put_back. rewrite nth_error_map, H. reflexivity. Qed.

(* ---------------- mappings: keys and values ---------------- *)
Definition velem (o : options) (t : ty) (k x : pyval) : entered pyval := enter_tr tr o depth (route_val k) t x.
(* what one (key, value) pair contributes: None = dropped *)
Definition pair_out (o : options) (kt : ty) (vt : option ty) (kv : pyval * pyval) : option (pyval * pyval) :=
  let '(k0, v0) := kv in
  let key := match ok_of (elem o kt k0) with
             | Some k => Some k
             | None => match o_invalid_keys o with Preserve => Some k0 | _ => None end
             end in
  match key with
  | None => None
  | Some k =>
      match vt with
      | None => Some (k, v0)
      | Some vty => match ok_of (velem o vty k v0) with
                    | Some v => Some (k, v)
                    | None => match o_invalid_values o with Preserve => Some (k, v0) | _ => None end
                    end
      end
  end.
Definition map_fold (o : options) (kt : ty) (vt : option ty) (items acc : list (pyval * pyval)) : list (pyval * pyval) :=
  fold_left (fun a kv => match pair_out o kt vt kv with Some (k, v) => dict_set a k v | None => a end) items acc.

Definition decided_pairs (o : options) (kt : ty) (vt : option ty) (items : list (pyval * pyval)) : Prop :=
  forall k0 v0, In (k0, v0) items ->
    ((exists k, elem o kt k0 = Entered (Ok k)) \/ (exists e, elem o kt k0 = Entered (Raise e))) /\
    (forall vty k, vt = Some vty ->
       (exists v, velem o vty k v0 = Entered (Ok v)) \/ (exists e, velem o vty k v0 = Entered (Raise e))).

(* with 'exclude' or 'preserve' for keys and values (no 'throw'), no error is recorded and the result is
   exactly the fold of the per-pair contributions: an offending key or value drops / keeps only its own pair *)
Theorem map_items_policy o kt vt : o_invalid_keys o <> Throw -> o_invalid_values o <> Throw ->
  forall items acc s, decided_pairs o kt vt items ->
  (forall kv k v, In kv items -> pair_out o kt vt kv = Some (k, v) -> hashable_deep k = true) ->
  map_items tr o depth kt vt items acc s = (s, Ok (map_fold o kt vt items acc)).
Proof.
  intros Hk Hv. induction items as [|[k0 v0] rest IH]; intros acc s Hd Hh; cbn [map_items map_fold fold_left]; [reflexivity|].
  assert (Hd' : decided_pairs o kt vt rest) by (intros a b Hab; apply Hd; right; exact Hab).
  assert (Hh' : forall kv k v, In kv rest -> pair_out o kt vt kv = Some (k, v) -> hashable_deep k = true)
    by (intros kv k v Hin; apply Hh; right; exact Hin).
  specialize (Hh (k0, v0)). destruct (Hd k0 v0 (or_introl eq_refl)) as [Hkd Hvd].
  unfold elem, velem in *. cbn [pair_out] in *. unfold elem, velem in *.
  destruct Hkd as [[k Hk0]|[e Hk0]]; rewrite Hk0 in *; cbn [ok_of] in *.
  - unfold mbind at 1, ret.
    destruct vt as [vty|].
    + destruct (Hvd vty k eq_refl) as [[v Hv0]|[e Hv0]]; rewrite Hv0 in *; cbn [ok_of] in *.
      * rewrite (Hh k v (or_introl eq_refl) eq_refl). apply IH; assumption.
      * destruct (o_invalid_values o) eqn:Pv; [contradiction| |].
        -- apply IH; assumption.
        -- rewrite (Hh k v0 (or_introl eq_refl) eq_refl). apply IH; assumption.
    + rewrite (Hh k v0 (or_introl eq_refl) eq_refl). apply IH; assumption.
  - destruct (o_invalid_keys o) eqn:Pk; [contradiction| |].
    + unfold mbind at 1, ret. apply IH; assumption.
    + unfold mbind at 1, ret.
      destruct vt as [vty|].
      * destruct (Hvd vty k0 eq_refl) as [[v Hv0]|[e' Hv0]]; rewrite Hv0 in *; cbn [ok_of] in *.
        -- rewrite (Hh k0 v (or_introl eq_refl) eq_refl). apply IH; assumption.
        -- destruct (o_invalid_values o) eqn:Pv; [contradiction| |].
           ++ apply IH; assumption.
           ++ rewrite (Hh k0 v0 (or_introl eq_refl) eq_refl). apply IH; assumption.
      * rewrite (Hh k0 v0 (or_introl eq_refl) eq_refl). apply IH; assumption.
Qed.

(* ---------------- data-class fields ---------------- *)
(* a required field is never silently excluded: the failure is recorded even under on_error='exclude' *)
Theorem required_never_excluded o f v s e :
  f_type f <> None -> get_on_error f o = Exclude -> is_required f o = true ->
  (exists t, f_type f = Some t /\ enter_tr tr o depth (route_str (f_name f)) t v = Entered (Raise e)) ->
  exists s' r, parse_value tr o depth f v s = (s', r) /\ e_errors s' = e_errors s ++ [parse_err_at KType (PStr (f_name f))].
Proof.
  intros _ Hpol Hreq (t & Ht & He). unfold parse_value. rewrite Ht, He, Hpol, Hreq.
  unfold mbind. destruct (handle_error o (parse_err_at KType (PStr (f_name f))) false s) as [s1 r1] eqn:Hh.
  assert (Ha : e_errors s1 = e_errors s ++ [parse_err_at KType (PStr (f_name f))]).
  { unfold handle_error in Hh. destruct (false || negb (o_collect_errors o)); [injection Hh as <- _; reflexivity|].
    destruct (o_max_errors o) as [m|]; [destruct (m <=? _)|]; injection Hh as <- _; reflexivity. }
  destruct r1 as [[]| | | |]; eexists; eexists; (split; [reflexivity|]); cbn; exact Ha.
Qed.

(* an optional field that fails under 'exclude' takes its default (or stays absent); under 'preserve' it keeps the input *)
Theorem field_exclude_gives_default o f v s t e :
  f_type f = Some t -> get_on_error f o = Exclude -> is_required f o = false ->
  enter_tr tr o depth (route_str (f_name f)) t v = Entered (Raise e) ->
  parse_value tr o depth f v s = (s, Ok (get_default f o)).
Proof. intros Ht Hpol Hreq He. unfold parse_value. rewrite Ht, He, Hpol, Hreq. reflexivity. Qed.
Theorem field_preserve_keeps_input o f v s t e :
  f_type f = Some t -> get_on_error f o = Preserve ->
  enter_tr tr o depth (route_str (f_name f)) t v = Entered (Raise e) ->
  parse_value tr o depth f v s = (s, Ok (Some v)).
Proof. intros Ht Hpol He. unfold parse_value. rewrite Ht, He, Hpol. reflexivity. Qed.
Theorem field_good_value_unaffected o f v s t w :
  f_type f = Some t -> enter_tr tr o depth (route_str (f_name f)) t v = Entered (Ok w) ->
  parse_value tr o depth f v s = (s, Ok (Some w)).
Proof. intros Ht He. unfold parse_value. rewrite Ht, He. reflexivity. Qed.

End Policy.
