(* Proofs/IdemProofs.v — C03: re-parsing the result of a successful parse returns it unchanged, for the
   fragment of declared types `stable` (builtin classes, data classes, unions of those, negations,
   constrained scalars, Optional-style rules, homogeneous sequences of stable types with checking
   constraints), (the first result is exactly typed, `typed`: derived, not assumed).  One lemma per construct of Model/Parse.v, assuming the
   statement for the recursive knot; tied by induction on the fuel at the end. *)
From UV Require Import Parse Conforms Stable ConvProofs Monad ConstraintSpec ConstraintProofs ConformProofs.
From Coq Require Import Lia.
Open Scope string_scope.
Open Scope list_scope.
Open Scope Z_scope.

Lemma throwing_with_flags o a b : throwing o -> throwing (with_flags o a b).
Proof. unfold throwing, with_flags. destruct (o_override o); auto. Qed.

Definition clean (s : errs) : Prop := e_errors s = [] /\ e_tmp s = [].
Lemma clean_no_errs : clean no_errs. Proof. split; reflexivity. Qed.
Lemma raise_error_clean s : clean s -> raise_error s = (s, Ok tt).
Proof. intros [H1 H2]. unfold raise_error. rewrite H1, H2. reflexivity. Qed.

(* ---------- sets: rebuilding a rebuilt set changes nothing ---------- *)
(* no element is == to an earlier one *)
Fixpoint distinct_from (acc xs : list pyval) : Prop :=
  match xs with
  | [] => True
  | x :: r => py_in x acc = false /\ distinct_from (acc ++ [x]) r
  end.
Lemma dedupe_distinct xs : forall acc, distinct_from acc xs -> dedupe xs acc = acc ++ xs.
Proof.
  induction xs as [|x r IH]; intros acc H; cbn [dedupe].
  - rewrite app_nil_r. reflexivity.
  - destruct H as [Hx Hr]. rewrite Hx, IH by exact Hr. rewrite <- app_assoc. reflexivity.
Qed.
Lemma dedupe_spec xs : forall acc, exists new, dedupe xs acc = acc ++ new /\ distinct_from acc new /\
  (forall P : pyval -> Prop, Forall P xs -> Forall P new).
Proof.
  induction xs as [|x r IH]; intros acc; cbn [dedupe].
  - exists []. rewrite app_nil_r. repeat split. intros P _. constructor.
  - destruct (py_in x acc) eqn:E.
    + destruct (IH acc) as (new & H1 & H2 & H3). exists new. repeat split; try assumption.
      intros P HP. inversion HP; subst. apply H3; assumption.
    + destruct (IH (acc ++ [x])) as (new & H1 & H2 & H3). exists (x :: new).
      rewrite H1, <- app_assoc. repeat split; try assumption.
      intros P HP. inversion HP; subst. constructor; [assumption|apply H3; assumption].
Qed.
Lemma dedupe_idem xs : dedupe (dedupe xs []) [] = dedupe xs [].
Proof.
  destruct (dedupe_spec xs []) as (new & H1 & H2 & _). cbn [app] in H1. rewrite H1.
  apply (dedupe_distinct new [] H2).
Qed.

(* ---------- mappings: a mapping built by successive dict_set has pairwise different keys, in order ---------- *)
Definition fresh_in (earlier : list pyval) (k : pyval) : bool := forallb (fun k' => negb (py_eq k' k)) earlier.
Fixpoint kd_after (earlier : list pyval) (l : list (pyval * pyval)) : Prop :=
  match l with
  | [] => True
  | kv :: r => fresh_in earlier (fst kv) = true /\ kd_after (earlier ++ [fst kv]) r
  end.

Lemma dict_set_fresh_gen acc k v : fresh_in (map fst acc) k = true -> dict_set acc k v = acc ++ [(k, v)].
Proof.
  induction acc as [|[k' v'] r IH]; cbn [map fst fresh_in forallb dict_set app]; intros H; [reflexivity|].
  apply andb_prop in H. destruct H as [H1 H2]. apply negb_true_iff in H1. rewrite H1.
  rewrite IH by exact H2. reflexivity.
Qed.

Lemma fresh_in_app e k' k : fresh_in (e ++ [k']) k = fresh_in e k && negb (py_eq k' k).
Proof. unfold fresh_in. rewrite forallb_app. cbn [forallb]. rewrite andb_true_r. reflexivity. Qed.

Lemma dict_set_kd l k v : forall e, fresh_in e k = true -> kd_after e l -> kd_after e (dict_set l k v).
Proof.
  induction l as [|[k' v'] r IH]; intros e Hf Hk; cbn [dict_set].
  - cbn [kd_after fst]. split; [exact Hf|exact I].
  - cbn [kd_after fst] in Hk. destruct Hk as [Hk1 Hk2]. destruct (py_eq k' k) eqn:E.
    + cbn [kd_after fst]. split; assumption.
    + cbn [kd_after fst]. split; [exact Hk1|]. apply IH; [|exact Hk2].
      rewrite fresh_in_app, Hf, E. reflexivity.
Qed.

Lemma dict_set_keys (P : pyval -> Prop) l k v :
  Forall (fun kv => P (fst kv)) l -> P k -> Forall (fun kv => P (fst kv)) (dict_set l k v).
Proof.
  induction l as [|[k' v'] r IH]; intros Hl Hk; cbn [dict_set].
  - constructor; [exact Hk|constructor].
  - inversion Hl as [|? ? H1 H2]; subst. destruct (py_eq k' k); constructor; auto.
Qed.
Lemma dict_set_vals (P : pyval -> Prop) l k v :
  Forall (fun kv => P (snd kv)) l -> P v -> Forall (fun kv => P (snd kv)) (dict_set l k v).
Proof.
  induction l as [|[k' v'] r IH]; intros Hl Hv; cbn [dict_set].
  - constructor; [exact Hv|constructor].
  - inversion Hl as [|? ? H1 H2]; subst. destruct (py_eq k' k); constructor; auto.
Qed.

(* ---------- builtin classes: converting a result again returns it ---------- *)
Lemma int_of_dec_int d w : int_of_dec d = Ok w -> exists z, w = PInt z.
Proof. unfold int_of_dec. intros H. destruct d; peel H; eauto. Qed.

(* int(...) returns an int proper, never the bool it found in a one-element sequence *)
Lemma to_integer_int nec ndl v w : to_integer nec ndl v = Ok w -> exists z, w = PInt z.
Proof.
  unfold to_integer. intros H.
  destruct v; try (inv H; eauto; fail);
  (destruct (if nec then _ else _) as [dd| | | |] eqn:Ed; cbn [bind] in H; try discriminate H;
   match type of H with
   | match ?early with Some _ => _ | None => _ end = Ok _ =>
       destruct early as [r|] eqn:Eearly;
       [ inv H; destruct nec; [discriminate Eearly|];
         destruct dd; try discriminate Eearly;
         repeat match type of Eearly with
                | (if ?b then _ else _) = Some _ => destruct b
                | Some _ = Some _ => inv Eearly
                | None = Some _ => discriminate Eearly
                end; eauto
       | peel H; eauto using int_of_dec_int ]
   end).
Qed.

Lemma handle_unresolved_same u c v w : handle_unresolved u c v = Ok w -> w = v.
Proof.
  unfold handle_unresolved. destruct v; try (destruct (Nat.eqb c _)); destruct u; intros H; try discriminate H;
    injection H as <-; reflexivity.
Qed.

Lemma conv_prim_idem nec ndl u p v w :
  conv_prim nec ndl u p v = Ok w -> leak p w = false -> conv_prim nec ndl u p w = Ok w.
Proof.
  unfold conv_prim. destruct (prim_exact p v) eqn:Ex; intros H Hl.
  - injection H as <-. rewrite Ex. reflexivity.
  - destruct p.
    + apply to_null_sound in H. subst. reflexivity.
    + apply to_bool_sound in H. destruct H as [b ->]. reflexivity.
    + apply to_integer_sound in H. destruct w; try discriminate; reflexivity.
    + apply to_float_sound in H. destruct w; try discriminate; reflexivity.
    + apply to_decimal_sound in H. destruct w; try discriminate; reflexivity.
    + apply to_str_sound in H. destruct w; try discriminate; reflexivity.
    + apply to_bytes_sound in H. destruct w; try discriminate; reflexivity.
    + apply to_array_sound in H. destruct w; try discriminate; reflexivity.
    + apply to_array_sound in H. destruct w; try discriminate; reflexivity.
    + apply to_array_sound in H. destruct w; try discriminate; reflexivity.
    + apply to_array_sound in H. destruct w; try discriminate; reflexivity.
    + apply to_dict_sound in H. destruct w; try discriminate; reflexivity.
    + pose proof (handle_unresolved_same _ _ _ _ H) as ->. rewrite Ex. exact H.
Qed.

(* ... and is of the exact class, pass-through classes (dict, classes without transformer) apart *)
Lemma conv_prim_exact nec ndl u p v w :
  conv_prim nec ndl u p v = Ok w -> exact_arm (TPrim p) = true -> prim_exact p w = true.
Proof.
  unfold conv_prim. destruct (prim_exact p v) eqn:Ex; intros H Ha.
  - injection H as <-. exact Ex.
  - destruct p; try discriminate Ha.
    + apply to_null_sound in H. subst. reflexivity.
    + apply to_bool_sound in H. destruct H as [b ->]. reflexivity.
    + apply to_integer_int in H. destruct H as [z ->]. reflexivity.
    + apply to_float_sound in H. destruct w; try discriminate; reflexivity.
    + apply to_decimal_sound in H. destruct w; try discriminate; reflexivity.
    + apply to_str_sound in H. destruct w; try discriminate; reflexivity.
    + apply to_bytes_sound in H. destruct w; try discriminate; reflexivity.
    + apply to_array_sound in H. destruct w; try discriminate; reflexivity.
    + apply to_array_sound in H. destruct w; try discriminate; reflexivity.
    + apply to_array_sound in H. destruct w; try discriminate; reflexivity.
    + apply to_array_sound in H. destruct w; try discriminate; reflexivity.
Qed.

Lemma conv_prim_noleak nec ndl u p v w : conv_prim nec ndl u p v = Ok w -> leak p w = false.
Proof.
  intros H. destruct p; try (destruct w; reflexivity).
  assert (Hx : prim_exact TInt w = true) by (eapply conv_prim_exact; [exact H|reflexivity]).
  destruct w; try discriminate Hx; reflexivity.
Qed.

Section Idem.
Variable re : string -> string -> bool.
Variable D : decls.

Definition knot := options -> Z -> ty -> pyval -> M pyval.

(* what is proved of every unfolding of the knot *)
Definition fixed_tr (tr : knot) : Prop :=
  forall o depth t v s s' w, throwing o -> stable t = true ->
    tr o depth t v s = (s', Ok w) -> typed t w = true ->
    forall s2, clean s2 -> tr o depth t w s2 = (s2, Ok w).
(* a builtin class returns its own exact instances unchanged (wherever the knot answers at all) *)
Definition prim_tr (tr : knot) : Prop :=
  forall o depth p x s s' y v s2, tr o depth (TPrim p) x s = (s', Ok y) -> prim_exact p v = true ->
    tr o depth (TPrim p) v s2 = (s2, Ok v).

Section Step.
Variable tr : knot.
Hypothesis Hfix : fixed_tr tr.
Hypothesis Hprim : prim_tr tr.

Definition produced (o : options) (depth : Z) (a : ty) (r : pyval) : Prop :=
  exists x, enter_tr tr o depth true a x = Entered (Ok r).
Definition refixed (o : options) (depth : Z) (a : ty) (r : pyval) : Prop :=
  enter_tr tr o depth true a r = Entered (Ok r).

Lemma enter_fixed o depth a r : throwing o -> stable a = true ->
  produced o depth a r -> typed a r = true -> refixed o depth a r.
Proof.
  intros Ho Hst [x H] Hty. unfold refixed, enter_tr, in_fresh in *.
  destruct (depth_check o (new_depth depth true)); try discriminate H;
  (destruct (tr o (new_depth depth true) a x no_errs) as [s1 r1] eqn:E; cbn [snd] in H;
   injection H as ->;
   rewrite (Hfix _ _ _ _ _ _ _ Ho Hst E Hty no_errs clean_no_errs); reflexivity).
Qed.

(* ---- _parse_seq_args: every kept element was produced by converting some input element ---- *)
Lemma seq_items_produced o depth arg whole : throwing o ->
  forall items i acc s s' rs,
  seq_items tr o depth arg whole i items acc s = (s', Ok rs) ->
  grows s s' /\
  (e_errors s' = e_errors s -> exists new, rs = acc ++ new /\ Forall (produced o depth arg) new).
Proof.
  intros (Hpi & _ & _). induction items as [|item rest IH]; intros i acc s s' rs H; cbn [seq_items] in H.
  - injection H as <- <-. split; [apply grows_refl|]. intros _. exists []. rewrite app_nil_r. split; constructor.
  - unfold route_idx in H.
    destruct (enter_tr tr o depth true arg item) as [e|[r|e| | |]] eqn:E; try discriminate H.
    + destruct (IH _ _ _ _ _ H) as [G Hn]. split; [exact G|].
      intros Heq. destruct (Hn Heq) as (new & -> & HF). exists (r :: new). rewrite <- app_assoc.
      split; [reflexivity|]. constructor; [exists item; exact E|exact HF].
    + rewrite Hpi in H. apply mbind_ok in H. destruct H as (s1 & [] & Hh & H).
      destruct (IH _ _ _ _ _ H) as [G _].
      split; [eapply grows_trans; [eapply handle_error_grows; exact Hh|exact G]|].
      intros Heq. exfalso. destruct G as [x Hx]. apply handle_error_ok_adds in Hh.
      rewrite Hx, Hh, <- app_assoc in Heq. rewrite <- (app_nil_r (e_errors s)) in Heq at 2.
      apply app_inv_head in Heq. discriminate.
Qed.

Lemma seq_items_refixed o depth arg xs : Forall (refixed o depth arg) xs ->
  forall whole i acc s, seq_items tr o depth arg whole i xs acc s = (s, Ok (acc ++ xs)).
Proof.
  induction 1 as [|x r Hx HF IH]; intros whole i acc s; cbn [seq_items].
  - rewrite app_nil_r. reflexivity.
  - unfold route_idx. unfold refixed in Hx. rewrite Hx. rewrite IH, <- app_assoc. reflexivity.
Qed.

(* ---- _parse_map_args ---- *)
Lemma grew_contra o e fr s s1 s' :
  handle_error o e fr s = (s1, Ok tt) -> grows s1 s' -> e_errors s' = e_errors s -> False.
Proof.
  intros Hh [x Hx] Heq. apply handle_error_ok_adds in Hh.
  rewrite Hx, Hh, <- app_assoc in Heq. rewrite <- (app_nil_r (e_errors s)) in Heq at 2.
  apply app_inv_head in Heq. discriminate.
Qed.

Definition good_map (o : options) (depth : Z) (kt vt : ty) (l : list (pyval * pyval)) : Prop :=
  kd_after [] l /\
  Forall (fun kv => produced o depth kt (fst kv) /\ hashable_deep (fst kv) = true) l /\
  Forall (fun kv => produced o depth vt (snd kv)) l.

Lemma map_items_produced o depth kt vt : throwing o ->
  forall items acc s s' res,
  map_items tr o depth kt (Some vt) items acc s = (s', Ok res) ->
  grows s s' /\ (e_errors s' = e_errors s -> good_map o depth kt vt acc -> good_map o depth kt vt res).
Proof.
  intros (_ & Hpk & Hpv). induction items as [|[k0 v0] rest IH]; intros acc s s' res H; cbn [map_items] in H.
  - injection H as <- <-. split; [apply grows_refl|]. intros _ Hg. exact Hg.
  - destruct (enter_tr tr o depth true kt k0) as [e|kr] eqn:Ek; [discriminate H|].
    destruct kr as [k|e| | |]; try discriminate H.
    + cbn [ret] in H. unfold mbind at 1, ret in H. unfold route_val in H.
      destruct (enter_tr tr o depth true vt v0) as [e|[v|e| | |]] eqn:Ev; try discriminate H.
      * destruct (hashable_deep k) eqn:Eh; [|discriminate H].
        destruct (IH _ _ _ _ H) as [G Hn]. split; [exact G|]. intros Heq (Hkd & Hks & Hvs). apply (Hn Heq).
        split; [apply dict_set_kd; [reflexivity|exact Hkd]|].
        split; [apply (dict_set_keys (fun x => produced o depth kt x /\ hashable_deep x = true)); [exact Hks|]|
                apply (dict_set_vals (fun x => produced o depth vt x)); [exact Hvs|]].
        -- split; [exists k0; exact Ek|exact Eh].
        -- exists v0; exact Ev.
      * rewrite Hpv in H. apply mbind_ok in H. destruct H as (s1 & [] & Hh & H).
        destruct (IH _ _ _ _ H) as [G _].
        split; [eapply grows_trans; [eapply handle_error_grows; exact Hh|exact G]|].
        intros Heq. exfalso. eapply grew_contra; eassumption.
    + rewrite Hpk in H. apply mbind_ok in H. destruct H as (s1 & ko & Hk & H).
      apply mbind_ok in Hk. destruct Hk as (s2 & [] & Hh & Hk). injection Hk as <- <-.
      destruct (IH _ _ _ _ H) as [G _].
      split; [eapply grows_trans; [eapply handle_error_grows; exact Hh|exact G]|].
      intros Heq. exfalso. eapply grew_contra; eassumption.
Qed.

Lemma map_items_refixed o depth kt vt items :
  Forall (fun kv => refixed o depth kt (fst kv) /\ hashable_deep (fst kv) = true /\ refixed o depth vt (snd kv)) items ->
  forall acc s, kd_after (map fst acc) items ->
  map_items tr o depth kt (Some vt) items acc s = (s, Ok (acc ++ items)).
Proof.
  induction 1 as [|[k v] r (Hk & Hh & Hv) HF IH]; intros acc s Hkd; cbn [map_items].
  - rewrite app_nil_r. reflexivity.
  - cbn [fst snd] in *. unfold refixed in Hk, Hv. rewrite Hk. cbn [ret]. unfold mbind at 1, ret.
    unfold route_val. rewrite Hv, Hh.
    cbn [kd_after fst] in Hkd. destruct Hkd as [Hf Hkd].
    rewrite dict_set_fresh_gen by exact Hf.
    rewrite IH.
    + rewrite <- app_assoc. reflexivity.
    + rewrite map_app. exact Hkd.
Qed.

(* ---- _parse_tuple_args (fixed length) ---- *)
Lemma tuple_items_produced o depth vals : throwing o ->
  forall args i acc s s' rs,
  tuple_items tr o depth vals i args acc s = (s', Ok rs) ->
  grows s s' /\
  (e_errors s' = e_errors s ->
     exists new, rs = acc ++ new /\ Forall2 (produced o depth) args new /\
                 (List.length args = 0 \/ i + List.length args <= List.length vals)%nat).
Proof.
  intros (Hpi & _ & _). induction args as [|arg rest IH]; intros i acc s s' rs H; cbn [tuple_items] in H.
  - injection H as <- <-. split; [apply grows_refl|]. intros _. exists []. rewrite app_nil_r.
    split; [reflexivity|]. split; [constructor|left; reflexivity].
  - destruct (List.length vals <=? i)%nat eqn:Elen.
    + apply mbind_ok in H. destruct H as (s1 & [] & Hh & H).
      destruct (IH _ _ _ _ _ H) as [G _].
      split; [eapply grows_trans; [eapply handle_error_grows; exact Hh|exact G]|].
      intros Heq. exfalso. eapply grew_contra; eassumption.
    + apply Nat.leb_gt in Elen. unfold route_idx in H.
      destruct (depth_check o (new_depth depth true)); try discriminate H;
      (destruct (nth_error vals i) as [item|]; [|discriminate H];
       destruct (enter_tr tr o depth true arg item) as [e|[r|e| | |]] eqn:E; try discriminate H;
       [ destruct (IH _ _ _ _ _ H) as [G Hn]; split; [exact G|];
         intros Heq; destruct (Hn Heq) as (new & -> & HF & Hlen);
         exists (r :: new); rewrite <- app_assoc; split; [reflexivity|];
         split; [constructor; [exists item; exact E|exact HF]|];
         right; cbn [List.length]; destruct Hlen as [Hl|Hl]; [rewrite Hl|]; lia
       | rewrite Hpi in H; apply mbind_ok in H; destruct H as (s1 & [] & Hh & H);
         destruct (IH _ _ _ _ _ H) as [G _];
         split; [eapply grows_trans; [eapply handle_error_grows; exact Hh|exact G]|];
         intros Heq; exfalso; eapply grew_contra; eassumption ]).
Qed.

Lemma refixed_depth_ok o depth a r x :
  refixed o depth a r -> depth_check o (new_depth depth true) <> Raise x.
Proof. unfold refixed, enter_tr. intros H E. rewrite E in H. discriminate H. Qed.

Lemma tuple_items_refixed o depth : forall args rs, Forall2 (refixed o depth) args rs ->
  forall pre post acc s,
  tuple_items tr o depth (pre ++ rs ++ post) (List.length pre) args acc s = (s, Ok (acc ++ rs)).
Proof.
  induction 1 as [|a r args rs Hr HF IH]; intros pre post acc s; cbn [tuple_items].
  - rewrite app_nil_r. reflexivity.
  - assert (Hlen : (List.length (pre ++ (r :: rs) ++ post) <=? List.length pre)%nat = false).
    { apply Nat.leb_gt. rewrite !app_length. cbn [List.length]. lia. }
    rewrite Hlen. unfold route_idx.
    assert (Hnth : nth_error (pre ++ (r :: rs) ++ post) (List.length pre) = Some r).
    { rewrite nth_error_app2 by lia. rewrite Nat.sub_diag. reflexivity. }
    rewrite Hnth. pose proof Hr as Hr'. unfold refixed in Hr'. rewrite Hr'.
    assert (Hgo : tuple_items tr o depth (pre ++ (r :: rs) ++ post) (S (List.length pre)) args (acc ++ [r]) s
                  = (s, Ok (acc ++ r :: rs))).
    { replace (pre ++ (r :: rs) ++ post) with ((pre ++ [r]) ++ rs ++ post) by (rewrite <- !app_assoc; reflexivity).
      replace (S (List.length pre)) with (List.length (pre ++ [r])) by (rewrite app_length; cbn [List.length]; lia).
      rewrite IH, <- app_assoc. reflexivity. }
    destruct (depth_check o (new_depth depth true)) eqn:Ed; try exact Hgo.
    exfalso. eapply refixed_depth_ok; eassumption.
Qed.

(* ---- the validator loop: checking constraints that all accepted accept again, in any state ---- *)
Lemma run_validators_again o vals v : checking_vals vals = true -> constraints_hold re vals v ->
  forall s2, run_validators re o vals v s2 = (s2, Ok v).
Proof.
  induction vals as [|[[name bound] lax] rest IH]; intros Hc Hh s2; cbn [run_validators]; [reflexivity|].
  inversion Hh as [|? ? H1 H2]; subst.
  cbn [checking_vals forallb] in Hc. apply andb_prop in Hc. destruct Hc as [_ Hc].
  destruct (validator re name lax) as [f|]; [|contradiction]. rewrite H1. apply IH; assumption.
Qed.

(* ---- rebuilding the origin container from the kept elements ---- *)
Lemma forallb_Forall {A} (f : A -> bool) l : forallb f l = true <-> Forall (fun x => f x = true) l.
Proof. rewrite forallb_forall, Forall_forall. reflexivity. Qed.

Lemma rebuild_again p ell rs w : seq_prim p ell = true ->
  rebuild_origin (Some p) (PList rs) = Ok w ->
  exists xs, items_of w = Some xs /\ (forall P : pyval -> Prop, Forall P rs -> Forall P xs) /\
             rebuild_origin (Some p) (PList xs) = Ok w /\ w <> PNone /\ prim_exact p w = true.
Proof.
  unfold rebuild_origin. destruct p; try discriminate; intros _ H.
  - injection H as <-. exists rs. repeat split; auto. discriminate.
  - injection H as <-. exists rs. repeat split; auto. discriminate.
  - unfold mk_set in H. destruct (forallb hashable_deep rs) eqn:Eh; [|discriminate]. injection H as <-.
    exists (dedupe rs []). repeat split; auto.
    + intros P HP. apply dedupe_subset; [exact HP|constructor].
    + unfold mk_set. rewrite dedupe_idem.
      assert (Hh : forallb hashable_deep (dedupe rs []) = true).
      { apply forallb_Forall. apply dedupe_subset; [apply forallb_Forall; exact Eh|constructor]. }
      rewrite Hh. reflexivity.
    + discriminate.
  - unfold mk_set in H. destruct (forallb hashable_deep rs) eqn:Eh; [|discriminate]. injection H as <-.
    exists (dedupe rs []). repeat split; auto.
    + intros P HP. apply dedupe_subset; [exact HP|constructor].
    + unfold mk_set. rewrite dedupe_idem.
      assert (Hh : forallb hashable_deep (dedupe rs []) = true).
      { apply forallb_Forall. apply dedupe_subset; [apply forallb_Forall; exact Eh|constructor]. }
      rewrite Hh. reflexivity.
    + discriminate.
Qed.

Lemma seq_parser p ell a : seq_prim p ell = true -> args_parser_of (Some (TPrim p)) [a] ell = APSeq.
Proof. destruct p; try discriminate; cbn; intros H; try reflexivity. rewrite H. reflexivity. Qed.

(* the origin conversion of the first run really returned (the handler of mcatch always raises) *)
Lemma origin_ok o depth ot v s s1 v1 :
  mcatch (tr o depth ot v) (fun e => do _ <- handle_error o (parse_err KType) true; ret v) s = (s1, Ok v1) ->
  tr o depth ot v s = (s1, Ok v1).
Proof.
  unfold mcatch. destruct (tr o depth ot v s) as [s0 [a|e| | |]]; intros H; try discriminate H; try exact H.
Qed.

(* ---- `contains`: a pure count of the accepting elements, then a verdict ---- *)
Lemma parse_contains_again o depth c mn mx v s s' w :
  parse_contains tr o depth c mn mx v s = (s', Ok w) -> e_errors s' = e_errors s ->
  w = v /\ forall s2, parse_contains tr o depth c mn mx v s2 = (s2, Ok v).
Proof.
  unfold parse_contains. intros H He.
  apply mbind_ok in H. destruct H as (s1 & items & H1 & H). unfold lift in H1. injection H1 as <- Hit.
  apply mbind_ok in H. destruct H as (s2' & n & H2 & H). unfold lift in H2. injection H2 as <- Hn.
  apply mbind_ok in H. destruct H as (s3 & [] & H3 & H). injection H as <- <-.
  split; [reflexivity|]. intros s2. unfold mbind, lift. rewrite Hit, Hn.
  assert (Hno : forall e, handle_error o e false s = (s3, Ok tt) -> False).
  { intros e Hh. apply handle_error_ok_adds in Hh. rewrite Hh in He.
    rewrite <- (app_nil_r (e_errors s)) in He at 2. apply app_inv_head in He. discriminate. }
  repeat match type of H3 with
  | (if ?b then _ else _) _ = _ => destruct b
  | (match ?x with Some _ => _ | None => _ end) _ = _ => destruct x
  end;
  try (exfalso; eapply Hno; exact H3); reflexivity.
Qed.

(* what Rule.parse did when it returned, for checking constraints and no `contains` *)
Lemma rule_parse_inv o depth origin args ell vals mn mx v s s' w :
  checking_vals vals = true ->
  rule_parse re tr o depth origin args ell vals None mn mx v s = (s', Ok w) ->
  exists s1 v1,
    match origin with Some ot => tr o depth ot v s = (s1, Ok v1) | None => s1 = s /\ v1 = v end /\
    ((exists ot, origin = Some ot /\ v1 = PNone /\ w = PNone) \/
     exists sa,
      (match args_parser_of origin args ell with
       | APNone => ret v1
       | APSeq => match args with
                  | arg :: _ => do r <- parse_seq_args tr o depth arg v1;
                                lift (rebuild_origin (match origin with Some ot => base_prim 8 ot | None => None end) r)
                  | [] => ret v1 end
       | APTuple => parse_tuple_args tr o depth args v1
       | APMap => parse_map_args tr o depth args v1
       end) s1 = (sa, Ok w) /\ e_errors sa = [] /\
      (o_ignore_constraints o = false -> constraints_hold re vals w)).
Proof.
  intros Hck H. unfold rule_parse in H.
  apply mbind_ok in H. destruct H as (s1 & v1 & Hor & H). exists s1, v1.
  split.
  { destruct origin as [ot|]; [eapply origin_ok; exact Hor|]. injection Hor as <- <-. split; reflexivity. }
  assert (Hcase : (exists ot, origin = Some ot /\ v1 = PNone /\ w = PNone) \/
    exists sa v2,
      (match args_parser_of origin args ell with
       | APNone => ret v1
       | APSeq => match args with
                  | arg :: _ => do r <- parse_seq_args tr o depth arg v1;
                                lift (rebuild_origin (match origin with Some ot => base_prim 8 ot | None => None end) r)
                  | [] => ret v1 end
       | APTuple => parse_tuple_args tr o depth args v1
       | APMap => parse_map_args tr o depth args v1
       end) s1 = (sa, Ok v2) /\
      (do v3 <- (if o_ignore_constraints o then ret v2
                 else do w0 <- run_validators re o vals v2; ret w0);
       do _ <- raise_error; ret v3) sa = (s', Ok w)).
  { destruct origin as [ot|]; [destruct v1|]; try (right; apply mbind_ok in H; destruct H as (sa & v2 & H1 & H2); eauto).
    left. injection H as _ <-. eauto. }
  destruct Hcase as [Hn|(sa & v2 & Hap & Ht)]; [left; exact Hn|right].
  apply mbind_ok in Ht. destruct Ht as (sb & v3 & Hv & Ht).
  apply mbind_ok in Ht. destruct Ht as (sc & [] & Hr & Ht). injection Ht as <- <-.
  apply raise_error_ok in Hr. destruct Hr as (-> & He & _).
  assert (Hval : v3 = v2 /\ grows sa sb /\
                 (o_ignore_constraints o = false -> e_errors sb = e_errors sa -> constraints_hold re vals v2)).
  { destruct (o_ignore_constraints o).
    - injection Hv as <- <-. split; [reflexivity|]. split; [apply grows_refl|]. intros; discriminate.
    - apply mbind_ok in Hv. destruct Hv as (sd & w0 & Hrv & Hc). injection Hc as <- <-.
      destruct (run_validators_checking re o vals Hck _ _ _ _ Hrv) as (-> & G1 & Hh).
      split; [reflexivity|]. split; [exact G1|]. intros _. exact Hh. }
  destruct Hval as (-> & G1 & Hh). pose proof (grows_nil _ _ G1 He) as Hsa.
  exists sa. split; [exact Hap|]. split; [exact Hsa|]. intros Hi. apply Hh; [exact Hi|congruence].
Qed.

(* ... and the tail of a second run on a value the constraints accepted *)
Lemma rule_tail_again o vals x s2 : checking_vals vals = true -> clean s2 ->
  (o_ignore_constraints o = false -> constraints_hold re vals x) ->
  (do v3 <- (if o_ignore_constraints o then ret x
             else do w0 <- run_validators re o vals x; ret w0);
   do _ <- raise_error; ret v3) s2 = (s2, Ok x).
Proof.
  intros Hck Hcl Hx. destruct (o_ignore_constraints o).
  - unfold mbind, ret. rewrite (raise_error_clean s2 Hcl). reflexivity.
  - unfold mbind at 1. unfold mbind at 1. rewrite (run_validators_again o vals x Hck (Hx eq_refl)).
    unfold ret at 1. unfold mbind, ret. rewrite (raise_error_clean s2 Hcl). reflexivity.
Qed.

Lemma tuple_origin_inv origin ell : tuple_origin origin ell = true -> origin = Some (TPrim TTuple) /\ ell = false.
Proof.
  unfold tuple_origin. destruct origin as [[|p| | |]|]; try discriminate. destruct p; try discriminate.
  destruct ell; try discriminate. auto.
Qed.

(* typed of a fixed-length tuple, as a relation *)
Fixpoint typed_list (ts : list ty) (ys : list pyval) : bool :=
  match ts, ys with
  | [], _ => true
  | a :: ts', y :: ys' => typed a y && typed_list ts' ys'
  | _ :: _, [] => false
  end.

(* Tuple[T1, ..., Tn] *)
Lemma rule_tuple_fixed o depth args vals mn mx v s s' w :
  throwing o -> checking_vals vals = true -> args <> [] -> forallb stable args = true ->
  rule_parse re tr o depth (Some (TPrim TTuple)) args false vals None mn mx v s = (s', Ok w) ->
  (match w with PTuple xs => typed_list args xs | _ => false end) = true ->
  forall s2, clean s2 -> rule_parse re tr o depth (Some (TPrim TTuple)) args false vals None mn mx w s2 = (s2, Ok w).
Proof.
  intros Ho Hck Hne Hst H Hty s2 Hcl.
  destruct (rule_parse_inv _ _ _ _ _ _ _ _ _ _ _ _ Hck H) as (s1 & v1 & Hor & Hcase).
  destruct Hcase as [(ot & _ & _ & ->)|(sa & Hap & He & Hch)]; [discriminate Hty|].
  assert (Eap : args_parser_of (Some (TPrim TTuple)) args false = APTuple).
  { destruct args; [contradiction|reflexivity]. }
  rewrite Eap in Hap. unfold parse_tuple_args in Hap.
  destruct v1 as [| | | | | | | |vals0| | | | | | |]; try discriminate Hap.
  apply mbind_ok in Hap. destruct Hap as (sx & [] & Hex & Hap).
  apply mbind_ok in Hap. destruct Hap as (sr & res & Hit & Hap). injection Hap as <- <-.
  destruct (tuple_items_produced o depth vals0 Ho _ _ _ _ _ _ Hit) as [G1 Hn].
  (* the excess check of the first run recorded nothing *)
  assert (Gx : grows s1 sx /\ (e_errors sx = e_errors s1 ->
               ((List.length args <? List.length vals0)%nat &&
                ((match o_addition o with Some false => true | _ => false end) || o_no_data_loss o)) = false)).
  { destruct ((List.length args <? List.length vals0)%nat &&
              ((match o_addition o with Some false => true | _ => false end) || o_no_data_loss o)) eqn:Ec.
    - apply andb_prop in Ec. destruct Ec as [Elt _]. apply Nat.ltb_lt in Elt.
      destruct (skipn (List.length args) vals0) as [|x0 xr] eqn:Esk.
      { exfalso. pose proof (skipn_length (List.length args) vals0) as Hl. rewrite Esk in Hl. cbn [List.length] in Hl. lia. }
      cbn [tuple_exceed] in Hex. apply mbind_ok in Hex. destruct Hex as (sy & [] & Hh & Hex).
      assert (Gy : grows sy sx).
      { clear - Hex. revert Hex. generalize (S (List.length args)). revert sy.
        induction xr as [|y yr IH]; intros sy n Hex; cbn [tuple_exceed] in Hex.
        - injection Hex as <-. apply grows_refl.
        - apply mbind_ok in Hex. destruct Hex as (sz & [] & Hh & Hex).
          eapply grows_trans; [eapply handle_error_grows; exact Hh|eapply IH; exact Hex]. }
      split; [eapply grows_trans; [eapply handle_error_grows; exact Hh|exact Gy]|].
      intros Heq. exfalso. eapply grew_contra; eassumption.
    - injection Hex as <-. split; [apply grows_refl|reflexivity]. }
  destruct Gx as [Gx Hcond].
  assert (Hsr : e_errors sr = []) by exact He.
  assert (Hsx : e_errors sx = []) by (eapply grows_nil; eassumption).
  assert (Hs1 : e_errors s1 = []) by (eapply grows_nil; eassumption).
  destruct (Hn ltac:(congruence)) as (new & Hnew & HF & Hlen). cbn [app] in Hnew. subst new.
  specialize (Hcond ltac:(congruence)).
  assert (Hlr : List.length res = List.length args) by (symmetry; eapply Forall2_len; exact HF).
  assert (Hlv : (List.length args <= List.length vals0)%nat).
  { destruct Hlen as [Hl|Hl]; lia. }
  set (extra := match o_addition o with Some true => skipn (List.length args) vals0 | _ => [] end) in *.
  (* the typed hypothesis gives the per-position typing of res *)
  assert (Hre : Forall2 (refixed o depth) args res).
  { clear - HF Hty Hst Ho Hfix. revert Hty. generalize extra. revert Hst.
    induction HF as [|a r args res Hp HF IH]; intros Hst ex Hty; [constructor|].
    cbn [forallb] in Hst. apply andb_prop in Hst. destruct Hst as [Ha Hst].
    cbn [app typed_list] in Hty. apply andb_prop in Hty. destruct Hty as [Hta Hty].
    constructor; [apply enter_fixed; assumption|]. eapply IH; eassumption. }
  (* second run *)
  unfold rule_parse. unfold mbind at 1. unfold mcatch.
  rewrite (Hprim _ _ _ _ _ _ _ (PTuple (res ++ extra)) s2 Hor eq_refl).
  rewrite Eap. unfold mbind at 1. unfold parse_tuple_args.
  assert (Hcond2 : ((List.length args <? List.length (res ++ extra))%nat &&
                    ((match o_addition o with Some false => true | _ => false end) || o_no_data_loss o)) = false).
  { destruct ((match o_addition o with Some false => true | _ => false end) || o_no_data_loss o) eqn:Efl;
      [|apply andb_false_r].
    rewrite andb_true_r in *. apply Nat.ltb_ge in Hcond. apply Nat.ltb_ge.
    assert (Hex0 : extra = []).
    { unfold extra. destruct (o_addition o) as [[|]|]; try reflexivity.
      apply skipn_all2. lia. }
    rewrite Hex0, app_nil_r. lia. }
  rewrite Hcond2. unfold mbind at 1. unfold ret at 1. unfold mbind at 1.
  pose proof (tuple_items_refixed o depth args res Hre [] extra [] s2) as Hgo.
  cbn [app List.length] in Hgo. rewrite Hgo. unfold ret at 1.
  assert (Hsk : match o_addition o with Some true => skipn (List.length args) (res ++ extra) | _ => [] end = extra).
  { unfold extra. destruct (o_addition o) as [[|]|]; try reflexivity.
    rewrite <- Hlr. rewrite skipn_app, skipn_all, Nat.sub_diag. reflexivity. }
  rewrite Hsk. apply rule_tail_again; assumption.
Qed.



(* ---- Rule.parse ---- *)
Lemma rule_parse_fixed_none o depth origin args ell vals mn mx v s s' w :
  throwing o -> stable (TRule origin args ell vals None mn mx) = true ->
  rule_parse re tr o depth origin args ell vals None mn mx v s = (s', Ok w) ->
  typed (TRule origin args ell vals None mn mx) w = true ->
  forall s2, clean s2 -> rule_parse re tr o depth origin args ell vals None mn mx w s2 = (s2, Ok w).
Proof.
  intros Ho Hst H Hty s2 Hcl. cbn [stable] in Hst.
  apply andb_prop in Hst. destruct Hst as [Hst Hshape]. apply andb_prop in Hst. destruct Hst as [Hck _].
  cbn [typed] in Hty.
  destruct (tuple_origin origin ell && negb (match args with [] => true | _ => false end)) eqn:Etup.
  { apply andb_prop in Etup. destruct Etup as [Eto Ene]. destruct (tuple_origin_inv _ _ Eto) as [-> ->].
    assert (Hne : args <> []) by (destruct args; [discriminate Ene|discriminate]).
    exact (rule_tuple_fixed o depth args vals mn mx v s s' w Ho Hck Hne Hshape H Hty s2 Hcl). }
  unfold rule_parse in H.
  apply mbind_ok in H. destruct H as (s1 & v1 & Hor & H).
  (* peel the None shortcut of the first run *)
  assert (Hcase : (exists ot, origin = Some ot /\ v1 = PNone /\ w = PNone) \/
    exists sa v2,
      (match args_parser_of origin args ell with
       | APNone => ret v1
       | APSeq => match args with
                  | arg :: _ => do r <- parse_seq_args tr o depth arg v1;
                                lift (rebuild_origin (match origin with Some ot => base_prim 8 ot | None => None end) r)
                  | [] => ret v1 end
       | APTuple => parse_tuple_args tr o depth args v1
       | APMap => parse_map_args tr o depth args v1
       end) s1 = (sa, Ok v2) /\
      (do v3 <- (if o_ignore_constraints o then ret v2
                 else do w0 <- run_validators re o vals v2; ret w0);
       do _ <- raise_error; ret v3) sa = (s', Ok w)).
  { destruct origin as [ot|]; [destruct v1|]; try (right; apply mbind_ok in H; destruct H as (sa & v2 & H1 & H2); eauto).
    left. injection H as _ <-. eauto. }
  (* the tail of the second run, given the value the args parser hands over and that the constraints held *)
  assert (Htail : forall x, (o_ignore_constraints o = false -> constraints_hold re vals x) ->
    (do v3 <- (if o_ignore_constraints o then ret x
               else do w0 <- run_validators re o vals x; ret w0);
     do _ <- raise_error; ret v3) s2 = (s2, Ok x)).
  { intros x Hx. destruct (o_ignore_constraints o).
    - unfold mbind, ret. rewrite (raise_error_clean s2 Hcl). reflexivity.
    - unfold mbind at 1. unfold mbind at 1. rewrite (run_validators_again o vals x Hck (Hx eq_refl)).
      unfold ret at 1. unfold mbind, ret. rewrite (raise_error_clean s2 Hcl). reflexivity. }
  destruct Hcase as [(ot & -> & -> & ->)|(sa & v2 & Hap & Ht)].
  - (* the origin returned None *)
    apply origin_ok in Hor.
    assert (Hot : stable ot = true /\ typed ot PNone = true).
    { cbn [typed] in Hty. destruct args as [|a [|b [|]]]; try discriminate Hshape; [split; assumption| |].
      - destruct ot as [|p| | |]; try discriminate Hshape. destruct p; discriminate Hty.
      - destruct ot as [|p| | |]; try discriminate Hshape. destruct p; discriminate Hty. }
    destruct Hot as [Hsot Htot].
    unfold rule_parse. unfold mbind at 1. unfold mcatch.
    rewrite (Hfix _ _ _ _ _ _ _ Ho Hsot Hor Htot s2 Hcl). reflexivity.
  - clear H.
    (* what the tail of the first run says *)
    apply mbind_ok in Ht. destruct Ht as (sb & v3 & Hv & Ht).
    apply mbind_ok in Ht. destruct Ht as (sc & [] & Hr & Ht). injection Ht as <- <-.
    apply raise_error_ok in Hr. destruct Hr as (-> & He & _).
    assert (Hval : v3 = v2 /\ grows sa sb /\
                   (o_ignore_constraints o = false -> e_errors sb = e_errors sa -> constraints_hold re vals v2)).
    { destruct (o_ignore_constraints o).
      - injection Hv as <- <-. split; [reflexivity|]. split; [apply grows_refl|]. intros; discriminate.
      - apply mbind_ok in Hv. destruct Hv as (sd & w0 & Hrv & Hc). injection Hc as <- <-.
        destruct (run_validators_checking re o vals Hck _ _ _ _ Hrv) as (-> & G1 & Hh).
        split; [reflexivity|]. split; [exact G1|]. intros _. exact Hh. }
    destruct Hval as (-> & G1 & Hh).
    pose proof (grows_nil _ _ G1 He) as Hsa.
    assert (Hch : o_ignore_constraints o = false -> constraints_hold re vals v2).
    { intros Hi. apply Hh; [exact Hi|congruence]. }
    destruct args as [|a [|b [|]]]; try discriminate Hshape.
    + (* no args: the value is what the origin returned *)
      assert (Eap : args_parser_of origin [] ell = APNone) by (destruct origin; reflexivity).
      rewrite Eap in Hap. injection Hap as <- <-.
      cbn [typed] in Hty.
      unfold rule_parse. unfold mbind at 1.
      destruct origin as [ot|].
      * apply origin_ok in Hor. unfold mcatch.
        rewrite (Hfix _ _ _ _ _ _ _ Ho Hshape Hor Hty s2 Hcl).
        destruct v1; try (rewrite Eap; unfold mbind at 1; unfold ret at 1; apply Htail; exact Hch).
        reflexivity.
      * unfold ret at 1. rewrite Eap. unfold mbind at 1. unfold ret at 1. apply Htail; exact Hch.
    + (* a homogeneous sequence *)
      destruct origin as [[|p| | |]|]; try discriminate Hshape.
      apply andb_prop in Hshape. destruct Hshape as [Hsp Hsa'].
      rewrite (seq_parser p ell a Hsp) in Hap.
      apply mbind_ok in Hap. destruct Hap as (sq & r & Hseq & Hrb). unfold lift in Hrb. injection Hrb as <- Hrb.
      cbn [base_prim] in Hrb.
      unfold parse_seq_args in Hseq. destruct (items_of v1) as [items|]; [|discriminate Hseq].
      apply mbind_ok in Hseq. destruct Hseq as (sr & rs & Hi & Hseq). injection Hseq as <- <-.
      destruct (seq_items_produced o depth a v1 Ho _ _ _ _ _ _ Hi) as [G0 Hn].
      assert (Hs1 : e_errors sr = e_errors s1) by (rewrite Hsa; symmetry; eapply grows_nil; eassumption).
      destruct (Hn Hs1) as (new & Hnew & HF). cbn [app] in Hnew. subst new.
      destruct (rebuild_again p ell rs v2 Hsp Hrb) as (xs & Hit & Hsub & Hrb2 & Hnn & _).
      cbn [typed] in Hty. apply andb_prop in Hty. destruct Hty as [Hex Hel]. rewrite Hit in Hel.
      assert (Hre : Forall (refixed o depth a) xs).
      { apply Hsub in HF. rewrite forallb_Forall in Hel.
        rewrite Forall_forall in *. intros x Hx. apply enter_fixed; auto. }
      apply origin_ok in Hor.
      unfold rule_parse. unfold mbind at 1. unfold mcatch.
      rewrite (Hprim _ _ _ _ _ _ _ v2 s2 Hor Hex).
      rewrite (seq_parser p ell a Hsp).
      assert (Hgo : (do r <- parse_seq_args tr o depth a v2; lift (rebuild_origin (base_prim 8 (TPrim p)) r)) s2 = (s2, Ok v2)).
      { unfold parse_seq_args. rewrite Hit. unfold mbind at 1. unfold mbind at 1.
        rewrite (seq_items_refixed o depth a xs Hre v2 0%nat [] s2). cbn [app]. unfold ret at 1.
        unfold lift. cbn [base_prim]. rewrite Hrb2. reflexivity. }
      destruct v2; try contradiction;
        (unfold mbind at 1; rewrite Hgo; apply Htail; exact Hch).
    + (* a mapping *)
      destruct origin as [[|p| | |]|]; try discriminate Hshape. destruct p; try discriminate Hshape.
      apply andb_prop in Hshape. destruct Hshape as [Hsk Hsv].
      change (args_parser_of (Some (TPrim TDict)) [a; b] ell) with APMap in Hap.
      unfold parse_map_args in Hap. destruct (dict_items v1) as [items|]; [|discriminate Hap].
      apply mbind_ok in Hap. destruct Hap as (sr & res & Hi & Hap). injection Hap as <- <-.
      destruct (map_items_produced o depth a b Ho _ _ _ _ _ Hi) as [G0 Hn].
      assert (Hs1 : e_errors sr = e_errors s1) by (rewrite Hsa; symmetry; eapply grows_nil; eassumption).
      assert (Hg0 : good_map o depth a b []) by (repeat split; constructor).
      destruct (Hn Hs1 Hg0) as (Hkd & Hks & Hvs).
      cbn [typed] in Hty.
      assert (Hre : Forall (fun kv => refixed o depth a (fst kv) /\ hashable_deep (fst kv) = true /\ refixed o depth b (snd kv)) res).
      { rewrite forallb_Forall in Hty. rewrite Forall_forall in *. intros kv Hin.
        specialize (Hty kv Hin). apply andb_prop in Hty. destruct Hty as [Hty1 Hty2].
        destruct (Hks kv Hin) as [Hp Hh']. specialize (Hvs kv Hin).
        repeat split; [apply enter_fixed; auto|exact Hh'|apply enter_fixed; auto]. }
      apply origin_ok in Hor.
      unfold rule_parse. unfold mbind at 1. unfold mcatch.
      rewrite (Hprim _ _ _ _ _ _ _ (PDict res) s2 Hor eq_refl).
      change (args_parser_of (Some (TPrim TDict)) [a; b] ell) with APMap.
      unfold mbind at 1. unfold parse_map_args. cbn [dict_items]. unfold mbind at 1.
      rewrite (map_items_refixed o depth a b res Hre [] s2 Hkd). cbn [app]. unfold ret at 1.
      apply Htail; exact Hch.
Qed.

(* ---- the same with a `contains` constraint: a successful parse is one without it plus a verdict that recorded nothing ---- *)
Lemma rule_strip o depth origin args ell vals c mn mx v s s' w :
  checking_vals vals = true ->
  rule_parse re tr o depth origin args ell vals (Some c) mn mx v s = (s', Ok w) ->
  rule_parse re tr o depth origin args ell vals None mn mx v s = (s', Ok w) /\
  (w <> PNone -> forall s2, clean s2 -> forall x, rule_parse re tr o depth origin args ell vals None mn mx x s2 = (s2, Ok w) ->
              rule_parse re tr o depth origin args ell vals (Some c) mn mx x s2 = (s2, Ok w)).
Proof.
  intros Hck H. unfold rule_parse in H.
  apply mbind_ok in H. destruct H as (s1 & v1 & Hor & H).
  (* what contains said about the final value, from the first run *)
  assert (Hc : (exists ot, origin = Some ot /\ v1 = PNone /\ w = PNone /\ s' = s1) \/
               (o_ignore_constraints o = true \/ forall sx, parse_contains tr o depth c mn mx w sx = (sx, Ok w))).
  { destruct origin as [ot|]; [destruct v1|];
      cbv iota beta in H;
      try (right; apply mbind_ok in H; destruct H as (sa & v2 & _ & Ht);
           apply mbind_ok in Ht; destruct Ht as (sb & v3 & Hv & Ht);
           apply mbind_ok in Ht; destruct Ht as (sc & [] & Hr & Ht); injection Ht as <- <-;
           apply raise_error_ok in Hr; destruct Hr as (-> & He & _);
           destruct (o_ignore_constraints o); [left; reflexivity|right];
           apply mbind_ok in Hv; destruct Hv as (sd & w0 & Hrv & Hcn);
           pose proof (parse_contains_ok tr _ _ _ _ _ _ _ _ _ Hcn) as [-> G];
           pose proof (grows_nil _ _ G He) as Hd;
           destruct (parse_contains_again _ _ _ _ _ _ _ _ _ Hcn ltac:(congruence)) as [_ Hag]; exact Hag).
    left. injection H as <- <-. eauto. }
  split.
  - (* without contains the same run succeeds with the same result *)
    unfold rule_parse. unfold mbind at 1. rewrite Hor.
    destruct origin as [ot|]; [destruct v1|]; cbv iota beta in H |- *;
      try (apply mbind_ok in H; destruct H as (sa & v2 & Hap & Ht);
           unfold mbind at 1; rewrite Hap;
           apply mbind_ok in Ht; destruct Ht as (sb & v3 & Hv & Ht);
           apply mbind_ok in Ht; destruct Ht as (sc & [] & Hr & Ht); injection Ht as <- <-;
           pose proof Hr as Hr'; apply raise_error_ok in Hr'; destruct Hr' as (-> & He & _);
           destruct (o_ignore_constraints o);
           [ unfold mbind at 1; rewrite Hv; unfold mbind; rewrite Hr; reflexivity |];
           apply mbind_ok in Hv; destruct Hv as (sd & w0 & Hrv & Hcn);
           pose proof (parse_contains_ok tr _ _ _ _ _ _ _ _ _ Hcn) as [-> G];
           pose proof (grows_nil _ _ G He) as Hd;
           assert (Hsd : sd = sb) by
             (destruct (parse_contains_again _ _ _ _ _ _ _ _ _ Hcn ltac:(congruence)) as [_ Hag];
              rewrite (Hag sd) in Hcn; injection Hcn as <-; reflexivity);
           subst sd;
           unfold mbind at 1; unfold mbind at 1; rewrite Hrv; unfold ret at 1; unfold mbind; rewrite Hr; reflexivity).
    exact H.
  - (* with contains put back, on any input that gives w without it *)
    intros Hnn s2 Hcl x Hx. unfold rule_parse in *.
    apply mbind_ok in Hx. destruct Hx as (t1 & x1 & Hox & Hx). unfold mbind at 1. rewrite Hox.
    destruct origin as [ot|]; [destruct x1|]; cbv iota beta in Hx |- *;
      try (apply mbind_ok in Hx; destruct Hx as (ta & x2 & Hapx & Htx);
           unfold mbind at 1; rewrite Hapx;
           apply mbind_ok in Htx; destruct Htx as (tb & x3 & Hvx & Htx);
           apply mbind_ok in Htx; destruct Htx as (tc & [] & Hrx & Htx); injection Htx as <- <-;
           destruct (o_ignore_constraints o) eqn:Eig;
           [ unfold mbind at 1; rewrite Hvx; unfold mbind; rewrite Hrx; reflexivity |];
           apply mbind_ok in Hvx; destruct Hvx as (td & y0 & Hrvx & Hretx); injection Hretx as <- <-;
           destruct Hc as [(ot' & Eo & _ & Ew & _)|[Hig|Hag]];
           [ exfalso; apply Hnn; exact Ew | discriminate Hig | ];
           unfold mbind at 1; unfold mbind at 1; rewrite Hrvx; rewrite (Hag td);
           unfold mbind; rewrite Hrx; reflexivity).
    exact Hx.
Qed.

Lemma stable_strip origin args ell vals c mn mx :
  stable (TRule origin args ell vals (Some c) mn mx) = true ->
  stable (TRule origin args ell vals None mn mx) = true /\ args <> [] /\ checking_vals vals = true.
Proof.
  cbn [stable]. intros H. apply andb_prop in H. destruct H as [H Hshape]. apply andb_prop in H. destruct H as [Hck Hct].
  destruct args as [|a0 ar]; [discriminate Hct|].
  split; [|split; [discriminate|exact Hck]].
  rewrite Hck. cbn [andb]. exact Hshape.
Qed.

Lemma typed_not_none origin args ell vals ct mn mx w :
  args <> [] -> stable (TRule origin args ell vals None mn mx) = true ->
  typed (TRule origin args ell vals ct mn mx) w = true -> w <> PNone.
Proof.
  intros Hne Hst Hty ->. cbn [stable typed] in *.
  apply andb_prop in Hst. destruct Hst as [_ Hshape].
  destruct (tuple_origin origin ell && negb (match args with [] => true | _ => false end)); [discriminate Hty|].
  destruct args as [|a [|b [|]]]; try contradiction; try discriminate Hshape.
  - destruct origin as [[|p| | |]|]; try discriminate Hshape. destruct p; try discriminate Hshape; discriminate Hty.
  - destruct origin as [[|p| | |]|]; try discriminate Hshape. destruct p; try discriminate Hshape; discriminate Hty.
Qed.

Lemma rule_parse_fixed o depth origin args ell vals ct mn mx v s s' w :
  throwing o -> stable (TRule origin args ell vals ct mn mx) = true ->
  rule_parse re tr o depth origin args ell vals ct mn mx v s = (s', Ok w) ->
  typed (TRule origin args ell vals ct mn mx) w = true ->
  forall s2, clean s2 -> rule_parse re tr o depth origin args ell vals ct mn mx w s2 = (s2, Ok w).
Proof.
  intros Ho Hst H Hty s2 Hcl. destruct ct as [c|]; [|eapply rule_parse_fixed_none; eassumption].
  destruct (stable_strip _ _ _ _ _ _ _ Hst) as (Hst0 & Hne & Hck).
  destruct (rule_strip _ _ _ _ _ _ _ _ _ _ _ _ _ Hck H) as [H0 Hback].
  apply (Hback (typed_not_none _ _ _ _ _ _ _ _ Hne Hst0 Hty) s2 Hcl).
  eapply rule_parse_fixed_none; eassumption.
Qed.

(* ---- logical types ---- *)
Lemma raise_error_dirty s s' e x : e_errors s = e_errors s' ++ [e] -> raise_error s <> (x, Ok tt).
Proof.
  intros He. unfold raise_error. destruct (e_errors s) eqn:E.
  - destruct (e_errors s'); discriminate He.
  - discriminate.
Qed.

Lemma logical_parse_fixed o depth op args v s s' w :
  throwing o -> stable (TLogic op args) = true ->
  logical_parse tr o depth op args v s = (s', Ok w) ->
  typed (TLogic op args) w = true ->
  forall s2, clean s2 -> logical_parse tr o depth op args w s2 = (s2, Ok w).
Proof.
  intros Ho Hst H Hty s2 Hcl. destruct op; cbn [stable] in Hst; try discriminate Hst.
  - (* | : an exact instance of one of the arguments is returned as it is *)
    cbn [typed] in Hty. unfold logical_parse. rewrite Hty. reflexivity.
  - (* ^ : the same shortcut *)
    cbn [typed] in Hty. unfold logical_parse. rewrite Hty. reflexivity.
  - (* ~ : the result of the first run is its input, and the verdict of the condition does not depend on the state *)
    unfold logical_parse in *. destruct args as [|con rest].
    + apply mbind_ok in H. destruct H as (s1 & [] & Hr & H). injection H as _ <-.
      unfold mbind. rewrite (raise_error_clean s2 Hcl). reflexivity.
    + destruct (enter_tr tr o depth true con v) as [e|[r|e| | |]] eqn:E; try discriminate H.
      * exfalso. destruct (handle_error o (parse_err KNegate) false s) as [s1 hr] eqn:Hh.
        apply handle_error_adds in Hh.
        apply mbind_ok in H. destruct H as (s3 & [] & Hr & _).
        eapply raise_error_dirty; [exact Hh|exact Hr].
      * apply mbind_ok in H. destruct H as (s1 & [] & Hr & H). injection H as _ <-.
        rewrite E. unfold mbind. rewrite (raise_error_clean s2 Hcl). reflexivity.
Qed.

(* ---- one unfolding of the knot ---- *)
Lemma transform_step_fixed : fixed_tr (transform_step re D tr).
Proof.
  intros o depth t v s s' w Ho Hst H Hty s2 Hcl. destruct t as [|p|origin args ell vals ct mn mx|op args|c]; cbn [transform_step] in *.
  - apply mbind_ok in H. destruct H as (s1 & [] & Hr & H). injection H as _ <-.
    unfold mbind. rewrite (raise_error_clean s2 Hcl). reflexivity.
  - cbn [typed] in Hty. unfold lift in *. injection H as _ H. apply negb_true_iff in Hty.
    rewrite (conv_prim_idem _ _ _ _ _ _ H Hty). reflexivity.
  - eapply rule_parse_fixed; eassumption.
  - eapply logical_parse_fixed; eassumption.
  - assert (Hw : exists kvs, w = PInst c kvs).
    { destruct v; try (unfold lift in H; injection H as _ H; eapply transform_dataclass_inst; exact H).
      destruct (Nat.eqb c c0) eqn:Ec.
      - injection H as _ <-. apply Nat.eqb_eq in Ec. subst. eauto.
      - unfold lift in H; injection H as _ H; eapply transform_dataclass_inst; exact H. }
    destruct Hw as (kvs & ->). rewrite Nat.eqb_refl. reflexivity.
Qed.

Lemma transform_step_prim : prim_tr (transform_step re D tr).
Proof.
  intros o depth p x s s' y v s2 _ Hex. cbn [transform_step]. unfold lift, conv_prim. rewrite Hex. reflexivity.
Qed.

End Step.

(* ================= the results of a parse are typed (up to the bool-for-int leak) ================= *)
Definition typed_tr (tr : knot) : Prop :=
  forall o depth t v s s' w, throwing o -> stable t = true ->
    tr o depth t v s = (s', Ok w) ->
    typed t w = true /\ (exact_arm t = true -> exact_type t w = true) /\ (t = TPrim TDict -> w <> PNone).

Section Typed.
Variable tr : knot.
Hypothesis Htyp : typed_tr tr.

Lemma enter_typed o depth a x r : throwing o -> stable a = true ->
  enter_tr tr o depth true a x = Entered (Ok r) ->
  typed a r = true /\ (exact_arm a = true -> exact_type a r = true) /\ (a = TPrim TDict -> r <> PNone).
Proof.
  intros Ho Hst H. unfold enter_tr, in_fresh in H.
  destruct (depth_check o (new_depth depth true)); try discriminate H;
  (destruct (tr o (new_depth depth true) a x no_errs) as [s1 r1] eqn:E; cbn [snd] in H;
   injection H as ->; eapply Htyp; eassumption).
Qed.

Lemma rule_tuple_typed o depth args vals mn mx v s s' w :
  throwing o -> checking_vals vals = true -> args <> [] -> forallb stable args = true ->
  rule_parse re tr o depth (Some (TPrim TTuple)) args false vals None mn mx v s = (s', Ok w) ->
  (match w with PTuple xs => typed_list args xs | _ => false end) = true.
Proof.
  intros Ho Hck Hne Hst H.
  destruct (rule_parse_inv tr _ _ _ _ _ _ _ _ _ _ _ _ Hck H) as (s1 & v1 & Hor & Hcase).
  destruct Hcase as [(ot & _ & -> & ->)|(sa & Hap & He & _)].
  { (* tuple(...) never returns None *) exfalso.
    destruct (Htyp _ _ _ _ _ _ _ Ho (eq_refl : stable (TPrim TTuple) = true) Hor) as [_ [Hex _]].
    specialize (Hex eq_refl). discriminate Hex. }
  assert (Eap : args_parser_of (Some (TPrim TTuple)) args false = APTuple).
  { destruct args; [contradiction|reflexivity]. }
  rewrite Eap in Hap. unfold parse_tuple_args in Hap.
  destruct v1 as [| | | | | | | |vals0| | | | | | |]; try discriminate Hap.
  apply mbind_ok in Hap. destruct Hap as (sx & [] & Hex & Hap).
  apply mbind_ok in Hap. destruct Hap as (sr & res & Hit & Hap). injection Hap as <- <-.
  destruct (tuple_items_produced tr o depth vals0 Ho _ _ _ _ _ _ Hit) as [G1 Hn].
  assert (Gx : grows s1 sx).
  { destruct ((List.length args <? List.length vals0)%nat &&
              ((match o_addition o with Some false => true | _ => false end) || o_no_data_loss o)).
    - remember (skipn (List.length args) vals0) as exl eqn:Eexl. clear Eexl.
      clear - Hex. revert Hex. generalize (List.length args). revert s1.
      induction exl as [|y yr IH]; intros s1 n Hex; cbn [tuple_exceed] in Hex.
      + injection Hex as <-. apply grows_refl.
      + apply mbind_ok in Hex. destruct Hex as (sz & [] & Hh & Hex).
        eapply grows_trans; [eapply handle_error_grows; exact Hh|eapply IH; exact Hex].
    - injection Hex as <-. apply grows_refl. }
  assert (Hsx : e_errors sx = []) by (eapply grows_nil; eassumption).
  destruct (Hn ltac:(congruence)) as (new & Hnew & HF & _). cbn [app] in Hnew. subst new.
  clear - HF Hst Ho Htyp. revert Hst.
  generalize (match o_addition o with Some true => skipn (List.length args) vals0 | _ => [] end).
  induction HF as [|a r args res Hp HF IH]; intros ex Hst; [reflexivity|].
  cbn [forallb] in Hst. apply andb_prop in Hst. destruct Hst as [Ha Hst].
  cbn [app typed_list] in *.
  destruct Hp as [x Hx]. apply andb_true_intro. split.
  - eapply enter_typed; [exact Ho|exact Ha|exact Hx].
  - eapply IH; eassumption.
Qed.

Lemma rule_parse_typed_none o depth origin args ell vals mn mx v s s' w :
  throwing o -> stable (TRule origin args ell vals None mn mx) = true ->
  rule_parse re tr o depth origin args ell vals None mn mx v s = (s', Ok w) ->
  typed (TRule origin args ell vals None mn mx) w = true.
Proof.
  intros Ho Hst H. cbn [stable] in Hst.
  apply andb_prop in Hst. destruct Hst as [Hst Hshape]. apply andb_prop in Hst. destruct Hst as [Hck _].
  cbn [typed] in *.
  destruct (tuple_origin origin ell && negb (match args with [] => true | _ => false end)) eqn:Etup.
  { apply andb_prop in Etup. destruct Etup as [Eto Ene]. destruct (tuple_origin_inv _ _ Eto) as [-> ->].
    assert (Hne : args <> []) by (destruct args; [discriminate Ene|discriminate]).
    exact (rule_tuple_typed o depth args vals mn mx v s s' w Ho Hck Hne Hshape H). }
  destruct (rule_parse_inv tr _ _ _ _ _ _ _ _ _ _ _ _ Hck H) as (s1 & v1 & Hor & Hcase).
  destruct args as [|a [|b [|]]]; try discriminate Hshape.
  - (* no args: the result is what the origin returned *)
    destruct origin as [ot|]; [|reflexivity].
    assert (Hw : w = v1).
    { destruct Hcase as [(ot' & _ & -> & ->)|(sa & Hap & _ & _)]; [reflexivity|].
      injection Hap as _ <-. reflexivity. }
    subst v1. eapply Htyp; eassumption.
  - destruct origin as [[|p| | |]|]; try discriminate Hshape.
    apply andb_prop in Hshape. destruct Hshape as [Hsp Hsa].
    destruct Hcase as [(ot' & _ & -> & ->)|(sa & Hap & He & _)].
    { (* a sequence origin never returns None *) exfalso.
      pose proof Hor as Hx.
      assert (Hst : stable (TPrim p) = true) by reflexivity.
      destruct (Htyp _ _ _ _ _ _ _ Ho Hst Hx) as [_ [Hex _]].
      assert (Ha : exact_arm (TPrim p) = true) by (destruct p; try discriminate Hsp; reflexivity).
      specialize (Hex Ha). destruct p; discriminate Hex || discriminate Hsp. }
    rewrite (seq_parser p ell a Hsp) in Hap.
    apply mbind_ok in Hap. destruct Hap as (sq & r & Hseq & Hrb). unfold lift in Hrb. injection Hrb as <- Hrb.
    cbn [base_prim] in Hrb.
    unfold parse_seq_args in Hseq. destruct (items_of v1) as [items|]; [|discriminate Hseq].
    apply mbind_ok in Hseq. destruct Hseq as (sr & rs & Hit0 & Hseq). injection Hseq as <- <-.
    destruct (seq_items_produced tr o depth a v1 Ho _ _ _ _ _ _ Hit0) as [G0 Hn].
    assert (Hs1 : e_errors sr = e_errors s1) by (rewrite He; symmetry; eapply grows_nil; eassumption).
    destruct (Hn Hs1) as (new & Hnew & HF). cbn [app] in Hnew. subst new.
    destruct (rebuild_again p ell rs w Hsp Hrb) as (xs & Hit & Hsub & _ & _ & Hex).
    rewrite Hit in *. rewrite Hex. cbn [andb].
    apply Hsub in HF. rewrite forallb_Forall in *. rewrite Forall_forall in *.
    intros x Hx. destruct (HF x Hx) as [x0 Hx0].
    eapply enter_typed; [exact Ho|exact Hsa|exact Hx0].
  - (* a mapping *)
    destruct origin as [[|p| | |]|]; try discriminate Hshape. destruct p; try discriminate Hshape.
    apply andb_prop in Hshape. destruct Hshape as [Hsk Hsv].
    destruct Hcase as [(ot' & _ & -> & ->)|(sa & Hap & He & _)].
    { (* dict(...) never returns None *) exfalso.
      destruct (Htyp _ _ _ _ _ _ _ Ho (eq_refl : stable (TPrim TDict) = true) Hor) as [_ [_ Hnn]].
      apply Hnn; reflexivity. }
    change (args_parser_of (Some (TPrim TDict)) [a; b] ell) with APMap in Hap.
    unfold parse_map_args in Hap. destruct (dict_items v1) as [items|]; [|discriminate Hap].
    apply mbind_ok in Hap. destruct Hap as (sr & res & Hit0 & Hap). injection Hap as <- <-.
    destruct (map_items_produced tr o depth a b Ho _ _ _ _ _ Hit0) as [G0 Hn].
    assert (Hs1 : e_errors sr = e_errors s1) by (rewrite He; symmetry; eapply grows_nil; eassumption).
    assert (Hg0 : good_map tr o depth a b []) by (repeat split; constructor).
    destruct (Hn Hs1 Hg0) as (Hkd & Hks & Hvs).
    rewrite forallb_Forall in *. rewrite Forall_forall in *. intros kv Hin.
    destruct (Hks kv Hin) as [[k0 Hk0] _]. destruct (Hvs kv Hin) as [v0 Hv0].
    apply andb_true_intro. split.
    + eapply enter_typed; [exact Ho|exact Hsk|exact Hk0].
    + eapply enter_typed; [exact Ho|exact Hsv|exact Hv0].
Qed.

Lemma rule_parse_typed o depth origin args ell vals ct mn mx v s s' w :
  throwing o -> stable (TRule origin args ell vals ct mn mx) = true ->
  rule_parse re tr o depth origin args ell vals ct mn mx v s = (s', Ok w) ->
  typed (TRule origin args ell vals ct mn mx) w = true.
Proof.
  intros Ho Hst H. destruct ct as [c|]; [|eapply rule_parse_typed_none; eassumption].
  destruct (stable_strip _ _ _ _ _ _ _ Hst) as (Hst0 & Hne & Hck).
  destruct (rule_strip tr _ _ _ _ _ _ _ _ _ _ _ _ _ Hck H) as [H0 _].
  exact (rule_parse_typed_none _ _ _ _ _ _ _ _ _ _ _ _ Ho Hst0 H0).
Qed.

(* ---- unions: a stage returns what one of the arguments returned for the input ---- *)
Lemma or_stage_produced o depth : forall args v s s' r,
  or_stage tr o depth args v s = (s', Ok r) ->
  e_errors s' = e_errors s /\
  match r with
  | Some w => exists a, In a args /\ enter_tr tr o depth true a v = Entered (Ok w)
  | None => args = [] \/ e_tmp s' <> []
  end.
Proof.
  induction args as [|con rest IH]; intros v s s' r H; cbn [or_stage] in H.
  - injection H as <- <-. split; [reflexivity|left; reflexivity].
  - destruct (enter_tr tr o depth true con v) as [e|[w|e| | |]] eqn:E; try discriminate H.
    + apply mbind_ok in H. destruct H as (s1 & [] & Hc & H). injection H as <- <-.
      apply clear_tmp_errors in Hc. split; [tauto|]. exists con. split; [left; reflexivity|exact E].
    + apply mbind_ok in H. destruct H as (s1 & [] & Hc & H).
      unfold collect_tmp_error in Hc. injection Hc as <-.
      destruct (IH _ _ _ _ H) as [He Hr]. cbn [e_errors] in He. split; [exact He|].
      destruct r as [w|].
      * destruct Hr as (c & Hin & Hc). exists c. split; [right; exact Hin|exact Hc].
      * right. destruct Hr as [->|Hr]; [|exact Hr].
        cbn [or_stage] in H. injection H as <-. cbn [e_tmp]. destruct (e_tmp s); discriminate.
Qed.

Lemma exact_arm_stable a : exact_arm a = true -> stable a = true.
Proof. destruct a; try discriminate; reflexivity. Qed.

(* the ^ loop returns what one of the arguments returned for the input (when exactly one accepted) *)
Lemma xor_loop_produced o depth all : forall args v res xor s s' r b,
  incl args all ->
  xor_loop tr o depth args v res xor s = (s', Ok (r, b)) ->
  (xor = true -> exists con, In con all /\ enter_tr tr o depth true con v = Entered (Ok res)) ->
  grows s s' /\ (e_tmp s <> [] -> e_tmp s' <> []) /\
  (b = true -> exists con, In con all /\ enter_tr tr o depth true con v = Entered (Ok r)) /\
  (b = false -> (xor = true -> e_errors s' <> e_errors s) /\
                (xor = false -> args = [] \/ e_tmp s' <> [] \/ e_errors s' <> e_errors s)).
Proof.
  induction args as [|con rest IH]; intros v res xor s s' r b Hin H Hx; cbn [xor_loop] in H.
  - injection H as <- <- <-. split; [apply grows_refl|]. split; [auto|]. split; [exact Hx|].
    intros ->. split; [intros Ht; discriminate|intros _; left; reflexivity].
  - assert (Hin' : incl rest all) by (intros x Hxx; apply Hin; right; exact Hxx).
    destruct (enter_tr tr o depth true con v) as [e|[w|e| | |]] eqn:E; try discriminate H.
    + destruct xor; cbn [negb] in H.
      * destruct (handle_error o (parse_err KOneOf) false s) as [s1 [[]|e1| | |]] eqn:Hh; try discriminate H.
        -- injection H as <- <- <-.
           split; [eapply handle_error_grows; exact Hh|].
           split; [rewrite (handle_error_tmp _ _ _ _ _ _ Hh); auto|].
           split; [intros Hf; discriminate|]. intros _. split; [|intros Hf; discriminate].
           intros _. rewrite (handle_error_adds _ _ _ _ _ _ Hh). apply app_ne_self. discriminate.
        -- unfold collect_tmp_error in H.
           destruct (IH _ _ _ _ _ _ _ Hin' H Hx) as (G & Ht & Hb & Hf).
           pose proof (handle_error_adds _ _ _ _ _ _ Hh) as Ha.
           assert (G1 : grows s s').
           { destruct G as [y Hy]. cbn [e_errors] in Hy. exists ([parse_err KOneOf] ++ y).
             rewrite Hy, Ha, <- app_assoc. reflexivity. }
           split; [exact G1|].
           split; [intros _; apply Ht; cbn [e_tmp]; destruct (e_tmp s1); discriminate|].
           split; [exact Hb|]. intros Hbf. split; [|intros Hf'; discriminate].
           intros _. destruct G as [y Hy]. cbn [e_errors] in Hy. rewrite Hy, Ha, <- app_assoc.
           apply app_ne_self. discriminate.
      * assert (Hw : exists c, In c all /\ enter_tr tr o depth true c v = Entered (Ok w)).
        { exists con. split; [apply Hin; left; reflexivity|exact E]. }
        destruct (IH _ _ _ _ _ _ _ Hin' H (fun _ => Hw)) as (G & Ht & Hb & Hf).
        split; [exact G|]. split; [exact Ht|]. split; [exact Hb|].
        intros Hbf. split; [intros Hf'; discriminate|]. intros _. right; right. apply Hf; auto.
    + apply mbind_ok in H. destruct H as (s1 & [] & Hc & H). unfold collect_tmp_error in Hc. injection Hc as <-.
      destruct (IH _ _ _ _ _ _ _ Hin' H Hx) as (G & Ht & Hb & Hf).
      split; [exact G|].
      assert (Htn : e_tmp s' <> []) by (apply Ht; cbn [e_tmp]; destruct (e_tmp s); discriminate).
      split; [intros _; exact Htn|]. split; [exact Hb|].
      intros Hbf. destruct (Hf Hbf) as [Hf1 Hf2]. split; [exact Hf1|]. intros _. right; left. exact Htn.
Qed.

Lemma logical_parse_typed o depth op args v s s' w :
  throwing o -> stable (TLogic op args) = true ->
  logical_parse tr o depth op args v s = (s', Ok w) ->
  typed (TLogic op args) w = true.
Proof.
  intros Ho Hst H. destruct op; cbn [stable] in Hst; try discriminate Hst; cbn [typed] in *; try reflexivity.
  - (* | *)
    apply andb_prop in Hst. destruct Hst as [Hne Harms].
    destruct (existsb (fun a => exact_type a w) args) eqn:Ew; [reflexivity|]. exfalso.
    (* a result produced by an argument is an exact instance of it *)
    assert (Hprod : forall o', throwing o' -> forall a, In a args -> enter_tr tr o' depth true a v = Entered (Ok w) -> False).
    { intros o' Ho' a Hin E. rewrite forallb_forall in Harms. pose proof (Harms a Hin) as Ha.
      destruct (enter_typed o' depth a v w Ho' (exact_arm_stable a Ha) E) as [_ [Hex _]].
      specialize (Hex Ha).
      assert (Hc : existsb (fun a => exact_type a w) args = true) by (apply existsb_exists; eauto).
      congruence. }
    cbn [logical_parse] in H.
    destruct (existsb (fun con => exact_type con v) args) eqn:Ex.
    { injection H as _ <-. congruence. }
    apply mbind_ok in H. destruct H as (s1 & r1 & H1 & H).
    assert (Hst1 : match r1 with Some r => r = w -> False | None => True end).
    { destruct (negb (o_no_data_loss o) || negb (o_no_explicit_cast o)).
      - destruct (or_stage_produced _ depth _ _ _ _ _ H1) as [_ Hr]. destruct r1 as [r|]; [|exact I].
        intros ->. destruct Hr as (a & Hin & E). eapply Hprod; [apply throwing_with_flags; exact Ho|exact Hin|exact E].
      - injection H1 as _ <-. exact I. }
    destruct r1 as [r|]; [injection H as _ <-; apply Hst1; reflexivity|].
    apply mbind_ok in H. destruct H as (s2 & r2 & H2 & H).
    assert (Hst2 : match r2 with Some r => r = w -> False | None => True end).
    { destruct (negb (o_no_data_loss o) && negb (o_no_explicit_cast o)).
      - destruct (or_stage_produced _ depth _ _ _ _ _ H2) as [_ Hr]. destruct r2 as [r|]; [|exact I].
        intros ->. destruct Hr as (a & Hin & E). eapply Hprod; [apply throwing_with_flags; exact Ho|exact Hin|exact E].
      - injection H2 as _ <-. exact I. }
    destruct r2 as [r|]; [injection H as _ <-; apply Hst2; reflexivity|].
    apply mbind_ok in H. destruct H as (s3 & r3 & H3 & H).
    destruct (or_stage_produced _ depth _ _ _ _ _ H3) as [_ Hr].
    destruct r3 as [r|].
    { injection H as _ <-. destruct Hr as (a & Hin & E). eapply Hprod; [exact Ho|exact Hin|exact E]. }
    apply mbind_ok in H. destruct H as (s4 & [] & Hre & H). injection H as _ <-.
    apply raise_error_ok in Hre. destruct Hre as (-> & _ & Htmp).
    destruct Hr as [->|Hr]; [discriminate Hne|contradiction].
  - (* ^ *)
    apply andb_prop in Hst. destruct Hst as [Hne Harms].
    cbn [logical_parse] in H.
    destruct (existsb (fun con => exact_type con v) args) eqn:Ex.
    { injection H as _ <-. exact Ex. }
    apply mbind_ok in H. destruct H as (s1 & [v' xor] & Hx & H).
    apply mbind_ok in H. destruct H as (s2 & [] & Hc & H).
    apply mbind_ok in H. destruct H as (s3 & [] & Hr & H). injection H as _ <-.
    apply raise_error_ok in Hr. destruct Hr as (-> & He & Htmp).
    destruct (xor_loop_produced o depth args _ _ _ _ _ _ _ _ (incl_refl _) Hx) as (G & Ht & Hb & Hf);
      [intros Hf; discriminate|].
    destruct xor.
    + destruct (Hb eq_refl) as (con & Hin & E).
      rewrite forallb_forall in Harms. pose proof (Harms con Hin) as Ha.
      destruct (enter_typed o depth con v v' Ho (exact_arm_stable con Ha) E) as [_ [Hex _]].
      apply existsb_exists. exists con. split; [exact Hin|exact (Hex Ha)].
    + exfalso. injection Hc as <-. destruct (Hf eq_refl) as [_ Hf2].
      destruct (Hf2 eq_refl) as [->|[Hn|Hn]]; [discriminate Hne|contradiction|].
      apply Hn. rewrite He. symmetry. eapply grows_nil; eassumption.
Qed.

Lemma transform_step_typed : typed_tr (transform_step re D tr).
Proof.
  intros o depth t v s s' w Ho Hst H. destruct t as [|p|origin args ell vals ct mn mx|op args|c]; cbn [transform_step] in *.
  - split; [reflexivity|]. split; discriminate.
  - unfold lift in H. injection H as _ H. split; [cbn [typed]; apply negb_true_iff; eapply conv_prim_noleak; exact H|]. split.
    + intros Ha. cbn [exact_type]. eapply conv_prim_exact; eassumption.
    + intros E. injection E as ->. intros ->.
      assert (Hx : prim_isinstance TDict PNone = true) by (eapply conv_prim_sound; [exact H|reflexivity]).
      discriminate Hx.
  - split; [eapply rule_parse_typed; eassumption|]. split; discriminate.
  - split; [eapply logical_parse_typed; eassumption|]. split; discriminate.
  - split; [reflexivity|]. split; [|discriminate]. intros _.
    assert (Hw : exists kvs, w = PInst c kvs).
    { destruct v; try (unfold lift in H; injection H as _ H; eapply transform_dataclass_inst; exact H).
      destruct (Nat.eqb c c0) eqn:Ec.
      - injection H as _ <-. apply Nat.eqb_eq in Ec. subst. eauto.
      - unfold lift in H; injection H as _ H; eapply transform_dataclass_inst; exact H. }
    destruct Hw as (kvs & ->). cbn [exact_type]. apply Nat.eqb_refl.
Qed.

End Typed.

Theorem transform_typed fuel : typed_tr (transform re D fuel).
Proof.
  induction fuel as [|f IH].
  - intros o depth t v s s' w _ _ H. discriminate H.
  - exact (transform_step_typed (transform re D f) IH).
Qed.

Theorem transform_fixed fuel : fixed_tr (transform re D fuel) /\ prim_tr (transform re D fuel).
Proof.
  induction fuel as [|f [IH1 IH2]].
  - split.
    + intros o depth t v s s' w _ _ H. discriminate H.
    + intros o depth p x s s' y v s2 H. discriminate H.
  - split.
    + exact (transform_step_fixed (transform re D f) IH1 IH2).
    + exact (transform_step_prim (transform re D f)).
Qed.

(* through the public entry point T(value) of a constrained or logical type *)
Theorem call_type_fixed fuel o t v w : throwing o -> stable t = true ->
  call_type re D fuel o t v = Ok w -> typed t w = true -> call_type re D fuel o t w = Ok w.
Proof.
  intros Ho Hst H Hty. unfold call_type in *.
  destruct t; try discriminate H;
  (destruct (depth_check o 1); try discriminate H; cbn [bind] in *;
   unfold in_fresh in *;
   destruct (transform re D fuel o 1 _ v no_errs) as [s1 r] eqn:E; cbn [snd] in H; subst r;
   rewrite (proj1 (transform_fixed fuel) _ _ _ _ _ _ _ Ho Hst E Hty no_errs clean_no_errs); reflexivity).
Qed.
(* the two halves together *)
Theorem transform_reparse fuel o depth t v s s' w : throwing o -> stable t = true ->
  transform re D fuel o depth t v s = (s', Ok w) ->
  forall s2, clean s2 -> transform re D fuel o depth t w s2 = (s2, Ok w).
Proof.
  intros Ho Hst H. apply (proj1 (transform_fixed fuel) _ _ _ _ _ _ _ Ho Hst H).
  apply (transform_typed fuel _ _ _ _ _ _ _ Ho Hst H).
Qed.

Theorem call_type_reparse fuel o t v w : throwing o -> stable t = true ->
  call_type re D fuel o t v = Ok w -> call_type re D fuel o t w = Ok w.
Proof.
  intros Ho Hst H. eapply call_type_fixed; try eassumption.
  unfold call_type in H.
  destruct t; try discriminate H;
  (destruct (depth_check o 1); try discriminate H; cbn [bind] in *;
   unfold in_fresh in *;
   destruct (transform re D fuel o 1 _ v no_errs) as [s1 r] eqn:E; cbn [snd] in H; subst r;
   apply (transform_typed fuel _ _ _ _ _ _ _ Ho Hst E)).
Qed.

Theorem type_transform_reparse fuel o t v w : throwing o -> stable t = true ->
  type_transform re D fuel o t v = Ok w -> type_transform re D fuel o t w = Ok w.
Proof.
  intros Ho Hst H. unfold type_transform in *.
  destruct (depth_check o 1); try discriminate H; cbn [bind] in *;
  unfold in_fresh in *;
  (destruct (transform re D fuel o 1 t v no_errs) as [s1 r] eqn:E; cbn [snd] in H; subst r;
   rewrite (transform_reparse fuel _ _ _ _ _ _ _ Ho Hst E no_errs clean_no_errs); reflexivity).
Qed.

Lemma throwing_b_spec o : throwing_b o = true -> throwing o.
Proof.
  unfold throwing_b, throwing, is_throw. intros H.
  apply andb_prop in H. destruct H as [H H3]. apply andb_prop in H. destruct H as [H1 H2].
  destruct (o_invalid_items o), (o_invalid_keys o), (o_invalid_values o); try discriminate; auto.
Qed.
End Idem.
