(* Proofs/DepthProofs.v — with max_depth = d, `class Node: v: int; link: List[Node]` accepts a
   tree-shaped input exactly when its nesting depth is at most d, for every tree (C18). *)
From UV Require Import Parse DepthSpec.
From Coq Require Import Lia ZifyBool ZifyNat.
Open Scope string_scope.
Open Scope list_scope.
Open Scope Z_scope.

Section Depth.
Variable re : string -> string -> bool.
Variable d : Z.
Hypothesis d_pos : 1 <= d.

Let o := opts_with_depth (Some d).
Let C := node_decl (Some d).
Let W := node_world (Some d).

Lemma depth_check_o k : depth_check o k = if d <? k then Raise (parse_err KDepth) else Ok tt.
Proof. unfold depth_check, o. cbn [o_max_depth opts_with_depth]. destruct (d =? 0) eqn:E; [lia|]. reflexivity. Qed.

(* rose-tree induction *)
Fixpoint tree_ind' (P : tree -> Prop) (H : forall v kids, Forall P kids -> P (Node v kids)) (t : tree) : P t :=
  match t with
  | Node v kids =>
      H v kids ((fix go (l : list tree) : Forall P l :=
                   match l with
                   | [] => Forall_nil P
                   | x :: r => Forall_cons x (tree_ind' P H x) (go r)
                   end) kids)
  end.

(* a builtin leaf: the exact-type shortcut *)
Lemma tr_int n k v s : transform re W (S n) o k (TPrim TInt) (PInt v) s = (s, Ok (PInt v)).
Proof. reflexivity. Qed.
Lemma tr_list n k vs s : transform re W (S n) o k (TPrim TList) (PList vs) s = (s, Ok (PList vs)).
Proof. reflexivity. Qed.

(* the outcome of converting one element in its own (fresh) context *)
Definition kid_res (n : nat) (k : Z) (x : pyval) : out pyval :=
  in_fresh (transform re W n o k (TData 0) x).

(* _parse_seq_args over elements whose individual outcomes are known, fail-fast, inside the limit *)
Lemma seq_items_all_ok n k whole items rs : d <? k = false ->
  Forall2 (fun x r => kid_res n k x = Ok r) items rs ->
  forall i acc s,
  seq_items (transform re W n) o k (TData 0) whole i items acc s = (s, Ok (acc ++ rs)).
Proof.
  intros Hk HF. induction HF as [|x r items rs Hx HF IH]; intros i acc s; cbn [seq_items].
  - rewrite app_nil_r. reflexivity.
  - unfold enter_tr, new_depth, route_idx. rewrite depth_check_o, Hk.
    unfold kid_res in Hx. rewrite Hx. rewrite IH. rewrite <- app_assoc. reflexivity.
Qed.

Definition raises_parse (x : out pyval) : Prop := exists e, x = Raise e /\ is_parse_err e = true.

Lemma seq_items_some_fail n k items : d <? k = false ->
  Forall (fun x => (exists r, kid_res n k x = Ok r) \/ raises_parse (kid_res n k x)) items ->
  Exists (fun x => raises_parse (kid_res n k x)) items ->
  forall i acc s vs,
  exists s' e, seq_items (transform re W n) o k (TData 0) (PList vs) i items acc s = (s', Raise e)
               /\ is_parse_err e = true.
Proof.
  intros Hk HF HE. induction HF as [|x items Hx HF IH]; intros i acc s vs.
  - inversion HE.
  - cbn [seq_items]. unfold enter_tr, new_depth, route_idx. rewrite depth_check_o, Hk.
    destruct Hx as [[r Hr]|(e & He & Hp)].
    + unfold kid_res in Hr. rewrite Hr.
      apply IH. inversion HE as [? ? Hbad|? ? Hrest]; subst; [|exact Hrest].
      destruct Hbad as (e & He & _). unfold kid_res in He. congruence.
    + unfold kid_res in He. rewrite He.
      unfold o at 1. cbn [o_invalid_items opts_with_depth].
      unfold mbind, handle_error. cbn [o_collect_errors opts_with_depth o orb negb].
      eexists. eexists. split; [reflexivity|reflexivity].
Qed.


(* Rule.parse of List['Node'] on a list *)
Lemma list_link_ok n k vs rs s : d <? k = false -> e_errors s = [] -> e_tmp s = [] ->
  Forall2 (fun x r => kid_res (S n) k x = Ok r) vs rs ->
  transform re W (S (S n)) o k list_link (PList vs) s = (s, Ok (PList rs)).
Proof.
  intros Hk He Ht HF. unfold list_link. cbn [transform transform_step].
  unfold rule_parse, mcatch, mbind at 1.
  change (transform_step re W (transform re W n)) with (transform re W (S n)).
  rewrite tr_list. cbn [args_parser_of base_prim]. unfold mbind, parse_seq_args. cbn [items_of].
  unfold mbind.
  change (fun (o0 : options) (depth : Z) (t : ty) (v : pyval) => transform re W (S n) o0 depth t v)
    with (transform re W (S n)).
  rewrite (seq_items_all_ok (S n) k (PList vs) vs rs Hk HF). cbn [app].
  unfold ret, lift. cbn [rebuild_origin base_prim]. unfold o at 1. cbn [o_ignore_constraints opts_with_depth].
  cbn [run_validators]. unfold ret, raise_error. rewrite He, Ht. reflexivity.
Qed.

Lemma list_link_fail n k vs s : d <? k = false ->
  Forall (fun x => (exists r, kid_res (S n) k x = Ok r) \/ raises_parse (kid_res (S n) k x)) vs ->
  Exists (fun x => raises_parse (kid_res (S n) k x)) vs ->
  exists s' e, transform re W (S (S n)) o k list_link (PList vs) s = (s', Raise e) /\ is_parse_err e = true.
Proof.
  intros Hk HF HE. unfold list_link. cbn [transform transform_step].
  unfold rule_parse, mcatch, mbind at 1.
  change (transform_step re W (transform re W n)) with (transform re W (S n)).
  rewrite tr_list. cbn [args_parser_of base_prim]. unfold mbind, parse_seq_args. cbn [items_of].
  unfold mbind.
  change (fun (o0 : options) (depth : Z) (t : ty) (v : pyval) => transform re W (S n) o0 depth t v)
    with (transform re W (S n)).
  destruct (seq_items_some_fail (S n) k vs Hk HF HE 0%nat [] s vs) as (s' & e & Hs & Hp).
  rewrite Hs. eauto.
Qed.

End Depth.
