(* Proofs/Monad.v — generic facts about the error-collecting state monad of Model/Ctx.v. *)
From UV Require Import Parse.
From Coq Require Import Lia.
Open Scope string_scope.
Open Scope list_scope.
Open Scope Z_scope.

Lemma mbind_ok {A B} (m : M A) (f : A -> M B) s s' b :
  mbind m f s = (s', Ok b) -> exists s1 a, m s = (s1, Ok a) /\ f a s1 = (s', Ok b).
Proof.
  unfold mbind. destruct (m s) as [s1 [a|e| | |]]; intros H; try discriminate. eauto.
Qed.

Lemma mbind_inv {A B} (m : M A) (f : A -> M B) s s' r :
  mbind m f s = (s', r) ->
  (exists s1 a, m s = (s1, Ok a) /\ f a s1 = (s', r)) \/
  (m s = (s', Raise match r with Raise e => e | _ => parse_err KType end) /\ exists e, r = Raise e) \/
  (m s = (s', Diverge) /\ r = Diverge) \/ (m s = (s', OutOfFuel) /\ r = OutOfFuel) \/
  (m s = (s', Unmodelled) /\ r = Unmodelled).
Proof.
  unfold mbind. destruct (m s) as [s1 [a|e| | |]]; intros H.
  - left. eauto.
  - injection H as <- <-. right; left. eauto.
  - injection H as <- <-. auto.
  - injection H as <- <-. auto 6.
  - injection H as <- <-. auto 6.
Qed.

(* the recorded errors only ever grow *)
Definition grows (s s' : errs) : Prop := exists extra, e_errors s' = e_errors s ++ extra.
Lemma grows_refl s : grows s s.
Proof. exists []. rewrite app_nil_r. reflexivity. Qed.
Lemma grows_trans a b c : grows a b -> grows b c -> grows a c.
Proof. intros [x Hx] [y Hy]. exists (x ++ y). rewrite Hy, Hx, app_assoc. reflexivity. Qed.
Lemma grows_nil s s' : grows s s' -> e_errors s' = [] -> e_errors s = [].
Proof. intros [x Hx] H. rewrite H in Hx. symmetry in Hx. apply app_eq_nil in Hx. tauto. Qed.
Lemma grows_same s s' : grows s s' -> e_errors s' = [] -> e_errors s' = e_errors s.
Proof. intros G H. rewrite (grows_nil _ _ G H). exact H. Qed.

Lemma handle_error_grows o e fr s s' r : handle_error o e fr s = (s', r) -> grows s s'.
Proof.
  unfold handle_error. intros H.
  assert (s' = {| e_errors := e_errors s ++ [e]; e_tmp := e_tmp s |}).
  { destruct (fr || negb (o_collect_errors o)); [injection H; auto|].
    destruct (o_max_errors o) as [m|]; [destruct (m <=? _)|]; injection H; auto. }
  subst. exists [e]. reflexivity.
Qed.
Lemma handle_error_ok_adds o e fr s s' : handle_error o e fr s = (s', Ok tt) -> e_errors s' = e_errors s ++ [e].
Proof.
  unfold handle_error.
  destruct (fr || negb (o_collect_errors o)); [discriminate|].
  destruct (o_max_errors o) as [m|]; [destruct (m <=? _); [discriminate|]|]; intros H; injection H as <-; reflexivity.
Qed.
(* a handled error can never be followed by a clean error list *)
Lemma handle_error_poisons o e fr s s' r s2 :
  handle_error o e fr s = (s', r) -> grows s' s2 -> e_errors s2 = [] -> False.
Proof.
  intros H G Hn. apply grows_nil in G; [|exact Hn].
  unfold handle_error in H.
  assert (e_errors s' = e_errors s ++ [e]).
  { destruct (fr || negb (o_collect_errors o)); [injection H as <- _; reflexivity|].
    destruct (o_max_errors o) as [m|]; [destruct (m <=? _)|]; injection H as <- _; reflexivity. }
  rewrite G in H0. destruct (e_errors s); discriminate.
Qed.

Lemma raise_error_ok s s' : raise_error s = (s', Ok tt) -> s' = s /\ e_errors s = [] /\ e_tmp s = [].
Proof.
  unfold raise_error. destruct (e_errors s) eqn:E1; destruct (e_tmp s) eqn:E2; intros H; try discriminate.
  injection H as <-. auto.
Qed.
Lemma raise_error_state s s' r : raise_error s = (s', r) -> s' = s.
Proof. unfold raise_error. destruct (e_errors s); destruct (e_tmp s); intros H; injection H; auto. Qed.
Lemma raise_error_raises s s' e : raise_error s = (s', Raise e) -> is_parse_err e = true.
Proof. unfold raise_error. destruct (e_errors s); destruct (e_tmp s); intros H; try discriminate; injection H as _ <-; reflexivity. Qed.

Lemma handle_error_raises o e fr s s' e' :
  is_parse_err e = true -> handle_error o e fr s = (s', Raise e') -> is_parse_err e' = true.
Proof.
  unfold handle_error. intros He.
  destruct (fr || negb (o_collect_errors o)); [intros H; injection H as _ <-; exact He|].
  destruct (o_max_errors o) as [m|]; [destruct (m <=? _)|]; intros H; try discriminate.
  injection H as _ <-. reflexivity.
Qed.

Lemma collect_tmp_errors e s s' r : collect_tmp_error e s = (s', r) -> e_errors s' = e_errors s /\ r = Ok tt.
Proof. unfold collect_tmp_error. intros H; injection H as <- <-. auto. Qed.
Lemma clear_tmp_errors s s' r : clear_tmp_error s = (s', r) -> e_errors s' = e_errors s /\ r = Ok tt.
Proof. unfold clear_tmp_error. intros H; injection H as <- <-. auto. Qed.
