(* Proofs/FlagProofs.v — C12: no_explicit_cast / no_data_loss only restrict, and keep their promises
   (Model/Conv.v: the converters for the builtin targets). *)
From UV Require Import Parse ConvProofs.
From Coq Require Import Lia.
Open Scope string_scope.
Open Scope list_scope.
Open Scope Z_scope.

(* same class and == *)
Definition same_val (w w' : pyval) : Prop := py_eq w w' = true /\ kind_eqb (kind_of w) (kind_of w') = true.
(* the lenient run may leave the modelled part of Python (then nothing is claimed) *)
Definition ok_or_unmodelled (x : out pyval) (w : pyval) : Prop :=
  x = Unmodelled \/ x = Ok w \/ exists w', x = Ok w' /\ same_val w w'.

Lemma same_val_refl_kind w : py_eq w w = true -> same_val w w.
Proof. intros H. split; [exact H|]. destruct (kind_of w); cbn; auto using Nat.eqb_refl. Qed.

(* ---- no_data_loss only restricts ---- *)
Lemma attempt_from_ndl nec v w : attempt_from nec true v = Ok w -> attempt_from nec false v = Ok w.
Proof. unfold attempt_from. destruct nec; [auto|]. destruct v; auto; destruct xs as [|x [|y r]]; cbn; auto; discriminate. Qed.

Lemma attempt_from_number_ndl nec v w : attempt_from_number nec true v = Ok w -> attempt_from_number nec false v = Ok w.
Proof.
  unfold attempt_from_number. destruct (attempt_from nec true v) eqn:E; cbn [bind]; try discriminate.
  rewrite (attempt_from_ndl _ _ _ E). cbn [bind]. auto.
Qed.

(* follow the successful strict run through the lenient one *)
Ltac follow H :=
  repeat match type of H with
  | bind ?x _ = Ok _ =>
      let E := fresh "E" in destruct x eqn:E; cbn [bind] in H; try discriminate H;
      try rewrite (attempt_from_ndl _ _ _ E); try rewrite (attempt_from_number_ndl _ _ _ E); cbn [bind]
  | (if ?b then _ else _) = Ok _ => let E := fresh "E" in destruct b eqn:E; try discriminate H
  | (match ?x with _ => _ end) = Ok _ => let E := fresh "E" in destruct x eqn:E; try discriminate H
  | raise_type = Ok _ => discriminate H
  | raise_value = Ok _ => discriminate H
  end.

Lemma to_integer_ndl nec v w : to_integer nec true v = Ok w -> to_integer nec false v = Ok w.
Proof.
  unfold to_integer. intros H. destruct v; try exact H; destruct nec; cbn [andb] in *; follow H; try exact H; try discriminate.
Qed.

Lemma to_bool_ndl nec v w : to_bool nec true v = Ok w -> to_bool nec false v = Ok w.
Proof. unfold to_bool. intros H. destruct v; try exact H; follow H; try exact H; try discriminate. Qed.
Lemma to_str_ndl nec v w : to_str nec true v = Ok w -> to_str nec false v = Ok w.
Proof. unfold to_str. intros H. destruct v; try exact H; follow H; try exact H; try discriminate. Qed.
Lemma to_bytes_ndl nec v w : to_bytes nec true v = Ok w -> to_bytes nec false v = Ok w.
Proof. unfold to_bytes. intros H. follow H; try exact H; try discriminate. Qed.
Lemma to_float_ndl nec v w : to_float nec true v = Ok w -> to_float nec false v = Ok w.
Proof. unfold to_float. intros H. destruct v; try exact H; destruct nec; follow H; try exact H; try discriminate. Qed.
Lemma to_decimal_ndl nec v w : to_decimal nec true v = Ok w -> to_decimal nec false v = Ok w.
Proof. unfold to_decimal. intros H. destruct v; try exact H; destruct nec; follow H; try exact H; try discriminate. Qed.
Lemma to_array_ndl nec a v w : to_array nec true a v = Ok w -> to_array nec false a v = Ok w.
Proof.
  unfold to_array. intros H. destruct (arr_is a v); [exact H|].
  destruct v; try exact H; destruct nec; cbn [andb] in *; follow H; try exact H; try discriminate.
Qed.

(* every builtin target: what converts under no_data_loss converts identically without it *)
Theorem conv_prim_ndl_restricts nec u p v w :
  conv_prim nec true u p v = Ok w -> conv_prim nec false u p v = Ok w.
Proof.
  unfold conv_prim. destruct (prim_exact p v); [auto|]. destruct p; auto using to_bool_ndl, to_integer_ndl,
    to_float_ndl, to_decimal_ndl, to_str_ndl, to_bytes_ndl, to_array_ndl.
Qed.

(* ---- no_explicit_cast only restricts ---- *)
Ltac ok_same := right; eexists; split; [reflexivity|apply same_val_refl_kind; reflexivity].

Lemma to_null_nec v w : to_null true v = Ok w -> to_null false v = Ok w.
Proof. unfold to_null. destruct v; auto; discriminate. Qed.

Lemma to_bool_nec ndl v w : to_bool true ndl v = Ok w -> to_bool false ndl v = Ok w.
Proof. unfold to_bool. intros H. destruct v; try exact H; follow H; try exact H; try discriminate. Qed.

Lemma to_str_nec ndl v w : to_str true ndl v = Ok w -> to_str false ndl v = Ok w.
Proof.
  unfold to_str. intros H. destruct v; try exact H; cbn [attempt_from bind from_byte_like is_str andb negb] in *; try discriminate H; exact H.
Qed.

Lemma to_bytes_nec ndl v w : to_bytes true ndl v = Ok w -> to_bytes false ndl v = Ok w.
Proof.
  unfold to_bytes. intros H. destruct v; cbn [attempt_from bind] in *; try discriminate H; try exact H.
Qed.

Lemma to_array_nec ndl a v w : to_array true ndl a v = Ok w -> to_array false ndl a v = Ok w.
Proof.
  unfold to_array. intros H. destruct (arr_is a v); [exact H|]. destruct v; try exact H; discriminate H.
Qed.

Lemma to_dict_nec v w : to_dict true v = Ok w -> to_dict false v = Ok w.
Proof. unfold to_dict. destruct v; auto; discriminate. Qed.

Lemma truthy_flt_zero e : truthy (PFlt (FFin 0 e)) = false.
Proof. reflexivity. Qed.
Lemma truthy_dec_zero s e : truthy (PDec (DFin s 0 e)) = false.
Proof. destruct s; reflexivity. Qed.

Lemma to_integer_nec ndl v w : to_integer true ndl v = Ok w -> to_integer false ndl v = Ok w.
Proof.
  unfold to_integer. intros H. destruct v; try exact H; cbn [is_float is_decimal orb bind] in H; try discriminate H.
  - (* float *)
    unfold attempt_from_number. cbn [attempt_from bind from_byte_like].
    destruct (truthy (PFlt f)) eqn:T; cbn [negb bind]; [exact H|].
    destruct f as [| |m e]; try discriminate T. cbn in T.
    destruct (m =? 0) eqn:Em; [|discriminate T]. apply Z.eqb_eq in Em. subst m.
    cbn [decimal_for_int bind dec_of_flt] in H.
    destruct (0 <=? e); cbn in H; destruct ndl; cbn in H;
      repeat match type of H with
      | (if ?b then _ else _) = Ok _ => destruct b; try discriminate H
      | raise_type = Ok _ => discriminate H
      end; try exact H.
  - (* Decimal *)
    unfold attempt_from_number. cbn [attempt_from bind from_byte_like].
    destruct (truthy (PDec d)) eqn:T; cbn [negb bind]; [exact H|].
    destruct d as [| |s c e]; try discriminate T. cbn in T.
    assert (c = 0%N) as -> by (destruct s; cbn in T; destruct c; try reflexivity; discriminate T).
    cbn [decimal_for_int bind] in H. destruct ndl; cbn [andb negb] in H.
    + destruct (e =? 0); [|discriminate H]. cbn [negb] in H. unfold int_of_dec in H.
      destruct (5000 <? e); [discriminate H|]. injection H as <-. destruct s; reflexivity.
    + unfold int_of_dec in H. destruct (5000 <? e); [discriminate H|]. injection H as <-. destruct s; reflexivity.
Qed.

Lemma to_float_nec ndl v w : to_float true ndl v = Ok w -> to_float false ndl v = Ok w.
Proof.
  unfold to_float. intros H. destruct v; try exact H; cbn [is_int is_decimal orb bind] in H; try discriminate H;
    unfold attempt_from_number; cbn [attempt_from bind from_byte_like].
  - destruct b; cbn; exact H.
  - destruct z; cbn; exact H.
  - destruct (truthy (PDec d)) eqn:T; cbn [negb bind]; [exact H|].
    destruct d as [| |s c e]; try discriminate T. cbn in T.
    assert (c = 0%N) as -> by (destruct s; cbn in T; destruct c; try reflexivity; discriminate T).
    cbn in H. destruct s; [discriminate H|]. exact H.
Qed.

(* Decimal: the lenient run may spell a zero differently (Decimal('0') for 0.0): equal value, same class *)
Lemma to_decimal_nec ndl v w : to_decimal true ndl v = Ok w -> ok_or_unmodelled (to_decimal false ndl v) w.
Proof.
  unfold to_decimal. intros H.
  destruct v; try (right; left; exact H);
    cbn [from_byte_like is_int is_float is_str is_decimal orb bind] in H; try discriminate H;
    unfold attempt_from_number; cbn [attempt_from bind from_byte_like].
  - (* bool: 'True' / 'False' are not numbers *) destruct b; vm_compute in H; discriminate H.
  - (* int *) destruct z; cbn; right; left; exact H.
  - (* float *)
    destruct (truthy (PFlt f)) eqn:T; cbn [negb bind]; [right; left; exact H|].
    destruct f as [| |m e]; try discriminate T. cbn in T.
    destruct (m =? 0) eqn:Em; [|discriminate T]. apply Z.eqb_eq in Em. subst m.
    cbn [py_str flt_to_string bind] in H. destruct (0 <=? e); [|discriminate H].
    vm_compute in H. injection H as <-. right; right. eexists. split; [vm_compute; reflexivity|]. split; reflexivity.
  - (* str *)
    destruct (truthy (PStr s)) eqn:T; cbn [negb bind]; [right; left; exact H|].
    cbn in T. destruct (String.eqb s "") eqn:Es; [|discriminate T]. apply String.eqb_eq in Es. subst s.
    vm_compute in H. discriminate H.
  - (* bytes *)
    destruct (truthy (PStr s)) eqn:T; cbn [negb bind]; [right; left; exact H|].
    cbn in T. destruct (String.eqb s "") eqn:Es; [|discriminate T]. apply String.eqb_eq in Es. subst s.
    vm_compute in H. discriminate H.
Qed.

(* every builtin target: what converts under no_explicit_cast also converts without it, to the same value
   (for Decimal possibly to an equal Decimal of another spelling) *)
Theorem conv_prim_nec_restricts ndl u p v w :
  conv_prim true ndl u p v = Ok w -> ok_or_unmodelled (conv_prim false ndl u p v) w.
Proof.
  unfold conv_prim. destruct (prim_exact p v); [intros H; right; left; exact H|]. destruct p;
    try (intros H; right; left; eauto using to_null_nec, to_bool_nec, to_integer_nec, to_float_nec,
           to_str_nec, to_bytes_nec, to_array_nec, to_dict_nec; fail).
  apply to_decimal_nec.
Qed.

(* ---- what no_data_loss promises ---- *)
(* a number becomes an int only with its value preserved (so: no fractional part, finite) *)
Lemma trunc_fin_int z : trunc_fin z 0 0 = z.
Proof. unfold trunc_fin. cbn. rewrite !Z.mul_1_r. apply Z.quot_1_r. Qed.

Lemma flt_int_tail m e w :
  (if true && negb (match dec_of_flt (FFin m e) with DFin _ _ e' => e' =? 0 | _ => false end)
   then raise_type else int_of_dec (dec_of_flt (FFin m e))) = Ok w ->
  py_eq (PFlt (FFin m e)) w = true.
Proof.
  cbn [dec_of_flt andb]. destruct (0 <=? e) eqn:Ee; cbn [negb].
  - cbn. intros H. injection H as <-. cbn [py_eq num_of num_cmp]. unfold fin_cmp.
    apply Z.leb_le in Ee. rewrite (Z.min_r e 0) by lia.
    change (Z.min 0 0) with 0. rewrite !Z.sub_0_r. change (2 ^ 0) with 1. change (10 ^ 0) with 1.
    rewrite trunc_fin_int. unfold dec_sign_z.
    rewrite Z2N.id by (apply Z.mul_nonneg_nonneg; [lia|apply Z.pow_nonneg; lia]).
    destruct (m <? 0) eqn:Em.
    + apply Z.ltb_lt in Em. replace (- (Z.abs m * 2 ^ e)) with (m * 2 ^ e) by lia. rewrite !Z.mul_1_r, Z.compare_refl. reflexivity.
    + apply Z.ltb_ge in Em. replace (Z.abs m * 2 ^ e) with (m * 2 ^ e) by lia. rewrite !Z.mul_1_r, Z.compare_refl. reflexivity.
  - destruct (e =? 0) eqn:E0; [apply Z.eqb_eq in E0; apply Z.leb_gt in Ee; lia|]. cbn. discriminate.
Qed.

Lemma ndl_int_float nec m e w : to_integer nec true (PFlt (FFin m e)) = Ok w -> py_eq (PFlt (FFin m e)) w = true.
Proof.
  unfold to_integer. destruct nec; cbn [is_float is_decimal orb bind decimal_for_int].
  - apply flt_int_tail.
  - unfold attempt_from_number. cbn [attempt_from bind from_byte_like].
    destruct (truthy (PFlt (FFin m e))) eqn:T; cbn [negb bind decimal_for_int].
    + apply flt_int_tail.
    + cbn in T. destruct (m =? 0) eqn:Em; [|discriminate T]. apply Z.eqb_eq in Em. subst m.
      intros H. injection H as <-. reflexivity.
Qed.

Lemma dec_int_tail s c e w :
  (if true && negb (e =? 0) then raise_type else int_of_dec (DFin s c e)) = Ok w ->
  py_eq (PDec (DFin s c e)) w = true.
Proof.
  cbn [andb]. destruct (e =? 0) eqn:E0; cbn [negb]; [|discriminate]. apply Z.eqb_eq in E0. subst e.
  cbn. intros H. injection H as <-. rewrite trunc_fin_int.
  cbn [py_eq num_of num_cmp]. unfold fin_cmp, dec_sign_z. cbn. rewrite !Z.mul_1_r, Z.compare_refl. reflexivity.
Qed.

Lemma ndl_int_decimal nec s c e w : to_integer nec true (PDec (DFin s c e)) = Ok w -> py_eq (PDec (DFin s c e)) w = true.
Proof.
  unfold to_integer. destruct nec; cbn [is_float is_decimal orb bind decimal_for_int].
  - apply dec_int_tail.
  - unfold attempt_from_number. cbn [attempt_from bind from_byte_like].
    destruct (truthy (PDec (DFin s c e))) eqn:T; cbn [negb bind decimal_for_int].
    + apply dec_int_tail.
    + assert (c = 0%N) as -> by (destruct s; cbn in T; destruct c; try reflexivity; discriminate T).
      intros H. injection H as <-. cbn [py_eq num_of num_cmp]. unfold fin_cmp.
      destruct s; cbn; destruct (Z.min 0 e); reflexivity.
Qed.

(* only unambiguous booleans become bool *)
Definition unambiguous_bool (v : pyval) : Prop :=
  is_bool v = true \/ py_eq v (PInt 1) = true \/ py_eq v (PInt 0) = true \/
  exists s, (v = PStr s \/ v = PBytes s) /\ (str_in (str_lower s) FALSE_VALUES = true \/ str_in (str_lower s) TRUE_VALUES = true).
Lemma ndl_bool nec v w : to_bool nec true v = Ok w -> unambiguous_bool v.
Proof.
  unfold to_bool, unambiguous_bool. intros H.
  destruct v; try (left; reflexivity);
    (destruct (py_eq _ (PInt 1)) eqn:E1; [auto|]; destruct (py_eq _ (PInt 0)) eqn:E0; [auto|];
     destruct nec; try discriminate H;
     repeat match type of H with
     | (if ?b then _ else _) = Ok _ => let E := fresh "E" in destruct b eqn:E; try discriminate H
     | raise_type = Ok _ => discriminate H
     end; try (right; right; right; eexists; split; [eauto|auto])).
Qed.

(* a collection of several elements never collapses to a scalar *)
Lemma ndl_no_collapse x y r :
  attempt_from false true (PList (x :: y :: r)) = raise_type /\ attempt_from false true (PTuple (x :: y :: r)) = raise_type /\
  attempt_from false true (PSet (x :: y :: r)) = raise_type /\ attempt_from false true (PFrozen (x :: y :: r)) = raise_type.
Proof. repeat split. Qed.

(* ---- what no_explicit_cast promises: conversions stay inside the primitive group ---- *)
Inductive group := GNull | GBool | GNumber | GString | GArray | GObject | GOther.
Definition vgroup (v : pyval) : group :=
  match v with
  | PNone => GNull | PBool _ => GBool | PInt _ | PFlt _ | PDec _ => GNumber | PStr _ | PBytes _ => GString
  | PList _ | PTuple _ | PSet _ | PFrozen _ => GArray | PDict _ | PInst _ _ => GObject | _ => GOther
  end.
Definition pgroup (p : prim) : group :=
  match p with
  | TNone => GNull | TBool => GBool | TInt | TFloat | TDecimal => GNumber | TStr | TBytes => GString
  | TList | TTuple | TSet | TFrozen => GArray | TDict => GObject | TOpaque _ => GOther
  end.
(* booleans are also the numbers 0 / 1 (bool is a subclass of int); Decimal from str is the documented exception *)
Definition nec_allowed (p : prim) (v : pyval) : Prop :=
  vgroup v = pgroup p \/ (vgroup v = GBool /\ pgroup p = GNumber) \/
  (vgroup v = GNumber /\ p = TBool /\ (py_eq v (PInt 1) = true \/ py_eq v (PInt 0) = true)) \/
  (p = TDecimal /\ vgroup v = GString) \/ (exists c, p = TOpaque c).

Theorem nec_same_group ndl u p v w : conv_prim true ndl u p v = Ok w -> nec_allowed p v.
Proof.
  unfold conv_prim, nec_allowed. destruct (prim_exact p v) eqn:Ex.
  - intros _. destruct p, v; cbn in Ex; try discriminate; eauto.
  - destruct p; intros H; try (right; right; right; right; eauto; fail).
    + unfold to_null in H. destruct v; try discriminate H. cbn in Ex. discriminate Ex.
    + unfold to_bool in H. destruct v; cbn [vgroup pgroup]; auto; try (cbn in H; discriminate H);
        (destruct (py_eq _ (PInt 1)) eqn:E1; [right; right; left; auto|];
         destruct (py_eq _ (PInt 0)) eqn:E0; [right; right; left; auto|]; discriminate H).
    + unfold to_integer in H. destruct v; cbn [vgroup pgroup is_float is_decimal orb bind] in *; auto; discriminate H.
    + unfold to_float in H. destruct v; cbn [vgroup pgroup is_int is_decimal orb bind] in *; auto; discriminate H.
    + unfold to_decimal in H. destruct v; cbn [vgroup pgroup from_byte_like is_int is_float is_str is_decimal orb bind] in *; auto 6; try discriminate H.
    + unfold to_str in H. destruct v; cbn [vgroup pgroup attempt_from bind from_byte_like is_str andb negb] in *; auto; discriminate H.
    + unfold to_bytes in H. destruct v; cbn [vgroup pgroup attempt_from bind] in *; auto; discriminate H.
    + unfold to_array in H. destruct v; cbn [arr_is] in H; cbn [vgroup pgroup]; auto; discriminate H.
    + unfold to_array in H. destruct v; cbn [arr_is] in H; cbn [vgroup pgroup]; auto; discriminate H.
    + unfold to_array in H. destruct v; cbn [arr_is] in H; cbn [vgroup pgroup]; auto; discriminate H.
    + unfold to_array in H. destruct v; cbn [arr_is] in H; cbn [vgroup pgroup]; auto; discriminate H.
    + unfold to_dict in H. destruct v; cbn [vgroup pgroup]; auto; discriminate H.
Qed.

(* ---- no_data_loss: extra tuple items and unknown keys are rejected ---- *)
Lemma ndl_tuple_excess_rejected tr o depth args vals s :
  o_no_data_loss o = true -> o_collect_errors o = false ->
  (List.length args < List.length vals)%nat ->
  exists s' e, parse_tuple_args tr o depth args (PTuple vals) s = (s', Raise e) /\ is_parse_err e = true.
Proof.
  intros Hndl Hco Hlt. unfold parse_tuple_args.
  apply Nat.ltb_lt in Hlt. rewrite Hlt, Hndl, orb_true_r. cbn [andb].
  destruct (skipn (List.length args) vals) as [|x r] eqn:Esk.
  { exfalso. apply Nat.ltb_lt in Hlt. pose proof (skipn_length (List.length args) vals) as Hl. rewrite Esk in Hl.
    cbn [List.length] in Hl. lia. }
  cbn [tuple_exceed]. unfold mbind at 1. unfold mbind at 1. unfold handle_error. rewrite Hco. cbn [negb orb].
  eexists. eexists. split; reflexivity.
Qed.

Lemma unknown_key_rejected C o key v s :
  o_addition o = Some false -> o_collect_errors o = false -> str_in key (c_exclude_vars C) = false ->
  exists s' e, parse_addition C o key v s = (s', Raise e) /\ is_parse_err e = true.
Proof.
  intros Ha Hco Hex. unfold parse_addition. rewrite Hex, Ha. unfold mbind, handle_error. rewrite Hco. cbn [negb orb].
  eexists. eexists. split; reflexivity.
Qed.
