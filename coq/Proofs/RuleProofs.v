(* Proofs/RuleProofs.v — Rule.parse on a value that already has the source type (C02). *)
From UV Require Import Parse ConstraintSpec ConstraintProofs.
From Coq Require Import Lia ZifyBool.
Open Scope string_scope.
Open Scope list_scope.
Open Scope Z_scope.

Section R.
Variable re : string -> string -> bool.

(* the declared constraints, applied in order to the running value *)
Fixpoint fold_validators (vals : list vspec) (v : pyval) : out pyval :=
  match vals with
  | [] => Ok v
  | (name, bound, lax) :: rest =>
      match validator re name lax with
      | None => Unmodelled
      | Some f => let* v' := f v bound in fold_validators rest v'
      end
  end.

(* fail-fast mode: the validator loop is the plain fold; on success the error lists are untouched *)
Lemma run_validators_failfast o vals : o_collect_errors o = false ->
  forall v s,
  match fold_validators vals v with
  | Ok w => run_validators re o vals v s = (s, Ok w)
  | Raise _ => exists s' k, run_validators re o vals v s = (s', Raise (parse_err (KConstraint k)))
  | Diverge => snd (run_validators re o vals v s) = Diverge
  | OutOfFuel => snd (run_validators re o vals v s) = OutOfFuel
  | Unmodelled => snd (run_validators re o vals v s) = Unmodelled
  end.
Proof.
  intros Hc. induction vals as [|[[name bound] lax] rest IH]; intros v s; cbn [fold_validators run_validators].
  - reflexivity.
  - destruct (validator re name lax) as [f|]; [|reflexivity].
    destruct (f v bound) as [v'|e| | |]; cbn [bind]; try reflexivity.
    + apply IH.
    + unfold mbind, handle_error. rewrite Hc. cbn. eauto.
Qed.

(* a constrained builtin type without arguments *)
Definition plain_rule (p : prim) (vals : list vspec) : ty :=
  TRule (Some (TPrim p)) [] false vals None None None.

Definition failfast (o : options) : Prop :=
  o_collect_errors o = false /\ o_ignore_constraints o = false.

Lemma depth_check_none o d : o_max_depth o = None -> depth_check o d = Ok tt.
Proof. unfold depth_check. intros ->. reflexivity. Qed.

(* Rule.parse on a value whose class is exactly the origin: the verdict and the result are those
   of the validators alone *)
Lemma rule_parse_exact_origin D fuel o depth p vals v s :
  failfast o -> prim_exact p v = true -> p <> TNone -> e_errors s = [] -> e_tmp s = [] ->
  match fold_validators vals v with
  | Ok w => transform re D (S (S fuel)) o depth (plain_rule p vals) v s = (s, Ok w)
  | Raise _ => exists s' e, transform re D (S (S fuel)) o depth (plain_rule p vals) v s = (s', Raise e)
                            /\ is_parse_err e = true
  | Diverge => snd (transform re D (S (S fuel)) o depth (plain_rule p vals) v s) = Diverge
  | OutOfFuel => snd (transform re D (S (S fuel)) o depth (plain_rule p vals) v s) = OutOfFuel
  | Unmodelled => snd (transform re D (S (S fuel)) o depth (plain_rule p vals) v s) = Unmodelled
  end.
Proof.
  intros [Hc Hi] Hex Hp He Ht.
  unfold plain_rule. cbn [transform transform_step].
  assert (Htr : transform_step re D (transform re D fuel) o depth (TPrim p) v s = (s, Ok v)).
  { cbn [transform_step]. unfold lift, conv_prim. rewrite Hex. reflexivity. }
  assert (Hv : v <> PNone).
  { intros ->. destruct p; cbn in Hex; try discriminate. contradiction. }
  unfold rule_parse, mbind, mcatch. rewrite Htr.
  replace (match v with PNone => ret PNone | _ => _ end) with
      (fun s0 : errs =>
        let '(s', r) := (if o_ignore_constraints o then ret v
                         else fun s1 => let '(s2, r) := run_validators re o vals v s1 in
                                        match r with Ok a => ret a s2 | Raise e => (s2, Raise e)
                                                | Diverge => (s2, Diverge) | OutOfFuel => (s2, OutOfFuel)
                                                | Unmodelled => (s2, Unmodelled) end) s0 in
        match r with
        | Ok a => let '(s'0, r0) := raise_error s' in
                  match r0 with Ok _ => ret a s'0 | Raise e => (s'0, Raise e) | Diverge => (s'0, Diverge)
                           | OutOfFuel => (s'0, OutOfFuel) | Unmodelled => (s'0, Unmodelled) end
        | Raise e => (s', Raise e) | Diverge => (s', Diverge) | OutOfFuel => (s', OutOfFuel)
        | Unmodelled => (s', Unmodelled) end).
  2:{ destruct v; try contradiction; reflexivity. }
  rewrite Hi.
  pose proof (run_validators_failfast o vals Hc v s) as Hrv.
  destruct (fold_validators vals v) as [w|e| | |].
  - rewrite Hrv. unfold ret, raise_error. rewrite He, Ht. reflexivity.
  - destruct Hrv as (s' & k & ->). eauto.
  - destruct (run_validators re o vals v s) as [s1 r1]. cbn [snd] in Hrv. subst r1. reflexivity.
  - destruct (run_validators re o vals v s) as [s1 r1]. cbn [snd] in Hrv. subst r1. reflexivity.
  - destruct (run_validators re o vals v s) as [s1 r1]. cbn [snd] in Hrv. subst r1. reflexivity.
Qed.

End R.
