(* Proofs/ContractCommon.v — the part of the refinement proofs that both strategies share:
   facts about the per-field outcome `fo`, and the two closing steps (dependency check, merge of
   the additions) stated against any loop that has produced the per-field results. *)
From UV Require Import Parse Verdict Assoc FieldSpec FieldFacts.
From Coq Require Import Lia.
Open Scope string_scope.
Open Scope list_scope.

Lemma filter_nil_iff {A} (p : A -> bool) (l : list A) : filter p l = [] <-> forall x, In x l -> p x = false.
Proof.
  induction l as [|a r IH]; cbn; [tauto|].
  destruct (p a) eqn:E.
  - split; [discriminate|]. intros H. specialize (H a (or_introl eq_refl)). congruence.
  - rewrite IH. split; intros H.
    + intros x [<-|Hx]; auto.
    + intros x Hx. apply H. right. exact Hx.
Qed.

Lemma forallb_false_iff {A} (p : A -> bool) (l : list A) : forallb p l = false <-> exists x, In x l /\ p x = false.
Proof.
  induction l as [|a r IH]; cbn; [split; [discriminate|intros [x [[] _]]]|].
  destruct (p a) eqn:E; cbn.
  - rewrite IH. split; intros [x [Hx Hp]]; exists x; [auto|]. destruct Hx as [<-|Hx]; [congruence|auto].
  - split; [|reflexivity]. intros _. exists a. auto.
Qed.

(* no_input fields are never required *)
Lemma no_input_not_required f o : is_no_input f o = true -> is_required f o = false.
Proof.
  unfold is_no_input, is_required, flag_applies, always_no_input. intros H.
  destruct (o_ignore_required o || negb (flag_truthy (f_required f))); [reflexivity|].
  destruct (f_no_input f) as [[|]|s]; cbn [flag_true].
  - reflexivity.
  - destruct (o_mode o) as [m|]; [|discriminate]. destruct (String.eqb m ""); [discriminate|].
    destruct (f_mode f) as [fm|]; [|discriminate]. destruct (String.eqb fm ""); [discriminate|]. rewrite H. reflexivity.
  - destruct (o_mode o) as [m|]; [|discriminate]. destruct (String.eqb m ""); [discriminate|]. rewrite H. reflexivity.
Qed.

Section Common.
Variable tr : options -> Z -> ty -> pyval -> M pyval.
Variable C : cdecl.
Variable o : options.
Variable depth : Z.
Hypothesis HW : WF C.
Let fs := c_fields C.

Notation pv := (pv tr o depth).
Notation fo := (fo tr o depth).
Notation field_out := (field_out tr C o depth).

(* a value dropped by the `exclude` policy: the field is optional and has no default *)
Lemma pv_none_facts f v : pv f v = Some None -> get_default f o = None /\ is_required f o = false.
Proof.
  unfold Verdict.pv. destruct (f_type f) as [t|]; [|discriminate].
  destruct (enter_tr tr o depth _ t v) as [e|[r|e| | |]]; try discriminate.
  destruct (get_on_error f o); try discriminate.
  destruct (is_required f o); [discriminate|]. intros H. injection H as H. auto.
Qed.

Lemma field_named_In x kf : field_named C x = Some kf -> In kf fs /\ f_name (snd kf) = x.
Proof. unfold field_named. intros H. apply find_some in H. destruct H as [Hi He]. apply seqb_eq in He. auto. Qed.
Lemma field_named_of kf : In kf fs -> field_named C (f_name (snd kf)) = Some kf.
Proof.
  intros Hi. unfold field_named. destruct (find _ (c_fields C)) as [kf'|] eqn:Ef.
  - apply find_some in Ef. destruct Ef as [Hi' He]. apply seqb_eq in He.
    pose proof (wf_names C HW kf' kf Hi' Hi He) as Hk. destruct kf as [k f], kf' as [k' f']. cbn [fst] in Hk. subst k'.
    apply (In_field_assoc C HW) in Hi. apply (In_field_assoc C HW) in Hi'. congruence.
  - exfalso. pose proof (find_none _ _ Ef kf Hi) as H. cbn beta in H. rewrite seqb_refl in H. discriminate.
Qed.
Lemma field_named_none x kf : field_named C x = None -> In kf fs -> f_name (snd kf) <> x.
Proof.
  intros H Hi Hn. pose proof (find_none _ _ H kf Hi) as H1. cbn beta in H1. rewrite Hn, seqb_refl in H1. discriminate.
Qed.

(* --- the dependency check, for a loop whose dependency list and lack test are as described --- *)
Lemma deps_common data deps result unprov :
  (forall d, In d deps <-> exists kf, In kf fs /\ In d (f_dependencies (snd kf)) /\
                                      exists v g, field_out kf data = FOut v g true) ->
  (forall d, (has_key d result = true /\ str_in d unprov = false) <-> provided tr C o depth data d = true) ->
  (deps_check_p deps result unprov = Some tt <-> deps_ok tr C o depth data = true).
Proof.
  intros Hdeps Hprov. unfold deps_check_p, deps_lack.
  destruct (filter _ deps) as [|x l] eqn:Ef.
  - split; [intros _|reflexivity]. rewrite filter_nil_iff in Ef.
    unfold deps_ok. apply forallb_forall. intros kf Hk.
    destruct (field_out kf data) as [|v g [|]] eqn:Efo; try reflexivity.
    apply forallb_forall. intros d Hd. apply Hprov.
    assert (Hin : In d deps) by (apply Hdeps; exists kf; eauto).
    specialize (Ef d Hin). apply Bool.orb_false_iff in Ef. destruct Ef as [E1 E2].
    apply Bool.negb_false_iff in E1. auto.
  - split; [discriminate|]. intros Hok. exfalso.
    assert (Hx : In x (filter (fun d => negb (has_key d result) || str_in d unprov) deps)) by (rewrite Ef; left; reflexivity).
    apply filter_In in Hx. destruct Hx as [Hin Hc].
    apply Hdeps in Hin. destruct Hin as (kf & Hk & Hd & v & g & Efo).
    unfold deps_ok in Hok. rewrite forallb_forall in Hok. specialize (Hok kf Hk). fold field_out in Hok. rewrite Efo in Hok.
    rewrite forallb_forall in Hok. specialize (Hok x Hd). apply Hprov in Hok. destruct Hok as [H1 H2].
    rewrite H1, H2 in Hc. discriminate.
Qed.

(* --- the final mapping, for a loop whose field results and additions are as described --- *)
Lemma final_common data result addition :
  NoDup (keys data) ->
  (forall x, assoc x result =
             match field_named C x with
             | Some kf => match field_out kf data with FOut v _ _ => v | FErr => None end
             | None => None
             end) ->
  (forall x, assoc x (rev addition) =
             match assoc x data with
             | Some v => match target C x with
                         | None => match padd C o x v with Some (Some w) => Some w | _ => None end
                         | Some _ => None
                         end
             | None => None
             end) ->
  forall x, assoc x (sdict_update result addition) = contract_val tr C o depth data x.
Proof.
  intros Hn Hres Hadd x. rewrite assoc_update, Hadd, Hres. unfold contract_val, addition_of. fold field_out.
  destruct (field_named C x) as [kf|] eqn:Efn.
  - destruct (assoc x data) as [v|] eqn:Ed; [|reflexivity].
    destruct (target C x) as [k|] eqn:Et; [reflexivity|].
    exfalso. apply field_named_In in Efn. destruct Efn as [Hi Hname].
    apply (unknown_not_name C HW x kf Et Hi Hname).
  - destruct (assoc x data) as [v|]; [|reflexivity].
    destruct (target C x); [reflexivity|]. destruct (padd C o x v) as [[w|]|]; reflexivity.
Qed.

End Common.
