(* Proofs/SchemaParseProofs.v — C15 (partial): the helpers that decide whether JsonSchemaParser can build a type. *)
From UV Require Import SchemaParse.
From Coq Require Import ZArith Bool List String Ascii Lia.
Import ListNotations.
Open Scope Z_scope.

(* the normalised bounds accept exactly the same numbers, and hold at most one bound per side *)
Theorem norm_bounds_equiv b v : sat (norm_bounds b) v <-> sat b v.
Proof.
  unfold sat, norm_bounds. destruct b as [[g|] [e|] [l|] [u|]]; cbn [b_gt b_ge b_lt b_le];
    repeat match goal with |- context [if ?c then _ else _] => destruct c eqn:? end; cbn [b_gt b_ge b_lt b_le];
    split; intros (H1 & H2 & H3 & H4); repeat split; intros x Hx; try discriminate; try (injection Hx as <-);
    try (specialize (H1 _ eq_refl)); try (specialize (H2 _ eq_refl)); try (specialize (H3 _ eq_refl)); try (specialize (H4 _ eq_refl)); lia.
Qed.
Theorem norm_bounds_one_per_side b :
  (b_gt (norm_bounds b) = None \/ b_ge (norm_bounds b) = None) /\ (b_lt (norm_bounds b) = None \/ b_le (norm_bounds b) = None).
Proof.
  unfold norm_bounds. destruct b as [[g|] [e|] [l|] [u|]]; cbn [b_gt b_ge b_lt b_le];
    repeat match goal with |- context [if ?c then _ else _] => destruct c end; cbn; auto.
Qed.

Open Scope string_scope.
Lemma str_mem_In s l : str_mem s l = true <-> In s l.
Proof.
  unfold str_mem. rewrite existsb_exists. split.
  - intros [x [Hx He]]. apply String.eqb_eq in He. subst. exact Hx.
  - intros H. exists s. split; [exact H|apply String.eqb_refl].
Qed.

Lemma NoDup_app_one' {A} (l : list A) (x : A) : NoDup l -> ~ In x l -> NoDup (l ++ [x]).
Proof.
  induction l as [|a r IH]; cbn; intros Hn Hx.
  - constructor; [tauto|constructor].
  - inversion Hn as [|? ? Ha Hr]; subst. constructor.
    + rewrite in_app_iff. cbn. intros [H|[H|[]]]; [contradiction|]. subst. apply Hx. left. reflexivity.
    + apply IH; [exact Hr|]. intros H. apply Hx. right. exact H.
Qed.

Section DedupP.
Variable suffix : nat -> string.

(* whatever the loop returns is not excluded *)
Lemma dedup_fresh origin excludes : forall fuel i x, dedup suffix origin excludes i fuel = Some x -> ~ In x excludes.
Proof.
  induction fuel as [|f IH]; intros i x H; [discriminate|]. cbn [dedup] in H.
  destruct (str_mem (origin ++ suffix i) excludes) eqn:E; [eapply IH; exact H|].
  injection H as <-. intros Hin. apply str_mem_In in Hin. congruence.
Qed.
Theorem get_attname_fresh keywords name excludes fuel x :
  get_attname suffix keywords name excludes fuel = Some x -> ~ In x excludes.
Proof.
  unfold get_attname. destruct (str_mem _ excludes) eqn:E.
  - apply dedup_fresh.
  - intros H. injection H as <-. intros Hin. apply str_mem_In in Hin. congruence.
Qed.

(* parse_object: the attribute names are pairwise distinct and none is a reserved name (an attribute of the
   base class: dict methods, Schema's own) *)
Theorem attnames_distinct valid keywords reserved all : forall keys attrs fuel out,
  NoDup attrs -> (forall a, In a attrs -> ~ In a reserved) ->
  attnames suffix valid keywords reserved all keys attrs fuel = Some out ->
  NoDup out /\ (forall a, In a out -> ~ In a reserved).
Proof.
  induction keys as [|k r IH]; intros attrs fuel out Hnd Hres H; cbn [attnames] in H.
  - injection H as <-. auto.
  - destruct (needs_rename valid reserved attrs k) eqn:En.
    + destruct (get_attname suffix keywords k _ fuel) as [x|] eqn:Eg; [|discriminate].
      pose proof (get_attname_fresh _ _ _ _ _ Eg) as Hf.
      apply (IH (attrs ++ [x])%list fuel out); [| |exact H].
      * apply NoDup_app_one'; [exact Hnd|]. intros Hin. apply Hf. apply in_or_app. left. exact Hin.
      * intros a Ha. apply in_app_or in Ha. destruct Ha as [Ha|[<-|[]]]; [apply Hres; exact Ha|].
        intros Hin. apply Hf. apply in_or_app. right. apply in_or_app. right. exact Hin.
    + unfold needs_rename in En. apply orb_false_iff in En. destruct En as [En _].
      apply orb_false_iff in En. destruct En as [En E3]. apply orb_false_iff in En. destruct En as [_ E2].
      apply (IH (attrs ++ [k])%list fuel out); [| |exact H].
      * apply NoDup_app_one'; [exact Hnd|]. intros Hin. apply str_mem_In in Hin. congruence.
      * intros a Ha. apply in_app_or in Ha. destruct Ha as [Ha|[<-|[]]]; [apply Hres; exact Ha|].
        intros Hin. apply str_mem_In in Hin. congruence.
Qed.
End DedupP.

(* the sanitised name consists of letters, digits and single underscores only *)
Lemma sub_runs_chars s : forall r c, In c (list_ascii_of_string (sub_runs s r)) -> is_alnum c = true \/ c = "_"%char.
Proof.
  induction s as [|a s IH]; intros r c H; cbn [sub_runs] in H; [destruct H|].
  destruct (is_alnum a) eqn:Ea.
  - cbn in H. destruct H as [<-|H]; [left; exact Ea|eapply IH; exact H].
  - destruct r; [eapply IH; exact H|]. cbn in H. destruct H as [<-|H]; [right; reflexivity|eapply IH; exact H].
Qed.
