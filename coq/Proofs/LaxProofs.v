(* Proofs/LaxProofs.v — lax (transforming) validators reach a fixed point in one step, and on
   exact domains their output satisfies the strict form (C03). *)
From UV Require Import PyVal PyPrim PyOps Constraints ConstraintSpec ConstraintProofs.
From Coq Require Import Lia ZifyBool.
Open Scope string_scope.
Open Scope list_scope.
Open Scope Z_scope.

(* v and b are comparable and not NaN: the domain on which `<` is a total order *)
Definition ordered (v b : pyval) : Prop := exists c, py_cmp v b = Ok (Some c).

Lemma fin_cmp_refl n e2 e10 : fin_cmp n e2 e10 n e2 e10 = Eq.
Proof. unfold fin_cmp. apply Z.compare_refl. Qed.

Lemma str_cmp_refl s : str_cmp s s = Eq.
Proof.
  unfold str_cmp. induction s as [|a s IH]; cbn; [reflexivity|].
  assert (H : Ascii.compare a a = Eq).
  { unfold Ascii.compare. apply N.compare_refl. }
  rewrite H. exact IH.
Qed.

(* anything that was successfully ordered against something is equal to itself *)
Lemma num_cmp_some_not_nan na nb c : num_cmp na nb = Some c ->
  is_fnan na = false /\ is_fnan nb = false /\ has_dnan na na = false /\ has_dnan nb nb = false /\
  num_cmp na na = Some Eq /\ num_cmp nb nb = Some Eq.
Proof.
  destruct na, nb; cbn; intros H; try discriminate; repeat split; try reflexivity;
    try (rewrite fin_cmp_refl; reflexivity); try (destruct neg; reflexivity); try (destruct neg0; reflexivity).
Qed.

Lemma cmp_self_right v b c : py_cmp v b = Ok (Some c) -> py_cmp b b = Ok (Some Eq).
Proof.
  unfold py_cmp. destruct (num_of v) as [nv|] eqn:Nv; destruct (num_of b) as [nb|] eqn:Nb.
  - destruct (_ || _ || _) eqn:Hd; [discriminate|].
    intros H. injection H as H.
    destruct (num_cmp_some_not_nan _ _ _ H) as (_ & Hfb & _ & Hdb & _ & Hcb).
    rewrite Hdb, Hfb, Hcb. reflexivity.
  - destruct v, b; cbn in *; try discriminate.
  - destruct v, b; cbn in *; try discriminate.
  - destruct v, b; cbn in *; try discriminate; intros _; rewrite str_cmp_refl; reflexivity.
Qed.

Lemma cmp_self_left v b c : py_cmp v b = Ok (Some c) -> py_cmp v v = Ok (Some Eq).
Proof.
  unfold py_cmp. destruct (num_of v) as [nv|] eqn:Nv; destruct (num_of b) as [nb|] eqn:Nb.
  - destruct (_ || _ || _) eqn:Hd; [discriminate|].
    intros H. injection H as H.
    destruct (num_cmp_some_not_nan _ _ _ H) as (Hfa & _ & Hda & _ & Hca & _).
    rewrite Hda, Hfa, Hca. reflexivity.
  - destruct v, b; cbn in *; try discriminate.
  - destruct v, b; cbn in *; try discriminate.
  - destruct v, b; cbn in *; try discriminate; intros _; rewrite str_cmp_refl; reflexivity.
Qed.

(* ---- lax_ge / lax_le ---- *)
Lemma c_lax_ge_idem v b w : c_lax_ge v b = Ok w -> c_lax_ge w b = Ok w.
Proof.
  unfold c_lax_ge, py_lt, bind. destruct (py_cmp v b) as [[c|]| | | |] eqn:E; try discriminate.
  - destruct c; intros H; injection H as <-; rewrite ?E; try reflexivity.
    rewrite (cmp_self_right _ _ _ E). reflexivity.
  - intros H; injection H as <-. rewrite E. reflexivity.
Qed.
Lemma c_lax_ge_strict v b w : ordered v b -> c_lax_ge v b = Ok w -> c_ge w b = Ok w.
Proof.
  intros [c E]. unfold c_lax_ge, c_ge, py_lt, py_ge, bind. rewrite E.
  destruct c; intros H; injection H as <-; rewrite ?E; try reflexivity.
  rewrite (cmp_self_right _ _ _ E). reflexivity.
Qed.
Lemma c_lax_le_idem v b w : c_lax_le v b = Ok w -> c_lax_le w b = Ok w.
Proof.
  unfold c_lax_le, py_gt, bind. destruct (py_cmp v b) as [[c|]| | | |] eqn:E; try discriminate.
  - destruct c; intros H; injection H as <-; rewrite ?E; try reflexivity.
    rewrite (cmp_self_right _ _ _ E). reflexivity.
  - intros H; injection H as <-. rewrite E. reflexivity.
Qed.
Lemma c_lax_le_strict v b w : ordered v b -> c_lax_le v b = Ok w -> c_le w b = Ok w.
Proof.
  intros [c E]. unfold c_lax_le, c_le, py_gt, py_le, bind. rewrite E.
  destruct c; intros H; injection H as <-; rewrite ?E; try reflexivity.
  rewrite (cmp_self_right _ _ _ E). reflexivity.
Qed.

(* the exact domains are ordered *)
Lemma ordered_int a b : ordered (PInt a) (PInt b).
Proof. eexists. apply py_cmp_int_int. Qed.
Lemma ordered_str a b : ordered (PStr a) (PStr b).
Proof. eexists. reflexivity. Qed.
Lemma ordered_dec_fin s c e s' c' e' : ordered (PDec (DFin s c e)) (PDec (DFin s' c' e')).
Proof. eexists. reflexivity. Qed.
Lemma ordered_dec_int s c e z : ordered (PDec (DFin s c e)) (PInt z).
Proof. eexists. reflexivity. Qed.

(* ---- lax_const ---- *)
Lemma c_lax_const_idem v b w : c_lax_const v b = Ok w -> c_lax_const w b = Ok w.
Proof. unfold c_lax_const. auto. Qed.
Lemma c_lax_const_strict v b w : py_eq b b = true -> c_lax_const v b = Ok w -> c_const w b = Ok w.
Proof.
  unfold c_lax_const. intros Hb H. injection H as <-. apply c_const_exact. split; [|reflexivity].
  split; [exact Hb|left]. destruct (kind_of b); cbn; auto using Nat.eqb_refl.
Qed.

(* ---- lax_multiple_of on integers ---- *)
Lemma c_lax_multiple_of_int z k w :
  c_lax_multiple_of (PInt z) (PInt k) = Ok w ->
  c_multiple_of w (PInt k) = Ok w /\ c_lax_multiple_of w (PInt k) = Ok w.
Proof.
  unfold c_lax_multiple_of, c_multiple_of. cbn [py_mod as_intlike].
  destruct (Z.eqb_spec k 0); cbn [bind]; [discriminate|].
  cbn [truthy num_of num_is_zero]. destruct (Z.eqb_spec (z mod k) 0); cbn [negb].
  - intros H; injection H as <-. cbn [py_mod as_intlike].
    destruct (Z.eqb_spec k 0); [contradiction|]. cbn [bind truthy num_of num_is_zero].
    destruct (Z.eqb_spec (z mod k) 0); [|contradiction]. cbn. auto.
  - cbn [py_floordiv py_mul as_intlike]. destruct (Z.eqb_spec k 0); [contradiction|]. cbn [bind].
    intros H; injection H as <-. cbn [py_mod as_intlike].
    destruct (Z.eqb_spec k 0); [contradiction|]. cbn [bind truthy num_of num_is_zero].
    rewrite Z.mod_mul by assumption. cbn. auto.
Qed.

(* ---- lax_length / lax_max_length on sequences and strings ---- *)
Lemma substring_0_length n s : String.length (String.substring 0 n s) = Nat.min n (String.length s).
Proof.
  revert s. induction n as [|n IH]; intros s; destruct s as [|a s]; cbn; try reflexivity.
  rewrite IH. reflexivity.
Qed.
Lemma firstn_len {A} n (l : list A) : List.length (firstn n l) = Nat.min n (List.length l).
Proof. apply firstn_length. Qed.

(* for a sized value (str / list / tuple) with len > n >= 0, the slice has length n *)
Lemma slice_len v n r :
  0 <= n -> py_slice_to v n = Ok r ->
  forall l, py_len v = Ok l -> n <= l -> py_len r = Ok n /\ has_len r = true /\ has_len v = true.
Proof.
  intros Hn. unfold py_slice_to. destruct (n <? 0) eqn:E; [lia|].
  destruct v; try discriminate; intros H; injection H as <-; intros l Hl Hle; cbn in Hl;
    injection Hl as <-; cbn [py_len has_len]; (split; [f_equal|auto]); unfold slen, llen, str_take in *;
    rewrite ?substring_0_length, ?firstn_len; lia.
Qed.

(* closed forms on sized values *)
Lemma gt_int_int a b : py_gt (PInt a) (PInt b) = Ok (b <? a).
Proof. unfold py_gt. rewrite py_cmp_int_int. cbn [bind]. destruct (Z.compare_spec a b); f_equal; lia. Qed.
Lemma lt_int_int a b : py_lt (PInt a) (PInt b) = Ok (a <? b).
Proof. unfold py_lt. rewrite py_cmp_int_int. cbn [bind]. destruct (Z.compare_spec a b); f_equal; lia. Qed.

Lemma c_max_length_sized v n :
  has_len v = true ->
  c_max_length v (PInt n) = let* l := py_len v in if n <? l then Raise (other_err XValueError) else Ok v.
Proof.
  intros Hl. unfold c_max_length. rewrite Hl. cbn [negb bind]. cbv beta iota zeta.
  unfold py_len_v. destruct (py_len v); cbn [bind]; try reflexivity. rewrite gt_int_int. reflexivity.
Qed.
Lemma c_lax_max_length_sized v n :
  has_len v = true ->
  c_lax_max_length v (PInt n) = let* l := py_len v in if n <? l then py_slice_to v n else Ok v.
Proof.
  intros Hl. unfold c_lax_max_length. rewrite Hl. cbn [negb bind]. cbv beta iota zeta.
  unfold py_len_v. destruct (py_len v); cbn [bind]; try reflexivity. rewrite gt_int_int. cbn [bind truthy].
  destruct (n <? a); [|reflexivity]. unfold py_slice_to_v. cbn [as_intlike].
  destruct (py_slice_to v n); reflexivity.
Qed.
Lemma c_length_sized v n :
  has_len v = true ->
  c_length v (PInt n) = let* l := py_len v in if l =? n then Ok v else Raise (other_err XValueError).
Proof.
  intros Hl. unfold c_length. rewrite Hl. cbn [negb bind]. cbv beta iota zeta.
  unfold py_len_v. destruct (py_len v); cbn [bind]; try reflexivity. rewrite py_eq_int_int.
  destruct (a =? n); reflexivity.
Qed.
Lemma c_lax_length_sized v n :
  has_len v = true ->
  c_lax_length v (PInt n) =
  let* l := py_len v in
  if l =? n then Ok v else if l <? n then Raise (other_err XValueError) else py_slice_to v n.
Proof.
  intros Hl. unfold c_lax_length. rewrite Hl. cbn [negb bind]. cbv beta iota zeta.
  unfold py_len_v. destruct (py_len v); cbn [bind]; try reflexivity. rewrite py_eq_int_int.
  destruct (a =? n); cbn [negb]; [reflexivity|]. cbn [truthy]. rewrite lt_int_int. cbn [bind].
  destruct (a <? n); [reflexivity|]. unfold py_slice_to_v. cbn [as_intlike].
  destruct (py_slice_to v n); reflexivity.
Qed.

Lemma c_lax_max_length_fix v n w :
  0 <= n -> has_len v = true -> c_lax_max_length v (PInt n) = Ok w ->
  c_max_length w (PInt n) = Ok w /\ c_lax_max_length w (PInt n) = Ok w.
Proof.
  intros Hn Hl. rewrite c_lax_max_length_sized by exact Hl.
  destruct (py_len v) as [l| | | |] eqn:El; cbn [bind]; try discriminate.
  destruct (n <? l) eqn:C.
  - intros Es. destruct (slice_len v n w Hn Es l El ltac:(lia)) as (Hr & Hlr & _).
    rewrite c_max_length_sized, c_lax_max_length_sized by exact Hlr. rewrite Hr. cbn [bind].
    rewrite Z.ltb_irrefl. auto.
  - intros H; injection H as <-.
    rewrite c_max_length_sized, c_lax_max_length_sized by exact Hl. rewrite El. cbn [bind]. rewrite C. auto.
Qed.

Lemma c_lax_length_fix v n w :
  0 <= n -> has_len v = true -> c_lax_length v (PInt n) = Ok w ->
  c_length w (PInt n) = Ok w /\ c_lax_length w (PInt n) = Ok w.
Proof.
  intros Hn Hl. rewrite c_lax_length_sized by exact Hl.
  destruct (py_len v) as [l| | | |] eqn:El; cbn [bind]; try discriminate.
  destruct (l =? n) eqn:C.
  - intros H; injection H as <-.
    rewrite c_length_sized, c_lax_length_sized by exact Hl. rewrite El. cbn [bind]. rewrite C. auto.
  - destruct (l <? n) eqn:C2; [discriminate|].
    intros Es. destruct (slice_len v n w Hn Es l El ltac:(lia)) as (Hr & Hlr & _).
    rewrite c_length_sized, c_lax_length_sized by exact Hlr. rewrite Hr. cbn [bind].
    rewrite Z.eqb_refl. auto.
Qed.

(* ---- lax_unique_items ---- *)
Fixpoint dedupe_from (seen xs : list pyval) : list pyval :=
  match xs with
  | [] => seen
  | x :: r => if py_in x seen then dedupe_from seen r else dedupe_from (seen ++ [x]) r
  end.

Lemma lax_unique_loop_spec K seen xs :
  c_lax_unique_items_loop1 K (PList seen) xs = K (PList (dedupe_from seen xs)).
Proof.
  revert seen. induction xs as [|x r IH]; intros seen; cbn [c_lax_unique_items_loop1 dedupe_from]; [reflexivity|].
  cbn [py_contains bind]. destruct (py_in x seen); [apply IH|].
  cbn [py_append bind]. apply IH.
Qed.

(* the invariant: the accumulated list is pairwise distinct *)
Lemma all_distinct_app seen x :
  all_distinct [] seen = true -> py_in x seen = false -> all_distinct [] (seen ++ [x]) = true.
Proof.
  assert (G : forall pre l, all_distinct pre l = true -> py_in x (pre ++ l) = false ->
                            all_distinct pre (l ++ [x]) = true).
  { intros pre l. revert pre. induction l as [|y l IH]; intros pre Hd Hin; cbn [all_distinct app] in *.
    - rewrite app_nil_r in Hin. rewrite Hin. reflexivity.
    - apply andb_prop in Hd. destruct Hd as [H1 H2]. rewrite H1. cbn [andb].
      apply IH; [exact H2|]. rewrite <- app_assoc. exact Hin. }
  intros. apply (G [] seen); assumption.
Qed.

Lemma dedupe_distinct seen xs :
  all_distinct [] seen = true -> all_distinct [] (dedupe_from seen xs) = true.
Proof.
  revert seen. induction xs as [|x r IH]; intros seen Hs; cbn [dedupe_from]; [exact Hs|].
  destruct (py_in x seen) eqn:E; [apply IH, Hs|]. apply IH. apply all_distinct_app; assumption.
Qed.

(* a pairwise distinct list is left unchanged by the dedupe loop *)
Lemma dedupe_fixed pre l :
  all_distinct pre l = true -> dedupe_from pre l = pre ++ l.
Proof.
  revert pre. induction l as [|x r IH]; intros pre Hd; cbn [dedupe_from all_distinct] in *.
  - rewrite app_nil_r. reflexivity.
  - apply andb_prop in Hd. destruct Hd as [H1 H2]. apply negb_true_iff in H1. rewrite H1.
    rewrite IH by exact H2. rewrite <- app_assoc. reflexivity.
Qed.

Lemma c_lax_unique_items_list xs w :
  c_lax_unique_items (PList xs) (PBool true) = Ok w ->
  w = PList (dedupe_from [] xs) /\
  c_unique_items w (PBool true) = Ok w /\ c_lax_unique_items w (PBool true) = Ok w.
Proof.
  unfold c_lax_unique_items. cbn [truthy negb py_iter bind]. rewrite lax_unique_loop_spec.
  cbn [rebuild_like_v py_iter bind rebuild_like]. intros H; injection H as <-.
  pose proof (dedupe_distinct [] xs eq_refl) as Hd.
  split; [reflexivity|split].
  - apply c_unique_items_exact. split; [|reflexivity]. eexists; split; [reflexivity|exact Hd].
  - unfold c_lax_unique_items. cbn [truthy negb py_iter bind]. rewrite lax_unique_loop_spec.
    rewrite (dedupe_fixed [] _ Hd). reflexivity.
Qed.
Lemma c_lax_unique_items_tuple xs w :
  c_lax_unique_items (PTuple xs) (PBool true) = Ok w ->
  w = PTuple (dedupe_from [] xs) /\
  c_unique_items w (PBool true) = Ok w /\ c_lax_unique_items w (PBool true) = Ok w.
Proof.
  unfold c_lax_unique_items. cbn [truthy negb py_iter bind]. rewrite lax_unique_loop_spec.
  cbn [rebuild_like_v py_iter bind rebuild_like]. intros H; injection H as <-.
  pose proof (dedupe_distinct [] xs eq_refl) as Hd.
  split; [reflexivity|split].
  - apply c_unique_items_exact. split; [|reflexivity]. eexists; split; [reflexivity|exact Hd].
  - unfold c_lax_unique_items. cbn [truthy negb py_iter bind]. rewrite lax_unique_loop_spec.
    rewrite (dedupe_fixed [] _ Hd). reflexivity.
Qed.

(* ---- lax_decimal_places: rounding to r places is idempotent ---- *)
Lemma dec_round_idem d r d' :
  dec_round d r = Ok d' -> dec_round d' r = Ok d' \/ dec_round d' r = Unmodelled.
Proof.
  destruct d as [|sg|s c e]; cbn [dec_round].
  - intros H; injection H as <-. left. reflexivity.
  - discriminate.
  - destruct (- r <=? e) eqn:E.
    + destruct (ndigits _ <=? 28) eqn:G; [|discriminate]. intros H; injection H as <-.
      cbn [dec_round]. rewrite Z.leb_refl, Z.sub_diag. cbn [Z.pow Z.to_N Pos.to_nat].
      change (Z.to_N 1) with 1%N. rewrite N.mul_1_r, G. left. reflexivity.
    + intros H; injection H as <-. cbn [dec_round]. rewrite Z.leb_refl, Z.sub_diag.
      change (Z.to_N (10 ^ 0)) with 1%N. rewrite N.mul_1_r.
      destruct (ndigits _ <=? 28); [left|right]; reflexivity.
Qed.

(* ---- lax_max_digits is NOT strict-satisfying on Decimal: a rounding carry adds a digit ---- *)
Lemma c_lax_max_digits_carry :
  exists v w, c_lax_max_digits v (PInt 3) = Ok w /\ c_max_digits w (PInt 3) <> Ok w.
Proof.
  exists (PDec (DFin false 9995 (-2))), (PDec (DFin false 1000 (-1))).
  split; [vm_compute; reflexivity|vm_compute; discriminate].
Qed.
