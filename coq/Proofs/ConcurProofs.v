(* Proofs/ConcurProofs.v — C20: under the lock no schedule of any number of threads makes a first parse fail. *)
From UV Require Import Concur.
From Coq Require Import List Arith Bool Lia.
Import ListNotations.

Definition in_cs (p : pc) : bool :=
  match p with
  | PCheck | PResOn | PSnap | PLook _ _ | PPop _ _ _ | PSubst _ _ | PClear _ | PResOff => true
  | _ => false
  end.
Definition all_res (l : list fld) : Prop := Forall (fun f => f = FRes) l.
Definition refs_in (fs : list fld) (l : list nat) : Prop := forall c, In (FRef c) fs -> In c l.
Definition cells_on (cl : nat -> bool) (l : list nat) : Prop := forall c, In c l -> cl c = true.

Definition pc_inv (s : shared) (p : pc) : Prop :=
  match p with
  | PFast | PWait => True
  | PCheck => resolving s = false /\ refs_in (fields s) (pending s)
  | PResOn => resolving s = false /\ refs_in (fields s) (pending s) /\ pending s <> []
  | PSnap => resolving s = true /\ refs_in (fields s) (pending s) /\ pending s <> []
  | PLook snap mine => resolving s = true /\ pending s = snap /\ snap <> [] /\ cells_on (cells s) mine /\
                       refs_in (fields s) (snap ++ mine)
  | PPop c rest mine => resolving s = true /\ pending s = c :: rest /\ cells_on (cells s) mine /\
                        refs_in (fields s) ((c :: rest) ++ mine)
  | PSubst i mine => resolving s = true /\ pending s = [] /\ cells_on (cells s) mine /\ refs_in (fields s) mine /\
                     i < length (fields s) /\ all_res (firstn i (fields s))
  | PClear todo => resolving s = true /\ pending s = [] /\ all_res (fields s) /\ todo <> []
  | PResOff => resolving s = true /\ pending s = [] /\ all_res (fields s)
  | PFetch => all_res (fields s)
  | PUse loc => all_res loc
  | PDone b => b = true
  | PErr _ => False
  end.

Record inv (st : state) : Prop := {
  inv_cs : forall t p, nth_error (ths st) t = Some p -> in_cs p = true -> lock (sh st) = Some t;
  inv_free : lock (sh st) = None -> resolving (sh st) = false /\ refs_in (fields (sh st)) (pending (sh st));
  inv_pc : forall t p, nth_error (ths st) t = Some p -> pc_inv (sh st) p
}.

(* ---------- lists ---------- *)
Lemma nth_set_nth_same {A} (l : list A) : forall t x, t < length l -> nth_error (set_nth l t x) t = Some x.
Proof. induction l as [|y r IH]; intros [|t] x H; cbn in *; try lia; [reflexivity|]. apply IH. lia. Qed.
Lemma nth_set_nth_other {A} (l : list A) : forall t u x, u <> t -> nth_error (set_nth l t x) u = nth_error l u.
Proof. induction l as [|y r IH]; intros [|t] [|u] x H; cbn; try reflexivity; try congruence. apply IH. congruence. Qed.

Lemma all_res_no_ref fs l : all_res fs -> refs_in fs l.
Proof. intros H c Hc. unfold all_res in H. rewrite Forall_forall in H. specialize (H _ Hc). discriminate. Qed.
Lemma mem_head c r : mem c (c :: r) = true.
Proof. unfold mem. cbn. rewrite Nat.eqb_refl. reflexivity. Qed.
Lemma remove1_head c r : remove1 c (c :: r) = r.
Proof. cbn. rewrite Nat.eqb_refl. reflexivity. Qed.

Lemma subst_nth_length cl : forall l i, length (subst_nth cl i l) = length l.
Proof. induction l as [|f r IH]; intros [|i]; cbn; auto. Qed.
Lemma subst_nth_all_res cl : forall l i, all_res l -> all_res (subst_nth cl i l).
Proof.
  induction l as [|f r IH]; intros [|i] H; cbn; auto; inversion H; subst; constructor; auto.
  apply IH. assumption.
Qed.
Lemma subst_nth_refs cl : forall l i c, In (FRef c) (subst_nth cl i l) -> In (FRef c) l.
Proof.
  induction l as [|f r IH]; intros [|i] c; cbn; auto.
  - intros [H|H]; [|right; exact H]. left. destruct f as [d|]; cbn in H; [|discriminate]. destruct (cl d); [discriminate|exact H].
  - intros [H|H]; [left; exact H|right; eapply IH; exact H].
Qed.
(* the first i fields resolved, field i's reference evaluated: the first i+1 are resolved *)
Lemma subst_nth_firstn cl mine : forall l i, cells_on cl mine -> refs_in l mine -> i < length l -> all_res (firstn i l) ->
  all_res (firstn (S i) (subst_nth cl i l)).
Proof.
  induction l as [|f r IH]; intros [|i] Hc Hr Hlt Ha; cbn in *; try lia.
  - constructor; [|constructor]. destruct f as [d|]; cbn; [|reflexivity]. rewrite (Hc d); [reflexivity|]. apply Hr. left. reflexivity.
  - inversion Ha; subst. constructor; [reflexivity|]. apply IH; auto; [|lia]. intros c H. apply Hr. right. exact H.
Qed.
Lemma firstn_all_full (l : list fld) i : length l <= i -> all_res (firstn i l) -> all_res l.
Proof. intros H. rewrite firstn_all2 by exact H. auto. Qed.

(* ---------- one step of the lock-protected code ---------- *)
Lemma refs_in_nil fs : refs_in fs [] -> all_res fs.
Proof.
  intros H. apply Forall_forall. intros f Hf. destruct f as [c|]; [|reflexivity]. destruct (H c Hf).
Qed.
Lemma all_res_usable cl l : all_res l -> forallb (usable cl) l = true.
Proof. intros H. apply forallb_forall. intros f Hf. unfold all_res in H. rewrite Forall_forall in H. rewrite (H f Hf). reflexivity. Qed.

Definition quiet (s : shared) : Prop := pending s = [] -> resolving s = false -> all_res (fields s).
Definition free_ok (s : shared) : Prop := lock s = None -> resolving s = false /\ refs_in (fields s) (pending s).

Record step_facts (s : shared) (t : nat) (p : pc) (s' : shared) (p' : pc) : Prop := {
  sf_pc : pc_inv s' p';
  sf_cs : in_cs p' = true -> lock s' = Some t;
  sf_outside : in_cs p = false -> s' = s \/ (lock s = None /\ s' = set_lock s (Some t));
  sf_mono : all_res (fields s) -> all_res (fields s');
  sf_free : free_ok s';
  sf_quiet : quiet s';
  sf_hold : lock s' = None \/ (lock s' = Some t /\ in_cs p' = true) \/ (lock s' = lock s /\ in_cs p = false /\ in_cs p' = false)
}.

Lemma after_subst_inv local s mine : resolving s = true -> pending s = [] -> all_res (fields s) ->
  pc_inv s (after_subst local mine) /\ in_cs (after_subst local mine) = true.
Proof.
  intros H1 H2 H3. unfold after_subst. destruct local; [|cbn; auto]. destruct mine as [|c r]; cbn; auto.
  repeat split; auto. discriminate.
Qed.

Lemma after_loop_inv local s mine : resolving s = true -> pending s = [] -> cells_on (cells s) mine -> refs_in (fields s) mine ->
  mine <> [] ->
  pc_inv s (after_loop local s mine) /\ in_cs (after_loop local s mine) = true.
Proof.
  intros H1 H2 H3 H4 Hm. unfold after_loop. destruct mine as [|c r]; [congruence|].
  destruct (fields s) as [|f fr] eqn:Ef.
  - apply after_subst_inv; auto. rewrite Ef. constructor.
  - cbn. rewrite Ef. repeat split; auto; cbn; try lia. constructor.
Qed.

Lemma cells_on_upd cl mine c : cells_on cl mine -> cells_on (upd cl c true) (mine ++ [c]).
Proof.
  intros H x Hx. unfold upd. destruct (x =? c) eqn:E; [reflexivity|]. apply in_app_or in Hx. destruct Hx as [Hx|[Hx|[]]]; [apply H; exact Hx|].
  subst. rewrite Nat.eqb_refl in E. discriminate.
Qed.

Ltac no := let H := fresh in intros H; cbn in H; try discriminate H; try congruence.

Lemma step_ok local s t p s' p' ev :
  step true local s t p = Some (s', p', ev) ->
  pc_inv s p -> (in_cs p = true -> lock s = Some t) -> free_ok s -> quiet s ->
  step_facts s t p s' p'.
Proof.
  intros Hs Hp Hcs Hfree Hq.
  (* the steps that leave the shared state as it is, outside the lock *)
  assert (Hsame : forall q, in_cs p = false -> in_cs q = false -> pc_inv s q -> step_facts s t p s q).
  { intros q Hp1 Hq1 Hq2. constructor; [exact Hq2|rewrite Hq1; no|intros _; left; reflexivity|auto|exact Hfree|exact Hq|right; right; auto]. }
  destruct p as [| | | | |snap mine|c rest mine|i mine|todo| | |loc|b|e]; cbn in Hs.
  - (* PFast *)
    destruct (pending s) as [|c r] eqn:Epd.
    + destruct (resolving s) eqn:Er; injection Hs as <- <- <-; apply Hsame; cbn; auto.
    + injection Hs as <- <- <-. apply Hsame; cbn; auto.
  - (* PWait *)
    destruct (lock s) as [h|] eqn:El; [discriminate|]. injection Hs as <- <- <-.
    destruct (Hfree El) as [Hr Hrefs].
    constructor; [cbn; auto|reflexivity|intros _; right; auto|auto|no|exact Hq|right; left; auto].
  - (* PCheck *)
    destruct Hp as [Hr Hrefs]. specialize (Hcs eq_refl).
    destruct (pending s) as [|c r] eqn:Epd; injection Hs as <- <- <-.
    + assert (Ha : all_res (fields s)) by (apply refs_in_nil; exact Hrefs).
      constructor; [exact Ha|no|no|auto| |intros _ _; exact Ha|left; reflexivity].
      intros _. split; [exact Hr|]. cbn. rewrite Epd. exact Hrefs.
    + constructor; [|intros _; exact Hcs|no|auto|exact Hfree|exact Hq|right; left; auto].
      cbn. rewrite Epd. repeat split; auto. discriminate.
  - (* PResOn *)
    destruct Hp as (Hr & Hrefs & Hne). specialize (Hcs eq_refl). injection Hs as <- <- <-.
    constructor; [cbn; auto|intros _; exact Hcs|no|auto|no|intros _; no|right; left; auto].
  - (* PSnap *)
    destruct Hp as (Hr & Hrefs & Hne). specialize (Hcs eq_refl).
    destruct (pending s) as [|c r] eqn:Epd; [congruence|]. injection Hs as <- <- <-.
    constructor; [|intros _; exact Hcs|no|auto|exact Hfree|exact Hq|right; left; auto].
    cbn. repeat split; auto; try discriminate. intros x []. rewrite app_nil_r. exact Hrefs.
  - (* PLook *)
    destruct Hp as (Hr & Hpd & Hne & Hc & Hrefs). specialize (Hcs eq_refl).
    destruct snap as [|c rest]; [congruence|]. rewrite Hpd, mem_head in Hs. injection Hs as <- <- <-.
    constructor; [cbn; auto|intros _; exact Hcs|no|auto|exact Hfree|exact Hq|right; left; auto].
  - (* PPop *)
    destruct Hp as (Hr & Hpd & Hc & Hrefs). specialize (Hcs eq_refl).
    rewrite Hpd, mem_head, remove1_head in Hs. injection Hs as <- <- <-.
    set (s1 := {| lock := lock s; resolving := resolving s; pending := rest; cells := upd (cells s) c true; fields := fields s |}).
    assert (Hc1 : cells_on (cells s1) (mine ++ [c])) by (apply cells_on_upd; exact Hc).
    assert (Hrefs1 : refs_in (fields s1) (rest ++ mine ++ [c])).
    { intros x Hx. specialize (Hrefs x Hx). cbn in Hrefs. destruct Hrefs as [<-|Hrefs].
      - apply in_or_app. right. apply in_or_app. right. left. reflexivity.
      - apply in_app_or in Hrefs. destruct Hrefs as [H|H]; apply in_or_app; [left; exact H|right; apply in_or_app; left; exact H]. }
    assert (Hrest : pc_inv s1 (match rest with [] => after_loop local s1 (mine ++ [c]) | _ :: _ => PLook rest (mine ++ [c]) end) /\
                    in_cs (match rest with [] => after_loop local s1 (mine ++ [c]) | _ :: _ => PLook rest (mine ++ [c]) end) = true).
    { destruct rest as [|d r].
      - apply after_loop_inv; auto. destruct mine; discriminate.
      - cbn. repeat split; auto. discriminate. }
    destruct Hrest as [H1 H2].
    constructor; [exact H1|intros _; exact Hcs|no|auto| | |right; left; auto].
    + intros H. cbn in H. congruence.
    + intros _ H. cbn in H. congruence.
  - (* PSubst *)
    destruct Hp as (Hr & Hpd & Hc & Hrefs & Hlt & Ha). specialize (Hcs eq_refl). injection Hs as <- <- <-.
    set (s1 := {| lock := lock s; resolving := resolving s; pending := pending s; cells := cells s; fields := subst_nth (cells s) i (fields s) |}).
    pose proof (subst_nth_firstn (cells s) mine (fields s) i Hc Hrefs Hlt Ha) as Hfirst.
    assert (Hrefs1 : refs_in (fields s1) mine) by (intros x Hx; apply Hrefs; eapply subst_nth_refs; exact Hx).
    assert (Hnext : pc_inv s1 (if S i <? length (fields s) then PSubst (S i) mine else after_subst local mine) /\
                    in_cs (if S i <? length (fields s) then PSubst (S i) mine else after_subst local mine) = true).
    { destruct (S i <? length (fields s)) eqn:El.
      - apply Nat.ltb_lt in El. cbn. rewrite subst_nth_length. repeat split; auto.
      - apply Nat.ltb_ge in El. apply after_subst_inv; auto. cbn. apply (firstn_all_full _ (S i)); [rewrite subst_nth_length; lia|exact Hfirst]. }
    destruct Hnext as [H1 H2].
    constructor; [exact H1|intros _; exact Hcs|no| | | |right; left; auto].
    + intros H. apply subst_nth_all_res. exact H.
    + intros H. cbn in H. congruence.
    + intros _ H. cbn in H. congruence.
  - (* PClear *)
    destruct Hp as (Hr & Hpd & Ha & Hne). specialize (Hcs eq_refl). destruct todo as [|c r]; [congruence|]. injection Hs as <- <- <-.
    constructor; [|intros _; exact Hcs|no|auto| | |right; left; split; [exact Hcs|destruct r; reflexivity]].
    + destruct r; cbn; repeat split; auto. discriminate.
    + intros H. cbn in H. congruence.
    + intros _ H. cbn in H. congruence.
  - (* PResOff *)
    destruct Hp as (Hr & Hpd & Ha). injection Hs as <- <- <-.
    constructor; [exact Ha|no|no|auto| |intros _ _; exact Ha|left; reflexivity].
    intros _. split; [reflexivity|]. apply all_res_no_ref. exact Ha.
  - (* PFetch *)
    injection Hs as <- <- <-. apply Hsame; cbn; auto.
  - (* PUse *)
    cbn in Hp. rewrite (all_res_usable _ _ Hp) in Hs. injection Hs as <- <- <-. apply Hsame; cbn; auto.
  - discriminate.
  - discriminate.
Qed.

(* ---------- the invariant over all threads ---------- *)
Record ginv (st : state) : Prop := {
  g_cs : forall t p, nth_error (ths st) t = Some p -> in_cs p = true -> lock (sh st) = Some t;
  g_free : free_ok (sh st);
  g_quiet : quiet (sh st);
  g_pc : forall t p, nth_error (ths st) t = Some p -> pc_inv (sh st) p;
  g_holder : forall h, lock (sh st) = Some h -> exists p, nth_error (ths st) h = Some p /\ in_cs p = true
}.

(* what a thread outside the lock relies on survives any change that keeps resolved fields resolved *)
Lemma noncs_frame s s' p : in_cs p = false -> (all_res (fields s) -> all_res (fields s')) -> pc_inv s p -> pc_inv s' p.
Proof. destruct p; cbn; try discriminate; auto. Qed.

Lemma tstep_ginv local st t st' ev : ginv st -> tstep true local st t = Some (st', ev) -> ginv st'.
Proof.
  intros [Hcs Hfree Hq Hpc Hh] H. unfold tstep in H.
  destruct (nth_error (ths st) t) as [p|] eqn:Ep; [|discriminate].
  destruct (step true local (sh st) t p) as [[[s' p'] ev']|] eqn:Es; [|discriminate]. injection H as <- <-.
  assert (Hlt : t < length (ths st)) by (apply nth_error_Some; congruence).
  pose proof (step_ok local _ _ _ _ _ _ Es (Hpc t p Ep) (Hcs t p Ep) Hfree Hq) as F.
  constructor; cbn [sh ths].
  - intros u q Hu Hq1. destruct (Nat.eq_dec u t) as [->|Hne].
    + rewrite nth_set_nth_same in Hu by exact Hlt. injection Hu as <-. apply F. exact Hq1.
    + rewrite nth_set_nth_other in Hu by exact Hne. pose proof (Hcs u q Hu Hq1) as Hl.
      (* u holds the lock, so t is outside it and cannot have changed anything *)
      destruct (in_cs p) eqn:Ecs.
      * pose proof (Hcs t p Ep Ecs). congruence.
      * destruct (sf_outside _ _ _ _ _ F Ecs) as [->|[Hn _]]; [exact Hl|congruence].
  - apply F.
  - apply F.
  - intros u q Hu. destruct (Nat.eq_dec u t) as [->|Hne].
    + rewrite nth_set_nth_same in Hu by exact Hlt. injection Hu as <-. apply F.
    + rewrite nth_set_nth_other in Hu by exact Hne. pose proof (Hpc u q Hu) as Hq2.
      destruct (in_cs q) eqn:Eq.
      * pose proof (Hcs u q Hu Eq) as Hl. destruct (in_cs p) eqn:Ecs.
        -- pose proof (Hcs t p Ep Ecs). congruence.
        -- destruct (sf_outside _ _ _ _ _ F Ecs) as [->|[Hn _]]; [exact Hq2|congruence].
      * eapply noncs_frame; [exact Eq|apply F|exact Hq2].
  - intros h Hl. destruct (sf_hold _ _ _ _ _ F) as [Hn|[[Ht Hc]|[Hsame [Hc1 Hc2]]]].
    + congruence.
    + assert (h = t) by congruence. subst h. exists p'. rewrite nth_set_nth_same by exact Hlt. auto.
    + rewrite Hsame in Hl. destruct (Hh h Hl) as (q & Hq1 & Hq2). destruct (Nat.eq_dec h t) as [->|Hne].
      * rewrite Ep in Hq1. injection Hq1 as <-. congruence.
      * exists q. rewrite nth_set_nth_other by exact Hne. auto.
Qed.

Lemma run_ginv local : forall sched st, ginv st -> ginv (run true local st sched).
Proof.
  induction sched as [|t r IH]; intros st Hg; cbn; [exact Hg|].
  destruct (tstep true local st t) as [[st' ev]|] eqn:E; [|apply IH; exact Hg]. apply IH. eapply tstep_ginv; eauto.
Qed.

Lemma nth_repeat {A} (x : A) n t y : nth_error (repeat x n) t = Some y -> y = x.
Proof. revert t. induction n as [|n IH]; intros [|t]; cbn; try discriminate; [congruence|apply IH]. Qed.

Lemma init_ginv n pend flds : refs_in flds pend -> ginv (init n pend flds).
Proof.
  intros Hr. constructor; cbn.
  - intros t p Hp. apply nth_repeat in Hp. subst. discriminate.
  - intros _. auto.
  - intros Hp _. cbn in Hp. subst. apply refs_in_nil. exact Hr.
  - intros t p Hp. apply nth_repeat in Hp. subst. exact I.
  - intros h H. discriminate.
Qed.

(* any number of threads, any schedule: nobody fails, everybody who finishes finishes well *)
Theorem locked_safe local n pend flds sched : refs_in flds pend ->
  forall t p, nth_error (ths (run true local (init n pend flds) sched)) t = Some p ->
    (forall e, p <> PErr e) /\ (forall b, p = PDone b -> b = true) /\
    (forall loc, p = PUse loc -> all_res loc).
Proof.
  intros Hr t p Hp. pose proof (run_ginv local sched _ (init_ginv n pend flds Hr)) as G.
  pose proof (g_pc _ G t p Hp) as Hi. repeat split.
  - intros e ->. exact Hi.
  - intros b ->. exact Hi.
  - intros loc ->. exact Hi.
Qed.

(* and the lock is never held by two threads: at most one thread is inside *)
Theorem locked_mutex local n pend flds sched : refs_in flds pend ->
  forall t u p q, let st := run true local (init n pend flds) sched in
    nth_error (ths st) t = Some p -> nth_error (ths st) u = Some q -> in_cs p = true -> in_cs q = true -> t = u.
Proof.
  intros Hr t u p q st Hp Hq Hcp Hcq. pose proof (run_ginv local sched _ (init_ginv n pend flds Hr)) as G.
  pose proof (g_cs _ G t p Hp Hcp). pose proof (g_cs _ G u q Hq Hcq). congruence.
Qed.

(* no deadlock: while a thread has not finished, some thread can take a step *)
Definition finished (p : pc) : bool := match p with PDone _ | PErr _ => true | _ => false end.
Lemma step_enabled local s t p : finished p = false -> p <> PWait -> step true local s t p <> None.
Proof.
  intros Hf Hw. destruct p as [| | | | |snap mine|c rest mine|i mine|todo| | |loc|b|e]; cbn in *; try discriminate; try congruence.
  - destruct (pending s); [destruct (resolving s)|]; discriminate.
  - destruct (pending s); discriminate.
  - destruct (pending s); discriminate.
  - destruct snap; [discriminate|]. destruct (mem _ _); discriminate.
  - destruct (mem _ _); discriminate.
  - destruct todo; discriminate.
  - destruct (forallb _ _); discriminate.
Qed.

Lemma pc_eq_wait p : p = PWait \/ p <> PWait.
Proof. destruct p; try (right; discriminate). left. reflexivity. Qed.

Theorem locked_no_deadlock local n pend flds sched : refs_in flds pend ->
  let st := run true local (init n pend flds) sched in
  (exists t p, nth_error (ths st) t = Some p /\ finished p = false) ->
  exists u, tstep true local st u <> None.
Proof.
  intros Hr st (t & p & Hp & Hf). pose proof (run_ginv local sched _ (init_ginv n pend flds Hr)) as G. fold st in G.
  assert (Hen : forall u q, nth_error (ths st) u = Some q -> finished q = false -> q <> PWait -> tstep true local st u <> None).
  { intros u q Hu Hq1 Hq2. unfold tstep. rewrite Hu. pose proof (step_enabled local (sh st) u q Hq1 Hq2) as H.
    destruct (step true local (sh st) u q) as [[[a b] c]|]; [discriminate|congruence]. }
  destruct (pc_eq_wait p) as [->|Hne]; [|exists t; eapply Hen; eauto].
  destruct (lock (sh st)) as [h|] eqn:El.
  - destruct (g_holder _ G h El) as (q & Hq1 & Hq2). exists h. eapply Hen; [exact Hq1| |]; destruct q; cbn in *; congruence.
  - exists t. unfold tstep. rewrite Hp. cbn. rewrite El. discriminate.
Qed.

(* ---------- lookups in the converter registry ---------- *)
From UV Require Import RegCache.
Section RegCacheProofs.
  Variable scan : nat -> nat.
  Definition cache_ok (ca : cache) : Prop := forall t c, lookup ca t = Some c -> c = scan t.
  Definition rpc_ok (ca : cache) (p : rpc) : Prop :=
    match p with
    | RHit t => lookup ca t <> None
    | RFill t c => c = scan t
    | RDone t c => c = scan t
    | RKeyErr _ => False
    | _ => True
    end.
  Definition rinv (st : rstate) : Prop :=
    cache_ok (r_cache st) /\ forall u p, nth_error (r_ths st) u = Some p -> rpc_ok (r_cache st) p.

  Lemma lookup_cons ca t c t' : lookup ((t, c) :: ca) t' = if t =? t' then Some c else lookup ca t'.
  Proof. reflexivity. Qed.

  (* a fill only adds a correct entry: nothing another thread relies on is lost *)
  Lemma rpc_ok_grow ca t p : rpc_ok ca p -> rpc_ok ((t, scan t) :: ca) p.
  Proof. destruct p; cbn; auto. intros H. destruct (t =? t0); [discriminate|exact H]. Qed.

  Lemma rtstep_inv st u st' ev : rinv st -> rtstep scan st u = Some (st', ev) -> rinv st'.
  Proof.
    intros [Hc Hp] H. unfold rtstep in H. destruct (nth_error (r_ths st) u) as [p|] eqn:Ep; [|discriminate].
    destruct (rstep scan (r_cache st) p) as [[[ca p'] ev']|] eqn:Es; [|discriminate]. injection H as <- <-.
    assert (Hlt : u < length (r_ths st)) by (apply nth_error_Some; congruence).
    pose proof (Hp u p Ep) as Hpu.
    assert (Hstep : cache_ok ca /\ rpc_ok ca p' /\ (forall q, rpc_ok (r_cache st) q -> rpc_ok ca q)).
    { destruct p as [t|t|t|t c|t c|t]; cbn in Es.
      - destruct (lookup (r_cache st) t) eqn:El; injection Es as <- <- <-; repeat split; auto; cbn; congruence.
      - destruct (lookup (r_cache st) t) as [c|] eqn:El; [|cbn in Hpu; congruence]. injection Es as <- <- <-.
        repeat split; auto. cbn. apply Hc. exact El.
      - injection Es as <- <- <-. repeat split; auto.
      - injection Es as <- <- <-. cbn in Hpu. subst c. split; [|split].
        + intros t' c'. rewrite lookup_cons. destruct (t =? t') eqn:E; [|apply Hc]. apply Nat.eqb_eq in E. subst. congruence.
        + cbn. reflexivity.
        + intros q. apply rpc_ok_grow.
      - discriminate.
      - discriminate. }
    destruct Hstep as (H1 & H2 & H3). split; cbn; [exact H1|].
    intros v q Hv. destruct (Nat.eq_dec v u) as [->|Hne].
    - rewrite nth_set_nth_same in Hv by exact Hlt. injection Hv as <-. exact H2.
    - rewrite nth_set_nth_other in Hv by exact Hne. apply H3. apply (Hp v q Hv).
  Qed.
End RegCacheProofs.

Lemma rrun_inv scan : forall sched st, rinv scan st -> rinv scan (rrun scan st sched).
Proof.
  induction sched as [|u r IH]; intros st Hi; cbn; [exact Hi|].
  destruct (rtstep scan st u) as [[st' ev]|] eqn:E; [|apply IH; exact Hi]. apply IH. eapply rtstep_inv; eauto.
Qed.

(* any number of threads looking up any types, an empty or already correct cache, any schedule: every lookup returns
   the converter the scan of the registrations gives, and the read of a hit never fails *)
Theorem registry_lookups_safe scan ca reqs sched : cache_ok scan ca ->
  forall u p, nth_error (r_ths (rrun scan {| r_cache := ca; r_ths := map RTest reqs |} sched)) u = Some p ->
    (forall t, p <> RKeyErr t) /\ (forall t c, p = RDone t c -> c = scan t).
Proof.
  intros Hc u p Hp.
  assert (Hi : rinv scan {| r_cache := ca; r_ths := map RTest reqs |}).
  { split; [exact Hc|]. cbn. intros v q Hv. apply nth_error_In in Hv. apply in_map_iff in Hv. destruct Hv as (t & <- & _). exact I. }
  pose proof (rrun_inv scan sched _ Hi) as [_ H]. specialize (H u p Hp). split.
  - intros t ->. exact H.
  - intros t c ->. exact H.
Qed.
