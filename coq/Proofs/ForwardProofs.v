(* Proofs/ForwardProofs.v — C17: registration is complete, lazy resolution yields the directly written type. *)
From UV Require Import Forward.
From Coq Require Import List Arith Bool Lia.
Import ListNotations.

(* ---------- induction principles for the nested trees ---------- *)
Section AtyInd.
  Variable P : aty -> Prop.
  Hypothesis HP : forall p, P (APrim p).
  Hypothesis HC : forall c, P (AClass c).
  Hypothesis HR : forall c, P (ARef c).
  Hypothesis HA : forall k args, Forall P args -> P (AApp k args).
  Fixpoint aty_ind' (t : aty) : P t :=
    match t with
    | APrim p => HP p
    | AClass c => HC c
    | ARef c => HR c
    | AApp k args => HA k args ((fix go (l : list aty) : Forall P l :=
                                   match l with [] => Forall_nil P | x :: r => Forall_cons x (aty_ind' x) (go r) end) args)
    end.
End AtyInd.
Section StyInd.
  Variable P : sty -> Prop.
  Hypothesis HP : forall p, P (SPrim p).
  Hypothesis HN : forall n, P (SName n).
  Hypothesis HA : forall k args, Forall P args -> P (SApp k args).
  Fixpoint sty_ind' (t : sty) : P t :=
    match t with
    | SPrim p => HP p
    | SName n => HN n
    | SApp k args => HA k args ((fix go (l : list sty) : Forall P l :=
                                   match l with [] => Forall_nil P | x :: r => Forall_cons x (sty_ind' x) (go r) end) args)
    end.
End StyInd.

(* ---------- all_some ---------- *)
Lemma all_some_map_ext {A B} (f g : A -> option B) (l : list A) :
  Forall (fun x => f x = g x) l -> all_some (map f l) = all_some (map g l).
Proof. induction 1 as [|x r Hx _ IH]; cbn; [reflexivity|]. rewrite Hx, IH. reflexivity. Qed.
Lemma all_some_map_some {A B} (f : A -> option B) (l : list A) :
  Forall (fun x => exists y, f x = Some y) l -> exists ys, all_some (map f l) = Some ys.
Proof.
  induction 1 as [|x r [y Hy] _ [ys IH]]; cbn; [eexists; reflexivity|]. rewrite Hy, IH. eexists; reflexivity.
Qed.
Lemma all_some_map_self {A} (f : A -> option A) (l : list A) :
  Forall (fun x => f x = Some x) l -> all_some (map f l) = Some l.
Proof. induction 1 as [|x r Hx _ IH]; cbn; [reflexivity|]. rewrite Hx, IH. reflexivity. Qed.
Lemma all_some_Forall2 {A B} (f : A -> option B) (l : list A) ys :
  all_some (map f l) = Some ys -> Forall2 (fun x y => f x = Some y) l ys.
Proof.
  revert ys. induction l as [|x r IH]; intros ys; cbn.
  - intros H. injection H as <-. constructor.
  - destruct (f x) as [y|] eqn:E; [|discriminate]. destruct (all_some (map f r)) as [zs|]; [|discriminate].
    intros H. injection H as <-. constructor; [exact E|]. apply IH. reflexivity.
Qed.

(* ---------- environments ---------- *)
Definition sub (e e' : env) : Prop := forall n c, e n = Some c -> e' n = Some c.
Lemma sub_refl e : sub e e. Proof. intros n c H; exact H. Qed.

Lemma eval_s_mono e e' : sub e e' -> forall s v, eval_s e s = Some v -> eval_s e' s = Some v.
Proof.
  intros Hs. induction s as [p|n|k args IH] using sty_ind'; intros v; cbn.
  - auto.
  - destruct (e n) as [c|] eqn:E; [|discriminate]. rewrite (Hs _ _ E). auto.
  - destruct (all_some (map (eval_s e) args)) as [l|] eqn:E; [|discriminate]. intros H. injection H as <-.
    assert (all_some (map (eval_s e') args) = Some l) as ->; [|reflexivity].
    clear -IH E. revert l E. induction args as [|x r IHr]; intros l; cbn; [auto|].
    inversion IH as [|? ? Hx Hr]; subst.
    destruct (eval_s e x) as [y|] eqn:Ex; [|discriminate]. rewrite (Hx _ eq_refl).
    destruct (all_some (map (eval_s e) r)) as [zs|]; [|discriminate]. rewrite (IHr Hr _ eq_refl). auto.
Qed.

(* values are reference-free, and a reference-free type does not look at the heap *)
Lemma flat_map_nil {A B} (f : A -> list B) l : Forall (fun x => f x = []) l -> flat_map f l = [].
Proof. induction 1 as [|x r Hx _ IH]; cbn; [reflexivity|]. rewrite Hx, IH. reflexivity. Qed.
Lemma eval_s_ref_free e : forall s v, eval_s e s = Some v -> refs v = [].
Proof.
  induction s as [p|n|k args IH] using sty_ind'; intros v; cbn.
  - intros H. injection H as <-. reflexivity.
  - destruct (e n); [|discriminate]. intros H. injection H as <-. reflexivity.
  - destruct (all_some (map (eval_s e) args)) as [l|] eqn:E; [|discriminate]. intros H. injection H as <-. cbn.
    apply flat_map_nil. apply all_some_Forall2 in E. clear -IH E.
    induction E as [|x y r ys Hxy _ IHr]; [constructor|]. inversion IH; subst. constructor; [eauto|auto].
Qed.
Lemma flat_map_nil_inv {A B} (f : A -> list B) l : flat_map f l = [] -> Forall (fun x => f x = []) l.
Proof.
  induction l as [|x r IH]; cbn; [constructor|]. intros H. apply app_eq_nil in H. destruct H. constructor; auto.
Qed.
Lemma den_ref_free h : forall t, refs t = [] -> den h t = Some t.
Proof.
  induction t as [p|c|c|k args IH] using aty_ind'; cbn; intros H; try reflexivity; try discriminate.
  apply flat_map_nil_inv in H. rewrite all_some_map_self; [reflexivity|].
  clear -IH H. induction IH as [|x r Hx _ IHr]; [constructor|]. inversion H; subst. constructor; auto.
Qed.
Lemma expected_ref_free e h : forall t, refs t = [] -> expected e h t = Some t.
Proof.
  induction t as [p|c|c|k args IH] using aty_ind'; cbn; intros H; try reflexivity; try discriminate.
  apply flat_map_nil_inv in H. rewrite all_some_map_self; [reflexivity|].
  clear -IH H. induction IH as [|x r Hx _ IHr]; [constructor|]. inversion H; subst. constructor; auto.
Qed.

(* ---------- the heap ---------- *)
Lemma set_val_length h : forall c v, length (set_val h c v) = length h.
Proof. induction h as [|x r IH]; intros [|c] v; cbn; auto. Qed.
Lemma nth_set_val_other h : forall c c' v, c <> c' -> nth_error (set_val h c v) c' = nth_error h c'.
Proof.
  induction h as [|x r IH]; intros [|c] [|c'] v Hne; cbn; try reflexivity; try congruence. apply IH. congruence.
Qed.
Lemma nth_set_val_same h : forall c v cl, nth_error h c = Some cl ->
  nth_error (set_val h c v) c = Some {| c_arg := c_arg cl; c_src := c_src cl; c_val := v |}.
Proof.
  induction h as [|x r IH]; intros [|c] v cl; cbn; try discriminate.
  - intros H. injection H as <-. reflexivity.
  - apply IH.
Qed.

Definition same_src (h h' : heap) : Prop :=
  forall c, option_map c_src (nth_error h c) = option_map c_src (nth_error h' c).
Lemma same_src_refl h : same_src h h. Proof. intros c; reflexivity. Qed.
Lemma same_src_trans a b c : same_src a b -> same_src b c -> same_src a c.
Proof. intros H1 H2 x. rewrite H1. apply H2. Qed.
Lemma same_src_set_val h c v : same_src h (set_val h c v).
Proof.
  intros c'. destruct (Nat.eq_dec c c') as [<-|Hne].
  - destruct (nth_error h c) as [cl|] eqn:E.
    + rewrite (nth_set_val_same _ _ v _ E). reflexivity.
    + assert (nth_error (set_val h c v) c = None) as ->; [|reflexivity].
      apply nth_error_None. rewrite set_val_length. apply nth_error_None. exact E.
  - rewrite nth_set_val_other by exact Hne. reflexivity.
Qed.
Lemma expected_same_src e h h' : same_src h h' -> forall t, expected e h t = expected e h' t.
Proof.
  intros Hs. induction t as [p|c|c|k args IH] using aty_ind'; cbn; try reflexivity.
  - specialize (Hs c). destruct (nth_error h c) as [a|], (nth_error h' c) as [b|]; cbn in Hs; try discriminate; [|reflexivity].
    injection Hs as ->. reflexivity.
  - rewrite (all_some_map_ext _ _ _ IH). reflexivity.
Qed.

Lemma cell_val_set_same h c v : c < length h -> cell_val (set_val h c v) c = v.
Proof.
  intros Hc. unfold cell_val. destruct (nth_error h c) as [cl|] eqn:E.
  - rewrite (nth_set_val_same _ _ v _ E). reflexivity.
  - apply nth_error_None in E. lia.
Qed.
Lemma cell_val_set_other h c c' v : c <> c' -> cell_val (set_val h c v) c' = cell_val h c'.
Proof. intros Hne. unfold cell_val. rewrite nth_set_val_other by exact Hne. reflexivity. Qed.

(* an evaluated cell holds the value of its text under the (final) globals *)
Definition consistent (E : env) (h : heap) : Prop :=
  forall c cl v, nth_error h c = Some cl -> c_val cl = Some v -> eval_s E (c_src cl) = Some v.
Lemma consistent_set_val E h c cl v : consistent E h -> nth_error h c = Some cl -> eval_s E (c_src cl) = Some v ->
  consistent E (set_val h c (Some v)).
Proof.
  intros Hc Hn Hv c' cl' v' Hn' Hv'. destruct (Nat.eq_dec c c') as [<-|Hne].
  - rewrite (nth_set_val_same _ _ _ _ Hn) in Hn'. injection Hn' as <-. cbn in *. congruence.
  - rewrite nth_set_val_other in Hn' by exact Hne. eapply Hc; eauto.
Qed.
Lemma consistent_clear E h c : consistent E h -> consistent E (set_val h c None).
Proof.
  intros Hc c' cl' v' Hn' Hv'. destruct (Nat.eq_dec c c') as [<-|Hne].
  - destruct (nth_error h c) as [cl|] eqn:En.
    + rewrite (nth_set_val_same _ _ _ _ En) in Hn'. injection Hn' as <-. discriminate.
    + assert (nth_error (set_val h c None) c = None) as Hx by (apply nth_error_None; rewrite set_val_length; apply nth_error_None; exact En).
      congruence.
  - rewrite nth_set_val_other in Hn' by exact Hne. eapply Hc; eauto.
Qed.

(* a type all of whose references are evaluated is seen, at parse time, as the directly written one *)
Lemma den_expected_evaluated E h : consistent E h -> forall t,
  (forall c, In c (refs t) -> cell_val h c <> None) -> exists d, expected E h t = Some d /\ den h t = Some d.
Proof.
  intros Hc. induction t as [p|c|c|k args IH] using aty_ind'; cbn; intros Hr; try (eexists; split; reflexivity).
  - specialize (Hr c (or_introl eq_refl)). unfold cell_val in *. destruct (nth_error h c) as [cl|] eqn:En; [|congruence].
    destruct (c_val cl) as [v|] eqn:Ev; [|congruence]. exists v. split; [eapply Hc; eauto|reflexivity].
  - assert (Hall : Forall (fun x => exists d, expected E h x = Some d /\ den h x = Some d) args).
    { clear -IH Hr. induction IH as [|x r Hx _ IHr]; [constructor|]. constructor.
      - apply Hx. intros c Hc. apply Hr. cbn. apply in_or_app. left. exact Hc.
      - apply IHr. intros c Hc. apply Hr. cbn. apply in_or_app. right. exact Hc. }
    clear -Hall. assert (exists l, all_some (map (expected E h) args) = Some l /\ all_some (map (den h) args) = Some l) as (l & -> & ->).
    { induction Hall as [|x r (d & H1 & H2) _ (l & H3 & H4)]; cbn; [eexists; split; reflexivity|].
      rewrite H1, H2, H3, H4. eexists; split; reflexivity. }
    eexists; split; reflexivity.
Qed.

(* ---------- substitution of evaluated references ---------- *)
Lemma subst_full E h : consistent E h -> forall t,
  (forall c, In c (refs t) -> cell_val h c <> None) -> refs (subst h t) = [] /\ Some (subst h t) = den h t.
Proof.
  intros Hc. induction t as [p|c|c|k args IH] using aty_ind'; cbn; intros Hr; try (split; reflexivity).
  - specialize (Hr c (or_introl eq_refl)). unfold cell_val in *. destruct (nth_error h c) as [cl|] eqn:En; [|congruence].
    destruct (c_val cl) as [v|] eqn:Ev; [|congruence]. split; [|reflexivity]. eapply eval_s_ref_free. eapply Hc; eauto.
  - assert (Hall : Forall (fun x => refs (subst h x) = [] /\ Some (subst h x) = den h x) args).
    { clear -IH Hr. induction IH as [|x r Hx _ IHr]; [constructor|]. constructor.
      - apply Hx. intros c Hc. apply Hr. cbn. apply in_or_app. left. exact Hc.
      - apply IHr. intros c Hc. apply Hr. cbn. apply in_or_app. right. exact Hc. }
    split.
    + rewrite flat_map_concat_map, map_map, <- flat_map_concat_map. apply flat_map_nil.
      eapply Forall_impl; [|exact Hall]. intros x [H _]. exact H.
    + assert (all_some (map (den h) args) = Some (map (subst h) args)) as ->; [|reflexivity].
      clear -Hall. induction Hall as [|x r [_ H] _ IHr]; cbn; [reflexivity|]. rewrite <- H, IHr. reflexivity.
Qed.

(* ---------- the table of pending references ---------- *)
Lemma key_eqb_eq a b : key_eqb a b = true -> a = b.
Proof.
  destruct a, b; cbn; try discriminate.
  - intros H. apply Nat.eqb_eq in H. congruence.
  - intros H. apply andb_prop in H. destruct H as [H1 H2]. apply Nat.eqb_eq in H1, H2. congruence.
Qed.
Lemma key_eqb_refl a : key_eqb a a = true.
Proof. destruct a; cbn; rewrite ?Nat.eqb_refl; reflexivity. Qed.

Lemma filter_length_le {A} (f : A -> bool) l : length (filter f l) <= length l.
Proof. induction l as [|x r IH]; cbn; [lia|]. destruct (f x); cbn; lia. Qed.
Lemma filter_lt {A} (f g : A -> bool) l :
  (forall x, f x = true -> g x = true) -> (exists x, In x l /\ g x = true /\ f x = false) ->
  length (filter f l) < length (filter g l).
Proof.
  intros Hfg. induction l as [|y r IH]; intros (x & Hin & Hg & Hf); [destruct Hin|].
  assert (Hle : length (filter f r) <= length (filter g r)).
  { clear -Hfg. induction r as [|z r IH]; cbn; [lia|]. destruct (f z) eqn:E.
    - rewrite (Hfg _ E). cbn. lia.
    - destruct (g z); cbn; lia. }
  cbn. destruct Hin as [<-|Hin].
  - rewrite Hf, Hg. cbn. lia.
  - specialize (IH (ex_intro _ x (conj Hin (conj Hg Hf)))). destruct (f y) eqn:E.
    + rewrite (Hfg _ E). cbn. lia.
    + destruct (g y); cbn; lia.
Qed.

Definition cnt (arg n : nat) (p : pending) : nat :=
  length (filter (fun e => match fst e with KName a m => (a =? arg) && (n <=? m) | _ => false end) p).
Lemma taken_cnt p arg n c : taken p (KName arg n) c = true -> cnt arg (S n) p < cnt arg n p.
Proof.
  intros H. unfold taken in H. apply existsb_exists in H. destruct H as (e & Hin & He).
  apply andb_prop in He. destruct He as [He _]. apply key_eqb_eq in He.
  unfold cnt. apply filter_lt.
  - intros x. destruct (fst x) as [a|a m]; [discriminate|]. intros Hx. apply andb_prop in Hx. destruct Hx as [H1 H2].
    rewrite H1. cbn. apply Nat.leb_le in H2. apply Nat.leb_le. lia.
  - exists e. split; [exact Hin|]. rewrite <- He. rewrite Nat.eqb_refl. cbn [andb].
    split; [apply Nat.leb_le; lia|]. apply (proj2 (Nat.leb_gt (S n) n)). lia.
Qed.
Lemma free_from_untaken p arg c : forall fuel n, cnt arg n p < fuel -> taken p (free_from fuel arg n c p) c = false.
Proof.
  induction fuel as [|f IH]; intros n Hlt; [lia|]. cbn. destruct (taken p (KName arg n) c) eqn:E; [|exact E].
  apply IH. apply taken_cnt in E. lia.
Qed.
Lemma choose_key_untaken k0 arg c p : (forall n, k0 <> KName arg (S n)) -> taken p (choose_key k0 arg c p) c = false.
Proof.
  intros Hk. unfold choose_key. destruct (taken p k0 c) eqn:E; [|exact E].
  apply free_from_untaken. unfold cnt.
  (* the entry holding k0 is not counted *)
  unfold taken in E. apply existsb_exists in E. destruct E as (e & Hin & He). apply andb_prop in He. destruct He as [He _].
  apply key_eqb_eq in He.
  assert (H : length (filter (fun e0 => match fst e0 with KName a m => (a =? arg) && (1 <=? m) | _ => false end) p)
              < length (filter (fun _ => true) p)).
  { apply filter_lt; [auto|]. exists e. split; [exact Hin|]. split; [reflexivity|]. rewrite <- He.
    destruct k0 as [a|a m]; [reflexivity|]. destruct (a =? arg) eqn:Ea; [|reflexivity]. cbn.
    apply Nat.eqb_eq in Ea. subst a. destruct m as [|m]; [reflexivity|]. exfalso. eapply Hk. reflexivity. }
  assert (Hall : filter (fun _ : key * nat => true) p = p) by (clear; induction p as [|x r IH]; cbn; [|rewrite IH]; reflexivity).
  rewrite Hall in H. exact H.
Qed.

Lemma add_pending_in k0 arg c p : (forall n, k0 <> KName arg (S n)) -> In c (map snd (add_pending k0 arg c p)).
Proof.
  intros Hk. unfold add_pending. pose proof (choose_key_untaken k0 arg c p Hk) as Hu.
  set (k := choose_key k0 arg c p) in *. destruct (has_key p k) eqn:Eh.
  - unfold has_key in Eh. apply existsb_exists in Eh. destruct Eh as (e & Hin & He).
    unfold taken in Hu. assert (Hx : (key_eqb k (fst e) && negb (snd e =? c)) = false).
    { destruct (key_eqb k (fst e) && negb (snd e =? c)) eqn:Ex; [|reflexivity].
      assert (existsb (fun e => key_eqb k (fst e) && negb (snd e =? c)) p = true) by (apply existsb_exists; eauto). congruence. }
    rewrite He in Hx. cbn in Hx. apply negb_false_iff in Hx. apply Nat.eqb_eq in Hx. rewrite <- Hx. apply in_map. exact Hin.
  - rewrite map_app. apply in_or_app. right. left. reflexivity.
Qed.
Lemma add_pending_incl k0 arg c p : forall x, In x p -> In x (add_pending k0 arg c p).
Proof. intros x Hx. unfold add_pending. destruct (has_key p _); [exact Hx|]. apply in_or_app. left. exact Hx. Qed.
Lemma add_pending_cells k0 arg c p : forall x, In x (map snd (add_pending k0 arg c p)) -> x = c \/ In x (map snd p).
Proof.
  intros x. unfold add_pending. destruct (has_key p _); [auto|]. rewrite map_app. intros H. apply in_app_or in H.
  destruct H as [H|[H|[]]]; [right; exact H|left; symmetry; exact H].
Qed.

(* ---------- registration at declaration time ---------- *)
Record reg_post (E : env) (local : bool) (h : heap) (p : pending) (ts ts' : list aty) (h' : heap) (p' : pending) : Prop := {
  rp_src : same_src h h';
  rp_len : length h' = length h;
  rp_cons : consistent E h';
  rp_exp : map (expected E h') ts' = map (expected E h) ts;
  rp_incl : forall x, In x p -> In x p';
  rp_refs : forall c, In c (flat_map refs ts') -> In c (map snd p');
  rp_local : local = true -> h' = h;
  rp_new : forall x, In x (map snd p') -> In x (map snd p) \/ In x (flat_map refs ts)
}.

Lemma in_map_snd_incl (p p' : pending) : (forall x, In x p -> In x p') -> forall c, In c (map snd p) -> In c (map snd p').
Proof. intros H c Hc. apply in_map_iff in Hc. destruct Hc as (x & <- & Hx). apply in_map. apply H. exact Hx. Qed.

Lemma reg_ref_post E e local k0 c h p : sub e E -> consistent E h -> c < length h ->
  let '(t', h', p') := reg_ref e local k0 c h p in reg_post E local h p [ARef c] [t'] h' p'.
Proof.
  intros Hsub Hcons Hlt. unfold reg_ref. destruct (nth_error h c) as [cl|] eqn:En; [|apply nth_error_None in En; lia].
  (* a value v of the text, evaluated now or before: the annotation becomes v *)
  assert (Hval : forall v h', eval_s E (c_src cl) = Some v -> same_src h h' -> length h' = length h -> consistent E h' ->
                 (local = true -> h' = h) -> reg_post E local h p [ARef c] [v] h' p).
  { intros v h' Hv Hs Hl Hc Hloc. pose proof (eval_s_ref_free _ _ _ Hv) as Hrf. constructor.
    - exact Hs.
    - exact Hl.
    - exact Hc.
    - cbn. rewrite En, Hv, (expected_ref_free _ _ _ Hrf). reflexivity.
    - auto.
    - cbn. rewrite Hrf. cbn. intros ? [].
    - exact Hloc.
    - intros x Hx. left. exact Hx. }
  destruct (c_val cl) as [v|] eqn:Ev.
  - apply Hval; auto using same_src_refl. eapply Hcons; eauto.
  - destruct (eval_s e (c_src cl)) as [v|] eqn:Ee.
    + pose proof (eval_s_mono _ _ Hsub _ _ Ee) as Hv. destruct local.
      * apply Hval; auto using same_src_refl.
      * apply Hval; auto using same_src_set_val, set_val_length; [|discriminate]. eapply consistent_set_val; eauto.
    + set (k := match k0 with Some a => KAttr a | None => KName (c_arg cl) 0 end).
      assert (Hk : forall n, k <> KName (c_arg cl) (S n)) by (intros n; unfold k; destruct k0; discriminate).
      constructor.
      * apply same_src_refl.
      * reflexivity.
      * exact Hcons.
      * reflexivity.
      * apply add_pending_incl.
      * cbn. intros x [<-|[]]. apply add_pending_in. exact Hk.
      * reflexivity.
      * intros x Hx. apply add_pending_cells in Hx. destruct Hx as [->|Hx]; [right; cbn; auto|left; exact Hx].
Qed.

Definition reg_args e local := fix go (l : list aty) (h : heap) (p : pending) : list aty * heap * pending :=
  match l with
  | [] => ([], h, p)
  | x :: r => let '(x', h1, p1) := reg_ty e local None x h p in
              let '(r', h2, p2) := go r h1 p1 in (x' :: r', h2, p2)
  end.
Lemma reg_ty_app e local k0 k args h p :
  reg_ty e local k0 (AApp k args) h p = let '(a, h', p') := reg_args e local args h p in (AApp k a, h', p').
Proof. reflexivity. Qed.

Lemma reg_post_id E local h p ts : consistent E h -> flat_map refs ts = [] -> reg_post E local h p ts ts h p.
Proof.
  intros Hc Hr. constructor.
  - apply same_src_refl.
  - reflexivity.
  - exact Hc.
  - reflexivity.
  - auto.
  - rewrite Hr. intros ? [].
  - reflexivity.
  - intros x H. left. exact H.
Qed.
Lemma reg_post_nil E local h p : consistent E h -> reg_post E local h p [] [] h p.
Proof. intros Hc. apply reg_post_id; auto. Qed.

(* one element registered, then the rest *)
Lemma reg_post_cons E local h p x x' h1 p1 r r' h2 p2 :
  reg_post E local h p [x] [x'] h1 p1 -> reg_post E local h1 p1 r r' h2 p2 ->
  reg_post E local h p (x :: r) (x' :: r') h2 p2.
Proof.
  intros A B. constructor.
  - eapply same_src_trans; [apply A|apply B].
  - rewrite (rp_len _ _ _ _ _ _ _ _ B). apply A.
  - apply B.
  - cbn [map]. f_equal.
    + rewrite <- (expected_same_src E h1 h2 (rp_src _ _ _ _ _ _ _ _ B)).
      pose proof (rp_exp _ _ _ _ _ _ _ _ A) as H. cbn in H. congruence.
    + rewrite (rp_exp _ _ _ _ _ _ _ _ B). apply map_ext. intros t. symmetry. apply expected_same_src. apply A.
  - intros y Hy. apply B. apply A. exact Hy.
  - cbn [flat_map]. intros c Hc. apply in_app_or in Hc. destruct Hc as [Hc|Hc].
    + eapply in_map_snd_incl; [apply B|]. apply (rp_refs _ _ _ _ _ _ _ _ A). cbn. rewrite app_nil_r. exact Hc.
    + apply B. exact Hc.
  - intros Hl. rewrite (rp_local _ _ _ _ _ _ _ _ B Hl). apply A. exact Hl.
  - intros y Hy. apply (rp_new _ _ _ _ _ _ _ _ B) in Hy. destruct Hy as [Hy|Hy].
    + apply (rp_new _ _ _ _ _ _ _ _ A) in Hy. destruct Hy as [Hy|Hy]; [left; exact Hy|right].
      cbn in Hy. rewrite app_nil_r in Hy. cbn. apply in_or_app. left. exact Hy.
    + right. cbn. apply in_or_app. right. exact Hy.
Qed.

Lemma reg_ty_post E e local : sub e E -> forall t k0 h p, consistent E h -> (forall c, In c (refs t) -> c < length h) ->
  let '(t', h', p') := reg_ty e local k0 t h p in reg_post E local h p [t] [t'] h' p'.
Proof.
  intros Hsub. induction t as [q|c|c|k args IH] using aty_ind'; intros k0 h p Hcons Hwf.
  - cbn. apply reg_post_id; auto.
  - cbn. apply reg_post_id; auto.
  - cbn [reg_ty]. apply reg_ref_post; auto. apply Hwf. cbn. auto.
  - rewrite reg_ty_app.
    assert (Hargs : forall h p, consistent E h -> (forall c, In c (flat_map refs args) -> c < length h) ->
                    let '(a, h', p') := reg_args e local args h p in reg_post E local h p args a h' p').
    { clear Hcons Hwf h p. induction IH as [|x r Hx _ IHr]; intros h p Hcons Hwf.
      - cbn. apply reg_post_nil. exact Hcons.
      - cbn [reg_args]. specialize (Hx None h p Hcons). destruct (reg_ty e local None x h p) as [[x' h1] p1].
        assert (Hx' : reg_post E local h p [x] [x'] h1 p1).
        { apply Hx. intros c Hc. apply Hwf. cbn. apply in_or_app. left. exact Hc. }
        specialize (IHr h1 p1 (rp_cons _ _ _ _ _ _ _ _ Hx')).
        fold (reg_args e local) in *. destruct (reg_args e local r h1 p1) as [[r' h2] p2].
        eapply reg_post_cons; [exact Hx'|]. apply IHr. intros c Hc. rewrite (rp_len _ _ _ _ _ _ _ _ Hx'). apply Hwf.
        cbn. apply in_or_app. right. exact Hc. }
    specialize (Hargs h p Hcons). destruct (reg_args e local args h p) as [[a h'] p'].
    assert (Ha : reg_post E local h p args a h' p') by (apply Hargs; intros c Hc; apply Hwf; exact Hc).
    constructor; try apply Ha.
    + cbn. rewrite (rp_exp _ _ _ _ _ _ _ _ Ha). reflexivity.
    + cbn. rewrite app_nil_r. apply Ha.
    + intros x Hx. apply (rp_new _ _ _ _ _ _ _ _ Ha) in Hx. destruct Hx as [Hx|Hx]; [left; exact Hx|right]. cbn. rewrite app_nil_r. exact Hx.
Qed.

Lemma reg_fields_post E e local : sub e E -> forall fs h p, consistent E h ->
  (forall c, In c (flat_map refs (map snd fs)) -> c < length h) ->
  let '(ts', h', p') := reg_fields e local fs h p in reg_post E local h p (map snd fs) ts' h' p'.
Proof.
  intros Hsub. induction fs as [|[a t] r IH]; intros h p Hcons Hwf.
  - cbn. apply reg_post_nil. exact Hcons.
  - cbn [reg_fields map snd]. pose proof (reg_ty_post E e local Hsub t (Some a) h p Hcons) as Ht.
    destruct (reg_ty e local (Some a) t h p) as [[t' h1] p1].
    assert (Ht' : reg_post E local h p [t] [t'] h1 p1).
    { apply Ht. intros c Hc. apply Hwf. cbn. apply in_or_app. left. exact Hc. }
    specialize (IH h1 p1 (rp_cons _ _ _ _ _ _ _ _ Ht')). destruct (reg_fields e local r h1 p1) as [[r' h2] p2].
    eapply reg_post_cons; [exact Ht'|]. apply IH. intros c Hc. rewrite (rp_len _ _ _ _ _ _ _ _ Ht'). apply Hwf.
    cbn. apply in_or_app. right. exact Hc.
Qed.

(* ---------- resolution at first parse ---------- *)
Lemma nth_set_val_src h c v c' cl' : nth_error h c' = Some cl' ->
  exists cl'', nth_error (set_val h c v) c' = Some cl'' /\ c_src cl'' = c_src cl'.
Proof.
  intros H. destruct (Nat.eq_dec c c') as [<-|Hne].
  - rewrite (nth_set_val_same _ _ v _ H). eexists; split; reflexivity.
  - rewrite nth_set_val_other by exact Hne. eexists; split; [exact H|reflexivity].
Qed.
Lemma cell_val_keep h c v c' : cell_val h c' <> None -> cell_val (set_val h c (Some v)) c' <> None.
Proof.
  intros H. destruct (Nat.eq_dec c c') as [<-|Hne].
  - unfold cell_val in *. destruct (nth_error h c) as [cl|] eqn:E; [|congruence].
    rewrite (nth_set_val_same _ _ _ _ E). cbn. discriminate.
  - rewrite cell_val_set_other by exact Hne. exact H.
Qed.

Definition evaluable (E : env) (h : heap) (p : pending) : Prop :=
  forall k c, In (k, c) p -> exists cl v, nth_error h c = Some cl /\ eval_s E (c_src cl) = Some v.

Lemma evaluable_set_val E h p c v : evaluable E h p -> evaluable E (set_val h c v) p.
Proof.
  intros H k c' Hin. destruct (H k c' Hin) as (cl & w & Hn & Hw).
  destruct (nth_set_val_src h c v c' cl Hn) as (cl'' & Hn' & Hs). exists cl'', w. rewrite Hs. auto.
Qed.

Lemma resolve_loop_ok E : forall p h done, evaluable E h p -> consistent E h ->
  exists h', resolve_loop E h p done = (h', [], done ++ map snd p, false) /\ same_src h h' /\ length h' = length h /\
             consistent E h' /\ (forall c, In c (map snd p) -> cell_val h' c <> None) /\
             (forall c, ~ In c (map snd p) -> nth_error h' c = nth_error h c) /\
             (forall c, cell_val h c <> None -> cell_val h' c <> None).
Proof.
  induction p as [|[k c] r IH]; intros h done Hev Hcons.
  - exists h. cbn. rewrite app_nil_r. repeat split; auto using same_src_refl.
  - cbn [resolve_loop]. destruct (Hev k c (or_introl eq_refl)) as (cl & v & Hn & Hv). rewrite Hn, Hv.
    assert (Hev' : evaluable E (set_val h c (Some v)) r).
    { apply evaluable_set_val. intros k' c' Hin. apply (Hev k' c'). right. exact Hin. }
    destruct (IH (set_val h c (Some v)) (done ++ [c]) Hev' (consistent_set_val _ _ _ _ _ Hcons Hn Hv))
      as (h' & Hl & Hs & Hlen & Hc' & Hval & Hoth & Hkeep).
    exists h'. rewrite Hl. cbn [map snd]. rewrite <- app_assoc. cbn. repeat split.
    + eapply same_src_trans; [apply same_src_set_val|exact Hs].
    + rewrite Hlen. apply set_val_length.
    + exact Hc'.
    + intros c' [<-|Hin]; [|apply Hval; exact Hin]. apply Hkeep. rewrite cell_val_set_same; [discriminate|].
      apply nth_error_Some. congruence.
    + intros c' Hnin. rewrite Hoth by (intros Hx; apply Hnin; right; exact Hx).
      apply nth_set_val_other. intros ->. apply Hnin. left. reflexivity.
    + intros c' Hx. apply Hkeep. apply cell_val_keep. exact Hx.
Qed.

Lemma resolve_loop_raised e E : sub e E -> forall p h done h' rest done', consistent E h ->
  resolve_loop e h p done = (h', rest, done', true) ->
  same_src h h' /\ length h' = length h /\ consistent E h' /\ rest <> [] /\ (forall x, In x rest -> In x p) /\
  (forall c, In c (map snd p) -> In c (map snd rest) \/ cell_val h' c <> None) /\
  (forall c, cell_val h c <> None -> cell_val h' c <> None).
Proof.
  intros Hsub. induction p as [|[k c] r IH]; intros h done h' rest done' Hcons H; [discriminate|].
  cbn [resolve_loop] in H.
  assert (Hstop : (h, (k, c) :: r, done, true) = (h', rest, done', true) ->
          same_src h h' /\ length h' = length h /\ consistent E h' /\ rest <> [] /\ (forall x, In x rest -> In x ((k, c) :: r)) /\
          (forall c0, In c0 (map snd ((k, c) :: r)) -> In c0 (map snd rest) \/ cell_val h' c0 <> None) /\
          (forall c0, cell_val h c0 <> None -> cell_val h' c0 <> None)).
  { intros Hx. injection Hx as <- <- <-. repeat split; auto using same_src_refl; discriminate. }
  destruct (nth_error h c) as [cl|] eqn:Hn; [|apply Hstop; exact H].
  destruct (eval_s e (c_src cl)) as [v|] eqn:Hv; [|apply Hstop; exact H].
  pose proof (eval_s_mono _ _ Hsub _ _ Hv) as HvE.
  destruct (IH _ _ _ _ _ (consistent_set_val _ _ _ _ _ Hcons Hn HvE) H) as (Hs & Hlen & Hc' & Hne & Hin & Hcov & Hkeep).
  repeat split.
  - eapply same_src_trans; [apply same_src_set_val|exact Hs].
  - rewrite Hlen. apply set_val_length.
  - exact Hc'.
  - exact Hne.
  - intros x Hx. right. apply Hin. exact Hx.
  - cbn [map snd]. intros c0 [<-|Hc0]; [|apply Hcov; exact Hc0]. right. apply Hkeep. rewrite cell_val_set_same; [discriminate|].
    apply nth_error_Some. congruence.
  - intros c0 Hx. apply Hkeep. apply cell_val_keep. exact Hx.
Qed.

Lemma clear_all_props E : forall cs h, consistent E h ->
  same_src h (clear_all h cs) /\ consistent E (clear_all h cs) /\
  (forall c, In c cs -> cell_val (clear_all h cs) c = None) /\
  (forall c, ~ In c cs -> nth_error (clear_all h cs) c = nth_error h c) /\
  (forall c, cell_val h c = None -> cell_val (clear_all h cs) c = None).
Proof.
  induction cs as [|x r IH]; intros h Hc; cbn.
  - repeat split; auto using same_src_refl. intros c [].
  - destruct (IH (set_val h x None) (consistent_clear _ _ _ Hc)) as (Hs & Hc' & Hin & Hout & Hnone).
    assert (Hx : cell_val (set_val h x None) x = None).
    { unfold cell_val. destruct (nth_error h x) as [cl|] eqn:En.
      - rewrite (nth_set_val_same _ _ _ _ En). reflexivity.
      - assert (nth_error (set_val h x None) x = None) as -> by (apply nth_error_None; rewrite set_val_length; apply nth_error_None; exact En).
        reflexivity. }
    repeat split.
    + eapply same_src_trans; [apply same_src_set_val|exact Hs].
    + exact Hc'.
    + intros c [<-|Hc0]; [apply Hnone; exact Hx|apply Hin; exact Hc0].
    + intros c Hn. rewrite Hout by (intros Hy; apply Hn; right; exact Hy). apply nth_set_val_other. intros ->. apply Hn. left. reflexivity.
    + intros c Hn. apply Hnone. destruct (Nat.eq_dec x c) as [<-|Hne]; [exact Hx|]. rewrite cell_val_set_other by exact Hne. exact Hn.
Qed.

(* every reference of the fields is pending or already evaluated *)
Definition covered (h : heap) (s : pstate) : Prop :=
  forall t, In t (p_fields s) -> forall c, In c (refs t) -> In c (map snd (p_pending s)) \/ cell_val h c <> None.

Theorem resolve_done E s h : consistent E h -> evaluable E h (p_pending s) -> covered h s ->
  exists s' h', resolve E s h = Done s' h' /\ p_pending s' = [] /\ p_local s' = p_local s /\
    Forall2 (fun t t' => exists d, expected E h t = Some d /\ den h' t' = Some d) (p_fields s) (p_fields s') /\
    same_src h h' /\ consistent E h' /\
    (forall c, ~ In c (map snd (p_pending s)) -> nth_error h' c = nth_error h c) /\
    (p_local s = true -> forall c, In c (map snd (p_pending s)) -> cell_val h' c = None) /\
    (p_pending s <> [] -> Forall (fun t' => refs t' = []) (p_fields s')).
Proof.
  intros Hcons Hev Hcov. unfold resolve. destruct (p_pending s) as [|e0 r] eqn:Ep.
  - exists s, h. repeat split; auto using same_src_refl; try congruence.
    + assert (H : forall t, In t (p_fields s) -> exists d, expected E h t = Some d /\ den h t = Some d).
      { intros t Ht. apply den_expected_evaluated; [exact Hcons|]. intros c Hc. destruct (Hcov t Ht c Hc) as [H|H]; [rewrite Ep in H; destruct H|exact H]. }
      clear -H. induction (p_fields s) as [|t l IH]; constructor; [apply H; left; reflexivity|apply IH; intros; apply H; right; assumption].
    + intros _ c [].
  - destruct (resolve_loop_ok E (e0 :: r) h [] Hev Hcons) as (h1 & Hl & Hs1 & Hlen1 & Hc1 & Hval1 & Hoth1 & Hkeep1).
    rewrite Hl. cbn [app]. cbn [map]. 
    set (done := snd e0 :: map snd r) in *.
    set (h2 := if p_local s then clear_all h1 done else h1).
    destruct (clear_all_props E done h1 Hc1) as (Hs2 & Hc2 & Hin2 & Hout2 & _).
    eexists; exists h2. split; [reflexivity|]. cbn [p_pending p_fields p_local].
    assert (Hall : forall t, In t (p_fields s) -> forall c, In c (refs t) -> cell_val h1 c <> None).
    { intros t Ht c Hc. destruct (Hcov t Ht c Hc) as [H|H]; [apply Hval1; rewrite Ep in H; exact H|apply Hkeep1; exact H]. }
    repeat split.
    + clear -Hall Hc1 Hs1. induction (p_fields s) as [|t l IH]; cbn; constructor.
      * assert (Ht : forall c, In c (refs t) -> cell_val h1 c <> None) by (apply Hall; left; reflexivity).
        destruct (den_expected_evaluated E h1 Hc1 t Ht) as (d & Hd1 & Hd2). exists d. split.
        -- rewrite (expected_same_src E h h1 Hs1). exact Hd1.
        -- destruct (subst_full E h1 Hc1 t Ht) as [Hrf Hsub]. rewrite (den_ref_free _ _ Hrf). congruence.
      * apply IH. intros t0 H0. apply Hall. right. exact H0.
    + unfold h2. destruct (p_local s); [eapply same_src_trans; eassumption|exact Hs1].
    + unfold h2. destruct (p_local s); assumption.
    + intros c Hc. unfold h2. destruct (p_local s); [rewrite Hout2 by exact Hc|]; apply Hoth1; exact Hc.
    + intros Hloc c Hc. unfold h2. rewrite Hloc. apply Hin2. exact Hc.
    + intros _. clear -Hall Hc1. induction (p_fields s) as [|t l IH]; cbn; constructor.
      * apply (subst_full E h1 Hc1 t). apply Hall. left. reflexivity.
      * apply IH. intros t0 H0. apply Hall. right. exact H0.
Qed.

(* ---------- declaration, then first parse ---------- *)
Lemma Forall2_retarget {A B C} (f : A -> option C) (g : B -> option C) (Q : B -> C -> Prop) :
  forall (l1 : list A) (l2 l3 : list B), map f l1 = map g l2 ->
  Forall2 (fun y z => exists d, f y = Some d /\ Q z d) l1 l3 ->
  Forall2 (fun x z => exists d, g x = Some d /\ Q z d) l2 l3.
Proof.
  induction l1 as [|a r IH]; intros l2 l3 Hm HF; destruct l2 as [|b s]; try discriminate; inversion HF; subst.
  - constructor.
  - cbn in Hm. injection Hm as Hm1 Hm2. constructor.
    + match goal with H : exists d, _ |- _ => destruct H as (d & Hd & Hq) end. exists d. split; [congruence|exact Hq].
    + eapply IH; eauto.
Qed.

Lemma same_src_nth h h' c cl : same_src h h' -> nth_error h c = Some cl ->
  exists cl', nth_error h' c = Some cl' /\ c_src cl' = c_src cl.
Proof.
  intros Hs Hn. specialize (Hs c). rewrite Hn in Hs. cbn in Hs. destruct (nth_error h' c) as [cl'|]; [|discriminate].
  cbn in Hs. injection Hs as Hs. eauto.
Qed.
Lemma same_src_sym h h' : same_src h h' -> same_src h' h.
Proof. intros H c. symmetry. apply H. Qed.

Theorem declared_then_parsed E e local fs h h2 :
  sub e E -> consistent E h ->
  (forall c, In c (flat_map refs (map snd fs)) -> exists cl v, nth_error h c = Some cl /\ eval_s E (c_src cl) = Some v) ->
  let '(ts, h1, p) := reg_fields e local fs h [] in
  same_src h1 h2 -> consistent E h2 ->
  exists s' h', resolve E {| p_fields := ts; p_pending := p; p_local := local |} h2 = Done s' h' /\
    Forall2 (fun a t' => exists d, expected E h a = Some d /\ den h' t' = Some d) (map snd fs) (p_fields s').
Proof.
  intros Hsub Hcons Hdef.
  assert (Hwf : forall c, In c (flat_map refs (map snd fs)) -> c < length h).
  { intros c Hc. destruct (Hdef c Hc) as (cl & v & Hn & _). apply nth_error_Some. congruence. }
  pose proof (reg_fields_post E e local Hsub fs h [] Hcons Hwf) as Hreg.
  destruct (reg_fields e local fs h []) as [[ts h1] p]. intros Hs2 Hc2.
  set (s := {| p_fields := ts; p_pending := p; p_local := local |}).
  assert (Hev : evaluable E h2 (p_pending s)).
  { intros k c Hin. assert (Hc : In c (map snd p)) by (apply in_map_iff; exists (k, c); auto).
    apply (rp_new _ _ _ _ _ _ _ _ Hreg) in Hc. destruct Hc as [[]|Hc]. destruct (Hdef c Hc) as (cl & v & Hn & Hv).
    destruct (same_src_nth _ _ _ _ (same_src_trans _ _ _ (rp_src _ _ _ _ _ _ _ _ Hreg) Hs2) Hn) as (cl' & Hn' & Hsrc).
    exists cl', v. rewrite Hsrc. auto. }
  assert (Hcov : covered h2 s).
  { intros t Ht c Hc. left. apply (rp_refs _ _ _ _ _ _ _ _ Hreg). apply in_flat_map. exists t. auto. }
  destruct (resolve_done E s h2 Hc2 Hev Hcov) as (s' & h' & Hr & _ & _ & HF & _).
  exists s', h'. split; [exact Hr|].
  eapply (Forall2_retarget (expected E h2) (expected E h) (fun t' d => den h' t' = Some d)); [|exact HF].
  cbn [p_fields s]. rewrite <- (rp_exp _ _ _ _ _ _ _ _ Hreg). apply map_ext. intros t. symmetry. apply expected_same_src. exact Hs2.
Qed.

(* a first use before every name is bound raises NameError; the next one, when they are, gives the same types *)
Theorem raised_then_parsed e E s h s1 h1 :
  sub e E -> consistent E h -> evaluable E h (p_pending s) -> covered h s ->
  resolve e s h = Raised s1 h1 ->
  exists s' h', resolve E s1 h1 = Done s' h' /\
    Forall2 (fun t t' => exists d, expected E h t = Some d /\ den h' t' = Some d) (p_fields s) (p_fields s').
Proof.
  intros Hsub Hcons Hev Hcov Hr. unfold resolve in Hr. destruct (p_pending s) as [|e0 r] eqn:Ep; [discriminate|].
  destruct (resolve_loop e h (e0 :: r) []) as [[[hx rest] done] raised] eqn:El. destruct raised; [|discriminate].
  injection Hr as <- <-.
  destruct (resolve_loop_raised e E Hsub _ _ _ _ _ _ Hcons El) as (Hs & Hlen & Hc1 & Hne & Hin & Hcv & Hkeep).
  set (s1 := {| p_fields := p_fields s; p_pending := rest; p_local := p_local s |}).
  assert (Hev1 : evaluable E hx (p_pending s1)).
  { intros k c Hx. destruct (Hev k c (Hin _ Hx)) as (cl & v & Hn & Hv).
    destruct (same_src_nth _ _ _ _ Hs Hn) as (cl' & Hn' & Hsrc). exists cl', v. rewrite Hsrc. auto. }
  assert (Hcov1 : covered hx s1).
  { intros t Ht c Hc. destruct (Hcov t Ht c Hc) as [H|H]; [apply Hcv; rewrite <- Ep; exact H|right; apply Hkeep; exact H]. }
  destruct (resolve_done E s1 hx Hc1 Hev1 Hcov1) as (s' & h' & Hd & _ & _ & HF & _).
  exists s', h'. split; [exact Hd|].
  eapply (Forall2_retarget (expected E hx) (expected E h) (fun t' d => den h' t' = Some d)); [|exact HF].
  apply map_ext. intros t. symmetry. apply expected_same_src. exact Hs.
Qed.

(* two declarations local to two functions that share ForwardRef objects (typing caches List['X']): each is
   resolved under its own globals, and neither sees the other's classes, whichever is used first *)
Definition fresh (h : heap) : Prop := forall c, cell_val h c = None.
Lemma fresh_consistent E h : fresh h -> consistent E h.
Proof. intros Hf c cl v Hn Hv. specialize (Hf c). unfold cell_val in Hf. rewrite Hn in Hf. congruence. Qed.

Theorem local_scopes_isolated E1 E2 s1 s2 h :
  fresh h -> p_local s1 = true ->
  evaluable E1 h (p_pending s1) -> covered h s1 -> evaluable E2 h (p_pending s2) -> covered h s2 ->
  exists s1' h1 s2' h2, resolve E1 s1 h = Done s1' h1 /\ resolve E2 s2 h1 = Done s2' h2 /\
    Forall2 (fun t t' => exists d, expected E1 h t = Some d /\ den h1 t' = Some d /\ den h2 t' = Some d) (p_fields s1) (p_fields s1') /\
    Forall2 (fun t t' => exists d, expected E2 h t = Some d /\ den h2 t' = Some d) (p_fields s2) (p_fields s2').
Proof.
  intros Hf Hl Hev1 Hcov1 Hev2 Hcov2.
  destruct (resolve_done E1 s1 h (fresh_consistent _ _ Hf) Hev1 Hcov1) as (s1' & h1 & Hr1 & _ & _ & HF1 & Hs1 & _ & Hoth & Hloc & Hrf).
  assert (Hf1 : fresh h1).
  { intros c. destruct (in_dec Nat.eq_dec c (map snd (p_pending s1))) as [Hin|Hnin]; [apply Hloc; auto|].
    unfold cell_val. rewrite (Hoth c Hnin). apply Hf. }
  assert (Hev2' : evaluable E2 h1 (p_pending s2)).
  { intros k c Hx. destruct (Hev2 k c Hx) as (cl & v & Hn & Hv).
    destruct (same_src_nth _ _ _ _ Hs1 Hn) as (cl' & Hn' & Hsrc). exists cl', v. rewrite Hsrc. auto. }
  assert (Hcov2' : covered h1 s2).
  { intros t Ht c Hc. destruct (Hcov2 t Ht c Hc) as [H|H]; [left; exact H|exfalso; apply H; apply Hf]. }
  destruct (resolve_done E2 s2 h1 (fresh_consistent _ _ Hf1) Hev2' Hcov2') as (s2' & h2 & Hr2 & _ & _ & HF2 & _).
  exists s1', h1, s2', h2. repeat split; [exact Hr1|exact Hr2| |].
  - (* the first declaration's fields no longer mention any cell *)
    assert (Hfree : Forall (fun t' => refs t' = []) (p_fields s1')).
    { destruct (p_pending s1) as [|x r] eqn:Ep; [|apply Hrf; discriminate].
      unfold resolve in Hr1. rewrite Ep in Hr1. injection Hr1 as <- <-. apply Forall_forall. intros t Ht.
      destruct (refs t) as [|c l] eqn:Er; [reflexivity|]. exfalso.
      destruct (Hcov1 t Ht c) as [H|H]; [rewrite Er; left; reflexivity|rewrite Ep in H; destruct H|apply H; apply Hf]. }
    clear -HF1 Hfree. induction HF1 as [|t t' l l' (d & Hd1 & Hd2) _ IH]; constructor.
    + inversion Hfree; subst. exists d. repeat split; auto. rewrite den_ref_free in * by assumption. exact Hd2.
    + apply IH. inversion Hfree; assumption.
  - eapply (Forall2_retarget (expected E2 h1) (expected E2 h) (fun t' d => den h2 t' = Some d)); [|exact HF2].
    apply map_ext. intros t. symmetry. apply expected_same_src. exact Hs1.
Qed.

Theorem registration_complete E e local fs h : sub e E -> consistent E h ->
  (forall c, In c (flat_map refs (map snd fs)) -> c < length h) ->
  let '(ts, h1, p) := reg_fields e local fs h [] in
  (forall c, In c (flat_map refs ts) -> In c (map snd p)) /\ map (expected E h1) ts = map (expected E h) (map snd fs) /\
  (local = true -> h1 = h).
Proof.
  intros Hsub Hcons Hwf. pose proof (reg_fields_post E e local Hsub fs h [] Hcons Hwf) as Hreg.
  destruct (reg_fields e local fs h []) as [[ts h1] p]. repeat split; apply Hreg.
Qed.
