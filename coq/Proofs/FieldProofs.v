(* Proofs/FieldProofs.v — C05 and C06 at the level a caller sees: BaseParser.parse_data (run in a
   fresh context, as init_dataclass does) against the field contract, the two lookup strategies
   against each other, and the documented single-field rules as corollaries of the contract. *)
From UV Require Import Parse Verdict Assoc FieldSpec FieldFacts ContractCommon DfsSpec FfsSpec.
From Coq Require Import Lia.
Open Scope string_scope.
Open Scope list_scope.

Section Top.
Variable tr : options -> Z -> ty -> pyval -> M pyval.
Variable C : cdecl.
Variable o : options.
Variable depth : Z.
Hypothesis Hwf : wf_cdecl C = true.
Hypothesis Hign : o_ignore_alias_conflicts o = false.

Let HW : WF C := wf_cdecl_WF C Hwf.

(* the two code paths, pure level *)
Lemma paths_agree data :
  NoDup (keys data) -> coherentb C data = true ->
  match data_first_p tr C o depth data, field_first_p tr C o depth data with
  | Some a, Some b => forall x, assoc x a = assoc x b
  | None, None => True
  | _, _ => False
  end.
Proof.
  intros Hnd Hc. pose proof (coherentb_coherent C data Hc) as Hcoh.
  pose proof (dfs_contract tr C o depth HW Hign data Hnd) as Hd.
  pose proof (ffs_contract tr C o depth HW Hign data Hnd Hcoh) as Hf.
  destruct (data_first_p tr C o depth data) as [a|], (field_first_p tr C o depth data) as [b|].
  - destruct Hd as [_ Hd]. destruct Hf as [_ Hf]. intros x. rewrite Hd, Hf. reflexivity.
  - destruct Hd as [Hd _]. congruence.
  - destruct Hf as [Hf _]. congruence.
  - exact I.
Qed.

(* ... and as the caller of either path sees them *)
Definition finish (m : M sdata) : out sdata := in_fresh (do r <- m; do _ <- raise_error; ret r).

Theorem strategies_agree data :
  NoDup (keys data) -> coherentb C data = true ->
  match finish (data_first_parse tr C o depth data), finish (field_first_parse tr C o depth data) with
  | Ok a, Ok b => forall x, assoc x a = assoc x b
  | Ok _, _ | _, Ok _ => False
  | _, _ => True
  end.
Proof.
  intros Hnd Hc. pose proof (paths_agree data Hnd Hc) as Hp.
  pose proof (vd_fresh _ _ (vd_data_first tr C o depth data)) as Hd.
  pose proof (vd_fresh _ _ (vd_field_first tr C o depth data)) as Hf.
  unfold finish.
  destruct (data_first_p tr C o depth data) as [a|], (field_first_p tr C o depth data) as [b|]; try contradiction.
  - rewrite Hd, Hf. exact Hp.
  - destruct (in_fresh (do r <- data_first_parse tr C o depth data; do _ <- raise_error; ret r)) as [x| | | |]; try discriminate;
    destruct (in_fresh (do r <- field_first_parse tr C o depth data; do _ <- raise_error; ret r)) as [y| | | |]; try discriminate; exact I.
Qed.

(* parse_data against the contract *)
Theorem parse_data_contract data :
  NoDup (keys data) -> coherentb C data = true ->
  match in_fresh (parse_data tr C o depth data) with
  | Ok r => contract_ok tr C o depth data = true /\ forall x, assoc x r = contract_val tr C o depth data x
  | _ => contract_ok tr C o depth data = false
  end.
Proof.
  intros Hnd Hc. pose proof (coherentb_coherent C data Hc) as Hcoh.
  pose proof (parse_data_verdict tr C o depth data) as Hv. unfold parse_data_p in Hv.
  unfold contract_ok, params_ok.
  destruct (params_p o data) as [[]|]; cbn [obind andb] in *.
  2:{ destruct (in_fresh (parse_data tr C o depth data)); try discriminate; reflexivity. }
  assert (Hcon : match (if uses_dfs C o then data_first_p tr C o depth data else field_first_p tr C o depth data) with
                 | Some r => fields_ok tr C o depth data && adds_ok C o data && deps_ok tr C o depth data = true /\
                             forall x, assoc x r = contract_val tr C o depth data x
                 | None => fields_ok tr C o depth data && adds_ok C o data && deps_ok tr C o depth data = false
                 end).
  { destruct (uses_dfs C o); [apply (dfs_contract tr C o depth HW Hign data Hnd)|apply (ffs_contract tr C o depth HW Hign data Hnd Hcoh)]. }
  destruct (if uses_dfs C o then data_first_p tr C o depth data else field_first_p tr C o depth data) as [r|].
  - rewrite Hv. exact Hcon.
  - destruct (in_fresh (parse_data tr C o depth data)); try discriminate; exact Hcon.
Qed.

(* ---- the documented single-field rules, read off the contract ---- *)

(* an input key feeds field k exactly when its case-folded form is an accepted name of k *)
Theorem key_feeds x k :
  target C x = Some k <-> exists f, In (k, f) (c_fields C) /\ In (fkey C x) (f_all_aliases f).
Proof. apply (target_iff C HW). Qed.

(* a missing required field fails the parse; a missing optional one takes its default *)
Theorem missing_field kf data :
  In kf (c_fields C) -> hits C (fst kf) data = [] ->
  field_out tr C o depth kf data =
  if is_required (snd kf) o then FErr else FOut (get_default (snd kf) o) false false.
Proof. intros _ Hh. unfold field_out, fo. rewrite Hh. reflexivity. Qed.
Theorem missing_required_fails kf data :
  In kf (c_fields C) -> hits C (fst kf) data = [] -> is_required (snd kf) o = true ->
  contract_ok tr C o depth data = false.
Proof.
  intros Hi Hh Hr. unfold contract_ok. apply Bool.andb_false_iff. right.
  apply Bool.andb_false_iff. left. apply Bool.andb_false_iff. left.
  apply forallb_false_iff. exists kf. split; [exact Hi|]. rewrite (missing_field kf data Hi Hh), Hr. reflexivity.
Qed.

(* a no_input field ignores what is given for it *)
Theorem no_input_ignores_input kf data :
  is_no_input (snd kf) o = true -> hits C (fst kf) data <> [] ->
  field_out tr C o depth kf data = FOut (get_default (snd kf) o) true false.
Proof.
  intros Hn Hh. unfold field_out, fo. destruct (hits C (fst kf) data); [congruence|]. rewrite Hn. reflexivity.
Qed.

(* a given field holds the conversion of the first value given, if all values given for it agree *)
Theorem given_field kf data v1 more :
  hits C (fst kf) data = v1 :: more -> is_no_input (snd kf) o = false ->
  field_out tr C o depth kf data =
  if forallb (py_eq v1) more then
    match pv tr o depth (snd kf) v1 with
    | Some p => FOut p true (match p with Some _ => true | None => false end)
    | None => FErr
    end
  else FErr.
Proof. intros Hh Hn. unfold field_out, fo. rewrite Hh, Hn. reflexivity. Qed.

(* unknown keys follow the addition policy, and nothing else does *)
Theorem unknown_key data x v :
  In (x, v) data -> NoDup (keys data) -> target C x = None -> field_named C x = None ->
  contract_val tr C o depth data x =
  if str_in x (c_exclude_vars C) then None
  else match o_addition o with Some true => Some v | _ => None end.
Proof.
  intros Hi Hn Ht Hf. unfold contract_val. rewrite Hf, (In_assoc_nodup data x v Hn Hi), Ht.
  unfold addition_of, padd. destruct (str_in x (c_exclude_vars C)); [reflexivity|].
  destruct (o_addition o) as [[|]|]; reflexivity.
Qed.
Theorem unknown_key_rejected data x v :
  In (x, v) data -> target C x = None -> str_in x (c_exclude_vars C) = false -> o_addition o = Some false ->
  contract_ok tr C o depth data = false.
Proof.
  intros Hi Ht Hx Ha. unfold contract_ok. apply Bool.andb_false_iff. right.
  apply Bool.andb_false_iff. left. apply Bool.andb_false_iff. right.
  apply forallb_false_iff. exists (x, v). split; [exact Hi|]. cbn [fst snd]. rewrite Ht. unfold addition_of, padd. rewrite Hx, Ha. reflexivity.
Qed.

(* only names of fields and unknown input keys can appear in the result *)
Theorem nothing_else data x :
  field_named C x = None -> assoc x data = None -> contract_val tr C o depth data x = None.
Proof. intros Hf Ha. unfold contract_val. rewrite Hf, Ha. reflexivity. Qed.

End Top.

(* the strategy flag itself: parse_data under two option sets that differ at most in
   data_first_search, for field conversions that do not look at the flag *)
Definition with_dfs (o : options) (b : option bool) : options :=
  {| o_collect_errors := o_collect_errors o; o_max_errors := o_max_errors o; o_max_depth := o_max_depth o;
     o_max_params := o_max_params o; o_min_params := o_min_params o; o_addition := o_addition o;
     o_invalid_items := o_invalid_items o; o_invalid_keys := o_invalid_keys o;
     o_invalid_values := o_invalid_values o; o_unresolved := o_unresolved o;
     o_no_explicit_cast := o_no_explicit_cast o; o_no_data_loss := o_no_data_loss o;
     o_ignore_constraints := o_ignore_constraints o; o_ignore_alias_conflicts := o_ignore_alias_conflicts o;
     o_ignore_required := o_ignore_required o; o_force_default := o_force_default o;
     o_no_default := o_no_default o; o_defer_default := o_defer_default o;
     o_data_first_search := b; o_mode := o_mode o;
     o_allow_subclasses := o_allow_subclasses o; o_case_insensitive := o_case_insensitive o;
     o_override := o_override o; o_vacuum := o_vacuum o |}.

Section Flag.
Variable tr : options -> Z -> ty -> pyval -> M pyval.
Variable C : cdecl.
Variable o : options.
Variable depth : Z.
Variables b1 b2 : option bool.
Let o1 := with_dfs o b1.
Let o2 := with_dfs o b2.
(* the field conversions do not look at the flag *)
Hypothesis Hblind : forall f v, pv tr o1 depth f v = pv tr o2 depth f v.

Lemma fo_flag f hs : fo tr o1 depth f hs = fo tr o2 depth f hs.
Proof. unfold fo. destruct hs as [|v1 more]; [reflexivity|]. rewrite Hblind. reflexivity. Qed.
Lemma field_out_flag kf data : field_out tr C o1 depth kf data = field_out tr C o2 depth kf data.
Proof. unfold field_out. apply fo_flag. Qed.
Lemma forallb_ext' {A} (f g : A -> bool) l : (forall x, f x = g x) -> forallb f l = forallb g l.
Proof. intros H. induction l as [|a r IH]; cbn; [reflexivity|]. rewrite H, IH. reflexivity. Qed.
Lemma provided_flag data d : provided tr C o1 depth data d = provided tr C o2 depth data d.
Proof. unfold provided. destruct (field_named C d); [rewrite field_out_flag|]; reflexivity. Qed.

Lemma contract_ok_flag data : contract_ok tr C o1 depth data = contract_ok tr C o2 depth data.
Proof.
  unfold contract_ok, fields_ok, deps_ok. f_equal. f_equal; [f_equal|].
  - apply forallb_ext'. intros kf. rewrite field_out_flag. reflexivity.
  - apply forallb_ext'. intros kf. rewrite field_out_flag.
    destruct (field_out tr C o2 depth kf data) as [|v g [|]]; try reflexivity.
    apply forallb_ext'. intros d. apply provided_flag.
Qed.
Lemma contract_val_flag data x : contract_val tr C o1 depth data x = contract_val tr C o2 depth data x.
Proof. unfold contract_val. destruct (field_named C x); [rewrite field_out_flag|]; reflexivity. Qed.

Theorem flag_invisible data :
  wf_cdecl C = true -> o_ignore_alias_conflicts o = false ->
  NoDup (keys data) -> coherentb C data = true ->
  match in_fresh (parse_data tr C o1 depth data), in_fresh (parse_data tr C o2 depth data) with
  | Ok a, Ok b => forall x, assoc x a = assoc x b
  | Ok _, _ | _, Ok _ => False
  | _, _ => True
  end.
Proof.
  intros Hwf Hign Hnd Hc.
  pose proof (parse_data_contract tr C o1 depth Hwf Hign data Hnd Hc) as H1.
  pose proof (parse_data_contract tr C o2 depth Hwf Hign data Hnd Hc) as H2.
  rewrite contract_ok_flag in H1.
  destruct (in_fresh (parse_data tr C o1 depth data)) as [a| | | |], (in_fresh (parse_data tr C o2 depth data)) as [b| | | |];
    try exact I; try (destruct H1; congruence); try (destruct H2; congruence).
  destruct H1 as [_ H1]. destruct H2 as [_ H2]. intros x. rewrite H1, H2. apply contract_val_flag.
Qed.
End Flag.

(* ---- options that alter the contract: what each one touches ---- *)
Lemma ignore_required_all_optional f o : o_ignore_required o = true -> is_required f o = false.
Proof. unfold is_required. intros ->. reflexivity. Qed.
Lemma no_default_no_defaults f o : o_no_default o = true -> get_default f o = None.
Proof. unfold get_default. intros ->. reflexivity. Qed.
Lemma defer_default_no_defaults f o : f_defer_default f || o_defer_default o = true -> get_default f o = None.
Proof. unfold get_default. intros ->. destruct (o_no_default o); reflexivity. Qed.
Lemma force_default_applies f o d :
  o_no_default o = false -> f_defer_default f || o_defer_default o = false -> o_force_default o = Some d ->
  get_default f o = Some d.
Proof. unfold get_default, copy_value. intros -> -> ->. reflexivity. Qed.
Lemma plain_default f o :
  o_no_default o = false -> f_defer_default f || o_defer_default o = false -> o_force_default o = None ->
  get_default f o = f_default f.
Proof. unfold get_default, copy_value. intros -> -> ->. destruct (f_default f); reflexivity. Qed.

(* ---- what ends up in the instance ---- *)
Lemma instance_dict_based C o values x v :
  c_dict_based C = true ->
  (In (x, v) (instance_data C o values) <->
   In (x, v) values /\ match get_field C x with Some f => is_no_output f o = false | None => True end).
Proof.
  intros Hd. unfold instance_data. rewrite Hd, filter_In. cbn [fst].
  destruct (get_field C x) as [f|]; [|tauto]. destruct (is_no_output f o); cbn; split; intros [H1 H2]; split; auto; discriminate.
Qed.
Lemma instance_attr_based C o values :
  c_dict_based C = false ->
  instance_data C o values =
  map (fun kv => match get_field C (fst kv) with Some f => (f_attname f, snd kv) | None => kv end) values.
Proof. intros Hd. unfold instance_data. rewrite Hd. reflexivity. Qed.
