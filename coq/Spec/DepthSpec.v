(* Spec/DepthSpec.v — recursive data classes and tree-shaped inputs for C18. *)
From UV Require Import Parse.
Open Scope string_scope.
Open Scope list_scope.
Open Scope Z_scope.

(* an input for `class Node: v: int; link: <container of Node>` of arbitrary shape *)
Inductive tree := Node (v : Z) (kids : list tree).

Fixpoint height (t : tree) : nat :=
  match t with
  | Node _ kids => S (fold_right (fun k acc => Nat.max (height k) acc) O kids)
  end.
Definition max_height (kids : list tree) : nat := fold_right (fun k acc => Nat.max (height k) acc) O kids.

(* the mapping given as input, and the instance expected back *)
Fixpoint to_val (t : tree) : pyval :=
  match t with
  | Node v kids => PDict [(PStr "v", PInt v); (PStr "link", PList (map to_val kids))]
  end.
Fixpoint inst (t : tree) : pyval :=
  match t with
  | Node v kids => PInst 0 [("v", PInt v); ("link", PList (map inst kids))]
  end.

Definition opts_with_depth (d : option Z) : options := {|
  o_collect_errors := false; o_max_errors := None; o_max_depth := d; o_max_params := None;
  o_min_params := None; o_addition := None; o_invalid_items := Throw; o_invalid_keys := Throw;
  o_invalid_values := Throw; o_unresolved := UThrow; o_no_explicit_cast := false;
  o_no_data_loss := false; o_ignore_constraints := false; o_ignore_alias_conflicts := false;
  o_ignore_required := false; o_force_default := None; o_no_default := false;
  o_defer_default := false; o_data_first_search := Some false; o_mode := None;
  o_allow_subclasses := true; o_case_insensitive := false; o_override := false;
  o_vacuum := match d with Some _ => false | None => true end |}.

Definition plain_field (name : string) (t : ty) (req : bool) (default : option pyval) : field := {|
  f_name := name; f_attname := name; f_all_aliases := [name]; f_type := Some t;
  f_required := FBool req; f_default := default; f_defer_default := false;
  f_no_input := FBool false; f_no_output := FBool false; f_mode := None; f_dependencies := [];
  f_on_error := None; f_immutable := false |}.

(* class Node(Schema): __options__ = Options(max_depth=d); v: int; link: List['Node'] = Field(default_factory=list) *)
Definition list_link : ty := TRule (Some (TPrim TList)) [TData 0] false [] None None None.
Definition node_decl_ex (ex : list string) (d : option Z) : cdecl := {|
  c_fields := [("v", plain_field "v" (TPrim TInt) true None);
               ("link", plain_field "link" list_link false (Some (PList [])))];
  c_alias_map := []; c_ci_names := []; c_options := opts_with_depth d; c_dfs := false;
  c_exclude_vars := ex; c_dict_based := true |}.
Definition node_world_ex (ex : list string) (d : option Z) : decls :=
  fun c => match c with O => Some (node_decl_ex ex d) | _ => None end.
Definition node_decl := node_decl_ex [].
Definition node_world := node_world_ex [].

(* ---------- the same class with a mapping link: `link: Dict[str, 'Node']` ---------- *)
Inductive dtree := DNode (v : Z) (kids : list (string * dtree)).

Fixpoint dheight (t : dtree) : nat :=
  match t with
  | DNode _ kids => S (fold_right (fun kc acc => Nat.max (let '(_, c) := kc in dheight c) acc) O kids)
  end.
Definition dmax_height (kids : list (string * dtree)) : nat :=
  fold_right (fun kc acc => Nat.max (let '(_, c) := kc in dheight c) acc) O kids.

Fixpoint to_val_d (t : dtree) : pyval :=
  match t with
  | DNode v kids =>
      PDict [(PStr "v", PInt v);
             (PStr "link", PDict (map (fun kc => let '(k, c) := kc in (PStr k, to_val_d c)) kids))]
  end.
Fixpoint inst_d (t : dtree) : pyval :=
  match t with
  | DNode v kids =>
      PInst 0 [("v", PInt v);
               ("link", PDict (map (fun kc => let '(k, c) := kc in (PStr k, inst_d c)) kids))]
  end.
(* a Python dict has distinct keys, at every node *)
Fixpoint wf_dtree (t : dtree) : Prop :=
  match t with
  | DNode _ kids => NoDup (map fst kids) /\
                    fold_right (fun kc acc => (let '(_, c) := kc in wf_dtree c) /\ acc) True kids
  end.

Definition dict_link : ty := TRule (Some (TPrim TDict)) [TPrim TStr; TData 0] false [] None None None.
Definition dnode_decl_ex (ex : list string) (d : option Z) : cdecl := {|
  c_fields := [("v", plain_field "v" (TPrim TInt) true None);
               ("link", plain_field "link" dict_link false (Some (PDict [])))];
  c_alias_map := []; c_ci_names := []; c_options := opts_with_depth d; c_dfs := false;
  c_exclude_vars := ex; c_dict_based := true |}.
Definition dnode_world_ex (ex : list string) (d : option Z) : decls :=
  fun c => match c with O => Some (dnode_decl_ex ex d) | _ => None end.
Definition dnode_decl := dnode_decl_ex [].
Definition dnode_world := dnode_world_ex [].

(* ---------- the same class with an optional link: `link: Optional['Node'] = None` ---------- *)
(* the input is a chain; its nesting depth is its length *)
Inductive chain := CEnd (v : Z) | CNext (v : Z) (next : chain).
Fixpoint clength (c : chain) : nat := match c with CEnd _ => 1%nat | CNext _ n => S (clength n) end.
Fixpoint to_val_c (c : chain) : pyval :=
  match c with
  | CEnd v => PDict [(PStr "v", PInt v)]
  | CNext v n => PDict [(PStr "v", PInt v); (PStr "link", to_val_c n)]
  end.
Fixpoint inst_c (c : chain) : pyval :=
  match c with
  | CEnd v => PInst 0 [("v", PInt v); ("link", PNone)]
  | CNext v n => PInst 0 [("v", PInt v); ("link", inst_c n)]
  end.
Definition opt_union : ty := TLogic COr [TData 0; TPrim TNone].
(* a field annotated Optional[...] is held as a Rule whose origin is the union *)
Definition opt_link : ty := TRule (Some opt_union) [] false [] None None None.
Definition onode_decl_ex (ex : list string) (d : option Z) : cdecl := {|
  c_fields := [("v", plain_field "v" (TPrim TInt) true None);
               ("link", plain_field "link" opt_link false (Some PNone))];
  c_alias_map := []; c_ci_names := []; c_options := opts_with_depth d; c_dfs := false;
  c_exclude_vars := ex; c_dict_based := true |}.
Definition onode_world_ex (ex : list string) (d : option Z) : decls :=
  fun c => match c with O => Some (onode_decl_ex ex d) | _ => None end.
Definition onode_decl := onode_decl_ex [].
Definition onode_world := onode_world_ex [].

(* ---------- a link through a union with scalar arms: `link: Union['Node', int, None] = None` ---------- *)
(* the chain may end in a node without link, or in a scalar arm of the union *)
Inductive uchain := UEnd (v : Z) | UInt (v : Z) (i : Z) | UNext (v : Z) (next : uchain).
Fixpoint ulength (c : uchain) : nat := match c with UEnd _ | UInt _ _ => 1%nat | UNext _ n => S (ulength n) end.
Fixpoint to_val_u (c : uchain) : pyval :=
  match c with
  | UEnd v => PDict [(PStr "v", PInt v)]
  | UInt v i => PDict [(PStr "v", PInt v); (PStr "link", PInt i)]
  | UNext v n => PDict [(PStr "v", PInt v); (PStr "link", to_val_u n)]
  end.
Fixpoint inst_u (c : uchain) : pyval :=
  match c with
  | UEnd v => PInst 0 [("v", PInt v); ("link", PNone)]
  | UInt v i => PInst 0 [("v", PInt v); ("link", PInt i)]
  | UNext v n => PInst 0 [("v", PInt v); ("link", inst_u n)]
  end.
Definition uni_union : ty := TLogic COr [TData 0; TPrim TInt; TPrim TNone].
Definition uni_link : ty := TRule (Some uni_union) [] false [] None None None.
Definition unode_decl_ex (ex : list string) (d : option Z) : cdecl := {|
  c_fields := [("v", plain_field "v" (TPrim TInt) true None);
               ("link", plain_field "link" uni_link false (Some PNone))];
  c_alias_map := []; c_ci_names := []; c_options := opts_with_depth d; c_dfs := false;
  c_exclude_vars := ex; c_dict_based := true |}.
Definition unode_world_ex (ex : list string) (d : option Z) : decls :=
  fun c => match c with O => Some (unode_decl_ex ex d) | _ => None end.
Definition unode_decl := unode_decl_ex [].
Definition unode_world := unode_world_ex [].

(* ---------- the same class with a variable-length tuple link: `link: Tuple['Node', ...] = ()` ---------- *)
Fixpoint to_val_t (t : tree) : pyval :=
  match t with
  | Node v kids => PDict [(PStr "v", PInt v); (PStr "link", PTuple (map to_val_t kids))]
  end.
Fixpoint inst_t (t : tree) : pyval :=
  match t with
  | Node v kids => PInst 0 [("v", PInt v); ("link", PTuple (map inst_t kids))]
  end.
Definition tuple_link : ty := TRule (Some (TPrim TTuple)) [TData 0] true [] None None None.
Definition tnode_decl_ex (ex : list string) (d : option Z) : cdecl := {|
  c_fields := [("v", plain_field "v" (TPrim TInt) true None);
               ("link", plain_field "link" tuple_link false (Some (PTuple [])))];
  c_alias_map := []; c_ci_names := []; c_options := opts_with_depth d; c_dfs := false;
  c_exclude_vars := ex; c_dict_based := true |}.
Definition tnode_world_ex (ex : list string) (d : option Z) : decls :=
  fun c => match c with O => Some (tnode_decl_ex ex d) | _ => None end.
Definition tnode_decl := tnode_decl_ex [].
Definition tnode_world := tnode_world_ex [].
