(* Spec/Wf.v — declarations for which C04 is stated: the guards name exactly the declaration
   shapes on which the current implementation lets a non-ParseError escape (known finding
   C04-unhashable: element type of a set / key type of a mapping converting to an unhashable value). *)
From UV Require Import Parse Conforms.
Open Scope string_scope.
Open Scope list_scope.
Open Scope Z_scope.

Definition scalar_prim (p : prim) : bool :=
  match p with TNone | TBool | TInt | TFloat | TDecimal | TStr | TBytes => true | _ => false end.
Definition scalar_ty (t : ty) : bool := match t with TPrim p => scalar_prim p | _ => false end.
Definition container_prim (p : prim) : bool :=
  match p with TList | TTuple | TSet | TFrozen | TDict => true | _ => false end.

Fixpoint wf_ty (t : ty) : bool :=
  match t with
  | TAny | TPrim _ | TData _ => true
  | TLogic _ args => (fix go (l : list ty) : bool := match l with [] => true | x :: r => wf_ty x && go r end) args
  | TRule origin args ell vals ct mn mx =>
      (match origin with Some ot => wf_ty ot | None => true end) &&
      (fix go (l : list ty) : bool := match l with [] => true | x :: r => wf_ty x && go r end) args &&
      (* element types of sets and key types of mappings must convert to hashable values *)
      (match args_parser_of origin args ell, origin with
       | APSeq, Some ot => match base_prim 8 ot with
                           | Some TSet | Some TFrozen => forallb scalar_ty args
                           | _ => true end
       | APMap, _ => match args with kt :: _ => scalar_ty kt | [] => true end
       | _, _ => true
       end) &&
      (* `contains` is declared on container source types, next to checking constraints only *)
      (match ct with
       | None => true
       | Some c => wf_ty c && checking_vals vals &&
                   match origin with Some (TPrim p) => container_prim p | _ => false end
       end)
  end.

(* the types whose parse wraps every failure itself: constrained and logical types *)
Definition guarded (t : ty) : bool :=
  match t with TAny | TRule _ _ _ _ _ _ _ | TLogic _ _ => true | _ => false end.

(* raw (unconverted) elements and keys stay in the result only under these policies *)
Definition no_preserve (o : options) : Prop :=
  o_invalid_items o <> Preserve /\ o_invalid_keys o <> Preserve.
