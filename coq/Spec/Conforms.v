(* Spec/Conforms.v — what it means for a value to conform to a declared type (C01).
   Written against the declarations only (Model/Types.v), not against the parsing code. *)
From UV Require Import Parse.
Open Scope string_scope.
Open Scope list_scope.
Open Scope Z_scope.

(* constraints that only check (they return their input when they accept) *)
Definition checking (name : string) : bool :=
  str_in name ["gt"; "ge"; "lt"; "le"; "regex"; "multiple_of"; "max_digits"; "length"; "max_length";
               "min_length"; "unique_items"; "enum"].
Definition checking_vals (vals : list vspec) : bool :=
  forallb (fun '(name, _, lax) => negb lax && checking name) vals.

Section Conf.
Variable re : string -> string -> bool.
Variable D : decls.

(* every declared (strict, checking) constraint accepts w and leaves it unchanged *)
Definition constraints_hold (vals : list vspec) (w : pyval) : Prop :=
  Forall (fun '(name, bound, lax) =>
            match validator re name lax with Some f => f w bound = Ok w | None => False end) vals.

Definition elements_of (w : pyval) : option (list pyval) := items_of w.

(* an instance of the declared source class (stated for a builtin source class) *)
Definition source_ok (origin : option ty) (w : pyval) : Prop :=
  match origin with Some (TPrim p) => prim_isinstance p w = true | _ => True end.

Inductive conforms : ty -> pyval -> Prop :=
| cf_any w : conforms TAny w
| cf_prim p w : prim_isinstance p w = true -> conforms (TPrim p) w
| cf_data c kvs : conforms (TData c) (PInst c kvs)
| cf_or_nil w : conforms (TLogic COr []) w
| cf_xor_nil w : conforms (TLogic CXor []) w
| cf_or args a w : In a args -> conforms a w -> conforms (TLogic COr args) w
| cf_xor args a w : In a args -> conforms a w -> conforms (TLogic CXor args) w
| cf_and_nil w : conforms (TLogic CAnd []) w
| cf_and args a w : conforms a w -> conforms (TLogic CAnd (args ++ [a])) w
| cf_not args w : conforms (TLogic CNot args) w
| cf_rule_none ot args ell vals ct mn mx :
    conforms ot PNone -> conforms (TRule (Some ot) args ell vals ct mn mx) PNone
| cf_rule_plain origin args ell vals ct mn mx w :
    args_parser_of origin args ell = APNone ->
    source_ok origin w ->
    checking_vals vals = true -> constraints_hold vals w ->
    conforms (TRule origin args ell vals ct mn mx) w
| cf_rule_seq origin a args ell vals ct mn mx w xs :
    args_parser_of origin (a :: args) ell = APSeq ->
    source_ok origin w ->
    elements_of w = Some xs -> Forall (conforms a) xs ->        (* every element conforms *)
    checking_vals vals = true -> constraints_hold vals w ->
    conforms (TRule origin (a :: args) ell vals ct mn mx) w
| cf_rule_tuple origin args ell vals ct mn mx xs :
    args_parser_of origin args ell = APTuple ->
    (List.length args <= List.length xs)%nat ->
    Forall2 conforms args (firstn (List.length args) xs) ->     (* per position *)
    checking_vals vals = true -> constraints_hold vals (PTuple xs) ->
    conforms (TRule origin args ell vals ct mn mx) (PTuple xs)
| cf_rule_map origin kt rest ell vals ct mn mx kvs :
    args_parser_of origin (kt :: rest) ell = APMap ->
    Forall (fun kv => conforms kt (fst kv)) kvs ->                (* keys *)
    (forall vt, hd_error rest = Some vt -> Forall (fun kv => conforms vt (snd kv)) kvs) ->   (* values *)
    checking_vals vals = true -> constraints_hold vals (PDict kvs) ->
    conforms (TRule origin (kt :: rest) ell vals ct mn mx) (PDict kvs)
(* value-transforming constraints (const, decimal_places, every Lax(...)) may replace the value:
   nothing is claimed here for such declarations (see C02/C03 for what they return) *)
| cf_rule_transforming origin args ell vals ct mn mx w :
    checking_vals vals = false -> conforms (TRule origin args ell vals ct mn mx) w.

End Conf.

(* options that do not waive the guarantee *)
Definition safe (o : options) : Prop :=
  o_invalid_items o <> Preserve /\ o_invalid_keys o <> Preserve /\ o_invalid_values o <> Preserve /\
  o_ignore_constraints o = false /\ o_unresolved o <> UIgnore.

(* every class of the world is declared with safe options, and no field opts for 'preserve' *)
Definition safe_world (D : decls) : Prop :=
  forall c C, D c = Some C ->
    safe (c_options C) /\
    Forall (fun kf => f_on_error (snd kf) <> Some Preserve) (c_fields C).
