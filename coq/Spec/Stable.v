(* Spec/Stable.v — the fragment of declared types for which re-parsing a result is proved to return it
   unchanged (C03), and what "the result has the declared classes" means.  Written against the
   declarations only (Model/Types.v). *)
From UV Require Import Parse Conforms.
Open Scope string_scope.
Open Scope list_scope.
Open Scope Z_scope.

(* ---------- the fragment ---------- *)
(* union arguments whose results are exact instances: builtin classes (not dict, which returns dict-based
   instances as they are, nor a class without transformer) and data classes *)
Definition exact_arm (t : ty) : bool :=
  match t with
  | TPrim TDict | TPrim (TOpaque _) => false
  | TPrim _ | TData _ => true
  | _ => false
  end.
(* a bool standing where an int is declared (int([True]) used to return True; the converters no longer produce it) *)
Definition leak (p : prim) (w : pyval) : bool :=
  match p, w with TInt, PBool _ => true | _, _ => false end.
Definition seq_prim (p : prim) (ell : bool) : bool :=
  match p with TList | TSet | TFrozen => true | TTuple => ell | _ => false end.

(* Tuple[T1, ..., Tn] (fixed length): origin tuple, no ellipsis *)
Definition tuple_origin (origin : option ty) (ell : bool) : bool :=
  match origin with Some (TPrim TTuple) => negb ell | _ => false end.

Fixpoint stable (t : ty) : bool :=
  match t with
  | TAny | TPrim _ | TData _ => true
  | TLogic COr args | TLogic CXor args => negb (match args with [] => true | _ => false end) && forallb exact_arm args
  | TLogic CNot _ => true
  | TLogic CAnd _ => false
  | TRule origin args ell vals ct _ _ =>
      checking_vals vals &&
      (* `contains` only counts the accepting elements (any type may stand there); it is declared on containers *)
      (match ct, args with Some _, [] => false | _, _ => true end) &&
      if tuple_origin origin ell && negb (match args with [] => true | _ => false end) then forallb stable args else
      match args with
      | [] => match origin with Some ot => stable ot | None => true end
      | [a] => match origin with Some (TPrim p) => seq_prim p ell && stable a | _ => false end
      | [kt; vt] => match origin with Some (TPrim TDict) => stable kt && stable vt | _ => false end
      | _ => false
      end
  end.

(* the result has the declared classes position by position: no bool where an int is declared, an exact
   instance of an argument under a union, the exact container class around typed elements *)
Fixpoint typed (t : ty) (w : pyval) {struct t} : bool :=
  match t with
  | TAny => true
  | TPrim p => negb (leak p w)
  | TData c => true
  | TLogic COr args | TLogic CXor args => existsb (fun a => exact_type a w) args
  | TLogic _ _ => true
  | TRule origin args ell _ _ _ _ =>
      if tuple_origin origin ell && negb (match args with [] => true | _ => false end) then
        match w with
        | PTuple xs =>
            (fix tl (ts : list ty) (ys : list pyval) {struct ts} : bool :=
               match ts, ys with
               | [], _ => true
               | a :: ts', y :: ys' => typed a y && tl ts' ys'
               | _ :: _, [] => false
               end) args xs
        | _ => false
        end
      else
      match args with
      | [] => match origin with Some ot => typed ot w | None => true end
      | [a] => match origin with
               | Some (TPrim p) =>
                   prim_exact p w && match items_of w with Some xs => forallb (typed a) xs | None => false end
               | _ => false
               end
      | [kt; vt] => match origin, w with
                    | Some (TPrim TDict), PDict kvs => forallb (fun kv => typed kt (fst kv) && typed vt (snd kv)) kvs
                    | _, _ => false
                    end
      | _ => false
      end
  end.

(* the item / key / value policies are the default 'throw' (the other two are separate findings) *)
Definition throwing (o : options) : Prop :=
  o_invalid_items o = Throw /\ o_invalid_keys o = Throw /\ o_invalid_values o = Throw.

(* decidable form, for the correspondence harness *)
Definition is_throw (p : policy) : bool := match p with Throw => true | _ => false end.
Definition throwing_b (o : options) : bool :=
  is_throw (o_invalid_items o) && is_throw (o_invalid_keys o) && is_throw (o_invalid_values o).
Definition in_fragment (o : options) (t : ty) (w : pyval) : bool :=
  throwing_b o && stable t.
