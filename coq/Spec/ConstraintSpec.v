(* Spec/ConstraintSpec.v — the documented meaning of each strict constraint, stated on the
   Python operators (Base/PyPrim.v) and independently of the validator code. *)
From UV Require Import PyVal PyPrim PyOps.
Open Scope string_scope.
Open Scope list_scope.
Open Scope Z_scope.

(* comparisons: Python's operator returns True *)
Definition gtP (v b : pyval) : Prop := py_gt v b = Ok true.
Definition geP (v b : pyval) : Prop := py_ge v b = Ok true.
Definition ltP (v b : pyval) : Prop := py_lt v b = Ok true.
Definition leP (v b : pyval) : Prop := py_le v b = Ok true.

(* the sized view of a value: itself when it has a length, else its str() *)
Definition sized (v : pyval) : out pyval := if has_len v then Ok v else py_str_v v.
Definition len_of (v : pyval) : out Z := let* s := sized v in py_len s.
Definition lengthP (v : pyval) (n : Z) : Prop := len_of v = Ok n.
Definition max_lengthP (v : pyval) (n : Z) : Prop := exists l, len_of v = Ok l /\ l <= n.
Definition min_lengthP (v : pyval) (n : Z) : Prop := exists l, len_of v = Ok l /\ n <= l.

(* const: equal, and of the same class up to the tolerated pairs *)
Definition constP (tol : list (kind * kind)) (v b : pyval) : Prop :=
  py_eq v b = true /\
  (kind_eqb (kind_of v) (kind_of b) = true \/ kind_pair_in (kind_of v) (kind_of b) tol = true).

(* enum (list form): membership by == *)
Definition enumP (v lst : pyval) : Prop := py_contains lst v = Ok true.

(* unique_items: no element == an earlier one *)
Fixpoint all_distinct (seen xs : list pyval) : bool :=
  match xs with
  | [] => true
  | x :: r => negb (py_in x seen) && all_distinct (seen ++ [x]) r
  end.
Definition uniqueP (v : pyval) : Prop := exists xs, py_iter v = Ok xs /\ all_distinct [] xs = true.

(* multiple_of on integers *)
Definition multipleP (z k : Z) : Prop := k <> 0 /\ z mod k = 0.

(* digits / decimal places of a finite Decimal: the positional expansion of c * 10^e has
   max (ndigits c + e) 0 integer digits... counted as the library documents: all digits of the
   coefficient, plus trailing zeros for a positive exponent, at least the number of places *)
Definition dec_places (e : Z) : Z := if 0 <=? e then 0 else - e.
Definition dec_digits (c : N) (e : Z) : Z :=
  if 0 <=? e then ndigits c + e else Z.max (ndigits c) (- e).
