(* Spec/RegistrySpec.v — what C16 demands, written without reference to how the registry
   stores things: the answer to resolve is a function of the list of registrations made so far. *)
From UV Require Import PyVal Registry.
Open Scope Z_scope.

Definition matches (H : hier) (e : entry) (c : cls) : bool :=
  match detect H (e_crit e) c with Some true => true | _ => false end.

(* `regs` lists the registrations made so far, most recent first.  The winner is the matching
   registration of maximal priority; among equal priorities the most recent. *)
Fixpoint best (H : hier) (regs : list entry) (c : cls) : option entry :=
  match regs with
  | [] => None
  | e :: older =>
      let b := best H older c in
      if matches H e c then
        match b with
        | Some e' => if e_prio e <? e_prio e' then Some e' else Some e
        | None => Some e
        end
      else b
  end.

(* the same thing as a relation on positions (0 = most recent) *)
Definition is_best (H : hier) (regs : list entry) (c : cls) (i : nat) : Prop :=
  exists e, nth_error regs i = Some e /\ matches H e c = true /\
  forall j e', nth_error regs j = Some e' -> matches H e' c = true ->
               e_prio e' < e_prio e \/ (e_prio e' = e_prio e /\ (i <= j)%nat).

(* abstract registry: its configuration and its history *)
Record sreg := { s_hist : list entry; s_default : option conv }.

Fixpoint spec_resolve (H : hier) (chain : list sreg) (c : cls) : option conv :=
  match chain with
  | [] => None
  | S0 :: base =>
      match best H (s_hist S0) c with
      | Some e => Some (e_conv e)
      | None => match base with [] => s_default S0 | _ => spec_resolve H base c end
      end
  end.

Definition spec_resolve_top (H : hier) (sc : bool) (chain : list sreg) (c : cls) : option conv :=
  match (if sc then h_shortcut H c else None) with
  | Some f => Some f
  | None => spec_resolve H chain c
  end.

Definition spec_step (H : hier) (sc : bool) (chain : list sreg) (o : rop)
  : list sreg * option (option conv) :=
  match o with
  | OpRegister w cr f p =>
      (update_nth w (fun S0 => {| s_hist := {| e_crit := cr; e_conv := f; e_prio := p |} :: s_hist S0;
                                 s_default := s_default S0 |}) chain, None)
  | OpResolve c => (chain, Some (spec_resolve_top H sc chain c))
  end.

Fixpoint spec_run (H : hier) (sc : bool) (chain : list sreg) (ops : list rop) : list (option conv) :=
  match ops with
  | [] => []
  | o :: r =>
      let '(ch, res) := spec_step H sc chain o in
      match res with
      | Some x => x :: spec_run H sc ch r
      | None => spec_run H sc ch r
      end
  end.
