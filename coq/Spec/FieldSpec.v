(* Spec/FieldSpec.v — the documented field contract of data-class parsing (C05), as an executable
   reference: what every field receives from an input mapping, what the instance ends up holding,
   and when the parse fails.  It is written per field (no loops over the data with accumulators),
   so it can be read against docs/en/guide/cls.md and references/field.md in minutes; the two
   parsing loops of utype/parser/base.py are proved to refine it (Proofs/DfsSpec.v, FfsSpec.v).

   Also: the well-formedness of a declaration (what generate_aliases / apply_fields guarantee for
   every class that could be declared), as a boolean the harness evaluates on every reflected class. *)
From UV Require Import Parse Verdict.
Open Scope string_scope.
Open Scope list_scope.
Open Scope Z_scope.

Fixpoint nodupb (l : list string) : bool :=
  match l with [] => true | a :: r => negb (str_in a r) && nodupb r end.

Definition aliases_of (kf : string * field) : list string := f_all_aliases (snd kf).

Definition wf_cdecl (C : cdecl) : bool :=
  let fs := c_fields C in
  let ci := c_ci_names C in
  (* keys and output names identify the field *)
  nodupb (map fst fs) &&
  forallb (fun kf => forallb (fun kf' =>
     String.eqb (fst kf) (fst kf') || negb (String.eqb (f_name (snd kf)) (f_name (snd kf')))) fs) fs &&
  (* the key is the first accepted name; accepted names are not repeated and belong to one field *)
  forallb (fun kf => match aliases_of kf with a :: _ => String.eqb a (fst kf) | [] => false end) fs &&
  forallb (fun kf => nodupb (aliases_of kf)) fs &&
  forallb (fun kf => forallb (fun a => forallb (fun kf' =>
     String.eqb (fst kf) (fst kf') || negb (str_in a (aliases_of kf'))) fs) (aliases_of kf)) fs &&
  (* the alias map is exactly: other accepted names -> key *)
  forallb (fun kf => forallb (fun a =>
     match assoc a (c_alias_map C) with Some k => String.eqb k (fst kf) | None => false end)
     (tl (aliases_of kf))) fs &&
  forallb (fun ak => match assoc (snd ak) fs with
                     | Some f => str_in (fst ak) (f_all_aliases f)
                     | None => false end) (c_alias_map C) &&
  (* case-insensitive names: lower case, names of some field; a field is case-insensitive with all
     its accepted names, or none of them (not even in another letter case) *)
  forallb (fun a => String.eqb (str_lower a) a) ci &&
  forallb (fun a => existsb (fun kf => str_in a (aliases_of kf)) fs) ci &&
  forallb (fun kf => forallb (fun a => str_in a ci) (aliases_of kf)
                     || forallb (fun a => negb (str_in (str_lower a) ci)) (aliases_of kf)) fs &&
  (* the output name is the key, up to letter case for a case-insensitive field *)
  forallb (fun kf => String.eqb (f_name (snd kf)) (fst kf)
                     || (String.eqb (str_lower (f_name (snd kf))) (fst kf) && str_in (fst kf) ci)) fs &&
  nodupb (map (fun kf => f_name (snd kf)) fs).

(* identity of values: structural equality, element by element (sets too) *)
Fixpoint ident (a b : pyval) {struct a} : bool :=
  let fix lst (xs ys : list pyval) {struct xs} : bool :=
    match xs, ys with
    | [], [] => true
    | x :: xr, y :: yr => ident x y && lst xr yr
    | _, _ => false
    end in
  let fix kvl (xs ys : list (pyval * pyval)) {struct xs} : bool :=
    match xs, ys with
    | [], [] => true
    | (k, v) :: xr, (k', v') :: yr => ident k k' && ident v v' && kvl xr yr
    | _, _ => false
    end in
  let fix skvl (xs ys : list (string * pyval)) {struct xs} : bool :=
    match xs, ys with
    | [], [] => true
    | (k, v) :: xr, (k', v') :: yr => String.eqb k k' && ident v v' && skvl xr yr
    | _, _ => false
    end in
  match a, b with
  | PNone, PNone => true
  | PBool x, PBool y => Bool.eqb x y
  | PInt x, PInt y => (x =? y)%Z
  | PFlt x, PFlt y => flt_eqb x y
  | PDec x, PDec y => dec_eqb x y
  | PStr x, PStr y => String.eqb x y
  | PBytes x, PBytes y => String.eqb x y
  | PList x, PList y => lst x y
  | PTuple x, PTuple y => lst x y
  | PSet x, PSet y => lst x y
  | PFrozen x, PFrozen y => lst x y
  | PDict x, PDict y => kvl x y
  | PInst c x, PInst c' y => Nat.eqb c c' && skvl x y
  | PEnumV e i, PEnumV e' i' => Nat.eqb e e' && Nat.eqb i i'
  | PCls c, PCls c' => Nat.eqb c c'
  | PObj t, PObj t' => Nat.eqb t t'
  | _, _ => false
  end.

(* Two values given for the same field under different keys are either different (a conflict) or
   the same object for all that matters: `==` between them is identity.  Inputs where 1 and 1.0 or
   True, or two NaNs, are given for one field are outside the strategy theorem (and recorded as a
   finding: the strategies then parse different representatives). *)
Definition coherentb (C : cdecl) (data : sdata) : bool :=
  forallb (fun e1 => forallb (fun e2 =>
    String.eqb (fst e1) (fst e2)
    || match get_field_key C (fst e1), get_field_key C (fst e2) with
       | Some k1, Some k2 =>
           negb (String.eqb k1 k2)
           || ((negb (py_eq (snd e1) (snd e2)) || ident (snd e1) (snd e2)) && py_eq (snd e1) (snd e1))
       | _, _ => true
       end) data) data.

Section Contract.
Variable tr : options -> Z -> ty -> pyval -> M pyval.
Variable C : cdecl.
Variable o : options.
Variable depth : Z.

(* the field an input key feeds: attribute name, alias, alias_from entry, any letter case of these
   for a case-insensitive field *)
Definition target (key : string) : option string := get_field_key C key.
Definition oseqb (a b : option string) : bool :=
  match a, b with
  | Some x, Some y => String.eqb x y
  | None, None => true
  | _, _ => false
  end.
(* the values given for field k, in the order of the input mapping *)
Definition hits (k : string) (data : sdata) : list pyval :=
  map snd (filter (fun kv => oseqb (target (fst kv)) (Some k)) data).

(* what a field ends up with: FErr = the parse fails because of this field; otherwise its value
   (None: absent from the result), whether it was given, and whether its dependencies apply *)
Inductive fout := FErr | FOut (val : option pyval) (given : bool) (depends : bool).

Definition fo (f : field) (hs : list pyval) : fout :=
  match hs with
  | [] =>
      (* not given: required -> AbsenceError, otherwise the default if there is one *)
      if is_required f o then FErr else FOut (get_default f o) false false
  | v1 :: more =>
      if is_no_input f o then
        (* no_input: the input is ignored, the default still applies *)
        FOut (get_default f o) true false
      else if forallb (py_eq v1) more then
        (* given (under several names: with equal values): parsed to the declared type, with the
           field's on_error policy *)
        match pv tr o depth f v1 with
        | None => FErr
        | Some p => FOut p true (match p with Some _ => true | None => false end)
        end
      else FErr   (* AliasConflictError *)
  end.

Definition field_out (kf : string * field) (data : sdata) : fout := fo (snd kf) (hits (fst kf) data).

Definition field_named (x : string) : option (string * field) :=
  find (fun kf => String.eqb (f_name (snd kf)) x) (c_fields C).

(* a dependency is satisfied by a field that was given and has a value *)
Definition provided (data : sdata) (d : string) : bool :=
  match field_named d with
  | Some kf => match field_out kf data with FOut (Some _) true _ => true | _ => false end
  | None => false
  end.

(* unknown keys: dropped (addition=None), kept (True), rejected (False); never the excluded names *)
Definition addition_of (key : string) (v : pyval) : option (option pyval) := padd C o key v.

Definition fields_ok (data : sdata) : bool :=
  forallb (fun kf => match field_out kf data with FErr => false | _ => true end) (c_fields C).
Definition adds_ok (data : sdata) : bool :=
  forallb (fun kv => match target (fst kv) with
                     | Some _ => true
                     | None => match addition_of (fst kv) (snd kv) with Some _ => true | None => false end
                     end) data.
Definition deps_ok (data : sdata) : bool :=
  forallb (fun kf => match field_out kf data with
                     | FOut _ _ true => forallb (provided data) (f_dependencies (snd kf))
                     | _ => true
                     end) (c_fields C).
Definition params_ok (data : sdata) : bool :=
  match params_p o data with Some _ => true | None => false end.
(* the parse succeeds exactly when *)
Definition contract_ok (data : sdata) : bool :=
  params_ok data && (fields_ok data && adds_ok data && deps_ok data).

(* the value stored under output name x *)
Definition contract_val (data : sdata) (x : string) : option pyval :=
  match field_named x with
  | Some kf => match field_out kf data with FOut v _ _ => v | FErr => None end
  | None =>
      match assoc x data with
      | Some v => match target x with
                  | None => match addition_of x v with Some (Some w) => Some w | _ => None end
                  | Some _ => None
                  end
      | None => None
      end
  end.

End Contract.
