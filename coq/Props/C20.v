(* Props/C20.v — Concurrent use is safe, including the first use of a type (partial).
   Statements only; Model/Concur.v (the first-parse protocol of BaseParser.resolve_forward_refs as a transition
   system over the shared parser state, one step per source line that touches it), proofs in Proofs/ConcurProofs.v.
   Proved, for any number of threads making the first parse of one parser, any table of pending references, any
   fields, module-level or function-local declaration, and EVERY schedule (no bound on preemptions): no thread
   fails (no KeyError on the table, no unevaluated ForwardRef at conversion time), every thread that finishes has
   used fully resolved field types, at most one thread is ever inside the resolution, and no reachable state is a
   deadlock.  The same code without the lock is refuted by a schedule with one preemption (the defect repaired in
   /repo).  That the real code follows this protocol is checked by replaying its line-level event traces, produced
   under a deterministic scheduler, against the model; the converter registry, the parser cache and the conversions
   themselves are explored on the implementation by bounded-preemption search (harness/c20.py). *)
From UV Require Import Concur RegCache ConcurProofs.
From Coq Require Import List Arith.
Import ListNotations.

Theorem C20_no_thread_fails : forall local n pend flds sched, refs_in flds pend ->
  forall t p, nth_error (ths (run true local (init n pend flds) sched)) t = Some p ->
    (forall e, p <> PErr e) /\ (forall b, p = PDone b -> b = true) /\ (forall loc, p = PUse loc -> all_res loc).
Proof. exact locked_safe. Qed.

Theorem C20_one_resolver_at_a_time : forall local n pend flds sched, refs_in flds pend ->
  forall t u p q, let st := run true local (init n pend flds) sched in
    nth_error (ths st) t = Some p -> nth_error (ths st) u = Some q -> in_cs p = true -> in_cs q = true -> t = u.
Proof. exact locked_mutex. Qed.

Theorem C20_no_deadlock : forall local n pend flds sched, refs_in flds pend ->
  let st := run true local (init n pend flds) sched in
  (exists t p, nth_error (ths st) t = Some p /\ finished p = false) ->
  exists u, tstep true local st u <> None.
Proof. exact locked_no_deadlock. Qed.

(* lookups in the shared converter registry (the registrations do not change meanwhile): any threads, any requested
   types, any schedule: each lookup returns what the scan of the registrations gives, whoever filled the cache *)
Theorem C20_registry_lookups_agree : forall scan ca reqs sched, cache_ok scan ca ->
  forall u p, nth_error (r_ths (rrun scan {| r_cache := ca; r_ths := map RTest reqs |} sched)) u = Some p ->
    (forall t, p <> RKeyErr t) /\ (forall t c, p = RDone t c -> c = scan t).
Proof. exact registry_lookups_safe. Qed.

(* the code without the lock: two threads, two pending references, one preemption.  Thread 0 resolves the first
   reference; thread 1 takes its snapshot of the table; thread 0 finishes the table; thread 1 looks its first name up *)
Theorem C20_unlocked_refuted : exists sched,
  nth_error (ths (run false false (init 2 [0; 1] [FRef 0; FRef 1]) sched)) 1 = Some (PErr KeyErr).
Proof. exists [0; 0; 0; 0; 1; 1; 0; 0; 1]. vm_compute. reflexivity. Qed.
(* ... and, for a function-local declaration, a thread that skipped the resolution finds its reference reset *)
Theorem C20_unlocked_local_refuted : exists sched,
  nth_error (ths (run false true (init 2 [0] [FRef 0]) sched)) 1 = Some (PErr NotEvaluated).
Proof. exists [0; 0; 0; 0; 1; 1; 0; 0; 1]. vm_compute. reflexivity. Qed.

(* non-vacuity: under the same schedules the lock-protected code brings both threads to a good end *)
Example C20_nonvacuous :
  ths (run true false (init 2 [0; 1] [FRef 0; FRef 1])
           [0; 0; 0; 0; 1; 1; 0; 0; 1; 1; 1; 0; 0; 0; 0; 0; 0; 0; 0; 0; 1; 1; 1; 1; 1; 1]) = [PDone true; PDone true] /\
  refs_in [FRef 0; FRef 1] [0; 1].
Proof. split; [vm_compute; reflexivity|]. intros c [H|[H|[]]]; injection H as <-; cbn; auto. Qed.
