(* Props/C17.v — Forward references and declaration order do not change behaviour (partial).
   Statements only; Model/Forward.v (ForwardRef objects as cells of a heap shared between declarations, the table
   of pending references, registration at declaration time, lazy resolution at first parse), proofs in
   Proofs/ForwardProofs.v.
   Proved, for every declaration (any number of fields, any nesting of generic / Optional / Union applications,
   any mix of direct classes and string references, the same text used any number of times, cells shared with
   other declarations), whatever is bound when the declaration is made and whatever else happened to the heap
   before the first parse: no reference is lost at registration; the first parse made when every name is bound
   leaves each field denoting exactly the directly written type; a first use made too early raises and the next
   one still gives the directly written types; declarations local to two functions that share ForwardRef objects
   are resolved each under its own globals.  That a parse depends on a field's type only through what the type
   denotes, and the behaviour on inputs, are decided by the spelled-vs-direct suites of harness/c17.py. *)
From UV Require Import Forward ForwardProofs.
From Coq Require Import List Arith.
Import ListNotations.

(* the key chosen for a reference is never one held by a different ForwardRef object (rule.py register_forward_ref) *)
Theorem C17_key_never_shadows_another_reference : forall k0 arg c p,
  (forall n, k0 <> KName arg (S n)) -> taken p (choose_key k0 arg c p) c = false.
Proof. exact choose_key_untaken. Qed.

(* declaration: every ForwardRef left in the fields is in the table, the fields still mean what was written,
   and a function-local declaration leaves the shared ForwardRef objects as they were *)
Theorem C17_registration_complete : forall E e local fs h, sub e E -> consistent E h ->
  (forall c, In c (flat_map refs (map snd fs)) -> c < length h) ->
  let '(ts, h1, p) := reg_fields e local fs h [] in
  (forall c, In c (flat_map refs ts) -> In c (map snd p)) /\ map (expected E h1) ts = map (expected E h) (map snd fs) /\
  (local = true -> h1 = h).
Proof. exact registration_complete. Qed.

(* declared under globals e, first parsed under E (e extended, every referenced name bound), any other
   declarations and resolutions in between (h2): each field denotes the type of the direct declaration *)
Theorem C17_declared_then_parsed : forall E e local fs h h2,
  sub e E -> consistent E h ->
  (forall c, In c (flat_map refs (map snd fs)) -> exists cl v, nth_error h c = Some cl /\ eval_s E (c_src cl) = Some v) ->
  let '(ts, h1, p) := reg_fields e local fs h [] in
  same_src h1 h2 -> consistent E h2 ->
  exists s' h', resolve E {| p_fields := ts; p_pending := p; p_local := local |} h2 = Done s' h' /\
    Forall2 (fun a t' => exists d, expected E h a = Some d /\ den h' t' = Some d) (map snd fs) (p_fields s').
Proof. exact declared_then_parsed. Qed.

(* the general form, and what else the first parse leaves behind *)
Theorem C17_first_parse_resolves : forall E s h, consistent E h -> evaluable E h (p_pending s) -> covered h s ->
  exists s' h', resolve E s h = Done s' h' /\ p_pending s' = [] /\ p_local s' = p_local s /\
    Forall2 (fun t t' => exists d, expected E h t = Some d /\ den h' t' = Some d) (p_fields s) (p_fields s') /\
    same_src h h' /\ consistent E h' /\
    (forall c, ~ In c (map snd (p_pending s)) -> nth_error h' c = nth_error h c) /\
    (p_local s = true -> forall c, In c (map snd (p_pending s)) -> cell_val h' c = None) /\
    (p_pending s <> [] -> Forall (fun t' => refs t' = []) (p_fields s')).
Proof. exact resolve_done. Qed.

(* first use before a referenced class exists: NameError; the next use, once it exists: the direct types *)
Theorem C17_early_use_then_parsed : forall e E s h s1 h1,
  sub e E -> consistent E h -> evaluable E h (p_pending s) -> covered h s ->
  resolve e s h = Raised s1 h1 ->
  exists s' h', resolve E s1 h1 = Done s' h' /\
    Forall2 (fun t t' => exists d, expected E h t = Some d /\ den h' t' = Some d) (p_fields s) (p_fields s').
Proof. exact raised_then_parsed. Qed.

(* the same names in two function-local scopes, ForwardRef objects shared through typing's cache *)
Theorem C17_local_scopes_isolated : forall E1 E2 s1 s2 h,
  fresh h -> p_local s1 = true ->
  evaluable E1 h (p_pending s1) -> covered h s1 -> evaluable E2 h (p_pending s2) -> covered h s2 ->
  exists s1' h1 s2' h2, resolve E1 s1 h = Done s1' h1 /\ resolve E2 s2 h1 = Done s2' h2 /\
    Forall2 (fun t t' => exists d, expected E1 h t = Some d /\ den h1 t' = Some d /\ den h2 t' = Some d) (p_fields s1) (p_fields s1') /\
    Forall2 (fun t t' => exists d, expected E2 h t = Some d /\ den h2 t' = Some d) (p_fields s2) (p_fields s2').
Proof. exact local_scopes_isolated. Qed.

(* non-vacuity: class A: r0: Optional['B'], r1: Dict[str, 'B'], r2: 'List[B]', declared before B exists, local to a
   function.  Cells 0 and 1 both spell 'B' (two ForwardRef objects, one text), cell 2 spells 'List[B]'.
   Primitive 0 = None, 1 = str; application 0 = AnyOf, 1 = dict, 2 = list; name 0 = A, 1 = B. *)
Definition exHeap : heap := [ {| c_arg := 7; c_src := SName 1; c_val := None |};
                              {| c_arg := 7; c_src := SName 1; c_val := None |};
                              {| c_arg := 8; c_src := SApp 2 [SName 1]; c_val := None |} ].
Definition exFields : list (nat * aty) :=
  [(0, AApp 0 [ARef 0; APrim 0]); (1, AApp 1 [APrim 1; ARef 1]); (2, ARef 2)].
Definition exE0 : env := fun n => if n =? 0 then Some 0 else None.
Definition exE1 : env := fun n => if n <=? 1 then Some n else None.
Example C17_nonvacuous :
  let '(ts, h1, p) := reg_fields exE0 true exFields exHeap [] in
  p = [(KName 7 0, 0); (KName 7 1, 1); (KAttr 2, 2)] /\ h1 = exHeap /\
  map (den h1) ts = [None; None; None] /\
  (exists s1 hx, resolve exE0 {| p_fields := ts; p_pending := p; p_local := true |} h1 = Raised s1 hx) /\
  match resolve exE1 {| p_fields := ts; p_pending := p; p_local := true |} h1 with
  | Done s' h' => h' = exHeap /\ map (den h') (p_fields s') =
                    [Some (AApp 0 [AClass 1; APrim 0]); Some (AApp 1 [APrim 1; AClass 1]); Some (AApp 2 [AClass 1])] /\
                  map (expected exE1 exHeap) (map snd exFields) = map (den h') (p_fields s')
  | Raised _ _ => False
  end.
Proof. vm_compute. repeat split; eauto. Qed.
