(* Props/C08.v — Decorated functions get Python's binding with conforming arguments (partial).
   Statements only; model in Model/Func.v, proofs in Proofs/FuncProofs.v.
   Proved: the index map of the positional part (with excluded parameters), the placement of
   positional-only defaults, that a failing argument keeps the body from running, the outcome of a
   call in terms of the pure mirror of parse_params followed by Python's binding, and that the
   model of Python's binding binds each parameter exactly once.  The equality of the resulting
   binding with inspect.Signature.bind + conversions, aliases, methods, results and generators are
   decided by the oracle suites of harness/c08.py on the implementation. *)
From UV Require Import Parse Func Verdict FuncProofs C06.
Open Scope string_scope.
Open Scope list_scope.

(* every given positional argument lands at its own index: converted by its parameter's field,
   unchanged for an excluded (underscore-prefixed) parameter; nothing is dropped or shifted.
   For every signature, argument list not longer than the positional parameters, start state. *)
Theorem C08_positional_arguments_keep_their_index :
  forall tr s args ps has_vp i pargs pkeys vs,
  (List.length args <= List.length ps)%nat ->
  Forall2 (fun pa v => conv_arg tr s (fst pa) (snd pa) = Some v) (combine ps args) vs ->
  exists pkeys', pos_loop_p tr s ps has_vp i args pargs pkeys = Some (pargs ++ vs, pkeys').
Proof. exact positional_alignment. Qed.

(* the first positional argument that its parameter's type rejects makes the parse signal an error *)
Theorem C08_failing_argument_signals :
  forall tr s args ps has_vp i pargs pkeys n p f a,
  nth_error ps n = Some p -> nth_error args n = Some a -> fp_field p = Some f ->
  is_no_input f (c_options (fs_C s)) = false -> pv tr (c_options (fs_C s)) 1 f a = None ->
  (forall m q b g, (m < n)%nat -> nth_error ps m = Some q -> nth_error args m = Some b -> fp_field q = Some g ->
                   is_no_input g (c_options (fs_C s)) = false -> pv tr (c_options (fs_C s)) 1 g b <> None) ->
  pos_loop_p tr s ps has_vp i args pargs pkeys = None.
Proof. exact failing_argument_signals. Qed.

(* defaults of omitted positional-only parameters: only appended, each at the index of its own parameter *)
Theorem C08_positional_only_defaults_at_their_index :
  forall s ps idx pargs pkeys pargs' pkeys',
  po_defaults_p s ps idx pargs pkeys = Some (pargs', pkeys') ->
  exists ext, pargs' = pargs ++ ext /\
    forall k d, nth_error ext k = Some d ->
      exists j p f, nth_error ps j = Some p /\ fp_field p = Some f /\ get_default f (c_options (fs_C s)) = Some d /\
                    (List.length pargs + k = idx + j)%nat.
Proof. exact po_defaults_extend. Qed.

(* the call: if any parameter signals an error the body does not run; otherwise the body receives what Python binds
   from the parsed arguments *)
Theorem C08_call_outcome :
  forall tr s args kwargs,
  match parse_params_p tr s args kwargs with
  | Some (pargs, kw) => call_binding tr s args kwargs = match py_bind s pargs kw with Some b => Ok b | None => raise_type end
  | None => is_ok (call_binding tr s args kwargs) = false
  end.
Proof. exact call_verdict. Qed.

(* Python's binding (model): every named parameter exactly once, in signature order, then *args and **kwargs *)
Theorem C08_binding_binds_each_parameter_once :
  forall s args kwargs b, py_bind s args kwargs = Some b ->
  map fst b = map fp_name (positional s) ++ map fp_name (kwonly s)
              ++ (match name_of_kind KVp s with Some n => [n] | None => [] end)
              ++ (match name_of_kind KVk s with Some n => [n] | None => [] end).
Proof. exact py_bind_names. Qed.

(* ---- the hypotheses are met ---- *)
Definition exB' : field := {|
  f_name := "b"; f_attname := "b"; f_all_aliases := ["b"]; f_type := Some (TPrim TStr);
  f_required := FBool false; f_default := Some (PStr "x"); f_defer_default := false; f_no_input := FBool false;
  f_no_output := FBool false; f_mode := None; f_dependencies := []; f_on_error := None; f_immutable := false |}.
Definition exFC : cdecl := {|
  c_fields := [("a", C06.exA); ("b", exB')]; c_alias_map := [("a1", "a")]; c_ci_names := [];
  c_options := default_options; c_dfs := true; c_exclude_vars := ["_x"]; c_dict_based := false |}.
Definition exF : fsig := {|
  fs_params := [ {| fp_name := "_x"; fp_kind := KPo; fp_default := Some (PInt 7); fp_field := None |};
                 {| fp_name := "a"; fp_kind := KPk; fp_default := None; fp_field := Some C06.exA |};
                 {| fp_name := "b"; fp_kind := KKo; fp_default := Some (PStr "x"); fp_field := Some exB' |} ];
  fs_pos_type := None;
  fs_C := exFC |}.
Example C08_nonvacuous :
  call_binding C06.exTr exF [PStr "q"; PStr "5"] [("b", PInt 3)] = Ok [("_x", PStr "q"); ("a", PInt 5); ("b", PStr "3")] /\
  is_ok (call_binding C06.exTr exF [PStr "q"; PStr "nope"] []) = false /\
  py_bind exF [PInt 1] [("a", PInt 2); ("b", PInt 3)] = Some [("_x", PInt 1); ("a", PInt 2); ("b", PInt 3)].
Proof. vm_compute. repeat split; reflexivity. Qed.
