(* Props/C05.v — Data-class parsing implements the declared field contract.
   Statements only.  The contract is Spec/FieldSpec.v (per field, no loops); proofs in
   Proofs/DfsSpec.v, FfsSpec.v, FieldProofs.v. *)
From UV Require Import Parse Verdict Assoc FieldSpec FieldFacts FieldProofs C06.
Open Scope string_scope.
Open Scope list_scope.
Open Scope Z_scope.

(* BaseParser.parse_data, run in a fresh context as init_dataclass runs it, with whichever lookup
   strategy the options select: it succeeds exactly when the contract says so, and then holds,
   key by key, what the contract prescribes.  For every recursive knot, well-formed declaration,
   options (conflicts not ignored), depth and input mapping. *)
Theorem C05_parse_data_implements_contract :
  forall tr C o depth,
  wf_cdecl C = true -> o_ignore_alias_conflicts o = false ->
  forall data, NoDup (keys data) -> coherentb C data = true ->
  match in_fresh (parse_data tr C o depth data) with
  | Ok r => contract_ok tr C o depth data = true /\ forall x, assoc x r = contract_val tr C o depth data x
  | _ => contract_ok tr C o depth data = false
  end.
Proof. exact parse_data_contract. Qed.

(* accepted keys: attribute name, alias, alias_from entry, any letter case when case-insensitive *)
Theorem C05_accepted_keys :
  forall C, wf_cdecl C = true -> forall x k,
  target C x = Some k <-> exists f, In (k, f) (c_fields C) /\ In (fkey C x) (f_all_aliases f).
Proof. exact key_feeds. Qed.

(* missing: required -> absence error; optional -> default or absent *)
Theorem C05_missing_field :
  forall tr C o depth kf data, In kf (c_fields C) -> hits C (fst kf) data = [] ->
  field_out tr C o depth kf data =
  if is_required (snd kf) o then FErr else FOut (get_default (snd kf) o) false false.
Proof. exact missing_field. Qed.
Theorem C05_missing_required_fails :
  forall tr C o depth kf data, In kf (c_fields C) -> hits C (fst kf) data = [] -> is_required (snd kf) o = true ->
  contract_ok tr C o depth data = false.
Proof. exact missing_required_fails. Qed.

(* no_input fields ignore input *)
Theorem C05_no_input_ignores_input :
  forall tr C o depth kf data, is_no_input (snd kf) o = true -> hits C (fst kf) data <> [] ->
  field_out tr C o depth kf data = FOut (get_default (snd kf) o) true false.
Proof. exact no_input_ignores_input. Qed.

(* a given field: the conversion of the value given, stored under the output name *)
Theorem C05_given_field :
  forall tr C o depth kf data v1 more,
  hits C (fst kf) data = v1 :: more -> is_no_input (snd kf) o = false ->
  field_out tr C o depth kf data =
  if forallb (py_eq v1) more then
    match pv tr o depth (snd kf) v1 with
    | Some p => FOut p true (match p with Some _ => true | None => false end)
    | None => FErr
    end
  else FErr.
Proof. exact given_field. Qed.

(* unknown keys: dropped, kept or rejected by the addition policy; never an excluded name *)
Theorem C05_unknown_key :
  forall tr C o depth data x v,
  In (x, v) data -> NoDup (keys data) -> target C x = None -> field_named C x = None ->
  contract_val tr C o depth data x =
  if str_in x (c_exclude_vars C) then None
  else match o_addition o with Some true => Some v | _ => None end.
Proof. exact unknown_key. Qed.
Theorem C05_unknown_key_rejected :
  forall tr C o depth data x v,
  In (x, v) data -> target C x = None -> str_in x (c_exclude_vars C) = false -> o_addition o = Some false ->
  contract_ok tr C o depth data = false.
Proof. exact unknown_key_rejected. Qed.
Theorem C05_nothing_else :
  forall tr C o depth data x,
  field_named C x = None -> assoc x data = None -> contract_val tr C o depth data x = None.
Proof. exact nothing_else. Qed.

(* the options that alter this, and the one thing each of them touches *)
Theorem C05_ignore_required : forall f o, o_ignore_required o = true -> is_required f o = false.
Proof. exact ignore_required_all_optional. Qed.
Theorem C05_no_input_never_required : forall f o, is_no_input f o = true -> is_required f o = false.
Proof. exact ContractCommon.no_input_not_required. Qed.
Theorem C05_no_default : forall f o, o_no_default o = true -> get_default f o = None.
Proof. exact no_default_no_defaults. Qed.
Theorem C05_defer_default : forall f o, f_defer_default f || o_defer_default o = true -> get_default f o = None.
Proof. exact defer_default_no_defaults. Qed.
Theorem C05_force_default :
  forall f o d, o_no_default o = false -> f_defer_default f || o_defer_default o = false ->
  o_force_default o = Some d -> get_default f o = Some d.
Proof. exact force_default_applies. Qed.
Theorem C05_plain_default :
  forall f o, o_no_default o = false -> f_defer_default f || o_defer_default o = false ->
  o_force_default o = None -> get_default f o = f_default f.
Proof. exact plain_default. Qed.

(* the instance: no_output fields are absent from the mapping of a Schema; a DataClass stores
   under attribute names *)
Theorem C05_no_output_absent :
  forall C o values x v, c_dict_based C = true ->
  (In (x, v) (instance_data C o values) <->
   In (x, v) values /\ match get_field C x with Some f => is_no_output f o = false | None => True end).
Proof. exact instance_dict_based. Qed.
Theorem C05_attribute_names :
  forall C o values, c_dict_based C = false ->
  instance_data C o values =
  map (fun kv => match get_field C (fst kv) with Some f => (f_attname f, snd kv) | None => kv end) values.
Proof. exact instance_attr_based. Qed.

(* ---- the hypotheses are met ---- *)
Example C05_nonvacuous :
  let data := [("a1", PStr "5"); ("zz", PInt 7)] in
  let o := C06.exO in
  wf_cdecl C06.exC = true /\ coherentb C06.exC data = true /\
  in_fresh (parse_data C06.exTr C06.exC o 1 data) = Ok [("a", PInt 5); ("b", PStr "x")] /\
  contract_ok C06.exTr C06.exC o 1 data = true /\
  contract_val C06.exTr C06.exC o 1 data "b" = Some (PStr "x") /\
  contract_val C06.exTr C06.exC o 1 data "zz" = None.
Proof. vm_compute. repeat split; reflexivity. Qed.
