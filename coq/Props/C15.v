(* Props/C15.v — Types built from a JSON Schema never crash nor emit what the schema forbids (partial).
   Statements only; Model/SchemaParse.v, proofs in Proofs/SchemaParseProofs.v.
   Proved: the two helpers that decide whether a type can be built at all.  That building succeeds for every
   schema of the supported fragment and that every value the built type returns under strict options
   validates against the source schema is decided by the oracle suite of harness/c15.py (jsonschema
   reference implementation). *)
From UV Require Import SchemaParse SchemaParseProofs.
From Coq Require Import ZArith List String.
Import ListNotations.

(* numeric bounds: whatever pairs of minimum / exclusiveMinimum / maximum / exclusiveMaximum a schema gives, the
   bounds handed to the Rule accept exactly the same numbers and are at most one per side (so the Rule can be built) *)
Theorem C15_bounds_normalisation_is_exact : forall b v, sat (norm_bounds b) v <-> sat b v.
Proof. exact norm_bounds_equiv. Qed.
Theorem C15_bounds_one_per_side : forall b,
  (b_gt (norm_bounds b) = None \/ b_ge (norm_bounds b) = None) /\ (b_lt (norm_bounds b) = None \/ b_le (norm_bounds b) = None).
Proof. exact norm_bounds_one_per_side. Qed.

(* property names: whatever the keys are (not identifiers, keywords, names of mapping methods, underscore-prefixed,
   colliding after sanitising), the attribute names of the class are pairwise distinct and none shadows a reserved name *)
Theorem C15_attribute_names_distinct_and_unreserved :
  forall suffix valid keywords reserved all keys attrs fuel out,
  NoDup attrs -> (forall a, In a attrs -> ~ In a reserved) ->
  attnames suffix valid keywords reserved all keys attrs fuel = Some out ->
  NoDup out /\ (forall a, In a out -> ~ In a reserved).
Proof. exact attnames_distinct. Qed.
Theorem C15_renamed_attribute_is_fresh :
  forall suffix keywords name excludes fuel x,
  get_attname suffix keywords name excludes fuel = Some x -> ~ In x excludes.
Proof. exact get_attname_fresh. Qed.

Open Scope string_scope.
Example C15_nonvacuous :
  sanitize "my-key!!x y" = "my_key_x_y" /\ sanitize "__" = "" /\
  attnames (fun i => "_" ++ match i with 1 => "1" | 2 => "2" | _ => "n" end)%nat (fun s => negb (String.eqb s "x y")) ["class"] ["items"; "update"]
           ["a"; "items"; "x y"; "x_y"; "_p"] ["a"; "items"; "x y"; "x_y"; "_p"] [] 5 = Some ["a"; "items_1"; "x_y_1"; "x_y"; "p"] /\
  norm_bounds {| b_gt := Some (-4)%Z; b_ge := Some 4%Z; b_lt := None; b_le := Some 9%Z |} =
    {| b_gt := None; b_ge := Some 4%Z; b_lt := None; b_le := Some 9%Z |}.
Proof. vm_compute. repeat split; reflexivity. Qed.
