(* Props/C10.v — Collecting errors changes reporting only, never the verdict or the value.
   Statements only; proofs in Proofs/Sim.v, Proofs/CollectProofs.v. *)
From UV Require Import Parse Monad Sim CollectProofs.
Open Scope string_scope.
Open Scope list_scope.
Open Scope Z_scope.

(* Two option records that differ at most in collect_errors / max_errors (of fails fast, oc
   collects; Sim.crel).  For EVERY declared type, input, class table, regex engine and fuel, the
   two parses agree: both return the same value, or both raise.  (An outcome outside the modelled
   part of Python — Unmodelled / OutOfFuel — on either side voids the comparison.) *)
Theorem C10_same_verdict_and_value :
  forall re D fuel of oc t v, crel of oc ->
    let rf := type_transform re D fuel of t v in
    let rc := type_transform re D fuel oc t v in
    junk rf \/ junk rc \/ req rf rc.
Proof. exact collect_same_verdict. Qed.

(* the invariants behind it, for every fuel: simulation, errors never forgotten, and a successful
   parse leaves the recorded errors as they were (so a poisoned context can only end in an exception) *)
Theorem C10_invariants :
  forall re D fuel,
  (forall of oc d t v, crel of oc -> sim (transform re D fuel of d t v) (transform re D fuel oc d t v)) /\
  (forall o d t v, mono (transform re D fuel o d t v)) /\
  (forall o d t v s s' w, transform re D fuel o d t v s = (s', Ok w) -> nerr s' = nerr s).
Proof. exact transform_invariants. Qed.

(* field values of data classes: the two runs of ParserField.parse_value are in simulation for any knot
   satisfying the invariants *)
Theorem C10_field_values :
  forall tr,
  (forall of oc d t v, crel of oc -> sim (tr of d t v) (tr oc d t v)) ->
  (forall o d t v s s' w, tr o d t v s = (s', Ok w) -> nerr s' = nerr s) ->
  forall of oc depth f v, crel of oc -> sim (parse_value tr of depth f v) (parse_value tr oc depth f v).
Proof. exact parse_value_sim. Qed.

(* max_errors caps what is recorded: the collected error is raised exactly when the max_errors-th
   error is recorded, and lists max_errors recorded errors (plus the temporary ones of a failed union) *)
Theorem C10_cap :
  forall o e s s' r m,
  o_collect_errors o = true -> o_max_errors o = Some m -> (nerr s < Z.to_nat m)%nat -> 1 <= m ->
  handle_error o e false s = (s', r) ->
  (r = Ok tt /\ (nerr s' < Z.to_nat m)%nat) \/
  (exists e', r = Raise e' /\ ex_kind e' = KCollected /\
              List.length (ex_sub e') = (Z.to_nat m + ntmp s)%nat /\ nerr s' = Z.to_nat m).
Proof. exact handle_error_cap. Qed.

(* non-vacuity: PositiveInt & Month on 13 is rejected in both modes (it was accepted when collecting
   before fix 55f755e) *)
Definition posint : ty := TRule (Some (TPrim TInt)) [] false [("gt", PInt 0, false)] None None None.
Definition month : ty := TRule (Some posint) [] false [("le", PInt 12, false)] None None None.
Definition collecting : options := {|
  o_collect_errors := true; o_max_errors := None; o_max_depth := None; o_max_params := None;
  o_min_params := None; o_addition := None; o_invalid_items := Throw; o_invalid_keys := Throw;
  o_invalid_values := Throw; o_unresolved := UThrow; o_no_explicit_cast := false;
  o_no_data_loss := false; o_ignore_constraints := false; o_ignore_alias_conflicts := false;
  o_ignore_required := false; o_force_default := None; o_no_default := false;
  o_defer_default := false; o_data_first_search := Some false; o_mode := None;
  o_allow_subclasses := true; o_case_insensitive := false; o_override := false; o_vacuum := false |}.
Example C10_crel_example : crel default_options collecting.
Proof. unfold crel. cbn. repeat split. Qed.
Example C10_and_rejected_both_ways :
  is_raise (type_transform (fun _ _ => false) (fun _ => None) 10 default_options (TLogic CAnd [posint; month]) (PInt 13)) = true /\
  is_raise (type_transform (fun _ _ => false) (fun _ => None) 10 collecting (TLogic CAnd [posint; month]) (PInt 13)) = true /\
  type_transform (fun _ _ => false) (fun _ => None) 10 collecting (TLogic CAnd [posint; month]) (PStr "7") = Ok (PInt 7).
Proof. vm_compute. repeat split. Qed.
