(* Props/C12.v — Conversion preferences only restrict, and keep their promises.
   Statements only; proofs in Proofs/FlagProofs.v (about Model/Conv.v, the builtin targets). *)
From UV Require Import Parse ConvProofs FlagProofs.
Open Scope string_scope.
Open Scope list_scope.
Open Scope Z_scope.

(* what converts under no_data_loss converts identically without it: every builtin target, every source value,
   either setting of no_explicit_cast *)
Theorem C12_no_data_loss_only_restricts :
  forall nec u p v w, conv_prim nec true u p v = Ok w -> conv_prim nec false u p v = Ok w.
Proof. exact conv_prim_ndl_restricts. Qed.

(* what converts under no_explicit_cast converts without it to the same value (a Decimal possibly spelled
   differently: Decimal('0') for 0.0 — equal and of the same class) *)
Theorem C12_no_explicit_cast_only_restricts :
  forall ndl u p v w, conv_prim true ndl u p v = Ok w -> ok_or_unmodelled (conv_prim false ndl u p v) w.
Proof. exact conv_prim_nec_restricts. Qed.

(* no_data_loss: a number becomes an int only with its value preserved *)
Theorem C12_ndl_int_from_float :
  forall nec m e w, to_integer nec true (PFlt (FFin m e)) = Ok w -> py_eq (PFlt (FFin m e)) w = true.
Proof. exact ndl_int_float. Qed.
Theorem C12_ndl_int_from_decimal :
  forall nec s c e w, to_integer nec true (PDec (DFin s c e)) = Ok w -> py_eq (PDec (DFin s c e)) w = true.
Proof. exact ndl_int_decimal. Qed.
(* ... only unambiguous booleans become bool *)
Theorem C12_ndl_bool : forall nec v w, to_bool nec true v = Ok w -> unambiguous_bool v.
Proof. exact ndl_bool. Qed.
(* ... a collection of several elements never collapses to a scalar *)
Theorem C12_ndl_no_collapse : forall x y r,
  attempt_from false true (PList (x :: y :: r)) = raise_type /\ attempt_from false true (PTuple (x :: y :: r)) = raise_type /\
  attempt_from false true (PSet (x :: y :: r)) = raise_type /\ attempt_from false true (PFrozen (x :: y :: r)) = raise_type.
Proof. exact ndl_no_collapse. Qed.

(* ... extra tuple items are rejected (Tuple[T1..Tn] given more than n items), and so are unknown keys: Options.__init__ turns
   no_data_loss into addition=False (checked on the implementation by the flag oracle), under which an unknown key is an error *)
Theorem C12_ndl_tuple_excess_rejected :
  forall tr o depth args vals s,
  o_no_data_loss o = true -> o_collect_errors o = false -> (List.length args < List.length vals)%nat ->
  exists s' e, parse_tuple_args tr o depth args (PTuple vals) s = (s', Raise e) /\ is_parse_err e = true.
Proof. exact ndl_tuple_excess_rejected. Qed.
Theorem C12_unknown_key_rejected :
  forall C o key v s,
  o_addition o = Some false -> o_collect_errors o = false -> str_in key (c_exclude_vars C) = false ->
  exists s' e, parse_addition C o key v s = (s', Raise e) /\ is_parse_err e = true.
Proof. exact unknown_key_rejected. Qed.

(* no_explicit_cast: a value converts only inside its primitive group (booleans being the numbers 0/1),
   apart from the documented exception Decimal <- str *)
Theorem C12_nec_same_group : forall ndl u p v w, conv_prim true ndl u p v = Ok w -> nec_allowed p v.
Proof. exact nec_same_group. Qed.

(* non-vacuity *)
Example C12_examples :
  conv_prim false true UThrow TInt (PFlt (FFin 3 (-1))) = raise_type /\      (* 1.5 -> int refused under no_data_loss *)
  conv_prim false false UThrow TInt (PFlt (FFin 3 (-1))) = Ok (PInt 1) /\
  conv_prim false true UThrow TInt (PFlt (FFin 3 0)) = Ok (PInt 3) /\
  conv_prim true false UThrow TInt (PStr "3") = raise_type /\                 (* str -> int refused under no_explicit_cast *)
  conv_prim true false UThrow TDecimal (PStr "1.50") = Ok (PDec (DFin false 150 (-2))) /\
  conv_prim false true UThrow TBool (PStr "maybe") = raise_type.
Proof. repeat split; vm_compute; reflexivity. Qed.
