(* Props/C06.v — The result does not depend on the field-lookup strategy.
   Statements only; proofs in Proofs/DfsSpec.v, FfsSpec.v (both strategies refine one contract)
   and Proofs/FieldProofs.v. *)
From UV Require Import Parse Verdict Assoc FieldSpec FieldFacts FieldProofs.
Open Scope string_scope.
Open Scope list_scope.
Open Scope Z_scope.

(* BaseParser.data_first_parse and BaseParser.field_first_parse, each followed by the raise_error
   of the caller and run in a fresh context: for every recursive knot, declaration, options
   (conflicts not ignored), depth and input mapping, both succeed with the same mapping
   (key by key), or both fail. *)
Theorem C06_strategies_agree :
  forall tr C o depth,
  wf_cdecl C = true -> o_ignore_alias_conflicts o = false ->
  forall data, NoDup (keys data) -> coherentb C data = true ->
  match finish (data_first_parse tr C o depth data), finish (field_first_parse tr C o depth data) with
  | Ok a, Ok b => forall x, assoc x a = assoc x b
  | Ok _, _ | _, Ok _ => False
  | _, _ => True
  end.
Proof. exact strategies_agree. Qed.

(* the flag itself: parse_data under option sets that differ at most in data_first_search *)
Theorem C06_flag_invisible :
  forall tr C o depth b1 b2,
  (forall f v, pv tr (with_dfs o b1) depth f v = pv tr (with_dfs o b2) depth f v) ->
  forall data, wf_cdecl C = true -> o_ignore_alias_conflicts o = false ->
  NoDup (keys data) -> coherentb C data = true ->
  match in_fresh (parse_data tr C (with_dfs o b1) depth data), in_fresh (parse_data tr C (with_dfs o b2) depth data) with
  | Ok a, Ok b => forall x, assoc x a = assoc x b
  | Ok _, _ | _, Ok _ => False
  | _, _ => True
  end.
Proof. exact flag_invisible. Qed.

(* whatever one strategy raises is a ParseError: Props/C04.v C04_dataclass_raises_parse_errors_only *)

(* ---- the hypotheses are met, and both branches occur ---- *)
Definition exA : field := {|
  f_name := "a"; f_attname := "a"; f_all_aliases := ["a"; "a1"]; f_type := Some (TPrim TInt);
  f_required := FBool true; f_default := None; f_defer_default := false; f_no_input := FBool false;
  f_no_output := FBool false; f_mode := None; f_dependencies := []; f_on_error := None; f_immutable := false |}.
Definition exB : field := {|
  f_name := "b"; f_attname := "b"; f_all_aliases := ["b"]; f_type := Some (TPrim TStr);
  f_required := FBool false; f_default := Some (PStr "x"); f_defer_default := false; f_no_input := FBool false;
  f_no_output := FBool false; f_mode := None; f_dependencies := ["a"]; f_on_error := None; f_immutable := false |}.
Definition exC : cdecl := {|
  c_fields := [("a", exA); ("b", exB)]; c_alias_map := [("a1", "a")]; c_ci_names := [];
  c_options := default_options; c_dfs := true; c_exclude_vars := []; c_dict_based := true |}.
Definition exTr := transform (fun _ _ => false) (fun _ => None) 20.
Definition exO : options := with_dfs default_options None.

Example C06_nonvacuous_ok :
  let data := [("a1", PStr "5"); ("b", PInt 7); ("a", PStr "5")] in
  wf_cdecl exC = true /\ coherentb exC data = true /\
  finish (data_first_parse exTr exC exO 1 data) = Ok [("a", PInt 5); ("b", PStr "7")] /\
  finish (field_first_parse exTr exC exO 1 data) = Ok [("a", PInt 5); ("b", PStr "7")].
Proof. vm_compute. repeat split; reflexivity. Qed.
Example C06_nonvacuous_fail :
  let data := [("a1", PStr "5"); ("a", PStr "6")] in
  wf_cdecl exC = true /\ coherentb exC data = true /\
  is_ok (finish (data_first_parse exTr exC exO 1 data)) = false /\
  is_ok (finish (field_first_parse exTr exC exO 1 data)) = false.
Proof. vm_compute. repeat split; reflexivity. Qed.
