(* Props/C19.v — Parsing is pure: no input mutation, no shared defaults, no cross-call state (partial).
   Statements only; Model/Heap.v (object identity: a heap of cells), proofs in Proofs/HeapProofs.v.
   Proved, for every default value (any nesting of lists / sets / tuples / dicts over shared atoms and opaque
   objects, any sharing between its parts, any size): the copy made for an instance or call denotes the same
   value, leaves every existing object as it was, shares no container with anything that existed before, and
   therefore no in-place write through one instance is visible through the default or through another
   instance.  That get_default really applies this copy, that parsing leaves the caller's input objects
   alone, and that a parse does not depend on earlier parses, are decided on the implementation by the
   aliasing / snapshot / history suites of harness/c19.py (identity is not part of the value calculus). *)
From UV Require Import Heap HeapProofs.
From Coq Require Import List Arith.
Import ListNotations.

(* the copy of a default d denotes the same value ... *)
Theorem C19_copy_same_value : forall f h d t, denote f h d = Some t ->
  denote f (fst (copy_value f h d)) (snd (copy_value f h d)) = Some t.
Proof. exact copy_same_value. Qed.
(* ... every object that existed before is still what it was (the heap only grows) ... *)
Theorem C19_copy_leaves_heap : forall f h d t, denote f h d = Some t ->
  exists e, fst (copy_value f h d) = h ++ e.
Proof. exact copy_leaves_heap. Qed.
(* ... and every container reachable through the copy was allocated by this copy *)
Theorem C19_copy_shares_no_container : forall f h d t, denote f h d = Some t ->
  all_new f (length h) (fst (copy_value f h d)) (snd (copy_value f h d)) = true.
Proof. exact copy_shares_no_container. Qed.

(* two instances (or calls) a, b made from one default d; any in-place write to any container reachable through a:
   the default and the other instance keep their value *)
Theorem C19_instances_independent : forall f h d t h1 a h2 b c o,
  denote f h d = Some t ->
  copy_value f h d = (h1, a) -> copy_value f h1 d = (h2, b) ->
  reachc f h1 a c = true ->
  denote f (set_cell h2 c o) d = Some t /\ denote f (set_cell h2 c o) b = Some t.
Proof. exact instances_independent. Qed.

(* non-vacuity: d = {k: [x, (x,)], k2: inner} where inner = [x] is also an element of the outer list's tuple;
   cell 0 atom, 1 = [x], 2 = (x, inner) , 3 = [x, cell2], 4 = {7: cell3, 8: cell1} *)
Definition exH : heap := [OAtom 5; OSeq 0 [0]; OSeq 3 [0; 1]; OSeq 0 [0; 2]; OMap [(7, 3); (8, 1)]].
Example C19_nonvacuous :
  denote 5 exH 4 = Some (TMap [(7, TSeq 0 [TAtom 5; TSeq 3 [TAtom 5; TSeq 0 [TAtom 5]]]); (8, TSeq 0 [TAtom 5])]) /\
  (let '(h1, a) := copy_value 5 exH 4 in
   a = 9 /\ length h1 = 10 /\ reachc 5 h1 a 5 = true /\
   denote 5 (set_cell h1 5 (OSeq 0 [])) a <> denote 5 h1 a /\
   denote 5 (set_cell h1 5 (OSeq 0 [])) 4 = denote 5 exH 4).
Proof. vm_compute. repeat split; congruence. Qed.
