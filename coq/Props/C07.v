(* Props/C07.v — Data-class instances stay valid under every sequence of mutations.
   Statements only; the instance model is Model/Schema.v, proofs in Proofs/SchemaProofs.v. *)
From UV Require Import Parse Schema FieldSpec FieldFacts DfsSpec SchemaProofs C06.
Open Scope string_scope.
Open Scope list_scope.
Open Scope Z_scope.

(* after any finite sequence of public operations (item / attribute assignment and deletion, pop,
   popitem, update and |=, setdefault, clear) with any arguments, on a Schema or a DataClass:
   the invariant that held for the constructed instance still holds.  For every recursive knot,
   well-formed declaration, options and flags. *)
Theorem C07_every_sequence_keeps_the_invariant :
  forall tr C o fl, wf_inst C = true ->
  forall i0 ops, init_okb C o i0 = true -> good tr C o i0 (run tr C o fl i0 ops).
Proof.
  intros tr C o fl Hw i0 ops Hi. destruct (wf_inst_attnames C Hw) as [HW Hatt].
  apply (run_good tr C o fl HW Hatt). apply init_okb_good. exact Hi.
Qed.

(* the clauses of the invariant, spelled out *)
(* no public operation can place unparsed data: a field's value is the one it was constructed with,
   or an output of the field's own parse *)
Theorem C07_no_unparsed_data :
  forall tr C o fl, wf_inst C = true -> forall i0 ops, init_okb C o i0 = true ->
  forall kf v, In kf (c_fields C) ->
  (assoc (f_name (snd kf)) (i_dict (run tr C o fl i0 ops)) = Some v ->
   assoc (f_name (snd kf)) (i_dict i0) = Some v \/ parsed tr o (snd kf) v) /\
  (assoc (f_attname (snd kf)) (i_attrs (run tr C o fl i0 ops)) = Some v ->
   assoc (f_attname (snd kf)) (i_attrs i0) = Some v \/ parsed tr o (snd kf) v).
Proof.
  intros tr C o fl Hw i0 ops Hi kf v Hk.
  pose proof (C07_every_sequence_keeps_the_invariant tr C o fl Hw i0 ops Hi) as G.
  split; [apply (g_vd _ _ _ _ _ G kf v Hk)|apply (g_va _ _ _ _ _ G kf v Hk)].
Qed.
Theorem C07_required_fields_stay :
  forall tr C o fl, wf_inst C = true -> forall i0 ops, init_okb C o i0 = true ->
  forall kf, In kf (c_fields C) -> is_required (snd kf) o = true ->
  (has_key (f_name (snd kf)) (i_dict i0) = true -> has_key (f_name (snd kf)) (i_dict (run tr C o fl i0 ops)) = true) /\
  (c_dict_based C = false -> has_key (f_attname (snd kf)) (i_attrs i0) = true ->
   has_key (f_attname (snd kf)) (i_attrs (run tr C o fl i0 ops)) = true).
Proof.
  intros tr C o fl Hw i0 ops Hi kf Hk Hr.
  pose proof (C07_every_sequence_keeps_the_invariant tr C o fl Hw i0 ops Hi) as G.
  split; [apply (g_rd _ _ _ _ _ G kf Hk Hr)|apply (g_ra _ _ _ _ _ G kf Hk Hr)].
Qed.
Theorem C07_immutable_fields_keep_their_value :
  forall tr C o fl, wf_inst C = true -> forall i0 ops, init_okb C o i0 = true ->
  forall kf, In kf (c_fields C) -> f_immutable (snd kf) = true ->
  assoc (f_name (snd kf)) (i_dict (run tr C o fl i0 ops)) = assoc (f_name (snd kf)) (i_dict i0) /\
  (c_dict_based C = false ->
   assoc (f_attname (snd kf)) (i_attrs (run tr C o fl i0 ops)) = assoc (f_attname (snd kf)) (i_attrs i0)).
Proof.
  intros tr C o fl Hw i0 ops Hi kf Hk Hm.
  pose proof (C07_every_sequence_keeps_the_invariant tr C o fl Hw i0 ops Hi) as G.
  split; [apply (g_md _ _ _ _ _ G kf Hk Hm)|apply (g_ma _ _ _ _ _ G kf Hk Hm)].
Qed.
(* the attribute view agrees with the key view: a no_output field is never in the mapping, and once
   the key of an output field is gone its attribute copy is gone too *)
Theorem C07_views_agree :
  forall tr C o fl, wf_inst C = true -> forall i0 ops, init_okb C o i0 = true ->
  forall kf, In kf (c_fields C) ->
  (is_no_output (snd kf) o = true -> has_key (f_name (snd kf)) (i_dict (run tr C o fl i0 ops)) = false) /\
  (c_dict_based C = true -> is_no_output (snd kf) o = false ->
   has_key (f_name (snd kf)) (i_dict (run tr C o fl i0 ops)) = false ->
   has_key (f_attname (snd kf)) (i_attrs (run tr C o fl i0 ops)) = false).
Proof.
  intros tr C o fl Hw i0 ops Hi kf Hk.
  pose proof (C07_every_sequence_keeps_the_invariant tr C o fl Hw i0 ops Hi) as G.
  split; [apply (g_no _ _ _ _ _ G kf Hk)|apply (g_ag _ _ _ _ _ G kf Hk)].
Qed.

(* a single-key operation that raises leaves the instance as it was *)
Theorem C07_raising_operation_changes_nothing :
  forall tr C o fl i op i' e, single_key op = true -> step tr C o fl i op = (i', Some e) -> i' = i.
Proof. exact step_raise_unchanged. Qed.

(* a value that an assignment drops (on_error='exclude') belongs to an optional field *)
Theorem C07_dropped_value_is_optional :
  forall tr o f v, set_parse tr o f v = Ok None -> is_required f o = false.
Proof. exact set_parse_none. Qed.

(* ---- the hypotheses are met ---- *)
Definition exI : inst := init_inst C06.exC C06.exO [("a", PInt 5); ("b", PStr "x")].
Example C07_nonvacuous :
  wf_inst C06.exC = true /\ init_okb C06.exC C06.exO exI = true /\
  let fl := {| sf_immutable := false; sf_ign_del := false |} in
  run C06.exTr C06.exC C06.exO fl exI
      [OSetItem "a1" (PStr "7"); OPop "a" false; OSetItem "b" (PInt 3); OPopItem; OSetDefault "b" (PStr "q"); OSetItem "a" (PStr "z")]
  = {| i_dict := [("a", PInt 7); ("b", PStr "q")]; i_attrs := [("a", PInt 5)] |}.
Proof. vm_compute. repeat split; reflexivity. Qed.
