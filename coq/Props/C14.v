(* Props/C14.v — JSON encoding round-trips through the parser (partial).
   Statements only; Model/Temporal.v, proofs in Proofs/TemporalProofs.v.
   Proved: the integer-field arithmetic of the duration, UTC-offset and time-of-day encoders and
   decoders round-trips for every value of the stated domain (negative durations, microsecond
   durations, negative offsets).  The text layout of each form, Decimal / float tokens, and the
   round trip of whole instances (containers, nested classes) are decided by the correspondence and
   round-trip suites of harness/c14.py on the implementation. *)
From UV Require Import Temporal TemporalProofs.
From Coq Require Import ZArith.
Open Scope Z_scope.

(* every timedelta (days any integer, 0 <= seconds < 86400, 0 <= microseconds < 10^6): the ISO 8601 fields
   written by duration_iso_string, read back as sign * timedelta(days, hours, minutes, seconds.micro), give it again *)
Theorem C14_duration_roundtrip : forall t, td_wf t -> decode_td (encode_td t) = t.
Proof. exact td_roundtrip. Qed.
(* the written fields denote the absolute value, the sign flag its sign *)
Theorem C14_duration_fields_value : forall t, td_wf t ->
  let f := encode_td t in
  (if df_neg f then -1 else 1) *
  ((df_days f * 86400 + df_hours f * 3600 + df_minutes f * 60 + df_seconds f) * 1000000 + df_us f) = total_us t.
Proof. exact encode_td_value. Qed.
(* ... and are canonical: two digits are enough for hours, minutes, seconds; six for the fraction *)
Theorem C14_duration_fields_canonical : forall t, td_wf t ->
  let f := encode_td t in
  0 <= df_hours f < 24 /\ 0 <= df_minutes f < 60 /\ 0 <= df_seconds f < 60 /\ 0 <= df_us f < 1000000 /\
  (df_neg f = true -> 0 <= df_days f).
Proof. exact encode_td_ranges. Qed.

(* every UTC offset of less than a day, positive or negative *)
Theorem C14_offset_roundtrip : forall m, -1440 < m < 1440 ->
  decode_offset (encode_offset m) = m /\ let '(_, h, mm) := encode_offset m in 0 <= h < 24 /\ 0 <= mm < 60.
Proof. exact offset_roundtrip. Qed.

(* times of day: exactly the millisecond-precision ones survive (the domain of the property) *)
Theorem C14_time_ms_roundtrip : forall us, 0 <= us < 1000000 -> us mod 1000 = 0 -> decode_time_us (encode_time_us us) = us.
Proof. exact time_ms_roundtrip. Qed.
Theorem C14_time_finer_than_ms_is_lost : forall us, 0 <= us < 1000000 -> us mod 1000 <> 0 -> decode_time_us (encode_time_us us) <> us.
Proof. exact time_sub_ms_lost. Qed.

Example C14_nonvacuous :
  td_wf {| td_days := -1; td_secs := 86399; td_us := 999999 |} /\
  encode_td {| td_days := -1; td_secs := 86399; td_us := 999999 |} =
    {| df_neg := true; df_days := 0; df_hours := 0; df_minutes := 0; df_seconds := 0; df_us := 1 |} /\
  encode_offset (-90) = (true, 1, 30).
Proof. unfold td_wf. cbn. repeat split; try reflexivity; try discriminate. Qed.
