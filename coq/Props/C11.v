(* Props/C11.v — Exclude/preserve policies touch only the offending elements.
   Statements only; proofs in Proofs/PolicyProofs.v. *)
From UV Require Import Parse Monad FieldPred PolicyProofs.
Open Scope string_scope.
Open Scope list_scope.
Open Scope Z_scope.

(* sequences (list, set, variable-length tuple: Rule._parse_seq_args), for every recursive knot,
   nesting level, element type, input of any length and error state *)
Theorem C11_exclude_is_filter :
  forall tr depth oE oT arg whole items i acc s,
  o_invalid_items oE = Exclude ->
  (forall x, elem tr depth oE arg x = elem tr depth oT arg x) ->      (* element conversions do not depend on the policy *)
  decided_items tr depth oE arg items ->
  seq_items tr oE depth arg whole i items acc s =
  seq_items tr oT depth arg whole i (filter (accepted_b tr depth oE arg) items) acc s.
Proof. exact exclude_is_filter. Qed.

Theorem C11_exclude_result :
  forall tr depth o arg whole, o_invalid_items o = Exclude ->
  forall items i acc s, decided_items tr depth o arg items ->
  seq_items tr o depth arg whole i items acc s = (s, Ok (acc ++ kept tr depth o arg items)).
Proof. exact seq_items_exclude. Qed.

Theorem C11_preserve_puts_back :
  forall tr depth oP arg whole items i acc s,
  o_invalid_items oP = Preserve -> decided_items tr depth oP arg items ->
  seq_items tr oP depth arg whole i items acc s = (s, Ok (acc ++ put_back tr depth oP arg items)).
Proof. exact preserve_is_put_back. Qed.
(* ... at their positions, every other element converted exactly as alone *)
Theorem C11_preserve_positions :
  forall tr depth o t items n x, nth_error items n = Some x ->
  nth_error (put_back tr depth o t items) n =
  Some (match ok_of (elem tr depth o t x) with Some w => w | None => x end).
Proof. exact put_back_nth. Qed.

(* mappings: an offending key or value drops (exclude) or keeps raw (preserve) only its own pair *)
Theorem C11_mapping_policies :
  forall tr depth o kt vt, o_invalid_keys o <> Throw -> o_invalid_values o <> Throw ->
  forall items acc s, decided_pairs tr depth o kt vt items ->
  (forall kv k v, In kv items -> pair_out tr depth o kt vt kv = Some (k, v) -> hashable_deep k = true) ->
  map_items tr o depth kt vt items acc s = (s, Ok (map_fold tr depth o kt vt items acc)).
Proof. exact map_items_policy. Qed.

(* data-class fields *)
Theorem C11_required_never_excluded :
  forall tr depth o f v s e,
  f_type f <> None -> get_on_error f o = Exclude -> is_required f o = true ->
  (exists t, f_type f = Some t /\ enter_tr tr o depth (route_str (f_name f)) t v = Entered (Raise e)) ->
  exists s' r, parse_value tr o depth f v s = (s', r) /\ e_errors s' = e_errors s ++ [parse_err_at KType (PStr (f_name f))].
Proof. exact required_never_excluded. Qed.
Theorem C11_field_exclude_gives_default :
  forall tr depth o f v s t e,
  f_type f = Some t -> get_on_error f o = Exclude -> is_required f o = false ->
  enter_tr tr o depth (route_str (f_name f)) t v = Entered (Raise e) ->
  parse_value tr o depth f v s = (s, Ok (get_default f o)).
Proof. exact field_exclude_gives_default. Qed.
Theorem C11_field_preserve_keeps_input :
  forall tr depth o f v s t e,
  f_type f = Some t -> get_on_error f o = Preserve ->
  enter_tr tr o depth (route_str (f_name f)) t v = Entered (Raise e) ->
  parse_value tr o depth f v s = (s, Ok (Some v)).
Proof. exact field_preserve_keeps_input. Qed.
Theorem C11_field_good_value_unaffected :
  forall tr depth o f v s t w,
  f_type f = Some t -> enter_tr tr o depth (route_str (f_name f)) t v = Entered (Ok w) ->
  parse_value tr o depth f v s = (s, Ok (Some w)).
Proof. exact field_good_value_unaffected. Qed.

(* non-vacuity: List[int] on [1, "x", "3"] *)
Definition excl : options := {|
  o_collect_errors := false; o_max_errors := None; o_max_depth := None; o_max_params := None;
  o_min_params := None; o_addition := None; o_invalid_items := Exclude; o_invalid_keys := Throw;
  o_invalid_values := Throw; o_unresolved := UThrow; o_no_explicit_cast := false;
  o_no_data_loss := false; o_ignore_constraints := false; o_ignore_alias_conflicts := false;
  o_ignore_required := false; o_force_default := None; o_no_default := false;
  o_defer_default := false; o_data_first_search := Some false; o_mode := None;
  o_allow_subclasses := true; o_case_insensitive := false; o_override := false; o_vacuum := false |}.
Example C11_example :
  type_transform (fun _ _ => false) (fun _ => None) 10 excl
    (TRule (Some (TPrim TList)) [TPrim TInt] false [] None None None) (PList [PInt 1; PStr "x"; PStr "3"])
  = Ok (PList [PInt 1; PInt 3]) /\
  type_transform (fun _ _ => false) (fun _ => None) 10 excl
    (TRule (Some (TPrim TSet)) [TPrim TInt] false [] None None None) (PSet [PInt 1; PStr "x"])
  = Ok (PSet [PInt 1]).
Proof. vm_compute. split; reflexivity. Qed.
