(* Props/C09.v — Logical type combinators mean what they say.
   Statements only; proofs in Proofs/LogicProofs.v (and Proofs/ConformProofs.v for conformance). *)
From UV Require Import Parse Monad Combine Conforms ConformProofs LogicProofs.
From Coq Require Import Permutation.
Open Scope string_scope.
Open Scope list_scope.
Open Scope Z_scope.

(* ---- union ---- *)
(* a value whose class is exactly one of the arguments is returned unchanged *)
Theorem C09_union_exact :
  forall tr o depth v args s, existsb (fun con => exact_type con v) args = true ->
    logical_parse tr o depth COr args v s = (s, Ok v).
Proof. exact or_exact. Qed.
(* a stage that succeeds returns the output of an accepting argument ... *)
Theorem C09_union_stage_sound :
  forall tr depth v o' args s s' w, or_stage tr o' depth args v s = (s', Ok (Some w)) ->
    exists con, In con args /\ enter_tr tr o' depth true con v = Entered (Ok w).
Proof. exact or_stage_some. Qed.
(* ... and succeeds as soon as one argument accepts *)
Theorem C09_union_stage_complete :
  forall tr o depth v args, decided tr o depth v args -> forall s,
    existsb (accepts_b tr o depth v) args = true -> exists s' w, or_stage tr o depth args v s = (s', Ok (Some w)).
Proof. exact or_stage_complete. Qed.
(* whatever a union returns conforms to one of its arguments (C01 instance) *)
Theorem C09_union_conforms :
  forall re D fuel o depth args v s s' w, safe o ->
    transform re D fuel o depth (TLogic COr args) v s = (s', Ok w) -> conforms re (TLogic COr args) w.
Proof. intros re D fuel o depth args v s s' w Hs H. exact (transform_sound re D fuel o depth _ v s s' w Hs H). Qed.

(* ---- exclusive or: accepts exactly when one and only one argument accepts the GIVEN input ---- *)
Theorem C09_xor_exactly_one :
  forall tr o depth v args s, decided tr o depth v args -> args <> [] -> e_errors s = [] -> e_tmp s = [] ->
  existsb (fun con => exact_type con v) args = false ->
  (n_accept tr o depth v args = 1%nat ->
     exists s' w a, logical_parse tr o depth CXor args v s = (s', Ok w) /\ In a args /\ says tr o depth v a = Entered (Ok w)) /\
  (n_accept tr o depth v args <> 1%nat -> exists s' e, logical_parse tr o depth CXor args v s = (s', Raise e)).
Proof. exact xor_spec. Qed.
(* ... independent of the order of the arguments: verdict and value *)
Theorem C09_xor_order_independent :
  forall tr o depth v args args' s,
  Permutation args args' -> decided tr o depth v args -> args <> [] -> e_errors s = [] -> e_tmp s = [] ->
  existsb (fun con => exact_type con v) args = false ->
  match snd (logical_parse tr o depth CXor args v s), snd (logical_parse tr o depth CXor args' v s) with
  | Ok w, Ok w' => w = w'
  | Raise _, Raise _ => True
  | _, _ => False
  end.
Proof. exact xor_order_independent. Qed.

(* ---- negation: accepts exactly when the argument rejects, and returns the input unchanged ---- *)
Theorem C09_not :
  forall tr o depth v a s, e_errors s = [] -> e_tmp s = [] ->
  (forall e, says tr o depth v a = Entered (Raise e) -> logical_parse tr o depth CNot [a] v s = (s, Ok v)) /\
  (forall w, says tr o depth v a = Entered (Ok w) -> exists s' e, logical_parse tr o depth CNot [a] v s = (s', Raise e)).
Proof. exact not_spec. Qed.

(* ---- conjunction: the arguments are applied in order to the running value ---- *)
Theorem C09_and_chain :
  forall tr o depth args x s s' w,
    and_loop tr o depth args x s = (s', Ok w) -> e_errors s' = [] -> chain tr o depth args x s w s'.
Proof. exact and_loop_chain. Qed.

(* ---- construction algebra ---- *)
Theorem C09_any_absorbs : forall args, existsb is_any args = true ->
  combine COr args = rule_any /\ combine CXor args = rule_any.
Proof. exact combine_any_absorbs. Qed.
Theorem C09_and_ignores_any : forall args, combine CAnd args = combine CAnd (filter (fun t => negb (is_any t)) args).
Proof. exact combine_and_ignores_any. Qed.
Theorem C09_singleton : forall op t, is_any t = false -> op <> CNot -> combine op [t] = t.
Proof. exact combine_singleton. Qed.
Theorem C09_no_duplicates : forall op args l, combine op args = TLogic op l ->
  exists l', combine_loop op args [] = Some l' /\ distinct_rev l' = true.
Proof. exact combine_distinct. Qed.
Theorem C09_same_kind_flattens : forall c xs ys,
  combine_by c (TLogic c xs) (TLogic c ys) false = combine c (xs ++ ys).
Proof. exact combine_by_flattens. Qed.
Theorem C09_double_negation_cancels : forall t,
  (match t with TLogic CNot l => exists a, l = [a] /\ match a with TLogic CNot _ => False | _ => True end | _ => True end) ->
  invert (invert t) = t.
Proof. exact invert_involutive. Qed.

(* non-vacuity: PositiveInt ^ const 5 on "5": both arguments accept the given input, so it is rejected
   in both orders (the verdict depended on the order before fix 15bb80a) *)
Definition posint : ty := TRule (Some (TPrim TInt)) [] false [("gt", PInt 0, false)] None None None.
Definition const5 : ty := TRule (Some (TPrim TInt)) [] false [("const", PInt 5, false)] None None None.
Example C09_xor_example :
  is_raise (type_transform (fun _ _ => false) (fun _ => None) 10 default_options (TLogic CXor [posint; const5]) (PStr "5")) = true /\
  is_raise (type_transform (fun _ _ => false) (fun _ => None) 10 default_options (TLogic CXor [const5; posint]) (PStr "5")) = true /\
  type_transform (fun _ _ => false) (fun _ => None) 10 default_options (TLogic CXor [const5; posint]) (PStr "7") = Ok (PInt 7).
Proof. vm_compute. repeat split. Qed.
