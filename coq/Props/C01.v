(* Props/C01.v — Parsed results always conform to the declared type and constraints.
   Statements only; proofs in Proofs/ConformProofs.v, Proofs/ConvProofs.v. *)
From UV Require Import Parse Conforms ConvProofs ConformProofs.
Open Scope string_scope.
Open Scope list_scope.
Open Scope Z_scope.

(* MAIN THEOREM.  For every regex engine, class table, fuel, options that do not waive the
   guarantee (no 'preserve' policy, constraints not ignored, unresolved types not ignored), nesting
   level, declared type (builtin, constrained, nested generic, logical combination, data class),
   input value and error state: if the parse returns a value, that value conforms to the type —
   instance of the source class, every element / key / value / tuple position conforming
   recursively, every strict checking constraint holding on the result.  (For declarations with
   value-transforming constraints — const, decimal_places, Lax(...) — the statement is cf_rule_transforming:
   see C02/C03 for what those return and the refutation below.) *)
Theorem C01_conform :
  forall re D fuel o depth t v s s' w,
    safe o -> transform re D fuel o depth t v s = (s', Ok w) -> conforms re t w.
Proof. intros re D fuel. exact (transform_sound re D fuel). Qed.

(* the public entry points *)
Theorem C01_type_transform :
  forall re D fuel o t v w, safe o -> type_transform re D fuel o t v = Ok w -> conforms re t w.
Proof.
  intros re D fuel o t v w Hs. unfold type_transform, in_fresh.
  destruct (depth_check o 1); cbn [bind]; try discriminate.
  destruct (transform re D fuel o 1 t v no_errs) as [s' r] eqn:E. cbn [snd]. intros ->.
  eapply transform_sound; eassumption.
Qed.
Theorem C01_call_type :
  forall re D fuel o t v w, safe o -> call_type re D fuel o t v = Ok w -> conforms re t w.
Proof.
  intros re D fuel o t v w Hs. unfold call_type, in_fresh.
  destruct t; try discriminate;
  (destruct (depth_check o 1); cbn [bind]; try discriminate;
   match goal with |- snd ?x = _ -> _ => destruct x as [s' r] eqn:E end; cbn [snd]; intros ->;
   eapply transform_sound; eassumption).
Qed.

(* the leaf case: every builtin converter returns an instance of its target *)
Theorem C01_builtin_targets :
  forall nec ndl u p v w,
    conv_prim nec ndl u p v = Ok w -> (u = UIgnore -> opaque_prim p = false) -> prim_isinstance p w = true.
Proof. exact conv_prim_sound. Qed.

(* data classes: construction returns an instance of the class *)
Theorem C01_dataclass_instance :
  forall tr c C caller depth v w, init_dataclass tr c C caller depth v = Ok w -> exists kvs, w = PInst c kvs.
Proof. exact init_dataclass_inst. Qed.

(* non-vacuity and the exemptions *)
Definition list_of_posint : ty :=
  TRule (Some (TPrim TList)) [TRule (Some (TPrim TInt)) [] false [("gt", PInt 0, false)] None None None]
        false [("max_length", PInt 3, false)] None None None.
Example C01_example_accepts :
  type_transform (fun _ _ => false) (fun _ => None) 10 default_options list_of_posint (PTuple [PStr "1"; PFlt (FFin 2 0)])
  = Ok (PList [PInt 1; PInt 2]).
Proof. vm_compute. reflexivity. Qed.
Example C01_safe_default : safe default_options.
Proof. unfold safe. cbn. repeat split; discriminate. Qed.
(* the 'preserve' exemption is needed: with it an unconverted element is handed back *)
Example C01_preserve_is_unsafe :
  exists o w, type_transform (fun _ _ => false) (fun _ => None) 10 o list_of_posint (PList [PStr "x"]) = Ok w
              /\ ~ conforms (fun _ _ => false) list_of_posint w.
Proof.
  exists {| o_collect_errors := false; o_max_errors := None; o_max_depth := None; o_max_params := None;
            o_min_params := None; o_addition := None; o_invalid_items := Preserve; o_invalid_keys := Throw;
            o_invalid_values := Throw; o_unresolved := UThrow; o_no_explicit_cast := false;
            o_no_data_loss := false; o_ignore_constraints := false; o_ignore_alias_conflicts := false;
            o_ignore_required := false; o_force_default := None; o_no_default := false;
            o_defer_default := false; o_data_first_search := Some false; o_mode := None;
            o_allow_subclasses := true; o_case_insensitive := false; o_override := false; o_vacuum := false |},
         (PList [PStr "x"]).
  split; [vm_compute; reflexivity|].
  intros H. inversion H; subst; try discriminate.
  match goal with Hf : Forall _ ?xs, He : elements_of _ = Some ?xs |- _ =>
    cbn in He; injection He as <-; inversion Hf as [|? ? Hx _]; subst; inversion Hx; subst; try discriminate end.
Qed.

(* REFUTED for value-transforming constraints: a lax bound of another numeric class is returned
   as it is, so a float-typed rule can hand back an int (known finding C01-lax-kind) *)
Theorem C01_lax_bound_kind_refuted :
  exists t v w, type_transform (fun _ _ => false) (fun _ => None) 10 default_options t v = Ok w /\
                t = TRule (Some (TPrim TFloat)) [] false [("ge", PInt 3, true)] None None None /\
                prim_isinstance TFloat w = false.
Proof.
  exists (TRule (Some (TPrim TFloat)) [] false [("ge", PInt 3, true)] None None None),
         (PFlt (FFin 3 (-1))), (PInt 3).
  repeat split; vm_compute; reflexivity.
Qed.
