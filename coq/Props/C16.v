(* Props/C16.v — Converter resolution is a pure function of the registrations made so far.
   Statements only; proofs are in Proofs/RegistryProofs.v. *)
From UV Require Import PyVal Registry RegistrySpec RegistryProofs.
Open Scope Z_scope.

(* Full statement: for every class hierarchy, every chain of registries (a registry and its
   bases, with or without cache, any defaults), and EVERY finite interleaving of registrations
   and resolutions, each resolution returns what the specification computes from the list of
   registrations made so far: the matching registration of highest priority, the most recent
   among equals, falling back to the base registries and the default. *)
Theorem C16_history :
  forall (H : hier) (use_shortcut : bool) (confs : list (bool * option conv)) (ops : list rop),
    rrun H use_shortcut (map (fun '(uc, d) => empty_registry uc d) confs) ops =
    spec_run H use_shortcut (map (fun '(_, d) => {| s_hist := []; s_default := d |}) confs) ops.
Proof.
  intros H sc confs ops. apply run_refines.
  induction confs as [|[uc d] r IH]; cbn [map]; constructor; [apply empty_inv|exact IH].
Qed.
Print Assumptions C16_history.

(* The specification's winner is the declarative one: it matches, and every other matching
   registration has lower priority, or equal priority and is older. *)
Theorem C16_best_is_declarative :
  forall H regs c e, best H regs c = Some e ->
    exists i, is_best H regs c i /\ nth_error regs i = Some e.
Proof. exact best_is_best. Qed.
Print Assumptions C16_best_is_declarative.

Theorem C16_none_means_no_match :
  forall H regs c, best H regs c = None -> forall e, In e regs -> matches H e c = false.
Proof. exact best_none. Qed.
Print Assumptions C16_none_means_no_match.

(* Non-vacuity: a history in which a later registration must change a cached answer,
   and one in which a priority-0 registration follows a priority-1 one. *)
Definition exH : hier :=
  {| h_sub := fun c d => Nat.eqb c d || (Nat.eqb c 1 && Nat.eqb d 0);  (* class 1 is a subclass of class 0 *)
     h_meta := fun _ _ => false; h_attr := fun _ _ => false;
     h_det := fun _ _ => None; h_shortcut := fun _ => None |}.
Example C16_late_registration_takes_effect :
  rrun exH false [empty_registry true None]
       [OpRegister 0 (CStd [0%nat] true None None) 7%nat 0; OpResolve 1%nat;
        OpRegister 0 (CStd [1%nat] true None None) 8%nat 0; OpResolve 1%nat]
  = [Some 7%nat; Some 8%nat].
Proof. vm_compute. reflexivity. Qed.
Example C16_priority_beats_recency :
  rrun exH false [empty_registry true None]
       [OpRegister 0 (CStd [0%nat] true None None) 7%nat 1;
        OpRegister 0 (CStd [0%nat] true None None) 8%nat 0; OpResolve 1%nat]
  = [Some 7%nat].
Proof. vm_compute. reflexivity. Qed.
