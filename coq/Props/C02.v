(* Props/C02.v — Validation is exact on well-typed values and agrees with isinstance.
   Statements only; proofs in Proofs/ConstraintProofs.v, Proofs/RuleProofs.v.
   The validators c_* are Gen/Constraints.v, regenerated from utype/parser/rule.py on every run. *)
From UV Require Import Parse ConstraintSpec ConstraintProofs RuleProofs.
Open Scope string_scope.
Open Scope list_scope.
Open Scope Z_scope.

(* --- each strict constraint accepts exactly when it holds in its documented sense, and returns
       its input (const returns the declared constant, which is == and of a tolerated class) --- *)
Theorem C02_gt : forall v b w, c_gt v b = Ok w <-> gtP v b /\ w = v.
Proof. exact c_gt_exact. Qed.
Theorem C02_ge : forall v b w, c_ge v b = Ok w <-> geP v b /\ w = v.
Proof. exact c_ge_exact. Qed.
Theorem C02_lt : forall v b w, c_lt v b = Ok w <-> ltP v b /\ w = v.
Proof. exact c_lt_exact. Qed.
Theorem C02_le : forall v b w, c_le v b = Ok w <-> leP v b /\ w = v.
Proof. exact c_le_exact. Qed.
Theorem C02_length : forall v n w, c_length v (PInt n) = Ok w <-> lengthP v n /\ w = v.
Proof. exact c_length_exact. Qed.
Theorem C02_max_length : forall v n w, c_max_length v (PInt n) = Ok w <-> max_lengthP v n /\ w = v.
Proof. exact c_max_length_exact. Qed.
Theorem C02_min_length : forall v n w, c_min_length v (PInt n) = Ok w <-> min_lengthP v n /\ w = v.
Proof. exact c_min_length_exact. Qed.
Theorem C02_const : forall v b w, c_const v b = Ok w <-> constP tolerance v b /\ w = b.
Proof. exact c_const_exact. Qed.
Theorem C02_enum : forall v lst w, is_enum_cls lst = false -> is_enum_member v = false ->
  (c_enum v lst = Ok w <-> enumP v lst /\ w = v).
Proof. exact c_enum_exact. Qed.
Theorem C02_unique_items : forall v w, c_unique_items v (PBool true) = Ok w <-> uniqueP v /\ w = v.
Proof. exact c_unique_items_exact. Qed.
Theorem C02_multiple_of_int : forall z k w,
  c_multiple_of (PInt z) (PInt k) = Ok w <-> multipleP z k /\ w = PInt z.
Proof. exact c_multiple_of_int. Qed.
Theorem C02_parse_decimal : forall s c e,
  c__parse_decimal (PDec (DFin s c e)) = Ok (PTuple [PInt (dec_digits c e); PInt (dec_places e)]).
Proof. exact parse_decimal_spec. Qed.
Theorem C02_max_digits : forall s c e m w,
  c_max_digits (PDec (DFin s c e)) (PInt m) = Ok w <-> dec_digits c e <= m /\ w = PDec (DFin s c e).
Proof. exact c_max_digits_exact. Qed.
Theorem C02_decimal_places_accepts_only_within : forall s c e k,
  is_ok (c_decimal_places (PDec (DFin s c e)) (PInt k)) = true -> dec_places e <= k.
Proof. exact c_decimal_places_verdict. Qed.
Theorem C02_decimal_places_rejects_beyond : forall s c e k,
  k < dec_places e -> c_decimal_places (PDec (DFin s c e)) (PInt k) = Raise (other_err XValueError).
Proof. exact c_decimal_places_rejects. Qed.
Theorem C02_decimal_places_value_unchanged : forall s c e k w,
  c_decimal_places (PDec (DFin s c e)) (PInt k) = Ok w -> py_eq w (PDec (DFin s c e)) = true.
Proof. exact c_decimal_places_value. Qed.

(* --- the constrained type as a whole: for a value whose class is exactly the source type,
       (fail-fast options, constraints not waived) parsing succeeds exactly when the declared
       constraints, applied in the declared order, all accept; the result is what they return;
       failure is a ParseError.  Quantifies over every regex engine, class table, fuel >= 2,
       depth, constraint list and value. --- *)
Theorem C02_rule_exact :
  forall re D fuel o depth p vals v s,
  failfast o -> prim_exact p v = true -> p <> TNone -> e_errors s = [] -> e_tmp s = [] ->
  match fold_validators re vals v with
  | Ok w => transform re D (S (S fuel)) o depth (plain_rule p vals) v s = (s, Ok w)
  | Raise _ => exists s' e, transform re D (S (S fuel)) o depth (plain_rule p vals) v s = (s', Raise e)
                            /\ is_parse_err e = true
  | Diverge => snd (transform re D (S (S fuel)) o depth (plain_rule p vals) v s) = Diverge
  | OutOfFuel => snd (transform re D (S (S fuel)) o depth (plain_rule p vals) v s) = OutOfFuel
  | Unmodelled => snd (transform re D (S (S fuel)) o depth (plain_rule p vals) v s) = Unmodelled
  end.
Proof. exact rule_parse_exact_origin. Qed.

(* --- isinstance(value, T) gives the verdict of parsing --- *)
Theorem C02_isinstance_agrees :
  forall re D fuel o ot args ell vals c mn mx v b,
  origin_isinstance ot v = Some true ->
  instancecheck re D fuel o (TRule (Some ot) args ell vals c mn mx) v = Ok b ->
  b = is_ok (call_type re D fuel o (TRule (Some ot) args ell vals c mn mx) v).
Proof.
  intros re D fuel o ot args ell vals c mn mx v b Ho. unfold instancecheck. rewrite Ho.
  destruct (call_type _ _ _ _ _ _) as [w|e| | |]; try discriminate.
  - intros H; injection H as <-. reflexivity.
  - destruct (is_parse_err e); [|discriminate]. intros H; injection H as <-. reflexivity.
Qed.

(* --- boundary examples (non-vacuity): v = bound, bound +- 1, one ulp --- *)
Example C02_gt_boundary :
  c_gt (PInt 5) (PInt 5) = Raise (other_err XValueError) /\ c_gt (PInt 6) (PInt 5) = Ok (PInt 6) /\
  c_ge (PInt 5) (PInt 5) = Ok (PInt 5) /\ c_ge (PInt 4) (PInt 5) = Raise (other_err XValueError) /\
  c_lt (PFlt (FFin 5 0)) (PInt 5) = Raise (other_err XValueError) /\
  c_lt (PFlt (FFin 5629499534213119 (-50))) (PInt 5) = Ok (PFlt (FFin 5629499534213119 (-50))) /\
  c_gt (PFlt FNan) (PInt 0) = Raise (other_err XValueError).
Proof. repeat split; vm_compute; reflexivity. Qed.
Example C02_length_boundary :
  c_max_length (PStr "abc") (PInt 3) = Ok (PStr "abc") /\
  c_max_length (PStr "abcd") (PInt 3) = Raise (other_err XValueError) /\
  c_min_length (PList [PInt 1]) (PInt 2) = Raise (other_err XValueError) /\
  c_max_digits (PDec (DFin false 12345 (-2))) (PInt 5) = Ok (PDec (DFin false 12345 (-2))) /\
  c_max_digits (PDec (DFin false 12345 (-2))) (PInt 4) = Raise (other_err XValueError) /\
  c_max_digits (PDec (DFin false 1 3)) (PInt 3) = Raise (other_err XValueError).
Proof. repeat split; vm_compute; reflexivity. Qed.
