(* Props/C04.v — Invalid input raises ParseError and nothing else; parsing always terminates.
   Statements only; proofs in Proofs/ErrProofs.v, Model/Timestamp.v. *)
From UV Require Import Parse Conforms Wf ErrProofs Timestamp.
Open Scope string_scope.
Open Scope list_scope.
Open Scope Z_scope.

(* Constrained and logical types: for every regex engine, class table, fuel, nesting level,
   declared type (within wf_ty: see Spec/Wf.v and the refutation below), input value whatsoever
   and error state: an exception that leaves the parse is a ParseError. *)
Theorem C04_types_raise_parse_errors_only :
  forall re D fuel o depth t v s s' e,
    no_preserve o -> wf_ty t = true -> guarded t = true ->
    transform re D fuel o depth t v s = (s', Raise e) -> is_parse_err e = true.
Proof. exact transform_parse_only. Qed.

(* calling the type: T(value) *)
Theorem C04_call_type :
  forall re D fuel o t v e,
    no_preserve o -> wf_ty t = true -> call_type re D fuel o t v = Raise e -> is_parse_err e = true.
Proof.
  intros re D fuel o t v e Hnp Hwf. unfold call_type, in_fresh.
  destruct t; try discriminate;
  (destruct (depth_check o 1) eqn:Ed; cbn [bind]; try discriminate;
   [|intros H; injection H as <-; eapply depth_check_parse; exact Ed];
   match goal with |- snd ?x = _ -> _ => destruct x as [s' r] eqn:E end; cbn [snd]; intros ->;
   eapply transform_parse_only; try eassumption; reflexivity).
Qed.

(* data classes: Cls( **data) / Cls.__from__(data) on a string-keyed mapping or a non-mapping,
   for ANY declaration (fields of any types, any options, any recursive knot) *)
Theorem C04_dataclass_raises_parse_errors_only :
  forall tr c C caller depth v e,
    str_keyed v -> init_dataclass tr c C caller depth v = Raise e -> is_parse_err e = true.
Proof. exact init_dataclass_parse_only. Qed.

(* when construction fails there is no instance: the outcome is the exception alone *)
Theorem C04_no_instance_on_failure :
  forall tr c C caller depth v e, init_dataclass tr c C caller depth v = Raise e ->
    forall w, init_dataclass tr c C caller depth v <> Ok w.
Proof. intros. congruence. Qed.

(* the timestamp normalisation loop exits for every finite timestamp *)
Theorem C04_timestamp_loop_terminates :
  forall n, exists r, ms_norm (Z.to_nat (Z.log2_up (Z.abs n + 1))) n 0 = Some r.
Proof. exact ms_norm_terminates. Qed.

(* REFUTED outside wf_ty (known finding C04-unhashable): a set whose element type converts to a
   list lets a bare TypeError escape *)
Theorem C04_unhashable_refuted :
  exists t v e, call_type (fun _ _ => false) (fun _ => None) 10 default_options t v = Raise e /\
                is_parse_err e = false /\ wf_ty t = false.
Proof.
  exists (TRule (Some (TPrim TSet)) [TRule (Some (TPrim TList)) [TPrim TInt] false [] None None None] false [] None None None),
         (PSet [PTuple [PInt 1; PInt 2]]), (other_err XTypeError).
  repeat split; vm_compute; reflexivity.
Qed.

(* non-vacuity: a guarded, well-formed type and a hostile input that is rejected with a ParseError *)
Example C04_example :
  let t := TRule (Some (TPrim TSet)) [TPrim TInt] false [] None None None in
  wf_ty t = true /\ guarded t = true /\
  exists e, call_type (fun _ _ => false) (fun _ => None) 10 default_options t (PSet [PStr "x"; PFlt FNan]) = Raise e
            /\ is_parse_err e = true.
Proof. cbn. repeat split. eexists. split; vm_compute; reflexivity. Qed.
