(* Props/C13.v — The generated JSON Schema describes what the parser does (partial: object structure).
   Statements only; Model/SchemaGen.v, proofs in Proofs/SchemaGenProofs.v (corollaries of the field
   contract of C05).  That every generated document is a valid draft 2020-12 schema and that every
   produced value validates against the sub-schemas of its properties is decided by the oracle suites of
   harness/c13.py with the jsonschema reference implementation. *)
From UV Require Import Parse Verdict FieldSpec FieldFacts FieldProofs SchemaGen SchemaGenProofs C06.
Open Scope string_scope.
Open Scope list_scope.

(* input view: the listed properties are exactly the fields that take input in the class's mode *)
Theorem C13_listed_properties_are_the_input_fields :
  forall C, wf_cdecl C = true -> forall x,
  In x (gen_props C false) <->
  exists kf, In kf (c_fields C) /\ f_name (snd kf) = x /\ is_no_input (snd kf) (c_options C) = false.
Proof. intros C _. exact (props_in_exact C). Qed.
(* ... and each listed name is an accepted key of its own field *)
Theorem C13_listed_name_is_accepted :
  forall C, wf_cdecl C = true -> forall kf, In kf (c_fields C) -> target C (f_name (snd kf)) = Some (fst kf).
Proof. exact listed_name_feeds_its_field. Qed.

(* `required` lists exactly the fields whose absence is an error *)
Theorem C13_required_is_exact :
  forall C, wf_cdecl C = true -> forall x,
  In x (gen_required C false) <->
  exists kf, In kf (c_fields C) /\ f_name (snd kf) = x /\ is_required (snd kf) (c_options C) = true.
Proof. intros C _. exact (required_in_exact C). Qed.
Theorem C13_required_missing_is_an_error :
  forall tr C depth, wf_cdecl C = true -> forall kf data,
  In kf (c_fields C) -> In (f_name (snd kf)) (gen_required C false) -> hits C (fst kf) data = [] ->
  contract_ok tr C (c_options C) depth data = false.
Proof. exact required_missing_is_an_error. Qed.
Theorem C13_unrequired_missing_is_no_error :
  forall tr C depth, wf_cdecl C = true -> forall kf data,
  In kf (c_fields C) -> ~ In (f_name (snd kf)) (gen_required C false) -> hits C (fst kf) data = [] ->
  field_out tr C (c_options C) depth kf data = FOut (get_default (snd kf) (c_options C)) false false.
Proof. intros tr C depth _. exact (unrequired_missing_is_no_error tr C depth). Qed.

(* additionalProperties reflects exactly whether unknown keys are rejected, kept or dropped *)
Theorem C13_additional_properties_is_the_policy :
  forall tr C depth, wf_cdecl C = true -> forall data x v,
  In (x, v) data -> NoDup (Assoc.keys data) -> target C x = None -> field_named C x = None ->
  str_in x (c_exclude_vars C) = false ->
  match gen_additional C with
  | Some false => contract_ok tr C (c_options C) depth data = false
  | Some true => contract_val tr C (c_options C) depth data x = Some v
  | None => contract_val tr C (c_options C) depth data x = None
  end.
Proof. intros tr C depth _. exact (additional_is_the_policy tr C depth). Qed.

(* output view: every required property is present in what the parser produces *)
Theorem C13_output_required_is_present :
  forall tr C depth, wf_cdecl C = true -> forall kf data,
  In kf (c_fields C) -> In (f_name (snd kf)) (gen_required C true) ->
  o_ignore_alias_conflicts (c_options C) = false -> NoDup (Assoc.keys data) -> coherentb C data = true ->
  forall r, in_fresh (parse_data tr C (c_options C) depth data) = Ok r ->
  exists v, assoc (f_name (snd kf)) r = Some v.
Proof. exact required_out_present. Qed.
(* ... and a Schema instance holds a field's key only if the output schema lists it *)
Theorem C13_output_keys_are_listed :
  forall C, wf_cdecl C = true -> forall kf values x v,
  c_dict_based C = true -> In kf (c_fields C) -> get_field C x = Some (snd kf) -> x = f_name (snd kf) ->
  In (x, v) (instance_data C (c_options C) values) -> In x (gen_props C true).
Proof. intros C _. exact (out_keys_are_listed C). Qed.

Example C13_nonvacuous :
  wf_cdecl C06.exC = true /\ gen_props C06.exC false = ["a"; "b"] /\ gen_required C06.exC false = ["a"] /\
  gen_required C06.exC true = ["a"; "b"] /\ gen_additional C06.exC = None /\
  gen_dependent C06.exC false = [("b", ["a"])] /\ gen_dependent C06.exC true = [].
Proof. vm_compute. repeat split; reflexivity. Qed.
