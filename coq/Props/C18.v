(* Props/C18.v — The depth limit is exact (and parse cost stays bounded: see the known finding).
   Statements only; proofs in Proofs/DepthProofs.v, DepthDictProofs.v, DepthOptProofs.v, DepthUnionProofs.v, DepthTupleProofs.v.
   `ex` is the list of names the class excludes from additional keys (reflected from the real class:
   the theorems hold for any).  The depth suite of harness/c18.py checks on every run that the classes
   declared with the real library reflect to exactly node_decl_ex / dnode_decl_ex / onode_decl_ex. *)
From UV Require Import Parse DepthSpec DepthProofs DepthDictProofs DepthOptProofs DepthUnionProofs DepthTupleProofs.
Open Scope string_scope.
Open Scope list_scope.
Open Scope Z_scope.

(* `class Node(Schema): __options__ = Options(max_depth=d); v: int; link: List['Node']`.
   For EVERY tree-shaped input (any branching, any size, the deep branch at any list index) and
   every limit d >= 1: the input is accepted, and converted to the corresponding instances,
   exactly when its data-class nesting depth is at most d; otherwise a ParseError is raised.
   No bound on the tree; fuel only has to exceed twice the height (so OutOfFuel is excluded). *)
Theorem C18_list_exact :
  forall re ex d t fuel, 1 <= d -> (2 * height t <= fuel)%nat ->
  (Z.of_nat (height t) <= d ->
     call_dataclass re (node_world_ex ex (Some d)) fuel 0 None (to_val t) = Ok (inst t)) /\
  (d < Z.of_nat (height t) ->
     raises_parse (call_dataclass re (node_world_ex ex (Some d)) fuel 0 None (to_val t))).
Proof. exact node_call. Qed.

(* `... link: Tuple['Node', ...] = ()`: the same trees given as tuples; the converted elements are rebuilt into a tuple *)
Theorem C18_tuple_exact :
  forall re ex d t fuel, 1 <= d -> (2 * height t <= fuel)%nat ->
  (Z.of_nat (height t) <= d ->
     call_dataclass re (tnode_world_ex ex (Some d)) fuel 0 None (to_val_t t) = Ok (inst_t t)) /\
  (d < Z.of_nat (height t) ->
     raises_parse (call_dataclass re (tnode_world_ex ex (Some d)) fuel 0 None (to_val_t t))).
Proof. exact tnode_call. Qed.

(* `class Node(Schema): __options__ = Options(max_depth=d); v: int; link: Dict[str, 'Node']`:
   the same for every tree of mappings (any number of entries, any keys, distinct at each node as in
   every Python dict): exactness does not depend on which entry holds the deep branch. *)
Theorem C18_dict_exact :
  forall re ex d t fuel, 1 <= d -> wf_dtree t -> (2 * dheight t <= fuel)%nat ->
  (Z.of_nat (dheight t) <= d ->
     call_dataclass re (dnode_world_ex ex (Some d)) fuel 0 None (to_val_d t) = Ok (inst_d t)) /\
  (d < Z.of_nat (dheight t) ->
     raises_parse (call_dataclass re (dnode_world_ex ex (Some d)) fuel 0 None (to_val_d t))).
Proof. exact dnode_call. Qed.

(* `class Node(Schema): __options__ = Options(max_depth=d); v: int; link: Optional['Node'] = None`:
   the link goes through a union, which is tried in up to three stages (strict, no_data_loss, lenient);
   a chain of any length is accepted exactly when its length is at most d — none of the stages lets a
   too-deep chain in, and none rejects one inside the limit. *)
Theorem C18_optional_exact :
  forall re ex d c fuel, 1 <= d -> (3 * clength c <= fuel)%nat ->
  (Z.of_nat (clength c) <= d ->
     call_dataclass re (onode_world_ex ex (Some d)) fuel 0 None (to_val_c c) = Ok (inst_c c)) /\
  (d < Z.of_nat (clength c) ->
     raises_parse (call_dataclass re (onode_world_ex ex (Some d)) fuel 0 None (to_val_c c))).
Proof. exact onode_call. Qed.

(* `class Node(Schema): __options__ = Options(max_depth=d); v: int; link: Union['Node', int, None] = None`:
   a union with scalar arms; the chain may end in a node without link or in an int taken by the scalar arm (the exact-class
   shortcut).  Exactness again: the int and None arms never let a too-deep (non-empty) mapping in, in any of the stages. *)
Theorem C18_union_exact :
  forall re ex d c fuel, 1 <= d -> (3 * ulength c <= fuel)%nat ->
  (Z.of_nat (ulength c) <= d ->
     call_dataclass re (unode_world_ex ex (Some d)) fuel 0 None (to_val_u c) = Ok (inst_u c)) /\
  (d < Z.of_nat (ulength c) ->
     raises_parse (call_dataclass re (unode_world_ex ex (Some d)) fuel 0 None (to_val_u c))).
Proof. exact u_onode_call. Qed.

(* the same at any nesting level k of an enclosing parse: levels add up *)
Theorem C18_levels_add_up :
  forall re ex d, 1 <= d -> forall t n k caller,
  (2 * height t <= n)%nat -> o_override caller = false ->
  (k + Z.of_nat (height t) <= d ->
     init_dataclass (transform re (node_world_ex ex (Some d)) n) 0 (node_decl_ex ex (Some d)) caller k (to_val t) = Ok (inst t)) /\
  (d < k + Z.of_nat (height t) ->
     raises_parse (init_dataclass (transform re (node_world_ex ex (Some d)) n) 0 (node_decl_ex ex (Some d)) caller k (to_val t))).
Proof. exact node_parse. Qed.

(* cyclic inputs: every unfolding deeper than d is rejected *)
Corollary C18_deep_unfoldings_rejected :
  forall re ex d t fuel, 1 <= d -> (2 * height t <= fuel)%nat -> d < Z.of_nat (height t) ->
  raises_parse (call_dataclass re (node_world_ex ex (Some d)) fuel 0 None (to_val t)).
Proof. intros re ex d t fuel Hd Hf Hgt. exact (proj2 (node_call re ex d t fuel Hd Hf) Hgt). Qed.

(* non-vacuity: a tree of height 3 whose deep branch sits at index 0, and one where it sits at index 1 *)
Example C18_position_independent :
  let a := Node 1 [Node 2 [Node 3 []]; Node 4 []] in
  let b := Node 1 [Node 4 []; Node 2 [Node 3 []]] in
  is_ok (call_dataclass (fun _ _ => false) (node_world (Some 3)) 10 0 None (to_val a)) = true /\
  is_ok (call_dataclass (fun _ _ => false) (node_world (Some 3)) 10 0 None (to_val b)) = true /\
  is_ok (call_dataclass (fun _ _ => false) (node_world (Some 2)) 10 0 None (to_val a)) = false /\
  is_ok (call_dataclass (fun _ _ => false) (node_world (Some 2)) 10 0 None (to_val b)) = false.
Proof. vm_compute. repeat split. Qed.

(* non-vacuity for the mapping and optional families: a well-formed tree of height 3 / a chain of length 3 *)
Example C18_dict_nonvacuous :
  let a := DNode 1 [("x", DNode 2 [("", DNode 3 [])]); ("y", DNode 4 [])] in
  wf_dtree a /\
  is_ok (call_dataclass (fun _ _ => false) (dnode_world (Some 3)) 10 0 None (to_val_d a)) = true /\
  is_ok (call_dataclass (fun _ _ => false) (dnode_world (Some 2)) 10 0 None (to_val_d a)) = false.
Proof. split; [|vm_compute; split; reflexivity].
  cbn. repeat split; repeat constructor; cbn; intuition congruence. Qed.
Example C18_optional_nonvacuous :
  let c := CNext 1 (CNext 2 (CEnd 3)) in
  is_ok (call_dataclass (fun _ _ => false) (onode_world (Some 3)) 10 0 None (to_val_c c)) = true /\
  is_ok (call_dataclass (fun _ _ => false) (onode_world (Some 2)) 10 0 None (to_val_c c)) = false.
Proof. vm_compute. split; reflexivity. Qed.
Example C18_union_nonvacuous :
  let c := UNext 1 (UNext 2 (UInt 3 7)) in
  is_ok (call_dataclass (fun _ _ => false) (unode_world (Some 3)) 10 0 None (to_val_u c)) = true /\
  is_ok (call_dataclass (fun _ _ => false) (unode_world (Some 2)) 10 0 None (to_val_u c)) = false.
Proof. vm_compute. split; reflexivity. Qed.
