(* Props/C18.v — The depth limit is exact (and parse cost stays bounded: see the known finding).
   Statements only; proofs in Proofs/DepthProofs.v. *)
From UV Require Import Parse DepthSpec DepthProofs.
Open Scope string_scope.
Open Scope list_scope.
Open Scope Z_scope.

(* `class Node(Schema): __options__ = Options(max_depth=d); v: int; link: List['Node']`.
   For EVERY tree-shaped input (any branching, any size, the deep branch at any list index) and
   every limit d >= 1: the input is accepted, and converted to the corresponding instances,
   exactly when its data-class nesting depth is at most d; otherwise a ParseError is raised.
   No bound on the tree; fuel only has to exceed twice the height (so OutOfFuel is excluded). *)
Theorem C18_list_exact :
  forall re d t fuel, 1 <= d -> (2 * height t <= fuel)%nat ->
  (Z.of_nat (height t) <= d ->
     call_dataclass re (node_world (Some d)) fuel 0 None (to_val t) = Ok (inst t)) /\
  (d < Z.of_nat (height t) ->
     raises_parse (call_dataclass re (node_world (Some d)) fuel 0 None (to_val t))).
Proof. exact node_call. Qed.

(* the same at any nesting level k of an enclosing parse: levels add up *)
Theorem C18_levels_add_up :
  forall re d, 1 <= d -> forall t n k caller,
  (2 * height t <= n)%nat -> o_override caller = false ->
  (k + Z.of_nat (height t) <= d ->
     init_dataclass (transform re (node_world (Some d)) n) 0 (node_decl (Some d)) caller k (to_val t) = Ok (inst t)) /\
  (d < k + Z.of_nat (height t) ->
     raises_parse (init_dataclass (transform re (node_world (Some d)) n) 0 (node_decl (Some d)) caller k (to_val t))).
Proof. exact node_parse. Qed.

(* cyclic inputs: every unfolding deeper than d is rejected *)
Corollary C18_deep_unfoldings_rejected :
  forall re d t fuel, 1 <= d -> (2 * height t <= fuel)%nat -> d < Z.of_nat (height t) ->
  raises_parse (call_dataclass re (node_world (Some d)) fuel 0 None (to_val t)).
Proof. intros re d t fuel Hd Hf Hgt. exact (proj2 (node_call re d t fuel Hd Hf) Hgt). Qed.

(* non-vacuity: a tree of height 3 whose deep branch sits at index 0, and one where it sits at index 1 *)
Example C18_position_independent :
  let a := Node 1 [Node 2 [Node 3 []]; Node 4 []] in
  let b := Node 1 [Node 4 []; Node 2 [Node 3 []]] in
  is_ok (call_dataclass (fun _ _ => false) (node_world (Some 3)) 10 0 None (to_val a)) = true /\
  is_ok (call_dataclass (fun _ _ => false) (node_world (Some 3)) 10 0 None (to_val b)) = true /\
  is_ok (call_dataclass (fun _ _ => false) (node_world (Some 2)) 10 0 None (to_val a)) = false /\
  is_ok (call_dataclass (fun _ _ => false) (node_world (Some 2)) 10 0 None (to_val b)) = false.
Proof. vm_compute. repeat split. Qed.
