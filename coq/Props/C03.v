(* Props/C03.v — Parsing is idempotent; lax constraints converge in one step.
   Statements only; proofs in Proofs/LaxProofs.v and Proofs/IdemProofs.v. *)
From UV Require Import Parse ConstraintSpec ConstraintProofs LaxProofs Stable IdemProofs.
Open Scope string_scope.
Open Scope list_scope.
Open Scope Z_scope.

(* lax bounds: fixed point after one step, for every value and bound *)
Theorem C03_lax_ge_idem : forall v b w, c_lax_ge v b = Ok w -> c_lax_ge w b = Ok w.
Proof. exact c_lax_ge_idem. Qed.
Theorem C03_lax_le_idem : forall v b w, c_lax_le v b = Ok w -> c_lax_le w b = Ok w.
Proof. exact c_lax_le_idem. Qed.
(* ... and the output satisfies the strict form wherever < is a total order (int, finite Decimal,
   str, and mixed int/Decimal): exactly the domains on which NaN cannot occur *)
Theorem C03_lax_ge_strict : forall v b w, ordered v b -> c_lax_ge v b = Ok w -> c_ge w b = Ok w.
Proof. exact c_lax_ge_strict. Qed.
Theorem C03_lax_le_strict : forall v b w, ordered v b -> c_lax_le v b = Ok w -> c_le w b = Ok w.
Proof. exact c_lax_le_strict. Qed.
Theorem C03_exact_domains_ordered :
  (forall a b, ordered (PInt a) (PInt b)) /\ (forall a b, ordered (PStr a) (PStr b)) /\
  (forall s c e s' c' e', ordered (PDec (DFin s c e)) (PDec (DFin s' c' e'))) /\
  (forall s c e z, ordered (PDec (DFin s c e)) (PInt z)).
Proof. exact (conj ordered_int (conj ordered_str (conj ordered_dec_fin ordered_dec_int))). Qed.

Theorem C03_lax_const : forall v b w, c_lax_const v b = Ok w ->
  c_lax_const w b = Ok w /\ (py_eq b b = true -> c_const w b = Ok w).
Proof. intros v b w H. split; [exact (c_lax_const_idem v b w H)|intros Hb; exact (c_lax_const_strict v b w Hb H)]. Qed.

Theorem C03_lax_multiple_of_int : forall z k w,
  c_lax_multiple_of (PInt z) (PInt k) = Ok w ->
  c_multiple_of w (PInt k) = Ok w /\ c_lax_multiple_of w (PInt k) = Ok w.
Proof. exact c_lax_multiple_of_int. Qed.

(* sized values (str, bytes, list, tuple ...): truncation reaches the limit exactly *)
Theorem C03_lax_max_length : forall v n w,
  0 <= n -> has_len v = true -> c_lax_max_length v (PInt n) = Ok w ->
  c_max_length w (PInt n) = Ok w /\ c_lax_max_length w (PInt n) = Ok w.
Proof. exact c_lax_max_length_fix. Qed.
Theorem C03_lax_length : forall v n w,
  0 <= n -> has_len v = true -> c_lax_length v (PInt n) = Ok w ->
  c_length w (PInt n) = Ok w /\ c_lax_length w (PInt n) = Ok w.
Proof. exact c_lax_length_fix. Qed.

Theorem C03_lax_unique_items_list : forall xs w,
  c_lax_unique_items (PList xs) (PBool true) = Ok w ->
  w = PList (dedupe_from [] xs) /\
  c_unique_items w (PBool true) = Ok w /\ c_lax_unique_items w (PBool true) = Ok w.
Proof. exact c_lax_unique_items_list. Qed.
Theorem C03_lax_unique_items_tuple : forall xs w,
  c_lax_unique_items (PTuple xs) (PBool true) = Ok w ->
  w = PTuple (dedupe_from [] xs) /\
  c_unique_items w (PBool true) = Ok w /\ c_lax_unique_items w (PBool true) = Ok w.
Proof. exact c_lax_unique_items_tuple. Qed.

(* rounding to r places is idempotent (up to the 28-digit context precision the model does not follow) *)
Theorem C03_lax_decimal_places_idem : forall d r d',
  dec_round d r = Ok d' -> dec_round d' r = Ok d' \/ dec_round d' r = Unmodelled.
Proof. exact dec_round_idem. Qed.

(* REFUTED half for max_digits: a rounding carry adds a digit, so the lax output does not satisfy
   the strict constraint (Decimal('99.95'), 3 digits -> Decimal('100.0')): known finding C03-carry *)
Theorem C03_lax_max_digits_strict_refuted :
  exists v w, c_lax_max_digits v (PInt 3) = Ok w /\ c_max_digits w (PInt 3) <> Ok w.
Proof. exact c_lax_max_digits_carry. Qed.

(* ---------------- re-parsing a result (whole types) ----------------
   Spec/Stable.v: `stable t` — builtin classes, data classes, unions (| and ^) of builtin classes and data
   classes, negations, constrained scalars and Optional-style rules over a stable origin, homogeneous
   sequences (list / set / frozenset / variable-length tuple) of stable element types, fixed-length
   tuples Tuple[T1, ..., Tn] and mappings Dict[K, V] of stable types, all with checking (non-lax) constraints and,
   on the containers, `contains` of any type (it only counts the accepting elements);
   `throwing o` — the default 'throw' policies.  Nothing is assumed about the result w: that it has the declared
   classes position by position (`typed`: converted scalars — int(...) returns an int proper —, elements, the results
   of the three union stages and of the ^ loop, rebuilt containers) is derived from the first parse
   (C03_results_are_typed). *)

(* through type_transform(value, T, options), the entry the idempotence oracle drives on the implementation *)
Theorem C03_reparse_returns_the_result :
  forall re D fuel o t v w, throwing o -> stable t = true ->
  type_transform re D fuel o t v = Ok w ->
  type_transform re D fuel o t w = Ok w.
Proof. exact type_transform_reparse. Qed.

(* through T(value) for a constrained or logical type *)
Theorem C03_reparse_call :
  forall re D fuel o t v w, throwing o -> stable t = true ->
  call_type re D fuel o t v = Ok w -> call_type re D fuel o t w = Ok w.
Proof. exact call_type_reparse. Qed.

(* at any nesting level, from any state of the enclosing context that carries no error: the second parse also
   leaves the context as it found it *)
Theorem C03_reparse_nested :
  forall re D fuel o depth t v s s' w, throwing o -> stable t = true ->
  transform re D fuel o depth t v s = (s', Ok w) ->
  forall s2, clean s2 -> transform re D fuel o depth t w s2 = (s2, Ok w).
Proof. exact transform_reparse. Qed.

(* what the first parse returns has the declared classes position by position *)
Theorem C03_results_are_typed :
  forall re D fuel o depth t v s s' w, throwing o -> stable t = true ->
  transform re D fuel o depth t v s = (s', Ok w) -> typed t w = true.
Proof. intros re D fuel o depth t v s s' w Ho Hst H. exact (proj1 (transform_typed re D fuel o depth t v s s' w Ho Hst H)). Qed.

(* non-vacuity: Set[int] with a length constraint, from strings with a duplicate; Optional[int] *)
Definition set_of_int : ty := TRule (Some (TPrim TSet)) [TPrim TInt] false [("max_length", PInt 3, false)] None None None.
Example C03_reparse_nonvacuous :
  let w := PSet [PInt 1; PInt 2] in
  stable set_of_int = true /\ throwing default_options /\
  type_transform (fun _ _ => false) (fun _ => None) 5 default_options set_of_int (PList [PStr "1"; PInt 2; PStr "1"]) = Ok w /\
  type_transform (fun _ _ => false) (fun _ => None) 5 default_options set_of_int w = Ok w.
Proof. repeat split; vm_compute; reflexivity. Qed.
(* int([True]) is the int 1 (it used to be the bool True, which re-parsed to the equal but different 1) *)
Example C03_int_of_bool_sequence_is_int :
  type_transform (fun _ _ => false) (fun _ => None) 5 default_options (TPrim TInt) (PList [PBool true]) = Ok (PInt 1) /\
  type_transform (fun _ _ => false) (fun _ => None) 5 default_options (TPrim TInt) (PInt 1) = Ok (PInt 1).
Proof. repeat split; vm_compute; reflexivity. Qed.

(* a mapping whose keys collide after conversion ("1" and 1): the later value wins at the first position,
   and the result is returned unchanged by a second parse *)
Definition dict_int_str : ty := TRule (Some (TPrim TDict)) [TPrim TInt; TPrim TStr] false [] None None None.
Example C03_reparse_mapping_nonvacuous :
  let w := PDict [(PInt 1, PStr "b"); (PInt 2, PStr "3")] in
  stable dict_int_str = true /\
  type_transform (fun _ _ => false) (fun _ => None) 5 default_options dict_int_str
     (PDict [(PStr "1", PStr "a"); (PInt 2, PInt 3); (PInt 1, PStr "b")]) = Ok w /\
  type_transform (fun _ _ => false) (fun _ => None) 5 default_options dict_int_str w = Ok w.
Proof. repeat split; vm_compute; reflexivity. Qed.

(* a fixed-length tuple: every position converted by its own type, the result returned unchanged by a second parse *)
Definition tuple_int_str : ty := TRule (Some (TPrim TTuple)) [TPrim TInt; TPrim TStr] false [] None None None.
Example C03_reparse_tuple_nonvacuous :
  let w := PTuple [PInt 1; PStr "2"] in
  stable tuple_int_str = true /\
  type_transform (fun _ _ => false) (fun _ => None) 5 default_options tuple_int_str (PList [PStr "1"; PInt 2]) = Ok w /\
  type_transform (fun _ _ => false) (fun _ => None) 5 default_options tuple_int_str w = Ok w.
Proof. repeat split; vm_compute; reflexivity. Qed.

(* a list with a `contains` constraint (at least one element >= 3) *)
Definition list_contains : ty :=
  TRule (Some (TPrim TList)) [TPrim TInt] false []
        (Some (TRule (Some (TPrim TInt)) [] false [("ge", PInt 3, false)] None None None)) (Some 1) None.
Example C03_reparse_contains_nonvacuous :
  let w := PList [PInt 1; PInt 5] in
  stable list_contains = true /\
  type_transform (fun _ _ => false) (fun _ => None) 6 default_options list_contains (PList [PStr "1"; PInt 5]) = Ok w /\
  type_transform (fun _ _ => false) (fun _ => None) 6 default_options list_contains w = Ok w /\
  is_ok (type_transform (fun _ _ => false) (fun _ => None) 6 default_options list_contains (PList [PInt 1; PInt 2])) = false.
Proof. repeat split; vm_compute; reflexivity. Qed.
