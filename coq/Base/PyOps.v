(* Base/PyOps.v — value-level wrappers of the Python primitives, in the shape the translator
   (tools/py2coq.py) emits calls to.  Trusted description of CPython, validated by execution. *)
From UV Require Export PyVal PyPrim.
Open Scope string_scope.
Open Scope list_scope.
Open Scope Z_scope.

Definition is_none (v : pyval) : bool := match v with PNone => true | _ => false end.
Definition is_bool (v : pyval) : bool := match v with PBool _ => true | _ => false end.
Definition is_dict (v : pyval) : bool := is_dictlike v.
Definition is_list (v : pyval) : bool := match v with PList _ => true | _ => false end.
Definition is_class (v : pyval) : bool := match v with PCls _ => true | _ => false end.
(* enum classes are not part of the value universe of the validators' arguments: an enum
   constraint given as an Enum class is Unmodelled (see enum_call) *)
Definition is_enum_cls (v : pyval) : bool := match v with PCls _ => true | _ => false end.
Definition is_enum_member (v : pyval) : bool := match v with PEnumV _ _ => true | _ => false end.
Definition is_unprovided (v : pyval) : bool := false.
Definition is_callable (v : pyval) : bool := match v with PCls _ => true | _ => false end.

Definition enum_value (v : pyval) : out pyval :=
  match v with PEnumV _ _ => Unmodelled | PCls _ | PObj _ => Unmodelled | _ => Raise (other_err XAttributeError) end.
Definition enum_call (c v : pyval) : out pyval := Unmodelled.

Definition kind_pair_in (a b : kind) (tab : list (kind * kind)) : bool :=
  existsb (fun '(x, y) => (kind_eqb a x && kind_eqb b y) || (kind_eqb a y && kind_eqb b x)) tab.

Definition py_str_v (v : pyval) : out pyval := let* s := py_str v in Ok (PStr s).
Definition py_len_v (v : pyval) : out pyval := let* n := py_len v in Ok (PInt n).

Definition py_decimal (v : pyval) : out pyval :=
  match v with
  | PDec d => Ok v
  | PInt z => Ok (PDec (dec_of_int z))
  | PBool b => Ok (PDec (dec_of_int (if b then 1 else 0)))
  | PFlt f => match f with
              | FFin 0 _ => Ok (PDec (DFin false 0 0))
              | _ => Ok (PDec (dec_of_flt f)) end
  | PStr s => let* r := dec_of_string s in
              match r with Some d => Ok (PDec d) | None => Raise (other_err XArith) end
  | PTuple _ | PList _ => Unmodelled
  | _ => raise_type
  end.

Definition py_abs (v : pyval) : out pyval :=
  match v with
  | PInt z => Ok (PInt (Z.abs z))
  | PBool b => Ok (PInt (if b then 1 else 0))
  | PFlt (FFin m e) => Ok (PFlt (FFin (Z.abs m) e))
  | PFlt (FInf _) => Ok (PFlt (FInf false))
  | PFlt FNan => Ok v
  | PDec (DFin _ c e) => Ok (PDec (DFin false c e))
  | PDec (DInf _) => Ok (PDec (DInf false))
  | PDec DNan => Ok v
  | _ => raise_type
  end.

(* max(a, b) / min(a, b) with two arguments: the first argument wins ties *)
Definition py_max2 (a b : pyval) : out pyval := let* g := py_gt b a in Ok (if g then b else a).
Definition py_min2 (a b : pyval) : out pyval := let* l := py_lt b a in Ok (if l then b else a).

Definition py_neg (v : pyval) : out pyval :=
  match v with
  | PInt z => Ok (PInt (- z))
  | PBool b => Ok (PInt (if b then -1 else 0))
  | _ => Unmodelled
  end.

Definition py_add (a b : pyval) : out pyval :=
  match as_intlike a, as_intlike b with
  | Some x, Some y => Ok (PInt (x + y))
  | _, _ => match a, b with
            | PStr x, PStr y => Ok (PStr (x +s+ y))
            | PList x, PList y => Ok (PList (x ++ y))
            | _, _ => if is_number a && is_number b then Unmodelled else raise_type
            end
  end.
Definition py_sub (a b : pyval) : out pyval :=
  match as_intlike a, as_intlike b with
  | Some x, Some y => Ok (PInt (x - y))
  | _, _ => if is_number a && is_number b then Unmodelled else raise_type
  end.

Fixpoint chars_of (s : string) : list pyval :=
  match s with EmptyString => [] | String c r => PStr (String c EmptyString) :: chars_of r end.

Definition py_iter (v : pyval) : out (list pyval) :=
  match v with
  | PList xs | PTuple xs | PSet xs | PFrozen xs => Ok xs
  | PDict kvs => Ok (map fst kvs)
  | PInst _ kvs => Ok (map (fun kv => PStr (fst kv)) kvs)
  | PStr s => Ok (chars_of s)
  | PBytes _ => Unmodelled
  | _ => raise_type
  end.
(* list(x): the iteration order of a set with several elements is hash order: Unmodelled *)
Definition py_list (v : pyval) : out pyval :=
  match v with
  | PSet (_ :: _ :: _) | PFrozen (_ :: _ :: _) => Unmodelled
  | _ => let* xs := py_iter v in Ok (PList xs)
  end.

Definition py_contains (container x : pyval) : out bool :=
  match container with
  | PList xs | PTuple xs | PSet xs | PFrozen xs => Ok (py_in x xs)
  | PDict kvs => Ok (py_in x (map fst kvs))
  | PInst _ kvs => Ok (py_in x (map (fun kv => PStr (fst kv)) kvs))
  | PStr _ => match x with PStr _ => Unmodelled | _ => raise_type end
  | PBytes _ => Unmodelled
  | _ => raise_type
  end.

Definition py_append (l x : pyval) : out pyval :=
  match l with PList xs => Ok (PList (xs ++ [x])) | _ => Raise (other_err XAttributeError) end.

Definition py_index (v i : pyval) : out pyval :=
  match v with
  | PList xs | PTuple xs =>
      match as_intlike i with
      | Some z =>
          let n := llen xs in
          let j := if z <? 0 then z + n else z in
          if (j <? 0) || (n <=? j) then Raise (other_err XIndexError)
          else match nth_error xs (Z.to_nat j) with Some x => Ok x | None => Raise (other_err XIndexError) end
      | None => raise_type
      end
  | PDict kvs =>
      match find (fun kv => py_eq (fst kv) i) kvs with
      | Some kv => Ok (snd kv)
      | None => Raise (other_err XKeyError)
      end
  | PStr _ | PBytes _ => Unmodelled
  | _ => raise_type
  end.

Definition py_slice_to_v (v n : pyval) : out pyval :=
  match as_intlike n with
  | Some z => py_slice_to v z
  | None => match n with PNone => Ok v | _ => raise_type end
  end.

Definition rebuild_like_v (v lst : pyval) : out pyval :=
  let* xs := py_iter lst in rebuild_like v xs.

(* digits of the coefficient, most significant first *)
Fixpoint digits_fuel (f : nat) (n : N) (acc : list pyval) : list pyval :=
  match f with
  | O => PInt (Z.of_N n) :: acc
  | S f' => if (n <? 10)%N then PInt (Z.of_N n) :: acc
            else digits_fuel f' (n / 10)%N (PInt (Z.of_N (n mod 10)%N) :: acc)
  end.
Definition digits_list (n : N) : list pyval := digits_fuel (N.size_nat n) n [].

(* Decimal.as_tuple()[1:] = (digits, exponent) *)
Definition dec_tuple_tail (v : pyval) : out pyval :=
  match v with
  | PDec (DFin _ c e) => Ok (PTuple [PTuple (digits_list c); PInt e])
  | PDec (DInf _) => Ok (PTuple [PTuple [PInt 0]; PStr "F"])
  | PDec DNan => Ok (PTuple [PTuple []; PStr "n"])
  | _ => Raise (other_err XAttributeError)
  end.

Definition unpack2 (v : pyval) : out (pyval * pyval) :=
  match v with
  | PTuple [a; b] | PList [a; b] => Ok (a, b)
  | PTuple _ | PList _ => raise_value
  | _ => Unmodelled
  end.

(* re.fullmatch(r, s): truthy match object or None; the engine itself is a parameter *)
Definition re_fullmatch_v (re_fullmatch : string -> string -> bool) (r s : pyval) : out pyval :=
  match r, s with
  | PStr p, PStr t => Ok (PBool (re_fullmatch p t))
  | _, _ => raise_type
  end.
