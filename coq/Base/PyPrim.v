(* Base/PyPrim.v — CPython's own semantics for the operators and builtins that utype's
   code applies to values.  This is a *description* of Python (trusted, validated by the
   `prims` correspondence suite), not of utype. *)
From UV Require Export PyVal.
From Coq Require Import DecimalString Lia.
Open Scope string_scope.
Open Scope list_scope.
Open Scope Z_scope.

(* ---------- classes of values ---------- *)
Inductive kind :=
| KNone | KBool | KInt | KFloat | KDecimal | KStr | KBytes | KList | KTuple | KSet | KFrozen
| KDict | KInstance (c : nat) | KEnum (e : nat) | KClass | KObject (t : nat).

Definition kind_of (v : pyval) : kind :=
  match v with
  | PNone => KNone | PBool _ => KBool | PInt _ => KInt | PFlt _ => KFloat | PDec _ => KDecimal
  | PStr _ => KStr | PBytes _ => KBytes | PList _ => KList | PTuple _ => KTuple
  | PSet _ => KSet | PFrozen _ => KFrozen | PDict _ => KDict | PInst c _ => KInstance c
  | PEnumV e _ => KEnum e | PCls _ => KClass | PObj t => KObject t
  end.
Definition kind_eqb (a b : kind) : bool :=
  match a, b with
  | KNone, KNone | KBool, KBool | KInt, KInt | KFloat, KFloat | KDecimal, KDecimal
  | KStr, KStr | KBytes, KBytes | KList, KList | KTuple, KTuple | KSet, KSet
  | KFrozen, KFrozen | KDict, KDict | KClass, KClass => true
  | KInstance c, KInstance c' => Nat.eqb c c'
  | KEnum c, KEnum c' => Nat.eqb c c'
  | KObject c, KObject c' => Nat.eqb c c'
  | _, _ => false
  end.

(* builtin class tests: isinstance(v, int) is true of bools; a Schema instance is a dict *)
Definition is_int (v : pyval) : bool := match v with PInt _ | PBool _ => true | _ => false end.
Definition is_float (v : pyval) : bool := match v with PFlt _ => true | _ => false end.
Definition is_decimal (v : pyval) : bool := match v with PDec _ => true | _ => false end.
Definition is_str (v : pyval) : bool := match v with PStr _ => true | _ => false end.
Definition is_bytes (v : pyval) : bool := match v with PBytes _ => true | _ => false end.
Definition is_number (v : pyval) : bool := is_int v || is_float v || is_decimal v.
(* functional.multi: list, set, frozenset, tuple (dict views are not in the universe) *)
Definition multi (v : pyval) : bool :=
  match v with PList _ | PTuple _ | PSet _ | PFrozen _ => true | _ => false end.
Definition is_dictlike (v : pyval) : bool :=
  match v with PDict _ | PInst _ _ => true | _ => false end.

Definition items_of (v : pyval) : option (list pyval) :=
  match v with
  | PList xs | PTuple xs | PSet xs | PFrozen xs => Some xs
  | _ => None
  end.

(* ---------- exact numeric value: n * 2^e2 * 10^e10 ---------- *)
Inductive numv :=
| NFin (n e2 e10 : Z) | NInf (neg : bool) | NNanF | NNanD.

Definition num_of (v : pyval) : option numv :=
  match v with
  | PBool b => Some (NFin (if b then 1 else 0) 0 0)
  | PInt z => Some (NFin z 0 0)
  | PFlt FNan => Some NNanF
  | PFlt (FInf s) => Some (NInf s)
  | PFlt (FFin m e) => Some (NFin m e 0)
  | PDec DNan => Some NNanD
  | PDec (DInf s) => Some (NInf s)
  | PDec (DFin s c e) => Some (NFin (if s then - Z.of_N c else Z.of_N c) 0 e)
  | _ => None
  end.

(* compare two finite values exactly: both are scaled to the smaller exponents *)
Definition fin_cmp (n e2 e10 n' e2' e10' : Z) : comparison :=
  let m2 := Z.min e2 e2' in
  let m10 := Z.min e10 e10' in
  Z.compare (n * 2 ^ (e2 - m2) * 10 ^ (e10 - m10)) (n' * 2 ^ (e2' - m2) * 10 ^ (e10' - m10)).

(* None = unordered (a nan is involved) *)
Definition num_cmp (a b : numv) : option comparison :=
  match a, b with
  | NNanF, _ | _, NNanF | NNanD, _ | _, NNanD => None
  | NInf s, NInf s' => Some (if Bool.eqb s s' then Eq else if s then Lt else Gt)
  | NInf s, NFin _ _ _ => Some (if s then Lt else Gt)
  | NFin _ _ _, NInf s => Some (if s then Gt else Lt)
  | NFin n e2 e10, NFin n' e2' e10' => Some (fin_cmp n e2 e10 n' e2' e10')
  end.
Definition has_dnan (a b : numv) : bool :=
  match a, b with NNanD, _ | _, NNanD => true | _, _ => false end.

Definition is_fnan (a : numv) : bool := match a with NNanF => true | _ => false end.

Definition num_is_zero (a : numv) : bool :=
  match a with NFin n _ _ => n =? 0 | _ => false end.

(* ---------- truthiness, len ---------- *)
Definition slen (s : string) : Z := Z.of_nat (String.length s).
Definition llen {A} (l : list A) : Z := Z.of_nat (List.length l).

Definition truthy (v : pyval) : bool :=
  match v with
  | PNone => false
  | PBool b => b
  | PStr s | PBytes s => negb (String.eqb s "")
  | PList xs | PTuple xs | PSet xs | PFrozen xs => match xs with [] => false | _ => true end
  | PDict kvs => match kvs with [] => false | _ => true end
  | PInst _ kvs => match kvs with [] => false | _ => true end
  | PEnumV _ _ | PCls _ | PObj _ => true
  | _ => match num_of v with Some a => negb (num_is_zero a) | None => true end
  end.

Definition has_len (v : pyval) : bool :=
  match v with
  | PStr _ | PBytes _ | PList _ | PTuple _ | PSet _ | PFrozen _ | PDict _ | PInst _ _ => true
  | _ => false
  end.
Definition py_len (v : pyval) : out Z :=
  match v with
  | PStr s | PBytes s => Ok (slen s)
  | PList xs | PTuple xs | PSet xs | PFrozen xs => Ok (llen xs)
  | PDict kvs => Ok (llen kvs)
  | PInst _ kvs => Ok (llen kvs)
  | _ => raise_type
  end.

(* ---------- ==, <, <= ---------- *)
(* string order = code point order *)
Definition str_cmp (a b : string) : comparison := String.compare a b.

Fixpoint py_eq (a b : pyval) {struct a} : bool :=
  let fix lst (xs ys : list pyval) {struct xs} : bool :=
    match xs, ys with
    | [], [] => true
    | x :: xr, y :: yr => py_eq x y && lst xr yr
    | _, _ => false
    end in
  (* every element of xs is == to some element of ys *)
  let fix sub (xs ys : list pyval) {struct xs} : bool :=
    match xs with
    | [] => true
    | x :: xr =>
        (fix mem (l : list pyval) : bool :=
           match l with [] => false | y :: yr => py_eq x y || mem yr end) ys && sub xr ys
    end in
  let fix dsub (xs ys : list (pyval * pyval)) {struct xs} : bool :=
    match xs with
    | [] => true
    | (k, v) :: xr =>
        (fix mem (l : list (pyval * pyval)) : bool :=
           match l with [] => false | (k', v') :: yr => (py_eq k k' && py_eq v v') || mem yr end) ys
        && dsub xr ys
    end in
  let fix isub (xs : list (string * pyval)) (ys : list (string * pyval)) {struct xs} : bool :=
    match xs with
    | [] => true
    | (k, v) :: xr =>
        (fix mem (l : list (string * pyval)) : bool :=
           match l with [] => false | (k', v') :: yr => (String.eqb k k' && py_eq v v') || mem yr end) ys
        && isub xr ys
    end in
  let fix idsub (xs : list (string * pyval)) (ys : list (pyval * pyval)) {struct xs} : bool :=
    match xs with
    | [] => true
    | (k, v) :: xr =>
        (fix mem (l : list (pyval * pyval)) : bool :=
           match l with
           | [] => false
           | (PStr k', v') :: yr => (String.eqb k k' && py_eq v v') || mem yr
           | _ :: yr => mem yr
           end) ys
        && idsub xr ys
    end in
  match num_of a, num_of b with
  | Some na, Some nb => match num_cmp na nb with Some Eq => true | _ => false end
  | _, _ =>
    match a, b with
    | PNone, PNone => true
    | PStr x, PStr y => String.eqb x y
    | PBytes x, PBytes y => String.eqb x y
    | PList x, PList y => lst x y
    | PTuple x, PTuple y => lst x y
    | PSet x, PSet y | PSet x, PFrozen y | PFrozen x, PSet y | PFrozen x, PFrozen y =>
        Nat.eqb (List.length x) (List.length y) && sub x y
    | PDict x, PDict y => Nat.eqb (List.length x) (List.length y) && dsub x y
    | PInst _ x, PInst _ y => Nat.eqb (List.length x) (List.length y) && isub x y
    | PInst _ x, PDict y => Nat.eqb (List.length x) (List.length y) && idsub x y
    | PEnumV e i, PEnumV e' i' => Nat.eqb e e' && Nat.eqb i i'
    | PCls c, PCls c' => Nat.eqb c c'
    | PObj t, PObj t' => Nat.eqb t t'
    | _, _ => false
    end
  end.

Definition py_in (x : pyval) (xs : list pyval) : bool := existsb (fun y => py_eq y x) xs.

(* ordering: numbers among themselves, str with str; everything else is a TypeError
   (lists/tuples are ordered too in Python: Unmodelled here) *)
Definition py_cmp (a b : pyval) : out (option comparison) :=
  match num_of a, num_of b with
  | Some na, Some nb =>
      (* ordering against a Decimal NaN, or a float NaN against any Decimal, signals InvalidOperation *)
      if has_dnan na nb || (is_fnan na && is_decimal b) || (is_fnan nb && is_decimal a)
      then Raise (other_err XArith) else Ok (num_cmp na nb)
  | _, _ =>
    match a, b with
    | PStr x, PStr y => Ok (Some (str_cmp x y))
    | PBytes x, PBytes y => Ok (Some (str_cmp x y))
    | PList _, PList _ | PTuple _, PTuple _ | PSet _, PSet _ | PSet _, PFrozen _
    | PFrozen _, PSet _ | PFrozen _, PFrozen _ => Unmodelled
    | _, _ => raise_type
    end
  end.
Definition py_lt (a b : pyval) : out bool :=
  let* c := py_cmp a b in Ok (match c with Some Lt => true | _ => false end).
Definition py_le (a b : pyval) : out bool :=
  let* c := py_cmp a b in Ok (match c with Some Lt | Some Eq => true | _ => false end).
Definition py_gt (a b : pyval) : out bool :=
  let* c := py_cmp a b in Ok (match c with Some Gt => true | _ => false end).
Definition py_ge (a b : pyval) : out bool :=
  let* c := py_cmp a b in Ok (match c with Some Gt | Some Eq => true | _ => false end).

(* ---------- decimal digits ---------- *)
Fixpoint ndigits_fuel (f : nat) (n : N) : Z :=
  match f with
  | O => 1
  | S f' => if (n <? 10)%N then 1 else 1 + ndigits_fuel f' (n / 10)%N
  end.
(* number of decimal digits of the coefficient; 0 has one digit, as in Decimal.as_tuple *)
Definition ndigits (n : N) : Z := ndigits_fuel (N.size_nat n) n.

(* ---------- str() ---------- *)
Infix "+s+" := String.append (at level 60, right associativity).
Definition z_to_string (z : Z) : string := NilZero.string_of_int (Z.to_int z).
Definition n_to_string (n : N) : string := NilZero.string_of_uint (N.to_uint n).

Fixpoint zeros (k : nat) : string := match k with O => EmptyString | S k' => String "0" (zeros k') end.
Definition str_take (k : nat) (s : string) : string := String.substring 0 k s.
Definition str_drop (k : nat) (s : string) : string := String.substring k (String.length s - k) s.

(* Decimal.__str__ (the `to-scientific-string` rule of the specification) *)
Definition dec_to_string (d : dec) : string :=
  match d with
  | DNan => "NaN"
  | DInf s => if s then "-Infinity" else "Infinity"
  | DFin s c e =>
      let digs := n_to_string c in
      let nd := Z.of_nat (String.length digs) in
      let sign := (if s then "-" else "")%string in
      let leftdigits := e + nd in
      let body :=
        if (e <=? 0) && (-6 <? leftdigits) then
          (* plain notation *)
          if e =? 0 then digs
          else if 0 <? leftdigits then
            str_take (Z.to_nat leftdigits) digs +s+ "." +s+ str_drop (Z.to_nat leftdigits) digs
          else "0." +s+ zeros (Z.to_nat (- leftdigits)) +s+ digs
        else
          (* scientific: one digit before the point *)
          let expn := leftdigits - 1 in
          let mant := if nd =? 1 then digs else str_take 1 digs +s+ "." +s+ str_drop 1 digs in
          mant +s+ "E" +s+ (if 0 <=? expn then "+" else "") +s+ z_to_string expn
      in sign +s+ body
  end.

(* str(float) needs shortest round-trip printing: modelled only for inf/nan and for
   integer-valued floats below 10^16 ("12.0") *)
Definition flt_to_string (f : flt) : out string :=
  match f with
  | FNan => Ok "nan"
  | FInf s => Ok (if s then "-inf" else "inf")
  | FFin m e =>
      if 0 <=? e then
        let z := m * 2 ^ e in
        if Z.abs z <? 10 ^ 16 then Ok (z_to_string z +s+ ".0")%string else Unmodelled
      else Unmodelled
  end.

Definition py_str (v : pyval) : out string :=
  match v with
  | PNone => Ok "None"
  | PBool b => Ok (if b then "True" else "False")
  | PInt z => Ok (z_to_string z)
  | PFlt f => flt_to_string f
  | PDec d => Ok (dec_to_string d)
  | PStr s => Ok s
  | _ => Unmodelled
  end.

(* ---------- parsing numbers from text (decimal.Decimal(str)) ---------- *)
Definition is_digit (c : ascii) : bool :=
  let n := nat_of_ascii c in (48 <=? n)%nat && (n <=? 57)%nat.
Definition digit_val (c : ascii) : N := N.of_nat (nat_of_ascii c - 48).
Definition is_ascii7 (c : ascii) : bool := (nat_of_ascii c <? 128)%nat.
Definition is_space (c : ascii) : bool :=
  let n := nat_of_ascii c in (n =? 32)%nat || ((9 <=? n)%nat && (n <=? 13)%nat).

Fixpoint str_forall (p : ascii -> bool) (s : string) : bool :=
  match s with EmptyString => true | String c r => p c && str_forall p r end.
Fixpoint lstrip (s : string) : string :=
  match s with String c r => if is_space c then lstrip r else s | EmptyString => s end.
Fixpoint str_rev_acc (s acc : string) : string :=
  match s with EmptyString => acc | String c r => str_rev_acc r (String c acc) end.
Definition str_rev (s : string) : string := str_rev_acc s EmptyString.
Definition strip (s : string) : string := str_rev (lstrip (str_rev (lstrip s))).

Definition lower_ascii (c : ascii) : ascii :=
  let n := nat_of_ascii c in
  if (65 <=? n)%nat && (n <=? 90)%nat then ascii_of_nat (n + 32) else c.
Fixpoint str_lower (s : string) : string :=
  match s with EmptyString => EmptyString | String c r => String (lower_ascii c) (str_lower r) end.

(* read a (possibly empty) run of digits: value, count, rest *)
Fixpoint read_digits (s : string) (acc : N) (cnt : Z) : N * Z * string :=
  match s with
  | String c r => if is_digit c then read_digits r (acc * 10 + digit_val c)%N (cnt + 1)
                  else (acc, cnt, s)
  | EmptyString => (acc, cnt, s)
  end.

Definition read_sign (s : string) : bool * string :=
  match s with
  | String "-"%char r => (true, r)
  | String "+"%char r => (false, r)
  | _ => (false, s)
  end.

(* Decimal(text): None = InvalidOperation (a decimal.InvalidOperation, i.e. ArithmeticError).
   Strings with '_' or non-ASCII characters are Unmodelled. *)
Definition dec_of_string (s0 : string) : out (option dec) :=
  if negb (str_forall is_ascii7 s0) then Unmodelled
  else if negb (str_forall (fun c => negb (Ascii.eqb c "_"%char)) s0) then Unmodelled
  else
    let s := strip s0 in
    let '(neg, s1) := read_sign s in
    let low := str_lower s1 in
    if String.eqb low "inf" || String.eqb low "infinity" then Ok (Some (DInf neg))
    else if String.eqb low "nan" then Ok (Some DNan)
    else if String.prefix "nan" low || String.prefix "snan" low then Unmodelled
    else
      let '(ip, icnt, s2) := read_digits s1 0%N 0 in
      let '(coeff, fcnt, s3) :=
        match s2 with
        | String "."%char r => let '(c, n, r') := read_digits r ip 0 in (c, n, r')
        | _ => (ip, 0, s2)
        end in
      if (icnt + fcnt =? 0) then Ok None
      else
        match s3 with
        | EmptyString => Ok (Some (DFin neg coeff (- fcnt)))
        | String c r =>
            if Ascii.eqb c "e"%char || Ascii.eqb c "E"%char then
              let '(eneg, r1) := read_sign r in
              let '(ev, ecnt, r2) := read_digits r1 0%N 0 in
              if (ecnt =? 0) then Ok None
              else match r2 with
                   | EmptyString =>
                       let e := if eneg then - Z.of_N ev else Z.of_N ev in
                       Ok (Some (DFin neg coeff (e - fcnt)))
                   | _ => Ok None
                   end
            else Ok None
        end.

(* ---------- conversions between numeric classes ---------- *)
(* int(Decimal) / int(float): truncation toward zero; None for inf/nan *)
Definition trunc_fin (n e2 e10 : Z) : Z :=
  let num := n * 2 ^ (Z.max e2 0) * 10 ^ (Z.max e10 0) in
  let den := 2 ^ (Z.max (- e2) 0) * 10 ^ (Z.max (- e10) 0) in
  Z.quot num den.

(* Decimal(int), Decimal(float): exact *)
Fixpoint pow5_nat (k : nat) : N := match k with O => 1%N | S k' => (5 * pow5_nat k')%N end.
Definition dec_of_flt (f : flt) : dec :=
  match f with
  | FNan => DNan
  | FInf s => DInf s
  | FFin m e =>
      if 0 <=? e then DFin (m <? 0) (Z.to_N (Z.abs m * 2 ^ e)) 0
      else (* m / 2^k = m * 5^k / 10^k *)
        DFin (m <? 0) (Z.to_N (Z.abs m * 5 ^ (- e))) e
  end.
Definition dec_of_int (z : Z) : dec := DFin (z <? 0) (Z.to_N (Z.abs z)) 0.

(* float(int): exact when |z| < 2^53, otherwise rounding is needed: Unmodelled *)
Fixpoint strip_twos (f : nat) (m e : Z) : Z * Z :=
  match f with
  | O => (m, e)
  | S f' => if (m =? 0) then (0, 0) else if Z.even m then strip_twos f' (m / 2) (e + 1) else (m, e)
  end.
Definition flt_norm (m e : Z) : flt :=
  let '(m', e') := strip_twos (Z.to_nat (Z.log2 (Z.abs m) + 1)) m e in FFin m' e'.
Definition flt_of_int (z : Z) : out flt :=
  if Z.abs z <? 2 ^ 53 then Ok (flt_norm z 0) else Unmodelled.

(* float(Decimal)/float(str): exact when the decimal is a dyadic with < 2^53 mantissa *)
Definition flt_of_dec (d : dec) : out flt :=
  match d with
  | DNan => Ok FNan
  | DInf s => Ok (FInf s)
  | DFin s c e =>
      let z := if s then - Z.of_N c else Z.of_N c in
      if (z =? 0) then (if s then Unmodelled else Ok (FFin 0 0))
      else if 0 <=? e then
        (if e <? 40 then flt_of_int (z * 10 ^ e) else Unmodelled)
      else
        (* z / 10^k with k = -e: representable iff 5^k divides z *)
        let k := - e in
        if 40 <? k then Unmodelled
        else let p5 := 5 ^ k in
             if (z mod p5 =? 0) then
               let q := z / p5 in
               if Z.abs q <? 2 ^ 53 then Ok (flt_norm q (- k)) else Unmodelled
             else Unmodelled
  end.

(* ---------- arithmetic used by the validators ---------- *)
(* round(Decimal, r): quantize to exponent -r, ROUND_HALF_EVEN (context precision 28:
   results needing more digits are Unmodelled) *)
Definition round_half_even (c : N) (p : N) : N :=   (* c / p rounded half-even, p > 0 *)
  let q := (c / p)%N in
  let r := (c mod p)%N in
  match N.compare (2 * r) p with
  | Lt => q
  | Gt => (q + 1)%N
  | Eq => if N.even q then q else (q + 1)%N
  end.
Definition dec_round (d : dec) (r : Z) : out dec :=
  match d with
  | DFin s c e =>
      let target := - r in
      if target <=? e then
        (* pad with zeros *)
        let c' := (c * Z.to_N (10 ^ (e - target)))%N in
        if ndigits c' <=? 28 then Ok (DFin s c' target) else Unmodelled
      else
        let c' := round_half_even c (Z.to_N (10 ^ (target - e))) in
        Ok (DFin s c' target)
  | DNan => Ok DNan
  | DInf _ => Raise (other_err XArith)
  end.

Definition py_round (v r : pyval) : out pyval :=
  match r with
  | PInt rz =>
      match v with
      | PDec d => let* d' := dec_round d rz in Ok (PDec d')
      | PInt z => if 0 <=? rz then Ok (PInt z) else Unmodelled
      | PBool b => if 0 <=? rz then Ok (PInt (if b then 1 else 0)) else Unmodelled
      | PFlt (FFin m e) => if (0 <=? e) && (0 <=? rz) then Ok v else Unmodelled
      | PFlt FNan => Ok v
      | PFlt (FInf _) => Ok v
      | _ => raise_type
      end
  | _ => Unmodelled
  end.

Definition dec_sign_z (s : bool) (c : N) : Z := if s then - Z.of_N c else Z.of_N c.

(* value % of, value // of, a * b on int and Decimal (float arithmetic rounds: Unmodelled).
   Decimal: remainder has the sign of the dividend, // truncates. *)
Definition as_intlike (v : pyval) : option Z :=
  match v with PInt z => Some z | PBool b => Some (if b then 1 else 0) | _ => None end.

Definition dec_align (c : N) (e : Z) (c' : N) (e' : Z) : Z * Z * Z :=
  let m := Z.min e e' in (Z.of_N c * 10 ^ (e - m), Z.of_N c' * 10 ^ (e' - m), m).

Definition py_mod (a b : pyval) : out pyval :=
  match as_intlike a, as_intlike b with
  | Some x, Some y => if y =? 0 then Raise (other_err XArith) else Ok (PInt (x mod y))
  | _, _ =>
    match a, b with
    | PDec (DFin s c e), _ =>
        match (match b with
               | PDec (DFin s' c' e') => Some (s', c', e')
               | _ => match as_intlike b with
                      | Some y => Some (y <? 0, Z.to_N (Z.abs y), 0)
                      | None => None end
               end) with
        | Some (s', c', e') =>
            if (c' =? 0)%N then Raise (other_err XArith)
            else let '(x, y, m) := dec_align c e c' e' in
                 let r := Z.rem x y in
                 if 28 <? ndigits (Z.to_N (Z.quot x y)) then Raise (other_err XArith)
                 else Ok (PDec (DFin s (Z.to_N r) m))
        | None => match b with PFlt _ => raise_type | PDec _ => Unmodelled | _ => raise_type end
        end
    | PDec _, _ => Unmodelled
    | PFlt _, _ => if is_number b then Unmodelled else raise_type
    | _, PFlt _ | _, PDec _ => if is_number a then Unmodelled else raise_type
    | PStr _, _ => Unmodelled   (* printf-style formatting *)
    | _, _ => raise_type
    end
  end.

Definition py_floordiv (a b : pyval) : out pyval :=
  match as_intlike a, as_intlike b with
  | Some x, Some y => if y =? 0 then Raise (other_err XArith) else Ok (PInt (x / y))
  | _, _ =>
    match a, b with
    | PDec (DFin s c e), _ =>
        match (match b with
               | PDec (DFin s' c' e') => Some (s', c', e')
               | _ => match as_intlike b with
                      | Some y => Some (y <? 0, Z.to_N (Z.abs y), 0)
                      | None => None end
               end) with
        | Some (s', c', e') =>
            if (c' =? 0)%N then Raise (other_err XArith)
            else let '(x, y, m) := dec_align c e c' e' in
                 let q := Z.quot x y in
                 if 28 <? ndigits (Z.to_N q) then Raise (other_err XArith)
                 else Ok (PDec (DFin (xorb s s') (Z.to_N q) 0))
        | None => match b with PFlt _ => raise_type | PDec _ => Unmodelled | _ => raise_type end
        end
    | PDec _, _ => Unmodelled
    | PFlt _, _ => if is_number b then Unmodelled else raise_type
    | _, PFlt _ | _, PDec _ => if is_number a then Unmodelled else raise_type
    | _, _ => raise_type
    end
  end.

Definition py_mul (a b : pyval) : out pyval :=
  match as_intlike a, as_intlike b with
  | Some x, Some y => Ok (PInt (x * y))
  | _, _ =>
    match a, b with
    | PDec (DFin s c e), _ =>
        match (match b with
               | PDec (DFin s' c' e') => Some (s', c', e')
               | _ => match as_intlike b with
                      | Some y => Some (y <? 0, Z.to_N (Z.abs y), 0)
                      | None => None end
               end) with
        | Some (s', c', e') =>
            let p := (c * c')%N in
            if 28 <? ndigits p then Unmodelled else Ok (PDec (DFin (xorb s s') p (e + e')))
        | None => match b with PFlt _ => raise_type | PDec _ => Unmodelled | _ => Unmodelled end
        end
    | _, _ => Unmodelled
    end
  end.

Definition py_abs_z (z : Z) : Z := Z.abs z.

(* value[:n] for n >= 0 on str / list / tuple; sets are not subscriptable *)
Definition py_slice_to (v : pyval) (n : Z) : out pyval :=
  if n <? 0 then Unmodelled else
  match v with
  | PStr s => Ok (PStr (str_take (Z.to_nat n) s))
  | PBytes s => Ok (PBytes (str_take (Z.to_nat n) s))
  | PList xs => Ok (PList (firstn (Z.to_nat n) xs))
  | PTuple xs => Ok (PTuple (firstn (Z.to_nat n) xs))
  | _ => raise_type
  end.

(* type(value)(lst) for the array kinds *)
Definition rebuild_like (v : pyval) (xs : list pyval) : out pyval :=
  match v with
  | PList _ => Ok (PList xs)
  | PTuple _ => Ok (PTuple xs)
  | PSet _ => Ok (PSet xs)
  | PFrozen _ => Ok (PFrozen xs)
  | _ => Unmodelled
  end.

(* ---------- comparing model and implementation outcomes ---------- *)
(* structural equality, except that the members of a set are matched up to == and class: which of
   several ==-equal members a Python set keeps depends on hash iteration order *)
Fixpoint val_sim (a b : pyval) {struct a} : bool :=
  let fix lst (xs ys : list pyval) {struct xs} : bool :=
    match xs, ys with
    | [], [] => true
    | x :: xr, y :: yr => val_sim x y && lst xr yr
    | _, _ => false
    end in
  let fix kvl (xs ys : list (pyval * pyval)) {struct xs} : bool :=
    match xs, ys with
    | [], [] => true
    | (k, v) :: xr, (k', v') :: yr => val_sim k k' && val_sim v v' && kvl xr yr
    | _, _ => false
    end in
  let fix skvl (xs ys : list (string * pyval)) {struct xs} : bool :=
    match xs, ys with
    | [], [] => true
    | (k, v) :: xr, (k', v') :: yr => String.eqb k k' && val_sim v v' && skvl xr yr
    | _, _ => false
    end in
  let fix sub (xs ys : list pyval) {struct xs} : bool :=
    match xs with
    | [] => true
    | x :: xr =>
        (fix mem (l : list pyval) : bool :=
           match l with
           | [] => false
           | y :: yr => (val_sim x y || (py_eq x y && kind_eqb (kind_of x) (kind_of y))) || mem yr
           end) ys && sub xr ys
    end in
  match a, b with
  | PList x, PList y => lst x y
  | PTuple x, PTuple y => lst x y
  | PSet x, PSet y => Nat.eqb (List.length x) (List.length y) && sub x y
  | PFrozen x, PFrozen y => Nat.eqb (List.length x) (List.length y) && sub x y
  | PDict x, PDict y => kvl x y
  | PInst c x, PInst c' y => Nat.eqb c c' && skvl x y
  | _, _ => val_eqb a b
  end.

Definition obs_sim (a b : obs) : bool :=
  match a, b with
  | OVal x, OVal y => val_sim x y
  | _, _ => obs_eqb a b
  end.
