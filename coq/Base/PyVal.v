(* Base/PyVal.v — the value universe of the model and the outcome type.
   Hand-written description of the Python values utype's behaviour is observed on.
   Everything here is plain data; no axioms. *)
From Coq Require Export ZArith NArith List String Bool Ascii.
Export ListNotations.
Open Scope Z_scope.

(* binary64 value: exact dyadic m * 2^e, or nan / +-inf.  -0.0 is not represented
   (generators never produce it; printers map it to Unmodelled). *)
Inductive flt := FNan | FInf (neg : bool) | FFin (m e : Z).

(* decimal.Decimal as Decimal.as_tuple(): sign, coefficient, exponent *)
Inductive dec := DNan | DInf (neg : bool) | DFin (neg : bool) (coeff : N) (exp : Z).

Inductive pyval :=
| PNone
| PBool (b : bool)
| PInt (z : Z)
| PFlt (f : flt)
| PDec (d : dec)
| PStr (s : string)
| PBytes (s : string)
| PList (xs : list pyval)
| PTuple (xs : list pyval)
| PSet (xs : list pyval)          (* canonical: sorted by the printer, no duplicates *)
| PFrozen (xs : list pyval)
| PDict (kvs : list (pyval * pyval))   (* insertion ordered *)
| PInst (c : nat) (kvs : list (string * pyval))   (* data-class instance: class id, data *)
| PEnumV (e : nat) (i : nat)      (* member i of enum class e *)
| PCls (c : nat)                  (* a class object *)
| PObj (tag : nat).               (* any other object: not sized, not iterable, == itself only *)

(* exception classes that matter to the properties *)
Inductive ecls :=
| XParse        (* utype.exc.ParseError and subclasses: the only class C04 allows *)
| XTypeError | XValueError | XIndexError | XKeyError | XAttributeError
| XOverflow | XArith (* decimal.InvalidOperation, ZeroDivisionError *) | XAssert | XOtherExc.

(* kinds of ParseError the properties distinguish *)
Inductive pkind :=
| KType | KConstraint (name : string) | KAbsence | KExceed | KTupleExceed | KAliasConflict
| KDepth | KParamsExceed | KParamsLack | KDependencies | KOneOf | KNegate | KCollected | KWrapped.

(* ex_sub: for a CollectedParseError, the (kind, item) of each collected error *)
Record exn := mkExn { ex_cls : ecls; ex_kind : pkind; ex_item : option pyval;
                      ex_sub : list (pkind * option pyval) }.

Definition parse_err (k : pkind) : exn := mkExn XParse k None [].
Definition parse_err_at (k : pkind) (item : pyval) : exn := mkExn XParse k (Some item) [].
Definition other_err (c : ecls) : exn := mkExn c KWrapped None [].
Definition is_parse_err (e : exn) : bool :=
  match ex_cls e with XParse => true | _ => false end.
(* `except (TypeError, ValueError)`: ParseError is both *)
Definition is_type_or_value_err (e : exn) : bool :=
  match ex_cls e with XParse | XTypeError | XValueError => true | _ => false end.

Inductive out (A : Type) :=
| Ok (a : A)
| Raise (e : exn)
| Diverge          (* the call never returns *)
| OutOfFuel        (* artefact of the model's fuel; excluded by every theorem *)
| Unmodelled.      (* the model does not describe this case; skipped and counted *)
Arguments Ok {A} a.
Arguments Raise {A} e.
Arguments Diverge {A}.
Arguments OutOfFuel {A}.
Arguments Unmodelled {A}.

Definition bind {A B} (x : out A) (f : A -> out B) : out B :=
  match x with
  | Ok a => f a
  | Raise e => Raise e
  | Diverge => Diverge
  | OutOfFuel => OutOfFuel
  | Unmodelled => Unmodelled
  end.
Notation "'let*' x ':=' e 'in' k" := (bind e (fun x => k))
  (at level 200, x pattern, e at level 100, k at level 200, right associativity).

Definition omap {A B} (f : A -> B) (x : out A) : out B := bind x (fun a => Ok (f a)).

(* `try: x except Exception as e: h e` *)
Definition try_catch {A} (x : out A) (h : exn -> out A) : out A :=
  match x with Raise e => h e | _ => x end.

Definition raise_type {A} : out A := Raise (other_err XTypeError).
Definition raise_value {A} : out A := Raise (other_err XValueError).

Definition is_ok {A} (x : out A) : bool := match x with Ok _ => true | _ => false end.
Definition is_raise {A} (x : out A) : bool := match x with Raise _ => true | _ => false end.

Fixpoint mapM {A B} (f : A -> out B) (xs : list A) : out (list B) :=
  match xs with
  | [] => Ok []
  | x :: r => let* y := f x in let* ys := mapM f r in Ok (y :: ys)
  end.

(* ---- structural equality on values (sets compared as sets) ---- *)
Definition flt_eqb (a b : flt) : bool :=
  match a, b with
  | FNan, FNan => true
  | FInf x, FInf y => Bool.eqb x y
  | FFin m e, FFin m' e' => (m =? m') && (e =? e')
  | _, _ => false
  end.
Definition dec_eqb (a b : dec) : bool :=
  match a, b with
  | DNan, DNan => true
  | DInf x, DInf y => Bool.eqb x y
  | DFin s c e, DFin s' c' e' => Bool.eqb s s' && N.eqb c c' && (e =? e')
  | _, _ => false
  end.

Fixpoint val_eqb (a b : pyval) {struct a} : bool :=
  let fix lst (xs ys : list pyval) {struct xs} : bool :=
    match xs, ys with
    | [], [] => true
    | x :: xr, y :: yr => val_eqb x y && lst xr yr
    | _, _ => false
    end in
  let fix kvl (xs ys : list (pyval * pyval)) {struct xs} : bool :=
    match xs, ys with
    | [], [] => true
    | (k, v) :: xr, (k', v') :: yr => val_eqb k k' && val_eqb v v' && kvl xr yr
    | _, _ => false
    end in
  let fix skvl (xs ys : list (string * pyval)) {struct xs} : bool :=
    match xs, ys with
    | [], [] => true
    | (k, v) :: xr, (k', v') :: yr => String.eqb k k' && val_eqb v v' && skvl xr yr
    | _, _ => false
    end in
  (* sets are unordered: every element of xs is structurally equal to some element of ys *)
  let fix sub (xs ys : list pyval) {struct xs} : bool :=
    match xs with
    | [] => true
    | x :: xr =>
        (fix mem (l : list pyval) : bool :=
           match l with [] => false | y :: yr => val_eqb x y || mem yr end) ys && sub xr ys
    end in
  match a, b with
  | PNone, PNone => true
  | PBool x, PBool y => Bool.eqb x y
  | PInt x, PInt y => x =? y
  | PFlt x, PFlt y => flt_eqb x y
  | PDec x, PDec y => dec_eqb x y
  | PStr x, PStr y => String.eqb x y
  | PBytes x, PBytes y => String.eqb x y
  | PList x, PList y => lst x y
  | PTuple x, PTuple y => lst x y
  | PSet x, PSet y => Nat.eqb (List.length x) (List.length y) && sub x y
  | PFrozen x, PFrozen y => Nat.eqb (List.length x) (List.length y) && sub x y
  | PDict x, PDict y => kvl x y
  | PInst c x, PInst c' y => Nat.eqb c c' && skvl x y
  | PEnumV e i, PEnumV e' i' => Nat.eqb e e' && Nat.eqb i i'
  | PCls c, PCls c' => Nat.eqb c c'
  | PObj t, PObj t' => Nat.eqb t t'
  | _, _ => false
  end.

Definition ecls_eqb (a b : ecls) : bool :=
  match a, b with
  | XParse, XParse | XTypeError, XTypeError | XValueError, XValueError
  | XIndexError, XIndexError | XKeyError, XKeyError | XAttributeError, XAttributeError
  | XOverflow, XOverflow | XArith, XArith | XAssert, XAssert | XOtherExc, XOtherExc => true
  | _, _ => false
  end.

(* canonical observation of an outcome, used by the correspondence check:
   the value, "ParseError", or the class of any other exception *)
Inductive obs := OVal (v : pyval) | OParse | OOther (c : ecls) | ODiverge | OSkip.
Definition observe (x : out pyval) : obs :=
  match x with
  | Ok v => OVal v
  | Raise e => match ex_cls e with XParse => OParse | c => OOther c end
  | Diverge => ODiverge
  | OutOfFuel | Unmodelled => OSkip
  end.
Definition obs_eqb (a b : obs) : bool :=
  match a, b with
  | OVal x, OVal y => val_eqb x y
  | OParse, OParse => true
  | OOther c, OOther c' => ecls_eqb c c'
  | ODiverge, ODiverge => true
  | OSkip, _ | _, OSkip => true     (* skipped cases never count as mismatches; they are counted *)
  | _, _ => false
  end.
Definition obs_is_skip (a : obs) : bool := match a with OSkip => true | _ => false end.

(* indices (as nat) of the cases whose model observation differs from the expected one *)
Fixpoint mismatches_from (i : nat) (got expected : list obs) : list nat :=
  match got, expected with
  | g :: gr, e :: er =>
      if obs_eqb g e then mismatches_from (S i) gr er else i :: mismatches_from (S i) gr er
  | [], [] => []
  | _, _ => [i]
  end.
Definition mismatches := mismatches_from 0.
Definition count_skips (got : list obs) : nat := List.length (filter obs_is_skip got).
