#!/venv/bin/python
"""tools/seedtest.py <seeded-id> <check-id>... [--seeds 1,2,3]: apply a seeded change to /repo, run the baseline tests, the demo and
the given checks, and undo it straight afterwards.  Prints one line per run.  Never leaves /repo modified."""
import subprocess, sys, os, json
args = sys.argv[1:]
seeds = [1, 2, 3]
if "--seeds" in args:
    i = args.index("--seeds"); seeds = [int(x) for x in args[i + 1].split(",")]; del args[i:i + 2]
sid, checks = args[0], args[1:]
d = "/verif/seeded/%s" % sid
env = dict(os.environ, PYTHONPATH="/repo", PYTHONHASHSEED="0")
def sh(cmd, **kw):
    return subprocess.run(cmd, shell=True, capture_output=True, text=True, env=env, **kw)
assert sh("git -C /repo status --porcelain").stdout.strip() == "", "/repo is not clean"
r = sh("git -C /repo apply %s/patch.diff" % d)
assert r.returncode == 0, r.stderr
try:
    t = sh("cd /repo && /venv/bin/python -m pytest -q -p no:cacheprovider --timeout=900 2>&1 | tail -1").stdout.strip()
    print("tests:", t)
    print("demo (changed tree): exit", sh("/venv/bin/python %s/demo.py" % d).returncode)
    for c in checks:
        for s in seeds:
            out = sh("cd /verif && VERIF_SEED=%d ./check %s --tier quick 2>&1 | grep -v '^KNOWN-FINDING\\|conda'" % (s, c)).stdout.strip().splitlines()
            viol = [l for l in out if l.startswith("VIOLATION")]
            print("%s seed=%d: %s%s" % (c, s, out[-1] if out else "?", ("  [%d VIOLATION lines%s]" % (len(viol), ", no-failing-input-found" if any("no-failing-input-found" in v for v in viol) else "")) if viol else ""))
finally:
    sh("git -C /repo checkout -- .")
print("demo (restored tree): exit", sh("/venv/bin/python %s/demo.py" % d).returncode)
print("repo clean:", sh("git -C /repo status --porcelain").stdout.strip() == "")
