#!/venv/bin/python
"""tools/seedround.py <PID> <worktree dir> [extra checks...]: install patch_1/2 + demo_1/2 of a seeding agent as the next free
/verif/seeded/<PID>-N, remove the worktree, and run seedtest on each (seeds 1,2).  Prints one summary line per seed."""
import sys, os, re, shutil, subprocess, glob
pid, wt = sys.argv[1], sys.argv[2]
checks = [pid] + [a for a in sys.argv[3:] if not a.startswith('--')]
existing = [int(re.search(r"-(\d+)$", d).group(1)) for d in glob.glob("/verif/seeded/%s-*" % pid)]
n = max(existing + [0])
made = []
if "--partial" not in sys.argv and not all(os.path.exists(os.path.join(wt, f)) and os.path.getsize(os.path.join(wt, f)) > 0
                                           for f in ("patch_1.diff", "demo_1.py", "patch_2.diff", "demo_2.py")):
    sys.exit("%s: the worktree %s does not hold both changes yet (the sub-agent may still be working): nothing done; "
             "pass --partial to install what is there" % (pid, wt))
for k in (1, 2):
    p, d = os.path.join(wt, "patch_%d.diff" % k), os.path.join(wt, "demo_%d.py" % k)
    if not (os.path.exists(p) and os.path.exists(d)) or os.path.getsize(p) == 0:
        print("%s: change %d missing" % (pid, k)); continue
    n += 1
    dst = "/verif/seeded/%s-%d" % (pid, n)
    os.makedirs(dst, exist_ok=True)
    shutil.copy(p, dst + "/patch.diff"); shutil.copy(d, dst + "/demo.py")
    made.append("%s-%d" % (pid, n))
subprocess.run("git -C /repo worktree remove --force %s; git -C /repo worktree prune" % wt, shell=True, capture_output=True)
for sid in made:
    r = subprocess.run(["/venv/bin/python", "/verif/tools/seedtest.py", sid] + checks + ["--seeds", "1,2"], capture_output=True, text=True)
    lines = [l for l in (r.stdout + r.stderr).splitlines() if "seed=" in l or l.startswith("tests:") or l.startswith("demo") or "Error" in l or "error" in l]
    ok = [l for l in lines if "seed=" in l]
    verdict = "CAUGHT" if ok and all("FAIL" in l for l in ok if l.startswith(pid)) else ("PARTIAL" if any("FAIL" in l for l in ok) else "MISSED")
    nofail = any("no-failing-input-found" in l for l in ok)
    print("%s %s%s | %s" % (sid, verdict, " (no-failing-input-found)" if nofail else "", " ; ".join(l.strip()[:110] for l in lines)))
