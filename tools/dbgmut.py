#!/venv/bin/python
"""tools/dbgmut.py: stdin lines dict(src=..., data=..., ops=[...]) -> implementation vs Model/Schema.v, step by step"""
import sys, re, warnings
sys.path.insert(0, "/verif")
warnings.simplefilter("ignore")
from harness import core, c07, dyn, decl, dcsuite, parsesuite
TRACE = """
Fixpoint trace (tr : options -> Z -> ty -> pyval -> M pyval) (C : cdecl) (o : options) (fl : sflags) (i : inst) (ops : list sop)
  : list (nat * sdata * list (string * option pyval)) :=
  match ops with
  | [] => []
  | op :: r => let '(i', e) := step tr C o fl i op in (okind e, i_dict i', attr_view C o i') :: trace tr C o fl i' r
  end.
Definition tr_case (k : mcase) :=
  let '(c, imm, ign, data, ops, obs) := k in
  match DD c with
  | None => []
  | Some C =>
      let o := nested_options C default_options in
      let tr := transform RE DD 60 in
      match in_fresh (parse_data tr C o 1 data) with
      | Ok values => let i0 := init_inst C o values in
                     (0%nat, i_dict i0, attr_view C o i0) :: trace tr C o {| sf_immutable := imm; sf_ign_del := ign |} i0 ops
      | _ => []
      end
  end.
"""
for line in sys.stdin:
    line = line.strip()
    if not line:
        continue
    c = eval(line, {"inf": float("inf"), "nan": float("nan")})
    name = dyn.fresh("Dbg")
    dyn.declare(re.sub(r"class \w+\(", "class %s(" % name, c["src"], 1))
    case = dict(cls=name, data=c["data"], ops=c["ops"])
    out = c07.run_impl(case)
    print("impl:")
    for st in out[1]:
        print("   ", st)
    world = decl.World()
    world.encoder = lambda: dcsuite.InstEncoder(classes=dict(world.classes), objects=world.objects)
    cls = dyn.get(name)
    cid = world.cid(cls); enc = world.encoder()
    ops = [op for op in c["ops"] if op[0] != "copy"]
    strs = set(); parsesuite.strings_in(c["data"], strs)
    for op in ops: parsesuite.strings_in(list(op[1:]), strs)
    data = "[%s]" % "; ".join("(%s, %s)" % (core.coq_str(k), enc.val(v)) for k, v in c["data"].items())
    opt = cls.__options__
    line = "(%d%%nat, %s, %s, %s, [%s], [])" % (cid, "true" if opt.immutable else "false", "true" if opt.ignore_delete_nonexistent else "false",
                                             data, "; ".join(c07.coq_op(enc, op) for op in ops))
    body = "Definition RE := %s.\nDefinition DD : decls := %s.\n%s\n%s\nEval vm_compute in (tr_case %s).\n" % (
        parsesuite.regex_oracle([("[0-9]+", s) for s in strs]), world.decls_term(), c07.PRELUDE, TRACE, line)
    rc, o = core.coq_eval("dbgmut", ["Parse", "Schema", "FieldSpec", "SchemaProofs"], body)
    print("model:", o[-3000:])
