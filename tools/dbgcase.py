#!/venv/bin/python
"""debug helper: print implementation and model outcome of parse-suite cases given as python literals on stdin"""
import sys, os
sys.path.insert(0, "/verif")
from decimal import Decimal
from harness import core, decl, parsesuite
import warnings; warnings.simplefilter("ignore")
for line in sys.stdin:
    line = line.strip()
    if not line: continue
    c = eval(line, {"Decimal": Decimal, "inf": float("inf"), "nan": float("nan")})
    o = parsesuite.run_impl(c)
    world = decl.World()
    txt = parsesuite.coq_case(world, c, o)
    body = "Definition RE := (re_std []).\n%s\nDefinition DD : decls := %s.\nEval vm_compute in (run_case DD %s).\n" % (
        parsesuite.PRELUDE % 40, world.decls_term(), txt)
    rc, out = core.coq_eval("dbg_%d" % os.getpid(), ["Parse"], body)
    print("IMPL :", o)
    print("MODEL:", out.strip()[-600:])
    try:
        import utype
        from utype.utils.transform import type_transform
        type_transform(c["value"], parsesuite.build(c["spec"]), utype.Options(**c["options"]))
    except Exception as e:
        print("EXC  :", type(e).__name__, str(e)[:300])
