#!/venv/bin/python
"""py2coq — fail-closed translator from a small subset of Python (the `ast` of selected
functions of /repo) to Gallina in the `out` monad over `pyval` (coq/Base).

Every construct outside the supported subset raises TranslationError: nothing is guessed.
The generated files coq/Gen/*.v are rewritten only when their text changes.

Usage: py2coq.py --repo /repo --out /verif/coq/Gen [--pins]
"""
import ast, sys, os, hashlib, argparse, json, textwrap


class TranslationError(Exception):
    def __init__(self, msg, node=None, fn=None):
        line = getattr(node, "lineno", "?")
        super().__init__("%s (function %s, line %s)" % (msg, fn, line))


KW = {"as", "at", "cofix", "else", "end", "exists", "fix", "for", "forall", "fun", "if", "in", "let",
      "match", "mod", "return", "then", "type", "using", "where", "with", "Set", "Prop", "Type"}


def vname(n):
    return "v_" + n


EXC = {"ValueError": "XValueError", "TypeError": "XTypeError", "IndexError": "XIndexError",
       "KeyError": "XKeyError", "AttributeError": "XAttributeError", "AssertionError": "XAssert"}

# isinstance(x, <name>) -> boolean primitive
ISINSTANCE = {"Decimal": "is_decimal", "EnumMeta": "is_enum_cls", "Enum": "is_enum_member",
              "str": "is_str", "int": "is_int", "float": "is_float", "dict": "is_dict", "list": "is_list",
              "bool": "is_bool", "type": "is_class"}

# pure unary builtins  name -> primitive (pyval -> pyval / bool)
# monadic builtins name -> primitive (args -> out pyval)
CALLS_M = {"str": ("py_str_v", 1), "len": ("py_len_v", 1), "Decimal": ("py_decimal", 1),
           "round": ("py_round", 2), "abs": ("py_abs", 1), "list": ("py_list", 1),
           "max": ("py_max2", 2), "min": ("py_min2", 2)}
CALLS_B = {"multi": ("multi", 1), "unprovided": ("is_unprovided", 1), "callable": ("is_callable", 1)}

BINOP = {ast.Mod: "py_mod", ast.FloorDiv: "py_floordiv", ast.Mult: "py_mul", ast.Add: "py_add",
         ast.Sub: "py_sub"}
CMPOP = {ast.Lt: "py_lt", ast.LtE: "py_le", ast.Gt: "py_gt", ast.GtE: "py_ge"}


class Fn:
    """Translate one FunctionDef."""

    def __init__(self, mod, node, coqname, params, selfcalls, consts):
        self.mod = mod
        self.node = node
        self.name = coqname
        self.params = params          # python parameter names that become pyval parameters
        self.selfcalls = selfcalls    # python method name -> (coq name, nargs)
        self.consts = consts          # module-level constants usable in expressions: name -> ast node
        self.fresh = 0
        self.loops = []               # emitted loop Fixpoints (text)
        self.nloops = 0

    def err(self, msg, node=None):
        raise TranslationError(msg, node, self.name)

    def tmp(self, hint="t"):
        self.fresh += 1
        return "%s%d" % (hint, self.fresh)

    # ---- expressions: return (pre, term, sort) with pre a list of (name, monadic term)
    def expr(self, e, env):
        if isinstance(e, ast.Constant):
            v = e.value
            if v is None:
                return [], "PNone", "V"
            if v is True or v is False:
                return [], "(PBool %s)" % ("true" if v else "false"), "V"
            if isinstance(v, int):
                return [], "(PInt (%d))" % v, "V"
            if isinstance(v, str):
                if any(ord(c) < 32 or ord(c) > 126 for c in v):
                    self.err("non-ASCII string constant", e)
                return [], '(PStr "%s")' % v.replace('"', '""'), "V"
            self.err("constant %r" % (v,), e)
        if isinstance(e, ast.Name):
            if e.id in env:
                return [], env[e.id], "V"
            if e.id in self.consts:
                return self.expr(self.consts[e.id], {})
            self.err("unknown name %s" % e.id, e)
        if isinstance(e, ast.Tuple):
            pre, ts = self.exprs(e.elts, env)
            return pre, "(PTuple [%s])" % "; ".join(ts), "V"
        if isinstance(e, ast.List):
            pre, ts = self.exprs(e.elts, env)
            return pre, "(PList [%s])" % "; ".join(ts), "V"
        if isinstance(e, ast.Set):
            pre, ts = self.exprs(e.elts, env)
            return pre, "(PSet [%s])" % "; ".join(ts), "V"
        if isinstance(e, ast.BinOp):
            if type(e.op) not in BINOP:
                self.err("binary operator %s" % type(e.op).__name__, e)
            pre, (a, b) = self.exprs([e.left, e.right], env)
            t = self.tmp()
            return pre + [(t, "%s %s %s" % (BINOP[type(e.op)], a, b))], t, "V"
        if isinstance(e, ast.UnaryOp):
            if isinstance(e.op, ast.Not):
                pre, b = self.cond(e.operand, env)
                return pre, "(negb %s)" % b, "B"
            if isinstance(e.op, ast.USub):
                pre, a, s = self.expr(e.operand, env)
                t = self.tmp()
                return pre + [(t, "py_neg %s" % self.asV(a, s, e))], t, "V"
            self.err("unary operator", e)
        if isinstance(e, ast.BoolOp):
            # only in boolean (condition) position: short-circuit
            pre, b = self.cond(e, env)
            return pre, b, "B"
        if isinstance(e, ast.Compare):
            return self.compare(e, env)
        if isinstance(e, ast.IfExp):
            pre, c = self.cond(e.test, env)
            pa, a, sa = self.expr(e.body, env)
            pb, b, sb = self.expr(e.orelse, env)
            t = self.tmp()
            ma = self.wrap(pa, "Ok %s" % self.asV(a, sa, e))
            mb = self.wrap(pb, "Ok %s" % self.asV(b, sb, e))
            return pre + [(t, "if %s then (%s) else (%s)" % (c, ma, mb))], t, "V"
        if isinstance(e, ast.Subscript):
            return self.subscript(e, env)
        if isinstance(e, ast.Call):
            return self.call(e, env)
        if isinstance(e, ast.Attribute):
            # value.value on an Enum member
            if e.attr == "value":
                pre, a, s = self.expr(e.value, env)
                t = self.tmp()
                return pre + [(t, "enum_value %s" % self.asV(a, s, e))], t, "V"
            self.err("attribute .%s" % e.attr, e)
        self.err("expression %s" % type(e).__name__, e)

    def exprs(self, es, env):
        pre, ts = [], []
        for x in es:
            p, t, s = self.expr(x, env)
            pre += p
            ts.append(self.asV(t, s, x))
        return pre, ts

    def asV(self, t, s, node):
        if s == "V":
            return t
        if s == "B":
            return "(PBool %s)" % t
        self.err("sort %s where a value is needed" % s, node)

    def asB(self, t, s):
        return t if s == "B" else "(truthy %s)" % t

    def wrap(self, pre, body):
        out = body
        for n, m in reversed(pre):
            out = "let* %s := %s in\n%s" % (n, m, out)
        return out

    def cond(self, e, env):
        """expression in boolean position -> (pre, bool term)"""
        if isinstance(e, ast.BoolOp):
            # a and b and c  /  a or b or c, short-circuit: later operands are only evaluated if needed
            isand = isinstance(e.op, ast.And)
            pre0, acc = self.cond(e.values[0], env)
            for nxt in e.values[1:]:
                p, b = self.cond(nxt, env)
                if not p:
                    acc = "(%s %s %s)" % (acc, "&&" if isand else "||", b)
                else:
                    t = self.tmp("b")
                    m = self.wrap(p, "Ok %s" % b)
                    if isand:
                        pre0 = pre0 + [(t, "if %s then (%s) else Ok false" % (acc, m))]
                    else:
                        pre0 = pre0 + [(t, "if %s then Ok true else (%s)" % (acc, m))]
                    acc = t
            return pre0, acc
        pre, t, s = self.expr(e, env)
        return pre, self.asB(t, s)

    def is_type_call(self, e):
        return isinstance(e, ast.Call) and isinstance(e.func, ast.Name) and e.func.id == "type" and len(e.args) == 1

    def compare(self, e, env):
        if len(e.ops) != 1:
            self.err("chained comparison", e)
        op, l, r = e.ops[0], e.left, e.comparators[0]
        # type(a) == / != type(b)
        if isinstance(op, (ast.Eq, ast.NotEq)) and self.is_type_call(l) and self.is_type_call(r):
            pre, (a, b) = self.exprs([l.args[0], r.args[0]], env)
            t = "(kind_eqb (kind_of %s) (kind_of %s))" % (a, b)
            return pre, t if isinstance(op, ast.Eq) else "(negb %s)" % t, "B"
        # {type(a), type(b)} in TYPE_EXACT_TOLERANCE
        if isinstance(op, (ast.In, ast.NotIn)) and isinstance(l, ast.Set) and len(l.elts) == 2 \
                and all(self.is_type_call(x) for x in l.elts) and isinstance(r, ast.Name) and r.id in self.consts:
            pre, (a, b) = self.exprs([l.elts[0].args[0], l.elts[1].args[0]], env)
            tab = self.kind_table(self.consts[r.id])
            t = "(kind_pair_in (kind_of %s) (kind_of %s) %s)" % (a, b, tab)
            return pre, t if isinstance(op, ast.In) else "(negb %s)" % t, "B"
        pre, (a, b) = self.exprs([l, r], env)
        if type(op) in CMPOP:
            t = self.tmp("b")
            return pre + [(t, "%s %s %s" % (CMPOP[type(op)], a, b))], t, "B"
        if isinstance(op, ast.Eq):
            return pre, "(py_eq %s %s)" % (a, b), "B"
        if isinstance(op, ast.NotEq):
            return pre, "(negb (py_eq %s %s))" % (a, b), "B"
        if isinstance(op, (ast.In, ast.NotIn)):
            t = self.tmp("b")
            pre = pre + [(t, "py_contains %s %s" % (b, a))]
            return pre, t if isinstance(op, ast.In) else "(negb %s)" % t, "B"
        if isinstance(op, (ast.Is, ast.IsNot)) and isinstance(r, ast.Constant) and r.value is None:
            t = "(is_none %s)" % a
            return pre, t if isinstance(op, ast.Is) else "(negb %s)" % t, "B"
        self.err("comparison %s" % type(op).__name__, e)

    def kind_table(self, node):
        """({int, float}, {int, Decimal}, (float, Decimal)): only *set* entries can equal a set"""
        KIND = {"int": "KInt", "float": "KFloat", "Decimal": "KDecimal", "str": "KStr", "bool": "KBool"}
        if not isinstance(node, ast.Tuple):
            self.err("tolerance table is not a tuple", node)
        out = []
        for el in node.elts:
            if isinstance(el, ast.Set) and len(el.elts) == 2 and all(isinstance(x, ast.Name) and x.id in KIND for x in el.elts):
                out.append("(%s, %s)" % (KIND[el.elts[0].id], KIND[el.elts[1].id]))
            elif isinstance(el, (ast.Tuple, ast.List)):
                continue      # a tuple/list never == a set
            else:
                self.err("tolerance table entry", el)
        return "[%s]" % "; ".join(out)

    def subscript(self, e, env):
        sl = e.slice
        # value.as_tuple()[1:]
        if isinstance(e.value, ast.Call) and isinstance(e.value.func, ast.Attribute) and e.value.func.attr == "as_tuple" \
                and isinstance(sl, ast.Slice) and isinstance(sl.lower, ast.Constant) and sl.lower.value == 1 \
                and sl.upper is None and sl.step is None and not e.value.args:
            pre, a, s = self.expr(e.value.func.value, env)
            t = self.tmp()
            return pre + [(t, "dec_tuple_tail %s" % self.asV(a, s, e))], t, "V"
        pre, a, s = self.expr(e.value, env)
        a = self.asV(a, s, e)
        if isinstance(sl, ast.Slice):
            if sl.lower is None and sl.upper is not None and sl.step is None:
                p2, b, s2 = self.expr(sl.upper, env)
                t = self.tmp()
                return pre + p2 + [(t, "py_slice_to_v %s %s" % (a, self.asV(b, s2, e)))], t, "V"
            self.err("slice form", e)
        p2, b, s2 = self.expr(sl, env)
        t = self.tmp()
        return pre + p2 + [(t, "py_index %s %s" % (a, self.asV(b, s2, e)))], t, "V"

    def call(self, e, env):
        f = e.func
        if e.keywords:
            self.err("keyword arguments", e)
        if isinstance(f, ast.Name):
            if f.id == "isinstance" and len(e.args) == 2:
                cls = e.args[1]
                pre, a, s = self.expr(e.args[0], env)
                a = self.asV(a, s, e)
                if isinstance(cls, ast.Name) and cls.id in ISINSTANCE:
                    return pre, "(%s %s)" % (ISINSTANCE[cls.id], a), "B"
                if isinstance(cls, ast.Tuple) and all(isinstance(x, ast.Name) and x.id in ISINSTANCE for x in cls.elts):
                    return pre, "(" + " || ".join("%s %s" % (ISINSTANCE[x.id], a) for x in cls.elts) + ")", "B"
                self.err("isinstance class", e)
            if f.id == "hasattr" and len(e.args) == 2 and isinstance(e.args[1], ast.Constant) and e.args[1].value == "__len__":
                pre, a, s = self.expr(e.args[0], env)
                return pre, "(has_len %s)" % self.asV(a, s, e), "B"
            if f.id in CALLS_M and len(e.args) == CALLS_M[f.id][1]:
                pre, ts = self.exprs(e.args, env)
                t = self.tmp()
                return pre + [(t, "%s %s" % (CALLS_M[f.id][0], " ".join(ts)))], t, "V"
            if f.id in CALLS_B and len(e.args) == CALLS_B[f.id][1]:
                pre, ts = self.exprs(e.args, env)
                return pre, "(%s %s)" % (CALLS_B[f.id][0], " ".join(ts)), "B"
            if f.id in env and len(e.args) == 1:
                # calling a value: only an Enum class call `lst(value)` is supported
                pre, ts = self.exprs([f] + e.args, env)
                t = self.tmp()
                return pre + [(t, "enum_call %s %s" % (ts[0], ts[1]))], t, "V"
            self.err("call to %s" % f.id, e)
        if isinstance(f, ast.Call) and self.is_type_call(f) and len(e.args) == 1:
            # type(value)(lst)
            pre, ts = self.exprs([f.args[0], e.args[0]], env)
            t = self.tmp()
            return pre + [(t, "rebuild_like_v %s %s" % (ts[0], ts[1]))], t, "V"
        if isinstance(f, ast.Attribute):
            if isinstance(f.value, ast.Name) and f.value.id in ("cls", "self") and f.attr in self.selfcalls:
                cn, n = self.selfcalls[f.attr]
                if len(e.args) != n:
                    self.err("arity of %s" % f.attr, e)
                pre, ts = self.exprs(e.args, env)
                t = self.tmp()
                return pre + [(t, "%s %s" % (cn, " ".join(ts)))], t, "V"
            if isinstance(f.value, ast.Name) and f.value.id == "re" and f.attr == "fullmatch" and len(e.args) == 2:
                pre, ts = self.exprs(e.args, env)
                t = self.tmp()
                return pre + [(t, "re_fullmatch_v re_fullmatch %s %s" % (ts[0], ts[1]))], t, "V"
            self.err("method call .%s" % f.attr, e)
        self.err("call form", e)

    # ---- statements.  k(env) gives the term for "what follows"; None = end of function.
    def block(self, stmts, env, k, loop=None):
        if not stmts:
            return k(env)
        s, rest = stmts[0], stmts[1:]

        def after(env2):
            return self.block(rest, env2, k, loop)

        if isinstance(s, ast.Expr) and isinstance(s.value, ast.Constant) and isinstance(s.value.value, str):
            return after(env)     # docstring
        if isinstance(s, ast.Pass):
            return after(env)
        if isinstance(s, ast.Return):
            if s.value is None:
                return "Ok PNone"
            pre, t, so = self.expr(s.value, env)
            return self.wrap(pre, "Ok %s" % self.asV(t, so, s))
        if isinstance(s, ast.Raise):
            return self.raise_(s)
        if isinstance(s, ast.Assign):
            if len(s.targets) != 1:
                self.err("multiple assignment targets", s)
            return self.assign(s.targets[0], s.value, env, after, s)
        if isinstance(s, ast.AugAssign) and isinstance(s.target, ast.Name) and type(s.op) in BINOP:
            v = ast.BinOp(left=ast.Name(id=s.target.id, ctx=ast.Load()), op=s.op, right=s.value)
            ast.copy_location(v, s)
            return self.assign(s.target, v, env, after, s)
        if isinstance(s, ast.If) and rest and not has_transfer(s.body) and not has_transfer(s.orelse):
            # both branches fall through: join on the variables they assign instead of duplicating `rest`
            names = sorted(assigned_names(s.body) | assigned_names(s.orelse))
            if names and all(n in env or (n in assigned_first(s.body) and s.orelse and n in assigned_first(s.orelse))
                             for n in names):
                pre, c = self.cond(s.test, env)
                tup = lambda e: "Ok (%s)" % ", ".join(e[n] for n in names) if len(names) > 1 else "Ok %s" % e[names[0]]
                a = self.block(s.body, env, tup, loop)
                b = self.block(s.orelse, env, tup, loop) if s.orelse else tup(env)
                env2 = dict(env)
                for n in names:
                    env2[n] = vname(n)
                pat = "(%s)" % ", ".join(vname(n) for n in names) if len(names) > 1 else vname(names[0])
                return self.wrap(pre, "let* %s :=\n  (if %s then\n%s\n  else\n%s) in\n%s"
                                 % (pat, c, indent(a, 4), indent(b, 4), after(env2)))
        if isinstance(s, ast.If):
            pre, c = self.cond(s.test, env)
            a = self.block(s.body, env, after, loop)
            b = self.block(s.orelse, env, after, loop) if s.orelse else after(env)
            return self.wrap(pre, "if %s then\n%s\nelse\n%s" % (c, indent(a), indent(b)))
        if isinstance(s, ast.Expr) and isinstance(s.value, ast.Call):
            c = s.value
            if isinstance(c.func, ast.Attribute) and c.func.attr == "append" and isinstance(c.func.value, ast.Name) \
                    and c.func.value.id in env and len(c.args) == 1:
                pre, t, so = self.expr(c.args[0], env)
                n = c.func.value.id
                new = vname(n)
                env2 = dict(env)
                env2[n] = new
                return self.wrap(pre + [(new, "py_append %s %s" % (env[n], self.asV(t, so, s)))], after(env2))
            self.err("expression statement", s)
        if isinstance(s, ast.Continue):
            if loop is None:
                self.err("continue outside loop", s)
            return loop["continue"](env)
        if isinstance(s, ast.Break):
            if loop is None:
                self.err("break outside loop", s)
            return loop["break"](env)
        if isinstance(s, ast.For):
            return self.for_(s, env, after)
        self.err("statement %s" % type(s).__name__, s)

    def raise_(self, s):
        e = s.exc
        if isinstance(e, ast.Call):
            e = e.func
        if isinstance(e, ast.Name) and e.id in EXC:
            return "Raise (other_err %s)" % EXC[e.id]
        self.err("raise form", s)

    def assign(self, target, value, env, after, s):
        pre, t, so = self.expr(value, env)
        t = self.asV(t, so, s)
        if isinstance(target, ast.Name):
            env2 = dict(env)
            env2[target.id] = vname(target.id)
            return self.wrap(pre, "let %s := %s in\n%s" % (vname(target.id), t, after(env2)))
        if isinstance(target, ast.Tuple) and all(isinstance(x, ast.Name) for x in target.elts):
            n = len(target.elts)
            if n != 2:
                self.err("unpacking arity %d" % n, s)
            env2 = dict(env)
            for x in target.elts:
                env2[x.id] = vname(x.id)
            names = ", ".join(vname(x.id) for x in target.elts)
            return self.wrap(pre, "let* (%s) := unpack2 %s in\n%s" % (names, t, after(env2)))
        self.err("assignment target", s)

    def for_(self, s, env, after):
        if s.orelse:
            self.err("for-else", s)
        if not isinstance(s.target, ast.Name):
            self.err("for target", s)
        assigned = sorted(assigned_names(s.body) - {s.target.id})
        state = [n for n in assigned if n in env]
        fresh_locals = [n for n in assigned if n not in env]
        # locals first assigned inside the body do not survive an iteration in the supported subset
        used = names_used(s.body)
        caps = sorted(n for n in used if n in env and n not in state and n != s.target.id)
        self.nloops += 1
        lname = "%s_loop%d" % (self.name, self.nloops)
        kparams = " ".join("(%s : pyval)" % vname(n) for n in state)
        ktype = " -> ".join(["pyval"] * len(state) + ["out pyval"])
        benv = {n: vname(n) for n in caps + state}
        benv[s.target.id] = vname(s.target.id)
        stargs = lambda e: " ".join(e[n] for n in state)
        capargs = " ".join(vname(n) for n in caps)

        def cont(e):
            return ("%s %s K %s rest" % (lname, capargs, stargs(e))).replace("  ", " ")

        def brk(e):
            return ("K %s" % stargs(e)).strip()
        body = self.block(s.body, benv, cont, dict([("continue", cont), ("break", brk)]))
        text = ("Fixpoint %s %s (K : %s) %s (xs : list pyval) {struct xs} : out pyval :=\n"
                "  match xs with\n  | [] => %s\n  | %s :: rest =>\n%s\n  end.\n"
                % (lname, " ".join("(%s : pyval)" % vname(n) for n in caps), ktype, kparams,
                   ("K %s" % " ".join(vname(n) for n in state)).strip(), vname(s.target.id), indent(body, 6)))
        self.loops.append(text)
        pre, it, so = self.expr(s.iter, env)
        xs = self.tmp("xs")

        def kfun():
            env2 = dict(env)
            for n in state:
                env2[n] = vname(n)
            inner = after(env2)
            if state:
                return "(fun %s =>\n%s)" % (" ".join(vname(n) for n in state), indent(inner))
            return "(%s)" % inner
        call = "%s %s %s %s %s" % (lname, " ".join(env[n] for n in caps), kfun(), " ".join(env[n] for n in state), xs)
        return self.wrap(pre + [(xs, "py_iter %s" % self.asV(it, so, s))], call)

    def translate(self):
        env = {p: vname(p) for p in self.params}
        body = self.block(self.node.body, env, lambda e: "Ok PNone")
        sig = " ".join("(%s : pyval)" % vname(p) for p in self.params)
        text = "".join(self.loops)
        text += "Definition %s %s : out pyval :=\n%s.\n" % (self.name, sig, indent(body))
        return text


def indent(s, n=2):
    return "\n".join(" " * n + l for l in s.splitlines())


def assigned_names(stmts):
    out = set()
    for st in stmts:
        for n in ast.walk(st):
            if isinstance(n, ast.Assign):
                for t in n.targets:
                    for x in ast.walk(t):
                        if isinstance(x, ast.Name):
                            out.add(x.id)
            elif isinstance(n, ast.AugAssign) and isinstance(n.target, ast.Name):
                out.add(n.target.id)
            elif isinstance(n, ast.Expr) and isinstance(n.value, ast.Call) and isinstance(n.value.func, ast.Attribute) \
                    and n.value.func.attr == "append" and isinstance(n.value.func.value, ast.Name):
                out.add(n.value.func.value.id)
            elif isinstance(n, ast.For) and isinstance(n.target, ast.Name):
                out.add(n.target.id)
    return out


def has_transfer(stmts):
    for st in stmts:
        for n in ast.walk(st):
            if isinstance(n, (ast.Return, ast.Raise, ast.Break, ast.Continue)):
                return True
    return False


def assigned_first(stmts):
    """names certainly assigned by straight-line top-level assignments of the block"""
    out = set()
    for st in stmts:
        if isinstance(st, ast.Assign):
            for t in st.targets:
                for x in ast.walk(t):
                    if isinstance(x, ast.Name):
                        out.add(x.id)
    return out


def names_used(stmts):
    out = set()
    for st in stmts:
        for n in ast.walk(st):
            if isinstance(n, ast.Name):
                out.add(n.id)
    return out


def find_func(tree, clsname, fname):
    body = tree.body
    if clsname:
        for n in body:
            if isinstance(n, ast.ClassDef) and n.name == clsname:
                body = n.body
                break
        else:
            raise TranslationError("class %s not found" % clsname)
    for n in body:
        if isinstance(n, ast.FunctionDef) and n.name == fname:
            return n
    raise TranslationError("function %s.%s not found" % (clsname, fname))


def module_consts(tree):
    out = {}
    for n in tree.body:
        if isinstance(n, ast.Assign) and len(n.targets) == 1 and isinstance(n.targets[0], ast.Name):
            out[n.targets[0].id] = n.value
    return out


def norm_hash(node):
    """hash of the AST without docstrings/positions (model pins)"""
    return hashlib.sha1(ast.dump(node, annotate_fields=False, include_attributes=False).encode()).hexdigest()[:16]


# ---------------------------------------------------------------- what is translated
CONSTRAINT_FUNCS = [
    # python name, parameters (after cls)
    ("_parse_decimal", ["value"]),
    ("decimal_places", ["value", "d"]), ("lax_decimal_places", ["value", "r"]),
    ("multiple_of", ["value", "of"]), ("lax_multiple_of", ["value", "of"]),
    ("max_digits", ["value", "max_digits"]), ("lax_max_digits", ["value", "max_digits"]),
    ("const", ["value", "v"]), ("lax_const", ["value", "v"]),
    ("enum", ["value", "lst"]), ("lax_enum", ["value", "lst"]),
    ("regex", ["value", "r"]),
    ("gt", ["value", "gt"]), ("ge", ["value", "ge"]), ("lax_ge", ["value", "ge"]),
    ("lt", ["value", "lt"]), ("le", ["value", "le"]), ("lax_le", ["value", "le"]),
    ("length", ["value", "lg"]), ("lax_length", ["value", "lg"]),
    ("max_length", ["value", "m"]), ("lax_max_length", ["value", "m"]),
    ("min_length", ["value", "m"]),
    ("unique_items", ["value", "u"]), ("lax_unique_items", ["value", "u"]),
]


def gen_constraints(repo):
    path = os.path.join(repo, "utype/parser/rule.py")
    src = open(path).read()
    tree = ast.parse(src)
    consts = module_consts(tree)
    selfcalls = {"_parse_decimal": ("c__parse_decimal", 1)}
    out = ["(* GENERATED by tools/py2coq.py from utype/parser/rule.py class Constraints — do not edit. *)",
           "From UV Require Import PyVal PyPrim PyOps.", "Open Scope string_scope.", "Open Scope list_scope.",
           "Open Scope Z_scope.", "", "Section Constraints.",
           "(* re.fullmatch is CPython's; the validators are parametric in it *)",
           "Variable re_fullmatch : string -> string -> bool.", ""]
    names = []
    for fname, params in CONSTRAINT_FUNCS:
        node = find_func(tree, "Constraints", fname)
        got = [a.arg for a in node.args.args]
        if got != ["cls"] + params:
            raise TranslationError("signature of Constraints.%s changed: %s" % (fname, got))
        if node.args.vararg or node.args.kwarg or node.args.kwonlyargs or node.args.defaults:
            raise TranslationError("signature of Constraints.%s has defaults/varargs" % fname)
        if not any(isinstance(d, ast.Name) and d.id == "classmethod" for d in node.decorator_list):
            raise TranslationError("Constraints.%s is no longer a classmethod" % fname)
        fn = Fn("rule", node, "c_" + fname, params, selfcalls, consts)
        text = fn.translate()
        seg = ast.get_source_segment(src, node) or ""
        out.append("(* rule.py lines %d-%d, sha1 %s *)" % (node.lineno, node.end_lineno,
                                                          hashlib.sha1(seg.encode()).hexdigest()[:12]))
        out.append(text)
        names.append("c_" + fname)
    out.append("End Constraints.")
    # the order of validators (Rule.__constraints__) is part of the semantics
    rule = [n for n in tree.body if isinstance(n, ast.ClassDef) and n.name == "Rule"][0]
    order = None
    for n in rule.body:
        if isinstance(n, ast.AnnAssign) and isinstance(n.target, ast.Name) and n.target.id == "__constraints__":
            order = [x.value for x in n.value.elts]
    if order is None:
        raise TranslationError("Rule.__constraints__ not found")
    out.append("Definition constraint_order : list string := [%s]." % "; ".join('"%s"' % x for x in order))
    return "\n".join(out) + "\n"


GENERATORS = {"Constraints.v": gen_constraints}


def main():
    ap = argparse.ArgumentParser()
    ap.add_argument("--repo", default="/repo")
    ap.add_argument("--out", required=True)
    a = ap.parse_args()
    os.makedirs(a.out, exist_ok=True)
    rc = 0
    for fname, gen in GENERATORS.items():
        p = os.path.join(a.out, fname)
        try:
            text = gen(a.repo)
        except (TranslationError, SyntaxError, OSError) as e:
            print("TRANSLATION FAILED for %s: %s" % (fname, e))
            # fail closed: leave a file that cannot compile, so dependants cannot be built from stale text
            text = "(* translation failed: %s *)\nTranslation_failed.\n" % str(e).replace("*)", "* )")
            rc = 1
        old = open(p).read() if os.path.exists(p) else None
        if old != text:
            open(p, "w").write(text)
            print("wrote", p)
    return rc


if __name__ == "__main__":
    sys.exit(main())
